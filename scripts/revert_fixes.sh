#!/bin/bash
# Validation aid (never registered): for every "fixed" entry of known_findings.json, take a scratch worktree of /repo,
# undo that one fix commit (reverse patch) and run the quick check of the property the entry names: the defect is back,
# so the check has to print a VIOLATION ("a fixed entry suppresses nothing"). Prints one line per entry.
cd /verif
SNAP=$(mktemp /tmp/jsverif-snap.XXXXXX); cp "${JSVERIF_BIN:-/verif/bin/jsverif}" "$SNAP"; chmod +x "$SNAP"; export JSVERIF_BIN="$SNAP"; trap 'rm -f "$SNAP"' EXIT
one() {
  prop="$1"; commit="$2"
  wt=$(mktemp -d /tmp/rv-wt.XXXXXX); rmdir "$wt"; vd=$(mktemp -d /tmp/rv-vd.XXXXXX)
  git -C /repo worktree add -q --detach "$wt" HEAD || exit 2
  if ! git -C /repo show "$commit" -- . ':!*_test.go' ':!testdata' | git -C "$wt" apply -R 2>/dev/null; then
    echo "$prop $commit REVERSE-PATCH-DOES-NOT-APPLY (a later fix rewrote the same lines)"; git -C /repo worktree remove --force "$wt"; rm -rf "$vd"; return
  fi
  if ! (cd "$wt" && GOFLAGS=-mod=mod GOPROXY=off GOSUMDB=off GOTOOLCHAIN=local go build ./... >/dev/null 2>&1); then
    echo "$prop $commit REVERTED-TREE-DOES-NOT-BUILD"; git -C /repo worktree remove --force "$wt"; rm -rf "$vd"; return
  fi
  ln -s /verif/known_findings.json "$vd/known_findings.json"; ln -s /verif/tools "$vd/tools"
  n=$(VERIF_REPO="$wt" VERIF_DIR="$vd" timeout 900 $JSVERIF_BIN check $prop quick 2>&1 | grep -a -c "^VIOLATION")
  rules=$(VERIF_REPO="$wt" VERIF_DIR="$vd" timeout 900 $JSVERIF_BIN check $prop quick 2>&1 | grep -a "^VIOLATION" | sed -E "s/.* rule=([^ ]+) .*/\1/" | sort -u | tr '\n' ' ')
  git -C /repo worktree remove --force "$wt"; rm -rf "$vd"
  if [ "$n" -gt 0 ]; then echo "$prop $commit REPORTED-AGAIN ($rules)"; else echo "$prop $commit NOT-REPORTED"; fi
}
export -f one
python3 - <<'PY' | xargs -P 6 -L 1 bash -c 'one $0 $1' | sort
import json
seen=set()
for e in json.load(open('/verif/known_findings.json'))['findings']:
    if e.get('kind')=='fixed' and e.get('commit'):
        k=(e['property'],e['commit'])
        if k not in seen:
            seen.add(k); print(e['property'], e['commit'])
PY
