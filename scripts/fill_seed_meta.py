#!/usr/bin/env python3
"""Reads seeded/*/.matrix.txt (written by scripts/seed_matrix.sh) and records, per seeded change, which checks and rules
report it: updates meta.json and writes seeded/MATRIX.md."""
import json, glob, os, collections
rows = []
for d in sorted(glob.glob('/verif/seeded/C*-*m*')):
    mt = os.path.join(d, '.matrix.txt')
    if not os.path.exists(mt):
        continue
    by = collections.OrderedDict()
    for line in open(mt):
        p, rule = line.split()[:2]
        by.setdefault(p, [])
        if rule not in by[p]:
            by[p].append(rule)
    meta = json.load(open(os.path.join(d, 'meta.json')))
    meta['detected_by'] = [{"check": p, "rules": rs} for p, rs in by.items()]
    own = meta['breaks_property']
    if meta.get('no_longer_demonstrable'):
        meta['detected_by'] = [{"check": p, "rules": rs} for p, rs in by.items()]
        json.dump(meta, open(os.path.join(d, 'meta.json'), 'w'), indent=1)
        continue
    meta['detection_note'] = ("reported by the check of its own property" if own in by else
                              ("reported only by checks of other properties" if by else "NOT detected by any check"))
    meta['ran'] = "scripts/seed_matrix.sh: patch applied to a scratch worktree of /repo (HEAD with the fix: commits), all 19 quick checks run against it with VERIF_REPO, worktree removed"
    json.dump(meta, open(os.path.join(d, 'meta.json'), 'w'), indent=1)
    rows.append((os.path.basename(d), own, by))
with open('/verif/seeded/MATRIX.md', 'w') as f:
    f.write("# Seeded changes x checks\n\nEach row: a change written by an independent sub-agent (given only the property text), confirmed to compile, pass the\nexisting suite and fail its demonstration. Columns: which checks report a VIOLATION on the patched tree (rule ids).\n\n")
    f.write("| change | breaks | own check | reported by |\n|---|---|---|---|\n")
    for name, own, by in rows:
        f.write("| %s | %s | %s | %s |\n" % (name, own, "yes" if own in by else "NO", "; ".join("%s (%s)" % (p, ", ".join(r)) for p, r in by.items()) or "-"))
    f.write("\n%d changes, %d reported by at least one check, %d by the check of their own property.\n" % (len(rows), sum(1 for r in rows if r[2]), sum(1 for r in rows if r[1] in r[2])))
print(open('/verif/seeded/MATRIX.md').read()[-200:])
