#!/bin/bash
# Validation aid (never registered): applies each behaviour-preserving refactoring under $1 (dirs with patch.diff) to a
# scratch worktree of /repo and runs all 19 quick checks (or those named in CHECKS); every VIOLATION line printed is a false alarm to repair.
cd /verif
# a private copy of the tool: the matrix takes long and bin/jsverif may be rebuilt meanwhile
SNAP=$(mktemp /tmp/jsverif-snap.XXXXXX); cp "${JSVERIF_BIN:-/verif/bin/jsverif}" "$SNAP"; chmod +x "$SNAP"; export JSVERIF_BIN="$SNAP"; trap 'rm -f "$SNAP"' EXIT
one() {
  d="$1"; id=$(echo "$d" | sed -E 's#.*/([A-Z]+)[/-](r[0-9]+)$#\1-\2#')
  wt=$(mktemp -d /tmp/rm-wt.XXXXXX); rmdir "$wt"; vd=$(mktemp -d /tmp/rm-vd.XXXXXX)
  git -C /repo worktree add -q --detach "$wt" HEAD || exit 2
  { git -C "$wt" apply "$(realpath "$d/patch.diff")" 2>/dev/null || git -C "$wt" apply --3way "$(realpath "$d/patch.diff")" 2>/dev/null; } || { echo "$id APPLY-FAILED"; git -C /repo worktree remove --force "$wt"; exit 0; }
  (cd "$wt" && GOFLAGS=-mod=mod GOPROXY=off GOSUMDB=off GOTOOLCHAIN=local go build ./... >/dev/null 2>&1) || { echo "$id MERGE-BROKEN (the patch no longer builds on the moved tree)"; git -C /repo worktree remove --force "$wt"; exit 0; }
  ln -s /verif/known_findings.json "$vd/known_findings.json"; ln -s /verif/tools "$vd/tools"
  out="$d/.alarms.txt"; : > "$out"
  for p in ${CHECKS:-C01 C02 C03 C04 C05 C06 C07 C08 C09 C10 C11 C12 C13 C14 C15 C16 C17 C18 C19}; do
    VERIF_REPO="$wt" VERIF_DIR="$vd" timeout 600 ${JSVERIF_BIN:-/verif/bin/jsverif} check $p ${TIER:-quick} 2>&1 | grep -a "^VIOLATION" | cut -c1-500 >> "$out"
  done
  git -C /repo worktree remove --force "$wt"; rm -rf "$vd"
  echo "$id alarms=$(wc -l < "$out")"
}
export -f one
(ls -d "$1"/*/r* 2>/dev/null; ls -d "$1"/*-r* 2>/dev/null) | xargs -P ${PAR:-7} -I{} bash -c 'one {}' | sort
