#!/bin/bash
# like seed_matrix.sh for an arbitrary directory of seed dirs ($1), tier from TIER
cd /verif
# a private copy of the tool: the matrix takes long and bin/jsverif may be rebuilt meanwhile
SNAP=$(mktemp /tmp/jsverif-snap.XXXXXX); cp "${JSVERIF_BIN:-/verif/bin/jsverif}" "$SNAP"; chmod +x "$SNAP"; export JSVERIF_BIN="$SNAP"; trap 'rm -f "$SNAP"' EXIT
one() {
  d="$1"; id=$(basename "$d")
  wt=$(mktemp -d /tmp/sm-wt.XXXXXX); rmdir "$wt"; vd=$(mktemp -d /tmp/sm-vd.XXXXXX)
  git -C /repo worktree add -q --detach "$wt" "${SEED_BASE:-HEAD}" || exit 2
  { git -C "$wt" apply "$(realpath "$d/patch.diff")" 2>/dev/null || git -C "$wt" apply --3way "$(realpath "$d/patch.diff")" 2>/dev/null; } || { echo "$id APPLY-FAILED"; git -C /repo worktree remove --force "$wt"; exit 0; }
  (cd "$wt" && GOFLAGS=-mod=mod GOPROXY=off GOSUMDB=off GOTOOLCHAIN=local go build ./... >/dev/null 2>&1) || { echo "$id MERGE-BROKEN (the patch no longer builds on the moved tree)"; git -C /repo worktree remove --force "$wt"; exit 0; }
  ln -s "${VERIF_KF:-/verif/known_findings.json}" "$vd/known_findings.json"; ln -s "${VERIF_TOOLS:-/verif/tools}" "$vd/tools"
  out="$d/.matrix.txt"; : > "$out"
  for p in ${CHECKS:-C01 C02 C03 C04 C05 C06 C07 C08 C09 C10 C11 C12 C13 C14 C15 C16 C17 C18 C19}; do
    VERIF_REPO="$wt" VERIF_DIR="$vd" timeout 900 ${JSVERIF_BIN:-/verif/bin/jsverif} check $p ${TIER:-quick} 2>&1 | grep -a "^VIOLATION" | sed -E "s/^VIOLATION property=([A-Z0-9]+) replay=[^ ]+ rule=([^ ]+) .*/\1 \2/" | sort -u >> "$out"
  done
  git -C /repo worktree remove --force "$wt"; rm -rf "$vd"
  echo "$id $(awk '{print $1}' "$out" | sort -u | tr '\n' ' ')"
}
export -f one
ls -d "$1"/C* | xargs -P ${PAR:-5} -I{} bash -c 'one {}' | sort
