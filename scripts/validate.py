#!/usr/bin/env python3
"""Validates MANIFEST.json and every evidence file against the harness schemas (run with python3-vt)."""
import json, sys, glob
from jsonschema import Draft202012Validator as V
m = json.load(open('/verif/MANIFEST.json'))
errs = list(V(json.load(open('/root/.vp/MANIFEST.schema.json'))).iter_errors(m))
for e in errs: print("MANIFEST:", e.message)
es = json.load(open('/root/.vp/EVIDENCE.schema.json'))
for c in m['checks']:
    try:
        ev = json.load(open(c['evidence_file']))
    except Exception as x:
        print(c['property_id'], "evidence missing:", x); errs.append(x); continue
    ee = list(V(es).iter_errors(ev))
    for e in ee: print(c['property_id'], "EVIDENCE:", e.message[:200])
    errs += ee
    if ev['level'] != c['level_claimed']['category']:
        print(c['property_id'], "level mismatch", ev['level'], c['level_claimed']['category']); errs.append(1)
    print(c['property_id'], ev['level'], ev['tier'], "obl", ev['coverage'].get('obligations'), "distinct", ev['coverage'].get('distinct_nontrivial'), "viol", ev.get('violations'), "wall %.1f" % ev['wall_s'])
sys.exit(1 if errs else 0)
