#!/bin/bash
# usage: confirm_seed.sh <dir with patch.diff demo_test.go>  -> prints one line: <dir> clean=PASS/FAIL suite=PASS/FAIL demo_with_patch=FAIL/PASS
# Confirms a seeded change in a scratch worktree of /repo (removed afterwards).
export GOFLAGS=-mod=mod GOPROXY=off GOSUMDB=off GOTOOLCHAIN=local
d="$1"; race="${2:-}"
wt=$(mktemp -d /tmp/cs-wt.XXXXXX); rmdir "$wt"
git -C /repo worktree add -q --detach "$wt" "${SEED_BASE:-HEAD}" || exit 2
mkdir -p "$wt/seeddemo"; cp "$d/demo_test.go" "$wt/seeddemo/demo_test.go"
clean=FAIL; (cd "$wt" && go test $race -vet=off -count=1 ./seeddemo/ >"$d/.clean.log" 2>&1) && clean=PASS
apply=OK; git -C "$wt" apply "$d/patch.diff" 2>"$d/.apply.log" || apply=FAIL
suite=FAIL; (cd "$wt" && go build ./... && go test -vet=off -count=1 $(go list ./... | grep -v seeddemo) >"$d/.suite.log" 2>&1) && suite=PASS
demo=PASS; (cd "$wt" && go test $race -vet=off -count=1 ./seeddemo/ >"$d/.demo.log" 2>&1) || demo=FAIL
git -C /repo worktree remove --force "$wt"
echo "$d clean_demo=$clean apply=$apply suite_with_patch=$suite demo_with_patch=$demo"
