#!/bin/bash
# usage: try_patch.sh <patch.diff|commit-ish|-> <prop> [<prop>...]   [TIER=quick]
# Validation helper (never registered in MANIFEST): applies a patch to a scratch
# worktree of /repo, runs the given property checks against it (VERIF_REPO), prints
# the verdict lines, removes the worktree. Evidence goes to a scratch dir.
set -u
src="$1"; shift
wt=$(mktemp -d /tmp/vtry-wt.XXXXXX); rmdir "$wt"
vd=$(mktemp -d /tmp/vtry-vd.XXXXXX)
if [ -f "$src" ]; then
  git -C /repo worktree add -q --detach "$wt" HEAD || exit 2
  git -C "$wt" apply "$(realpath "$src")" || { echo "patch does not apply"; git -C /repo worktree remove --force "$wt"; exit 2; }
elif [ "$src" = "-" ]; then
  git -C /repo worktree add -q --detach "$wt" HEAD || exit 2
else
  git -C /repo worktree add -q --detach "$wt" "$src" || exit 2
fi
ln -s /verif/known_findings.json "$vd/known_findings.json"; ln -s /verif/tools "$vd/tools"
for p in "$@"; do
  VERIF_REPO="$wt" VERIF_DIR="$vd" /verif/bin/jsverif check "$p" "${TIER:-quick}" 2>&1 | grep -a "VIOLATION\|KNOWN-FINDING\|obligations" | cut -c1-${CUT:-420}
done
git -C /repo worktree remove --force "$wt"; rm -rf "$vd"
