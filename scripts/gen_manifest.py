#!/usr/bin/env python3
"""Generates /verif/MANIFEST.json from the table below (edit here, then run)."""
import json, os, sys

ROOT = os.path.dirname(os.path.dirname(os.path.abspath(__file__)))

TB = ("Trusted base: Go front end + go/types, golang.org/x/tools v0.29.0 (go/packages, go/ssa, VTA call graph); "
      "jsight-schema-core@v0.2.0 behaving as read; reference tables under tools/reference. ")

CHECKS = {
 "C13": dict(
   engine="E1 scanner automaton + E2 directive tables",
   category="model_checking",
   text="Exhaustive over the 256-byte alphabet and unbounded length: the keyword automaton is extracted from the source of the step functions by partial evaluation and compared, as a language, with the directive table; terminator set, error position, table agreement decided on the same model. This is the right level because the keyword trie is finite and fully visible in the code; 0 traces are validated against the running implementation by construction of a static technique.",
   design="DESIGN.md §5 C13",
   note=TB + "Assumes Next() is the only driver of step functions (checked: NUL guard present, else violation). Does not cover what core does with an accepted keyword beyond table agreement.",
   technique="abstract interpretation of step functions per byte; language equality between extracted trie and extracted directive table"),
 "C12": dict(
   engine="E1 scanner automaton (pushdown exploration)",
   category="other",
   text="Well-formedness of the lexeme stream (bracketing, extent >= -1, order, positions) decided for all byte strings on a k-bounded pushdown abstraction of the extracted automaton that over-approximates the scanner (data-dependent branches free). Byte-for-byte equality with the rendered document is a runtime round trip and is not claimed.",
   design="DESIGN.md §5 C12",
   note=TB + "Schema/enum body extents are delegated to the dependency's Len() (trusted <= remaining input).",
   technique="reachability on a pushdown system extracted from source; typestate of lexeme events"),
 "C08": dict(
   engine="E1 scanner automaton",
   category="other",
   text="Necessary conditions of layout independence that are visible in the automaton: LF/CR and SP/TAB symmetry per state, comment push/pop/re-feed discipline, blank lines event-free and idempotent, both annotation forms available and '*/' always closing. Catalog equality under rewrites is behavioural and not claimed.",
   design="DESIGN.md §5 C08",
   note=TB + "Description de-indentation and annotation whitespace normalisation are checked only as far as the named rules say.",
   technique="symmetry and typestate checks on the extracted scanner automaton"),
}

NOT_APPLICABLE = {
}

NOT_YET = "check under construction in this session: not claimed until its rules are quiet on the unchanged tree and validated both ways"

def main():
    ids = [json.loads(l)["id"] for l in open(os.path.join(ROOT, "properties.jsonl"))]
    checks = []
    for pid in ids:
        if pid not in CHECKS:
            continue
        c = CHECKS[pid]
        checks.append({
            "property_id": pid,
            "quick_cmd": "./check.sh %s quick" % pid,
            "thorough_cmd": "./check.sh %s thorough" % pid,
            "evidence_file": "/verif/evidence/%s.json" % pid,
            "replay_cmd_template": "./check.sh %s --explain {path}" % pid,
            "engine": c["engine"],
            "level_claimed": {"category": c["category"], "text": c["text"], "design_ref": c["design"]},
            "level_note": c["note"],
            "technique": "static analysis: " + c["technique"],
        })
    na = []
    for pid in ids:
        if pid in CHECKS:
            continue
        na.append({"property_id": pid, "reason": NOT_APPLICABLE.get(pid, NOT_YET)})
    m = {
        "version": 1,
        "setup_cmd": "cd /verif/tools && GOFLAGS=-mod=mod GOPROXY=off GOSUMDB=off GOTOOLCHAIN=local GOWORK=off go build -o /verif/bin/jsverif ./cmd/jsverif",
        "hooks": {
            "guard": "verif",
            "enable": "no hooks: the analysis reads /repo's source; nothing in /repo is built with a tag",
            "baseline_off_cmd": "cd /repo && go test -mod=mod -vet=off -count=1 ./...",
            "source_commits": [],
            "add_only": True,
        },
        "engines": [
            {"name": "E1 scanfsm", "path": "tools/internal/scanfsm", "serves_properties": ["C01", "C08", "C11", "C12", "C13"],
             "kind_free_text": "partial evaluation of the scanner step functions per byte; pushdown reachability, typestate, cursor-weight cycles"},
            {"name": "E2 tables", "path": "tools/internal/rules/tables.go", "serves_properties": ["C02", "C03", "C11", "C13", "C17", "C19"],
             "kind_free_text": "typed-literal extraction of directive tables and cross-table agreement"},
            {"name": "rules", "path": "tools/internal/rules", "serves_properties": ids,
             "kind_free_text": "AST/CFG/SSA/call-graph rules per property, obligations keyed by rule+construct"},
        ],
        "checks": checks,
        "notes": "All checks are static: they load, type-check and analyse /repo's working tree on every run (go/packages) and never execute it. known_findings.json lists genuine defects recorded rather than repaired. scripts/try_patch.sh and seeded/ are validation aids, not checks.",
        "not_applicable": na,
    }
    json.dump(m, open(os.path.join(ROOT, "MANIFEST.json"), "w"), indent=1)
    print("wrote MANIFEST.json with", len(checks), "checks,", len(na), "not claimed")

if __name__ == "__main__":
    main()
