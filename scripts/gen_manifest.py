#!/usr/bin/env python3
"""Generates /verif/MANIFEST.json from the table below (edit here, then run)."""
import json, os, sys

ROOT = os.path.dirname(os.path.dirname(os.path.abspath(__file__)))

TB = ("Trusted base: Go front end + go/types, golang.org/x/tools v0.29.0 (go/packages, go/ssa, VTA call graph); "
      "jsight-schema-core@v0.2.0 behaving as read; reference tables under tools/reference. ")

CHECKS = {
 "C07": dict(
   engine="rules/c07.go",
   category="other",
   text="(file, index) of every error come from one source object at every constructor call; Line/Column/Quote/trace lines only through NewLocation; JApiError/Location built only in package jerr; post-scan errors only through Directive.makeError with the captured trace; scan-time errors get the live stack, innermost first, once; the include-tracer memo builds its value from the live stack only and its key must determine the value (today it does not: recorded finding F16, repair blocked by a pinned test). Whether the index is the right one per message, and index < len(file), are not claimed.",
   design="DESIGN.md §5 C07",
   note=TB + "EOF errors carry index == len(file) and the pinned negative tests assert it: no rule is armed on that.",
   technique="provenance lint of constructor arguments; who-may-construct and who-may-search-for-line-ends rules; memo key/value dependence analysis with a lossy-function deny list; edge-fact condition on the deferred trace attachment; must-pass-through of the include-trace attachment on go/cfg; located errors are not re-told (type-based); the type blamed by a user type's Check() is asked before the directive is chosen; every path through a trace recorder appends; no write through a lent slice (self-tested matcher); the post-scan constructor rule takes the dispatch handlers as roots and forbids reading core.scanner; the redirect to the blamed type is gated by nothing but the blame; no append to a view of a file's bytes"),
 "C09": dict(
   engine="rules/c09.go (+ c14.go validate-first)",
   category="other",
   text="The file switch at INCLUDE and at the end of an included file neither writes nor inspects parser state (store lint over the functions reachable from processInclude / isScanningFinished), open-context and JSIGHT tests are scoped by the include stack, scanning state is isolated per Scanner, directives of two inclusions are distinct instances, and every memo is keyed by what its value depends on. Catalog equality of split and unsplit documents is behavioural and not claimed.",
   design="DESIGN.md §5 C09",
   note=TB,
   technique="write-effect lint at the file switch; scope conditions by edge facts; memo key/value dependence analysis; LIFO and key facts of the scanner stack from abstract evaluation of SSA; keyword pre-filters by abstract run on constants; position-needs-file comparison lint with a built-in positive example; agreement of a write count with the length it is compared with; post-scan constructor discipline over the dispatch handlers; every path through a trace recorder appends; the scanner treats an opening parenthesis as transparent (a piece may end right after it)"),
 "C15": dict(
   engine="rules/c09.go (C15 part)",
   category="other",
   text="Phase-order necessary condition for order independence: along the straight-line build pipeline, for each cross-block name space the phases that insert names precede the phases that resolve them; rules are attached only to fresh schemas; memo sets are insert-only and memo keys cover their values; keyword pre-filters that end a Description cover every keyword. The tag name space violates it today (recorded finding F20). Equality under permutation is behavioural and not claimed.",
   design="DESIGN.md §5 C15",
   note=TB,
   technique="insert/resolve effect sets per pipeline phase compared along the phase order for every map field; placement invariants of processContext (abstract evaluation of SSA); end-of-Description predicate folded on the keyword table; stateful dependency calls in the build phases (with a discharge for samples that are never shown); symmetric check-and-register registries; membership tests as resolves; late inserts marked by their constructor and refused by every lookup of the phase; no in-place insert through a nested append; discarded iterator results only with callbacks that cannot end the walk"),
 "C17": dict(
   engine="rules/c17.go (+ c01.go recover discipline)",
   category="other",
   text="'Never panics' for the module and everything the export calls: both accessors are a single call of a helper whose deferred recover assigns named results and which contains conversion and encoding; every panic/assertion site below it is listed as covered; no other entry into the converter. Plus: method exhaustiveness of assignOperation, Required=true before a path parameter is appended, response keys are codes or \"default\", post-expansion phases read the expanded directive list. Structural validity of the produced document is produced by the dependency from data and is not claimed.",
   design="DESIGN.md §5 C17",
   note=TB,
   technique="recover-boundary coverage over the call graph; exhaustiveness by abstract run of the dispatcher per method constant; every-iteration-appends on go/cfg; edge facts evaluated on constants (components iff user types); error-discipline lint over the export; asserted form (T / *T) against the form of literals put behind interfaces; loop-carried flags; dead and shadowing error stores; coverage of counting loops; template expressions of a path against the segment recogniser; panic values are never nil interfaces; typed nil returned as error; discarded iterator results only with callbacks that cannot end the walk; path keys derive from the interaction id"),
 "C04": dict(
   engine="rules/c04.go (+ c03.go dropped-error rule, c16.go dependency-call rule)",
   category="other",
   text="Mechanisms behind 'accepted => serialisable': no compile/load/check error of a schema object is dropped on the build path (two sites are a recorded finding, F15), lazily computed content keeps its failure, ToJson/ToJsonIndent encode the same value, hand-written emitters write only encoder output, pseudo schemas exist only for any/empty, regex bodies are checked when built, path-variable properties bring all their types, pool-backed bytes are copied. The JDoc shape of every schema node is produced by the dependency and is not claimed.",
   design="DESIGN.md §5 C04",
   note=TB + "F15 is listed in known_findings.json (repair attempted, breaks pinned snapshots).",
   technique="error-discipline lint over the reachable call graph; structural rules on emitters and constructors; emitted key table compared with a frozen reference; required arrays initialised on every path to the encoder; coupling of serialise format and notation at call sites; dead and shadowing error stores on SSA; reads of once-initialised fields behind the Once (dominance); marshal purity; regex example probe; error-returning dependency calls under the serialisers against those under the build; typed nil returned as error; a dependency function classified stateful is covered by no build-time call or probe, and its call in package catalog stands behind a deferred recover"),
 "C16": dict(
   engine="rules/effects.go (E5 write effects over SSA) + rules/c16.go",
   category="other",
   text="For the module's code: interprocedural write effects (fixpoint over SSA, Once closures cut) show that nothing reachable from the five accessors or from MarshalJSON/MarshalText writes into pre-existing catalog/core/directive objects or package state; Once closures keep their state in the object; stateful dependency calls are Once-memoised and pool-backed bytes are copied before being kept. Byte equality inside the dependency is trusted (classification table depAPI).",
   design="DESIGN.md §5 C16",
   note=TB + "Heap freshness is allocation-site based (no points-to analysis in x/tools v0.29.0).",
   technique="mod/ref (write-effect) analysis on go/ssa with a VTA call graph (shallow/deep writes through parameters, copies share what their pointers lead to; standard-library sorters count as writers); classification of dependency calls inherited along the dependency's call graph; once-only code writes only into its owner; once-closure totality; reads of once-initialised fields behind the Once; untyped deep stores that reach an entry point's receiver; no write through a lent slice (element stores, copy, sort, in-place filter; self-tested matcher); write effects follow a pointer read out of a local map or slice to what was put in, not to where the container was made"),
 "C18": dict(
   engine="rules/c18.go + effects.go + c06.go (package state)",
   category="other",
   text="The module's share of 'no unsynchronised shared mutable state': package variables are never written after initialisation, Options do not leak references between cores, mutex-guarded types access mutable fields only under the lock, serialisers only read apart from Once-protected state, no goroutines are started. In the dependency, byte slices of pooled buffers that are returned after the buffer went back to the pool are reported (8 functions, recorded finding F19). Schedules and happens-before are not decided.",
   design="DESIGN.md §5 C18",
   note=TB + "Both tiers load the dependency's source for the pooled-buffer rule.",
   technique="package-state and lock-discipline lints incl. reference escapes of package-level maps/slices, write-effect analysis, pooled-buffer escape pattern over dependency syntax; reads of once-initialised fields behind the Once (dominance of Do / gate calls, gated producers)"),
 "C02": dict(
   engine="E2 tables + rules/c02.go (+ shared C10/C11 rules)",
   category="other",
   text="The model round trip is behavioural and not claimed. Decided are the necessary conditions the property names: writer/reader agreement of directive parameter keys per kind, a handler or collector for every directive kind, document-order emission of ordered maps, attachment of Body/Headers to the last response of the interaction derived from the same directive, priority of a method's own Tags, and the context-resolution / macro-expansion structure shared with C11 and C10.",
   design="DESIGN.md §5 C02",
   note=TB + "Attachment through context resolution is covered only as far as the C11/C10 rules go.",
   technique="cross-table agreement (writers vs readers, kinds vs handlers) extracted from typed syntax; dominance rules; index/guard reasoning by definitions and affine forms with abstract evaluation of the setter as second opinion; normaliser lints; per-resource insert/resolve sets; bounded bisimulation of '(' LF against LF on the scanner automaton; abstract run of the '(' handler once per directive kind; reachability from the lexeme dispatch to the placement function; coverage of counting loops (index offsets followed); every schema made from a body gets all project rules on every path (go/cfg, lifted to helpers and callers); every field of a hand-written json structure is filled; a parameter is copied into the model whatever another parameter says; where the result of an iterator call is discarded, its callback returns nil on every path (a walk that ends silently loses everything behind that element)"),
 "C03": dict(
   engine="rules/c03.go",
   category="other",
   text="Mechanisms behind 'one fault, rejected at the fault': insert-only-after-pure-presence-test for every name-keyed collection and single-valued slot (closures passed to Update tied to the value tested before), uniqueness sets never reset and never short-cut by 'exists, skip' lookups, every fault-class message still raised on a reachable path, handler errors located on the handler's own directive, no dropped error on the build path, annotation used or rejected per kind, JSIGHT-first before anything is added. Which check fires first for each fault x layout is not claimed.",
   design="DESIGN.md §5 C03",
   note=TB + "Errors of a macro body are relocated to the PASTE line by design (named exception).",
   technique="dominance of guard tests over insertions (go/cfg), lifted to the callers of helpers, with abstract evaluation of the setter (helpers inlined) as second opinion; silent-exit-under-hit edge facts for declaring functions; liveness of error constants over the call graph; receiver-provenance lint; success returns in front of a check of the function's own statement list; dead and shadowing error stores on SSA; coverage of counting loops and loop-carried flags; may-analysis over go/cfg of error variables that can hold a schema-library error (summaries by fixpoint) against constructors given err.Error(); tail-call checks and early returns in loops (a tail call counts only when its callee leaves the catalog/core state alone); a declaration keyed by a name parameter refuses the empty name; insert/resolve sets per phase with constructor marks; a setter that tells 'already set' by the empty string is only handed values proved non-empty on every path to the call (edge facts); duplicate tests do not ask 'same coordinates?' (copies of one macro directive share them)"),
 "C05": dict(
   engine="rules/c02.go (C05 part) + rules/c03.go",
   category="other",
   text="Both sides of each cross-reference are written together from one value: tag<->interaction pairing, id/key/protocol/method/path derivation, pure presence test before every insertion, tag source priority, body test on every response iteration, Update closures hand back the entry they were given, only codes inside the response-code range become a response directive, JSIGHT version constant. usedUserTypes closure and exact pathVariables are produced by the dependency from data and are not claimed.",
   design="DESIGN.md §5 C05",
   note=TB,
   technique="value-identity and pairing rules on typed syntax (lifted to the callers of shared helpers); must-pass-through inside loops; visited-set discipline of the tag list; NewDirectiveType folded on the bounds of the response-code range; arguments of the path parsers are the path verbatim; the id accessors return the named parameter as it stands and the id constructors store exactly that; the path refuses the separator of the id; coverage of counting loops; no in-place insert through a nested append over one slice (self-tested recogniser); the methods that file an interaction id into a tag's group append it unconditionally"),
 "C01": dict(
   engine="E1 scanner automaton + rules/c01.go, nilness.go, cgraph.go (AST, go/cfg, SSA, VTA call graph)",
   category="other",
   text="Absence of the crash and hang mechanisms that are visible in the code, for every input: each explicit panic, unchecked assertion, nil-able field / GetValue result dereference, value used on its error branch, promoted method over a nil embedded interface and constant index reachable from the build entry points is an obligation with a named discharge; recover handlers assign named results; the scanner automaton never underflows and every cycle consumes input; every recursive call-graph component and non-range loop has a verified termination witness; no lock re-entry under map locks; include cycles refused. Running time, and anything inside jsight-schema-core, is not claimed.",
   design="DESIGN.md §5 C01",
   note=TB + "Named exceptions (one symbol + reason each) are listed in the evidence. Reachability treats a function as callable once it is referenced in reachable code.",
   technique="reachability over the VTA call graph + per-site discharge rules (dominance on go/cfg, table-backed invariants), pushdown analysis of the extracted scanner automaton, SCC termination witnesses (strict structural / visited-set verification, named assumptions for the rest), loop measures on go/cfg, guards evaluated on the constants of an enumeration (embedded-nil kinds, bounds of the dependency's line functions); placement of every recover() call; look-ahead reads of the input bounded by edge facts; presence and must-pass-through of the regex example probe; no Error/String method formats its own receiver"),
 "C06": dict(
   engine="rules/c06.go",
   category="other",
   text="For the module's own code: every range over a Go map is classified order-insensitive from its body (or is a reasoned named exception), ordered catalog maps iterate their order slice, no nondeterminism source is called, the code is sequential, and no package-level state survives a build. Inside the dependency: which of two faults of one document is reported first is analysed (walks over Go maps from which a fault can be raised, on the dependency's syntax and call graph; two such walks are a known finding, F47); its other nondeterminism sources are listed as observations in the thorough tier.",
   design="DESIGN.md §5 C06",
   note=TB + "An unsummarised call inside a map loop is reported, not assumed harmless, unless all its inputs derive from the element.",
   technique="effect classification of map-range bodies (callee-named keyed-insert summary); who-may-call lint for nondeterminism sources; package-state write and reference-escape analysis; sorts after map ranges must be total orders on the elements; map walks of the dependency that can raise a fault (syntax + call graph of the pinned version, recomputed in the thorough tier); hash/maphash in the deny list"),
 "C13": dict(
   engine="E1 scanner automaton + E2 directive tables",
   category="model_checking",
   text="Exhaustive over the 256-byte alphabet and unbounded length: the keyword automaton is extracted from the source of the step functions by partial evaluation and compared, as a language, with the directive table; terminator set, error position, table agreement decided on the same model. This is the right level because the keyword trie is finite and fully visible in the code; 0 traces are validated against the running implementation by construction of a static technique.",
   design="DESIGN.md §5 C13",
   note=TB + "Assumes Next() is the only driver of step functions (checked: NUL guard present, else violation). Does not cover what core does with an accepted keyword beyond table agreement.",
   technique="abstract interpretation of step functions per byte; language equality between extracted trie and extracted directive table; NewDirectiveType and IsStartWithDirective folded on the table's own constants"),
 "C12": dict(
   engine="E1 scanner automaton (pushdown exploration)",
   category="other",
   text="Well-formedness of the lexeme stream (bracketing, extent >= -1, order, positions) decided for all byte strings on a k-bounded pushdown abstraction of the extracted automaton that over-approximates the scanner (data-dependent branches free). Byte-for-byte equality with the rendered document is a runtime round trip and is not claimed.",
   design="DESIGN.md §5 C12",
   note=TB + "Schema/enum body extents are delegated to the dependency's Len() (trusted <= remaining input).",
   technique="reachability on a pushdown system extracted from source; typestate of lexeme events; CR LF versus LF bisimulation to a bounded horizon on every configuration; reader-end rule on the transition table; begin/end pairing and the end-of-Description predicate folded on constants (abstract evaluation of SSA); position-free use of the scanner's parameter list; no configuration swallows the end of the input with a lexeme open (exceptions named by the bytes that lead there); queue emptiness at the end-of-stream return of Next (must-analysis on go/cfg); the event primitive stores its arguments verbatim; readers of the schema library are called under a recover unless they recover by themselves (dependency SSA)"),
 "C08": dict(
   engine="E1 scanner automaton",
   category="other",
   text="Necessary conditions of layout independence that are visible in the automaton: LF/CR and SP/TAB symmetry per state, comment push/pop/re-feed discipline, blank lines event-free and idempotent, both annotation forms available and '*/' always closing. Catalog equality under rewrites is behavioural and not claimed.",
   design="DESIGN.md §5 C08",
   note=TB + "Description de-indentation and annotation whitespace normalisation are checked only as far as the named rules say.",
   technique="symmetry and typestate checks on the extracted scanner automaton incl. CR LF versus LF bisimulation to a bounded horizon; interprocedural unquote/normaliser lints; end-of-Description predicate folded for every follower byte; fence symmetry of block comments by shortest paths over the comment states; blank/tab pairing in cut sets and comparisons; '(' transparency by bounded bisimulation; a comment sign where '(' is accepted starts a comment (every configuration); final line break against end of input; lines of blanks in the Description normaliser; notes copied from the schema library pass a line-end normaliser; the helper every step function calls on the comment sign returns nil on every path"),
 "C10": dict(
   engine="rules/c10.go (AST + go/cfg + go/types)",
   category="other",
   text="Decides the mechanisms PASTE transparency rests on: macro cycles of any length are rejected before expansion (three-colour visited-state discipline verified on the CFG: mark-before-descend, done-on-every-nil-return, on-path test before entering), undefined/unnamed macros are errors, MACRO definitions are removed before expansion, expansion works on reset copies and restores the copy's parent after an explicit context, copies are never identified by coordinates, the ENUM rules of a body are collected on every path before it is expanded, the recursion check visits every sibling, a PASTE after an implicit Description is recognised. Equality with the in-place text for every call site is behavioural and not claimed.",
   design="DESIGN.md §5 C10",
   note=TB + "The rule recognises the visited-state idiom (map from macro name to a named integer state); a different algorithm is reported as undecided/violation rather than accepted.",
   technique="typestate/pairing and dominance rules over go/cfg; who-may-write rule for the context field; who-may-call rule for coordinate-equality predicates; must-pass-through (rules collected before a body is expanded); abstract run of the expansion walk once per directive kind; who-writes rule for the explicit-context flag; memo keys cover what the value depends on; no coordinate-equality predicate decides anything (package directive included); nothing decided from the root file's text after the scan; the context table (where a PASTE may stand, what may stand under it) equals the reference"),
 "C11": dict(
   engine="E2 directive tables + rules/c11.go + E1",
   category="other",
   text="The context table in the source equals the frozen JSight 0.3 reference pair by pair, and the resolution algorithm has the required control structure (single context cursor, attach only under the allowed lookup, walk-up only from implicit contexts, explicit contexts reject, ')' closes the innermost explicit context, a directive is placed exactly once - as a child or in the root list - on every successful path, the pending directive is finalised before ')' and before the end-of-file test). The verdict for each concrete directive sequence (table x algorithm product) is not enumerated.",
   design="DESIGN.md §5 C11",
   note=TB + "tools/reference/context_table.json is the oracle for the table; it was derived from the pinned tree and reviewed against the language description.",
   technique="typed-literal table extraction compared with a reference relation; the accessors folded on all pairs of kinds and compared with the literal (abstract evaluation of SSA); edge facts on the open-context walk; dominance rules on processContext; path/term invariants of processContext and closeLastExplicitContext from abstract evaluation of SSA (internal/ssaeval); '(' transparency by bounded bisimulation; abstract run of the '(' handler per directive kind; reachability from the lexeme dispatch to the placement function; who-writes rule for the explicit-context flag; a comment sign where '(' is accepted starts a comment; no pop of an empty step stack; the URL-child protocol classes passed over for neutral kinds (abstract run per kind); coordinate-equality predicates; post-scan constructor discipline; every report of ContextOpen in the step functions stands under conditions on the byte only (no enclosing condition mentions the scanner)"),
 "C14": dict(
   engine="rules/c14.go + rules/strpred.go (predicate automaton)",
   category="other",
   text="For all parameter strings and include graphs (modulo symlinks/OS path semantics): who-may-call for file primitives, validate-before-stat on the same value, language inclusion of the name predicate in the safe language decided on a product automaton (counterexample word printed), the cycle guard of the scanner stack (decided on the abstract evaluation of Stack.Push/Pop: lookup missed, same term inserted, key is the unwrapped Name() of the scanner's file, Pop deletes it), and an INCLUDE after an implicit Description is recognised as a directive. Thorough tier repeats who-may-call over the whole-program VTA call graph through the dependency.",
   design="DESIGN.md §5 C14",
   note=TB + "A predicate written outside the supported atom set (==, s[0], len, strings.Contains/HasPrefix/HasSuffix/ContainsRune/ContainsAny, range over strings.Split) is reported as undecided.",
   technique="who-may-call by role + flow of the validated path through parameters; must-pass-through on go/cfg; regular-language inclusion of the extracted name predicate; name-is-path and who-may-raise-the-recursion-message rules; path/term facts of Stack.Push/Pop from abstract evaluation of SSA (internal/ssaeval); a re-wrapped or read file keeps name, bytes and path parameter; escape state of quoted parameters against the two escapes of the language; write count against length; the cycle test must name the file about to be scanned (known finding); file and index of every error from one object; no lexeme open at the end of the input"),
 "C19": dict(
   engine="rules/c19.go",
   category="other",
   text="For every directive kind: construction of a Directive from a scanned keyword, the INCLUDE handler's file access and the handler dispatch are each dominated by a by-kind comma-ok lookup of the ban set whose hit branch returns an error; the ban set is written only by WithBannedDirectives into a map made per core and otherwise only looked up. That the message/line equals the expected text for every layout is not claimed.",
   design="DESIGN.md §5 C19",
   note=TB + "Interprocedural guard search is bounded to 3 caller levels in package core.",
   technique="dominance (must-pass-through) of guard lookups on go/cfg; read/write discipline of one field incl. the literal that creates a core; every lookup of the ban set has a hit branch that returns an error; every lookup is keyed by the kind of the directive at hand; file and index of an error from one object"),
}

NOT_APPLICABLE = {
}

NOT_YET = "check under construction in this session: not claimed until its rules are quiet on the unchanged tree and validated both ways"

def main():
    ids = [json.loads(l)["id"] for l in open(os.path.join(ROOT, "properties.jsonl"))]
    checks = []
    for pid in ids:
        if pid not in CHECKS:
            continue
        c = CHECKS[pid]
        checks.append({
            "property_id": pid,
            "quick_cmd": "./check.sh %s quick" % pid,
            "thorough_cmd": "./check.sh %s thorough" % pid,
            "evidence_file": "/verif/evidence/%s.json" % pid,
            "replay_cmd_template": "./check.sh %s --explain {path}" % pid,
            "engine": c["engine"],
            "level_claimed": {"category": c["category"], "text": c["text"], "design_ref": c["design"]},
            "level_note": c["note"],
            "technique": "static analysis: " + c["technique"],
        })
    na = []
    for pid in ids:
        if pid in CHECKS:
            continue
        na.append({"property_id": pid, "reason": NOT_APPLICABLE.get(pid, NOT_YET)})
    m = {
        "version": 1,
        "setup_cmd": "cd /verif/tools && GOFLAGS=-mod=mod GOPROXY=off GOSUMDB=off GOTOOLCHAIN=local GOWORK=off go build -o /verif/bin/jsverif ./cmd/jsverif",
        "hooks": {
            "guard": "verif",
            "enable": "no hooks: the analysis reads /repo's source; nothing in /repo is built with a tag",
            "baseline_off_cmd": "cd /repo && go test -mod=mod -vet=off -count=1 ./...",
            "source_commits": [],
            "add_only": True,
        },
        "engines": [
            {"name": "E1 scanfsm", "path": "tools/internal/scanfsm", "serves_properties": ["C01", "C08", "C11", "C12", "C13"],
             "kind_free_text": "partial evaluation of the scanner step functions per byte; pushdown reachability, typestate, cursor-weight cycles"},
            {"name": "E2 tables", "path": "tools/internal/rules/tables.go", "serves_properties": ["C02", "C03", "C11", "C13", "C17", "C19"],
             "kind_free_text": "typed-literal extraction of directive tables and cross-table agreement"},
            {"name": "rules", "path": "tools/internal/rules", "serves_properties": ids,
             "kind_free_text": "AST/CFG/SSA/call-graph rules per property, obligations keyed by rule+construct"},
        ],
        "checks": checks,
        "notes": "All checks are static: they load, type-check and analyse /repo's working tree on every run (go/packages) and never execute it. known_findings.json lists genuine defects recorded rather than repaired. scripts/try_patch.sh and seeded/ are validation aids, not checks.",
        "not_applicable": na,
    }
    json.dump(m, open(os.path.join(ROOT, "MANIFEST.json"), "w"), indent=1)
    print("wrote MANIFEST.json with", len(checks), "checks,", len(na), "not claimed")

if __name__ == "__main__":
    main()
