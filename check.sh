#!/bin/bash
# usage: ./check.sh <Cxx> quick|thorough      |  ./check.sh <Cxx> --explain <file>
# Rebuilds the checker from /verif/tools, analyses /repo's current working tree,
# writes /verif/evidence/<id>.json. Exit 0 = held, 1 = VIOLATION line printed.
set -u
cd "$(dirname "$0")"
export GOFLAGS=-mod=mod GOPROXY=off GOSUMDB=off GOTOOLCHAIN=local GOWORK=off
export VERIF_DIR="$(pwd)"
id="$1"; tier="${2:-quick}"
if [ "$tier" = "--explain" ]; then
  cat "$3"; echo; exit 0
fi
mkdir -p bin evidence
if ! (cd tools && go build -o ../bin/jsverif ./cmd/jsverif) ; then
  echo "VIOLATION property=$id replay=- rule=UNDECIDED the checker does not build"
  exit 1
fi
exec ./bin/jsverif check "$id" "$tier"
