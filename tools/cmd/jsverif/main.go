// jsverif decides the properties of /verif/properties.jsonl for /repo's current
// working tree by static analysis (see /verif/DESIGN.md).
package main

import (
	"fmt"
	"os"
	"strconv"

	"jsverif/internal/obl"
	"jsverif/internal/rules"
)

func main() {
	if len(os.Args) < 3 {
		fmt.Fprintln(os.Stderr, "usage: jsverif check <Cxx> [quick|thorough] | jsverif explain <file> | jsverif selftest")
		os.Exit(2)
	}
	verifDir := os.Getenv("VERIF_DIR")
	if verifDir == "" {
		verifDir = "/verif"
	}
	switch os.Args[1] {
	case "check":
		prop := os.Args[2]
		tier := "quick"
		if len(os.Args) > 3 {
			tier = os.Args[3]
		}
		if t := os.Getenv("VERIF_TIER"); t == "quick" || t == "thorough" {
			tier = t
		}
		seed, _ := strconv.ParseInt(os.Getenv("VERIF_SEED"), 10, 64)
		os.Exit(run(verifDir, prop, tier, seed))
	case "explain":
		b, err := os.ReadFile(os.Args[2])
		if err != nil {
			fmt.Fprintln(os.Stderr, err)
			os.Exit(2)
		}
		os.Stdout.Write(b)
		fmt.Println()
	case "dump":
		rules.Dump(os.Args[2])
	default:
		fmt.Fprintln(os.Stderr, "unknown command")
		os.Exit(2)
	}
}

func run(verifDir, prop, tier string, seed int64) (code int) {
	rep := obl.NewReport(prop, tier)
	known, err := obl.LoadFindings(verifDir + "/known_findings.json")
	if err != nil {
		fmt.Printf("VIOLATION property=%s replay=- rule=UNDECIDED cannot read known_findings.json: %v\n", prop, err)
		return 1
	}
	defer func() {
		if r := recover(); r != nil {
			// a crash of the analysis must never read as "held"
			rep.Undecided("TOOL", "panic", fmt.Sprintf("the analysis panicked: %v", r), "")
			code = rep.Finish(verifDir, known, seed)
			if code == 0 {
				code = 1
			}
		}
	}()
	if err := rules.Run(rep); err != nil {
		rep.Undecided("LOAD", "load", err.Error(), "")
	}
	return rep.Finish(verifDir, known, seed)
}
