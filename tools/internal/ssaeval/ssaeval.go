// Package ssaeval is a small abstract interpreter over go/ssa. Constants are propagated; structs and local memory
// cells are tracked field by field; the nil-ness of a pointer is known where the value is freshly allocated or the nil
// constant; every other value is an uninterpreted term (a string built from the operation and the terms of its
// operands), so that two occurrences of "the same thing" -- the key that was looked up and the key that is inserted,
// len(s.stack)-1 written with or without a local variable -- are recognised as equal without knowing their value.
// Static callees inside the analysed module are entered (bounded depth); a branch on an unknown condition forks the
// path (bounded number of paths) and is recorded in the path condition. Nothing of the program is executed, no solver
// is involved: the functions are read in their SSA form.
//
// Rules use it to ask questions whose answer does not depend on how the code is laid out (helper extracted or
// inlined, if chain or switch, local variable or repeated expression):
//   - for begin kind B on the stack and end kind E arriving, does processLexemeEvent return a lexeme or an error?
//   - on every path of Stack.Push that appends to the stack, was the file name looked up in the set and missed, and is
//     the same name inserted?
package ssaeval

import (
	"fmt"
	"go/constant"
	"go/token"
	"go/types"
	"strconv"
	"strings"

	"golang.org/x/tools/go/ssa"
)

type Kind int

const (
	Unknown Kind = iota
	Const        // C holds the value
	Nil          // the nil pointer / interface / slice / map / func
	NonNil       // a non-nil reference whose target is not tracked
	Struct       // a struct value, Fields by index
	Tuple        // multiple results
	Ptr          // pointer to a tracked cell (+ field path), or (Cell < 0) to the symbolic location T
	List         // a slice or array whose elements are known (Elems), e.g. a table of the program read from its literal
	MapV         // a map built on this path (or by the package initialiser) whose entries are tracked: Cell is its id
)

// Value is an abstract value. T is the term of a value that is not a constant: equal terms denote equal values
// (within one path, between two havocs).
type Value struct {
	K      Kind
	C      constant.Value
	Fields map[int]Value
	Elems  []Value
	Cell   int
	Path   []int
	T      string
	Fn     *ssa.Function // a closure or function value: the function (its bindings in Elems)
}

func (v Value) String() string {
	switch v.K {
	case Const:
		return v.C.ExactString()
	case Nil:
		return "nil"
	case Struct:
		return fmt.Sprintf("struct%v", v.Fields)
	case Tuple:
		return fmt.Sprintf("tuple%v", v.Elems)
	case List:
		return fmt.Sprintf("list%v", v.Elems)
	case Ptr:
		if v.Cell >= 0 {
			return fmt.Sprintf("&cell%d%v", v.Cell, v.Path)
		}
		return "&" + v.T
	case NonNil:
		if v.T != "" {
			return v.T
		}
		return "nonnil"
	}
	if v.T != "" {
		return v.T
	}
	return "?"
}

// Term is the identity of the value: the constant, or the term.
func (v Value) Term() string {
	switch v.K {
	case Const:
		return v.C.ExactString()
	case Nil:
		return "nil"
	case Ptr:
		if v.Cell >= 0 {
			return fmt.Sprintf("&cell%d%v", v.Cell, v.Path)
		}
		return "&" + v.T
	case Struct:
		return fmt.Sprintf("struct%v", v.Fields)
	case List:
		return fmt.Sprintf("list%v", v.Elems)
	case MapV:
		return v.T
	}
	return v.T
}

func U(note string) Value            { return Value{K: Unknown, T: note} }
func C(c constant.Value) Value       { return Value{K: Const, C: c} }
func Int(i int64) Value              { return C(constant.MakeInt64(i)) }
func Bool(b bool) Value              { return C(constant.MakeBool(b)) }
func StructOf(f map[int]Value) Value { return Value{K: Struct, Fields: f} }
func Str(x string) Value             { return C(constant.MakeString(x)) }
func ListOf(e []Value) Value         { return Value{K: List, Elems: e} }

// Obj is a non-nil reference to an untracked object named t (a parameter, a receiver).
func Obj(t string) Value { return Value{K: NonNil, T: t} }

func (v Value) IsNilKnown() (isNil, known bool) {
	switch v.K {
	case Nil:
		return true, true
	case NonNil, Ptr, List, MapV:
		return false, true
	}
	return false, false
}

// Event is something a path did that a rule may be interested in.
type Event struct {
	Kind  string  // "call", "mapupdate", "store", "delete", "lookup", "cond" (Fn is "true"/"false", Args[0] the condition)
	Fn    string  // call: callee
	Loc   string  // store: the symbolic location
	Args  []Value // call: arguments; mapupdate: map, key, value; delete: map, key; store: value; lookup: map, key, ok
	Deref []Value // call: for each argument that points to a tracked cell, the value of the cell at the time of the call
}

func (e Event) String() string {
	var a []string
	for _, x := range e.Args {
		a = append(a, x.String())
	}
	return fmt.Sprintf("%s %s%s(%s)", e.Kind, e.Fn, e.Loc, strings.Join(a, ", "))
}

// Cond is one decision of the path on an unknown condition.
type Cond struct {
	Term  string
	Taken bool
}

// Outcome is one way a function can return.
type Outcome struct {
	Rets       []Value
	Panics     bool
	Incomplete string // non-empty: the path was cut (loop bound, depth); nothing can be concluded from it
	Events     []Event
	Conds      []Cond
}

// CondIs: the path decided the condition with this term this way.
func (o Outcome) CondIs(term string, taken bool) bool {
	for _, c := range o.Conds {
		if c.Term == term && c.Taken == taken {
			return true
		}
	}
	return false
}

// Eval configures an evaluation.
type Eval struct {
	MaxDepth int // call depth
	MaxPaths int // total forks
	// Oracle may answer a call itself (returns handled=true): used to model a callee by a chosen abstract result.
	Oracle func(callee *ssa.Function, args []Value) (res Value, handled bool)
	// Follow decides whether a static callee with a body is entered (default: every function with blocks).
	Follow func(callee *ssa.Function) bool
	// WantCall: calls for which an Event is recorded (default none).
	WantCall func(callee *ssa.Function) bool
	// Global gives the value a package-level variable holds (e.g. a table read from its literal); default unknown.
	Global func(g *ssa.Global) (Value, bool)
	// MaxVisits bounds how often one path may enter the same block of one call (default 3: loops over unknown data
	// are cut; raise it to unroll a loop over a table whose bounds are constants).
	MaxVisits int

	paths     int
	nsym      int
	globals   map[string]*ssa.Global
	initVals  map[string]Value
	initMaps  []map[string]Value
	initCells []Value
}

type state struct {
	cells  []Value
	maps   []map[string]Value // tracked maps: key term -> value ("\x00open" marks a map that also got non-constant keys)
	sym    map[string]Value   // symbolic memory: location term -> value
	epoch  int
	events []Event
	conds  []Cond
}

func (s *state) clone() *state {
	n := &state{cells: make([]Value, len(s.cells)), sym: make(map[string]Value, len(s.sym)), epoch: s.epoch,
		events: append([]Event(nil), s.events...), conds: append([]Cond(nil), s.conds...)}
	copy(n.cells, s.cells)
	for k, v := range s.sym {
		n.sym[k] = v
	}
	for _, m := range s.maps {
		c := make(map[string]Value, len(m))
		for k, v := range m {
			c[k] = v
		}
		n.maps = append(n.maps, c)
	}
	return n
}

func (s *state) havoc() {
	s.sym = map[string]Value{}
	s.epoch++
}

type frame struct {
	fn     *ssa.Function
	env    map[ssa.Value]Value
	visits map[*ssa.BasicBlock]int
}

func (f *frame) clone() *frame {
	n := &frame{fn: f.fn, env: make(map[ssa.Value]Value, len(f.env)), visits: make(map[*ssa.BasicBlock]int, len(f.visits))}
	for k, v := range f.env {
		n.env[k] = v
	}
	for k, v := range f.visits {
		n.visits[k] = v
	}
	return n
}

type result struct {
	out Outcome
	st  *state
}

// Run evaluates fn on the given arguments (receiver first for methods).
func (e *Eval) Run(fn *ssa.Function, args []Value) []Outcome {
	if e.MaxDepth == 0 {
		e.MaxDepth = 5
	}
	if e.MaxPaths == 0 {
		e.MaxPaths = 512
	}
	e.paths = 0
	st0 := &state{sym: map[string]Value{}}
	for _, m := range e.initMaps {
		c := make(map[string]Value, len(m))
		for k, v := range m {
			c[k] = v
		}
		st0.maps = append(st0.maps, c)
	}
	st0.cells = append(st0.cells, e.initCells...)
	rs := e.call(fn, args, st0, 0)
	var outs []Outcome
	for _, r := range rs {
		o := r.out
		o.Events = r.st.events
		o.Conds = r.st.conds
		outs = append(outs, o)
	}
	return outs
}

func (e *Eval) fresh(note string) Value {
	e.nsym++
	return Value{K: Unknown, T: fmt.Sprintf("%s#%d", note, e.nsym)}
}

func (e *Eval) call(fn *ssa.Function, args []Value, st *state, depth int) []result {
	return e.callBound(fn, args, nil, st, depth)
}

func (e *Eval) callBound(fn *ssa.Function, args, binds []Value, st *state, depth int) []result {
	if len(fn.Blocks) == 0 {
		return []result{{Outcome{Incomplete: "no body: " + fn.String()}, st}}
	}
	fr := &frame{fn: fn, env: map[ssa.Value]Value{}, visits: map[*ssa.BasicBlock]int{}}
	for i, p := range fn.Params {
		if i < len(args) {
			fr.env[p] = args[i]
		} else {
			fr.env[p] = e.fresh("param " + p.Name())
		}
	}
	for i, fv := range fn.FreeVars {
		if i < len(binds) {
			fr.env[fv] = binds[i]
		} else {
			fr.env[fv] = e.fresh("freevar " + fv.Name())
		}
	}
	return e.block(fr, fn.Blocks[0], nil, 0, st, depth)
}

func (e *Eval) val(fr *frame, v ssa.Value) Value {
	switch x := v.(type) {
	case *ssa.Const:
		if x.Value == nil {
			switch t := x.Type().Underlying().(type) {
			case *types.Basic:
				switch {
				case t.Info()&types.IsBoolean != 0:
					return Bool(false)
				case t.Info()&types.IsString != 0:
					return C(constant.MakeString(""))
				case t.Info()&types.IsNumeric != 0:
					return Int(0)
				}
				return Value{K: Nil}
			case *types.Struct, *types.Array:
				return Value{K: Struct, Fields: map[int]Value{}, T: "zero"}
			}
			return Value{K: Nil}
		}
		return C(x.Value)
	case *ssa.Function:
		return Value{K: NonNil, T: "func " + x.String(), Fn: x}
	case *ssa.Global:
		if e.globals == nil {
			e.globals = map[string]*ssa.Global{}
		}
		e.globals["global "+x.String()] = x
		return Value{K: Ptr, Cell: -1, T: "global " + x.String()}
	case *ssa.Builtin:
		return Value{K: NonNil, T: "builtin " + x.Name()}
	}
	if r, ok := fr.env[v]; ok {
		return r
	}
	return e.fresh(v.Name())
}

func (e *Eval) load(st *state, p Value) Value {
	if p.K == Ptr && p.Cell >= 0 && p.Cell < len(st.cells) {
		v := st.cells[p.Cell]
		for k, i := range p.Path {
			if v.K == List && i >= 0 && i < len(v.Elems) {
				v = v.Elems[i]
				continue
			}
			if v.K != Struct {
				if v.T != "" {
					// a field of a value that is only known as a term
					t := v.T
					for _, j := range p.Path[k:] {
						t += fmt.Sprintf(".f%d", j)
					}
					return Value{K: Unknown, T: t}
				}
				return e.fresh("load of untracked field")
			}
			f, ok := v.Fields[i]
			if !ok {
				if v.T != "" {
					return Value{K: Unknown, T: fmt.Sprintf("%s.f%d", v.T, i)}
				}
				return e.fresh("load of unset field")
			}
			v = f
		}
		return v
	}
	loc := symLoc(p)
	if loc == "" {
		return e.fresh("load of unknown location")
	}
	if v, ok := st.sym[loc]; ok {
		return v
	}
	if v, ok := e.initVals[loc]; ok {
		st.sym[loc] = v
		return v
	}
	if e.Global != nil && e.globals != nil {
		if g, ok := e.globals[p.T]; ok {
			if v, ok := e.Global(g); ok {
				st.sym[loc] = v
				return v
			}
		}
	}
	if v, ok := st.sym[loc]; ok {
		return v
	}
	v := Value{K: Unknown, T: fmt.Sprintf("L(%s)@%d", strings.TrimPrefix(loc, "&"), st.epoch)}
	st.sym[loc] = v
	return v
}

func setPath(v Value, path []int, nv Value) Value {
	if len(path) == 0 {
		return nv
	}
	if v.K == List && path[0] >= 0 && path[0] < len(v.Elems) {
		out := Value{K: List, Elems: append([]Value(nil), v.Elems...)}
		out.Elems[path[0]] = setPath(out.Elems[path[0]], path[1:], nv)
		return out
	}
	out := Value{K: Struct, Fields: map[int]Value{}}
	if v.K == Struct {
		for k, f := range v.Fields {
			out.Fields[k] = f
		}
	}
	out.Fields[path[0]] = setPath(out.Fields[path[0]], path[1:], nv)
	return out
}

func (e *Eval) store(st *state, p Value, nv Value) {
	if p.K == Ptr && p.Cell >= 0 && p.Cell < len(st.cells) {
		st.cells[p.Cell] = setPath(st.cells[p.Cell], p.Path, nv)
		return
	}
	if loc := symLoc(p); loc != "" {
		st.sym[loc] = nv
		st.events = append(st.events, Event{Kind: "store", Loc: strings.TrimPrefix(loc, "&"), Args: []Value{nv}})
	}
}

// symLoc names the untracked location a pointer value refers to ("" if it has no term).
func symLoc(p Value) string {
	switch {
	case p.K == Ptr && p.Cell < 0 && p.T != "":
		return "&" + p.T
	case (p.K == Unknown || p.K == NonNil) && p.T != "":
		return "&*(" + p.T + ")"
	}
	return ""
}

func compare(op token.Token, a, b Value) (Value, bool) {
	if a.K == Const && b.K == Const {
		var out Value
		ok := false
		func() {
			defer func() { _ = recover() }()
			sameKind := a.C.Kind() == b.C.Kind()
			numeric := func(k constant.Kind) bool { return k == constant.Int || k == constant.Float || k == constant.Complex }
			if sameKind || (numeric(a.C.Kind()) && numeric(b.C.Kind())) {
				out, ok = Bool(constant.Compare(a.C, op, b.C)), true
			}
		}()
		return out, ok
	}
	an, ak := a.IsNilKnown()
	bn, bk := b.IsNilKnown()
	if ak && bk && (an || bn) {
		eq := an && bn
		switch op {
		case token.EQL:
			return Bool(eq), true
		case token.NEQ:
			return Bool(!eq), true
		}
	}
	return Value{}, false
}

func (e *Eval) binop(x *ssa.BinOp, a, b Value) Value {
	switch x.Op {
	case token.EQL, token.NEQ, token.LSS, token.LEQ, token.GTR, token.GEQ:
		if v, ok := compare(x.Op, a, b); ok {
			return v
		}
		return Value{K: Unknown, T: fmt.Sprintf("%s(%s,%s)", x.Op, a.Term(), b.Term())}
	}
	if a.K == Const && b.K == Const {
		var res Value
		ok := false
		func() {
			defer func() { _ = recover() }()
			switch x.Op {
			case token.SHL, token.SHR:
				s, isU := constant.Uint64Val(constant.ToInt(b.C))
				if isU {
					res, ok = C(constant.Shift(a.C, x.Op, uint(s))), true
				}
			case token.QUO:
				if bt, isB := x.Type().Underlying().(*types.Basic); isB && bt.Info()&types.IsInteger != 0 {
					res, ok = C(constant.BinaryOp(a.C, token.QUO_ASSIGN, b.C)), true
				} else {
					res, ok = C(constant.BinaryOp(a.C, x.Op, b.C)), true
				}
			default:
				res, ok = C(constant.BinaryOp(a.C, x.Op, b.C)), true
			}
		}()
		if ok {
			return res
		}
	}
	// integer term plus/minus a constant: kept in the normal form base{+k}, so that len(x)-1-1 and len(x)-2 (and
	// last-n for a constant n) are the same term
	if (x.Op == token.ADD || x.Op == token.SUB) && isIntType(x.Type()) {
		if b.K == Const && b.C.Kind() == constant.Int && a.K != Const && a.T != "" {
			if c, ok := constant.Int64Val(b.C); ok {
				if x.Op == token.SUB {
					c = -c
				}
				return Value{K: Unknown, T: affineAdd(a.T, c)}
			}
		}
		if x.Op == token.ADD && a.K == Const && a.C.Kind() == constant.Int && b.K != Const && b.T != "" {
			if c, ok := constant.Int64Val(a.C); ok {
				return Value{K: Unknown, T: affineAdd(b.T, c)}
			}
		}
	}
	return Value{K: Unknown, T: fmt.Sprintf("%s(%s,%s)", x.Op, a.Term(), b.Term())}
}

func isIntType(t types.Type) bool {
	b, ok := t.Underlying().(*types.Basic)
	return ok && b.Info()&types.IsInteger != 0
}

// affineAdd adds a constant to an integer term, keeping the normal form base{+k}.
func affineAdd(t string, c int64) string {
	base, k := t, int64(0)
	if i := strings.LastIndex(t, "{"); i >= 0 && strings.HasSuffix(t, "}") {
		if n, err := strconv.ParseInt(t[i+1:len(t)-1], 10, 64); err == nil {
			base, k = t[:i], n
		}
	}
	k += c
	if k == 0 {
		return base
	}
	return fmt.Sprintf("%s{%+d}", base, k)
}

// nonNilConstructors: standard library functions documented to return a non-nil value.
var nonNilConstructors = map[string]bool{"errors.New": true, "fmt.Errorf": true}

func refKind(t types.Type) bool {
	switch t.Underlying().(type) {
	case *types.Pointer, *types.Slice, *types.Map, *types.Interface, *types.Signature, *types.Chan:
		return true
	}
	return false
}

// block evaluates the instructions of b from index `from`; prev is the predecessor block (for phis).
func (e *Eval) block(fr *frame, b *ssa.BasicBlock, prev *ssa.BasicBlock, from int, st *state, depth int) []result {
	if from == 0 {
		fr.visits[b]++
		if mv := e.MaxVisits; (mv == 0 && fr.visits[b] > 3) || (mv > 0 && fr.visits[b] > mv) {
			return []result{{Outcome{Incomplete: "loop bound in " + fr.fn.Name()}, st}}
		}
		if prev != nil {
			idx := -1
			for i, p := range b.Preds {
				if p == prev {
					idx = i
				}
			}
			vals := map[*ssa.Phi]Value{}
			for _, in := range b.Instrs {
				ph, ok := in.(*ssa.Phi)
				if !ok {
					break
				}
				if idx >= 0 && idx < len(ph.Edges) {
					vals[ph] = e.val(fr, ph.Edges[idx])
				} else {
					vals[ph] = e.fresh("phi")
				}
			}
			for ph, v := range vals {
				fr.env[ph] = v
			}
		}
	}
	for i := from; i < len(b.Instrs); i++ {
		switch x := b.Instrs[i].(type) {
		case *ssa.Phi:
			if prev == nil {
				fr.env[x] = e.fresh("phi at entry")
			}
		case *ssa.DebugRef:
		case *ssa.Alloc:
			st.cells = append(st.cells, e.fresh("fresh cell"))
			if _, isStruct := x.Type().(*types.Pointer).Elem().Underlying().(*types.Struct); isStruct {
				st.cells[len(st.cells)-1] = Value{K: Struct, Fields: map[int]Value{}}
			}
			if ar, isArr := x.Type().(*types.Pointer).Elem().Underlying().(*types.Array); isArr && ar.Len() <= 4096 {
				elems := make([]Value, ar.Len())
				for i := range elems {
					elems[i] = zeroOf(ar.Elem())
				}
				st.cells[len(st.cells)-1] = Value{K: List, Elems: elems}
			}
			fr.env[x] = Value{K: Ptr, Cell: len(st.cells) - 1}
		case *ssa.FieldAddr:
			base := e.val(fr, x.X)
			if base.K == Ptr && base.Cell >= 0 {
				fr.env[x] = Value{K: Ptr, Cell: base.Cell, Path: append(append([]int(nil), base.Path...), x.Field)}
			} else {
				fr.env[x] = Value{K: Ptr, Cell: -1, T: fmt.Sprintf("%s.%s", strings.TrimPrefix(base.Term(), "&"), fieldName(x.X.Type(), x.Field))}
			}
		case *ssa.Field:
			base := e.val(fr, x.X)
			if base.K == Struct {
				if f, ok := base.Fields[x.Field]; ok {
					fr.env[x] = f
					break
				}
			}
			fr.env[x] = Value{K: Unknown, T: fmt.Sprintf("%s.%s", base.Term(), fieldName(x.X.Type(), x.Field))}
		case *ssa.Store:
			e.store(st, e.val(fr, x.Addr), e.val(fr, x.Val))
		case *ssa.UnOp:
			a := e.val(fr, x.X)
			switch x.Op {
			case token.MUL:
				fr.env[x] = e.load(st, a)
			case token.NOT:
				if a.K == Const && a.C.Kind() == constant.Bool {
					fr.env[x] = Bool(!constant.BoolVal(a.C))
				} else {
					fr.env[x] = Value{K: Unknown, T: "!(" + a.Term() + ")"}
				}
			default:
				done := false
				if a.K == Const && (x.Op == token.SUB || x.Op == token.XOR) {
					func() {
						defer func() { _ = recover() }()
						fr.env[x] = C(constant.UnaryOp(x.Op, a.C, 0))
						done = true
					}()
				}
				if !done {
					fr.env[x] = Value{K: Unknown, T: fmt.Sprintf("%s(%s)", x.Op, a.Term())}
				}
			}
		case *ssa.BinOp:
			fr.env[x] = e.binop(x, e.val(fr, x.X), e.val(fr, x.Y))
		case *ssa.ChangeType:
			fr.env[x] = e.val(fr, x.X)
		case *ssa.Convert:
			a := e.val(fr, x.X)
			if a.K == Const {
				if bt, ok := x.Type().Underlying().(*types.Basic); ok && bt.Info()&types.IsInteger != 0 && a.C.Kind() == constant.Int {
					fr.env[x] = a
					break
				}
				if bt, ok := x.Type().Underlying().(*types.Basic); ok && bt.Info()&types.IsString != 0 && a.C.Kind() == constant.String {
					fr.env[x] = a
					break
				}
			}
			fr.env[x] = Value{K: Unknown, T: fmt.Sprintf("conv(%s)", a.Term())}
		case *ssa.ChangeInterface:
			fr.env[x] = e.val(fr, x.X)
		case *ssa.MakeInterface:
			a := e.val(fr, x.X)
			if a.K == Const {
				fr.env[x] = a
			} else {
				fr.env[x] = Value{K: NonNil, T: "iface(" + a.Term() + ")"}
			}
		case *ssa.Extract:
			t := e.val(fr, x.Tuple)
			if t.K == Tuple && x.Index < len(t.Elems) {
				fr.env[x] = t.Elems[x.Index]
			} else {
				fr.env[x] = Value{K: Unknown, T: fmt.Sprintf("%s.%d", t.Term(), x.Index)}
			}
		case *ssa.MakeClosure:
			cl := Value{K: NonNil, T: "closure " + x.Fn.String()}
			if fn, ok := x.Fn.(*ssa.Function); ok {
				cl.Fn = fn
				for _, b := range x.Bindings {
					cl.Elems = append(cl.Elems, e.val(fr, b))
				}
			}
			fr.env[x] = cl
		case *ssa.MakeMap:
			e.nsym++
			st.maps = append(st.maps, map[string]Value{})
			fr.env[x] = Value{K: MapV, Cell: len(st.maps) - 1, T: fmt.Sprintf("make#%d", e.nsym)}
		case *ssa.MakeSlice, *ssa.MakeChan:
			e.nsym++
			fr.env[x.(ssa.Value)] = Value{K: NonNil, T: fmt.Sprintf("make#%d", e.nsym)}
		case *ssa.Slice:
			base := e.val(fr, x.X)
			if base.K == Ptr && base.Cell >= 0 {
				if arr := e.load(st, base); arr.K == List {
					base = arr
				}
			}
			if base.K == List && x.Max == nil {
				l, h, ok := 0, len(base.Elems), true
				if x.Low != nil {
					l, ok = constIndex(e.val(fr, x.Low), len(base.Elems)+1)
				}
				if ok && x.High != nil {
					h, ok = constIndex(e.val(fr, x.High), len(base.Elems)+1)
				}
				if ok && l <= h {
					fr.env[x] = Value{K: List, Elems: append([]Value(nil), base.Elems[l:h]...)}
					break
				}
			}
			if base.K == Const && base.C.Kind() == constant.String && x.Max == nil {
				str := constant.StringVal(base.C)
				l, h, ok := 0, len(str), true
				if x.Low != nil {
					l, ok = constIndex(e.val(fr, x.Low), len(str)+1)
				}
				if ok && x.High != nil {
					h, ok = constIndex(e.val(fr, x.High), len(str)+1)
				}
				if ok && l <= h {
					fr.env[x] = Str(str[l:h])
					break
				}
			}
			lo, hi := "", ""
			if x.Low != nil {
				lo = e.val(fr, x.Low).Term()
			}
			if x.High != nil {
				hi = e.val(fr, x.High).Term()
			}
			fr.env[x] = Value{K: Unknown, T: fmt.Sprintf("slice(%s,%s,%s)", base.Term(), lo, hi)}
		case *ssa.IndexAddr:
			base, idx := e.val(fr, x.X), e.val(fr, x.Index)
			if base.K == Ptr && base.Cell >= 0 {
				// pointer to an array held in a tracked cell: a pointer to the element inside the cell
				if arr := e.load(st, base); arr.K == List {
					if i, ok := constIndex(idx, len(arr.Elems)); ok {
						fr.env[x] = Value{K: Ptr, Cell: base.Cell, Path: append(append([]int(nil), base.Path...), i)}
						break
					}
				}
			}
			if i, ok := constIndex(idx, len(base.Elems)); ok && base.K == List {
				st.cells = append(st.cells, base.Elems[i])
				fr.env[x] = Value{K: Ptr, Cell: len(st.cells) - 1}
				break
			}
			fr.env[x] = Value{K: Ptr, Cell: -1, T: fmt.Sprintf("%s[%s]", strings.TrimPrefix(base.Term(), "&"), idx.Term())}
		case *ssa.Index:
			base, idx := e.val(fr, x.X), e.val(fr, x.Index)
			if i, ok := constIndex(idx, len(base.Elems)); ok && base.K == List {
				fr.env[x] = base.Elems[i]
				break
			}
			if base.K == Const && base.C.Kind() == constant.String {
				str := constant.StringVal(base.C)
				if i, ok := constIndex(idx, len(str)); ok {
					fr.env[x] = Int(int64(str[i]))
					break
				}
			}
			fr.env[x] = Value{K: Unknown, T: fmt.Sprintf("%s[%s]", base.Term(), idx.Term())}
		case *ssa.Lookup:
			m, k := e.val(fr, x.X), e.val(fr, x.Index)
			if m.K == MapV && m.Cell < len(st.maps) && k.K == Const {
				if _, open := st.maps[m.Cell]["\x00open"]; !open {
					v, has := st.maps[m.Cell][k.Term()]
					if !has {
						v = zeroOf(x.X.Type().Underlying().(*types.Map).Elem())
					}
					if x.CommaOk {
						fr.env[x] = Value{K: Tuple, Elems: []Value{v, Bool(has)}}
					} else {
						fr.env[x] = v
					}
					break
				}
			}
			if mt, isMap := x.X.Type().Underlying().(*types.Map); isMap && m.K == Nil {
				// reading a nil map: the zero value, "absent"
				v := zeroOf(mt.Elem())
				if x.CommaOk {
					fr.env[x] = Value{K: Tuple, Elems: []Value{v, Bool(false)}}
				} else {
					fr.env[x] = v
				}
				break
			}
			if m.K == Const && m.C.Kind() == constant.String && !x.CommaOk {
				str := constant.StringVal(m.C)
				if i, ok := constIndex(k, len(str)); ok {
					fr.env[x] = Int(int64(str[i]))
					break
				}
			}
			val := Value{K: Unknown, T: fmt.Sprintf("%s[%s]", m.Term(), k.Term())}
			if x.CommaOk {
				okv := Value{K: Unknown, T: fmt.Sprintf("has(%s,%s)@%d", m.Term(), k.Term(), st.epoch)}
				st.events = append(st.events, Event{Kind: "lookup", Args: []Value{m, k, okv}})
				fr.env[x] = Value{K: Tuple, Elems: []Value{val, okv}}
			} else {
				fr.env[x] = val
			}
		case *ssa.MapUpdate:
			if m, k := e.val(fr, x.Map), e.val(fr, x.Key); m.K == MapV && m.Cell < len(st.maps) {
				if k.K == Const {
					st.maps[m.Cell][k.Term()] = e.val(fr, x.Value)
				} else {
					st.maps[m.Cell]["\x00open"] = Value{}
				}
			}
			st.events = append(st.events, Event{Kind: "mapupdate", Args: []Value{e.val(fr, x.Map), e.val(fr, x.Key), e.val(fr, x.Value)}})
		case *ssa.TypeAssert:
			a := e.val(fr, x.X)
			if x.CommaOk {
				fr.env[x] = Value{K: Tuple, Elems: []Value{{K: Unknown, T: "assert(" + a.Term() + ")"}, {K: Unknown, T: "assertok(" + a.Term() + ")"}}}
			} else {
				fr.env[x] = Value{K: Unknown, T: "assert(" + a.Term() + ")"}
			}
		case *ssa.Call:
			rs := e.doCall(fr, x, st, depth)
			if len(rs) == 1 && rs[0].out.Incomplete == "" && !rs[0].out.Panics {
				st = rs[0].st
				fr.env[x] = tupleOrSingle(rs[0].out.Rets, x)
				continue
			}
			var out []result
			for _, r := range rs {
				if r.out.Incomplete != "" || r.out.Panics {
					out = append(out, r)
					continue
				}
				nf := fr.clone()
				nf.env[x] = tupleOrSingle(r.out.Rets, x)
				out = append(out, e.block(nf, b, prev, i+1, r.st, depth)...)
			}
			return out
		case *ssa.Defer, *ssa.RunDefers, *ssa.Go, *ssa.Send:
		case *ssa.Return:
			var rets []Value
			for _, r := range x.Results {
				rets = append(rets, e.val(fr, r))
			}
			return []result{{Outcome{Rets: rets}, st}}
		case *ssa.Panic:
			return []result{{Outcome{Panics: true}, st}}
		case *ssa.Jump:
			return e.block(fr, b.Succs[0], b, 0, st, depth)
		case *ssa.If:
			cv := e.val(fr, x.Cond)
			if cv.K == Const && cv.C.Kind() == constant.Bool {
				if constant.BoolVal(cv.C) {
					return e.block(fr, b.Succs[0], b, 0, st, depth)
				}
				return e.block(fr, b.Succs[1], b, 0, st, depth)
			}
			// a condition already decided on this path is decided the same way again
			for _, c := range st.conds {
				if c.Term == cv.Term() && cv.Term() != "" {
					if c.Taken {
						return e.block(fr, b.Succs[0], b, 0, st, depth)
					}
					return e.block(fr, b.Succs[1], b, 0, st, depth)
				}
			}
			e.paths++
			if e.paths > e.MaxPaths {
				return []result{{Outcome{Incomplete: "path bound"}, st}}
			}
			f2, s2 := fr.clone(), st.clone()
			st.conds = append(st.conds, Cond{cv.Term(), true})
			s2.conds = append(s2.conds, Cond{cv.Term(), false})
			st.events = append(st.events, Event{Kind: "cond", Fn: "true", Args: []Value{cv}})
			s2.events = append(s2.events, Event{Kind: "cond", Fn: "false", Args: []Value{cv}})
			out := e.block(fr, b.Succs[0], b, 0, st, depth)
			return append(out, e.block(f2, b.Succs[1], b, 0, s2, depth)...)
		default:
			if v, ok := x.(ssa.Value); ok {
				fr.env[v] = e.fresh(fmt.Sprintf("%T", x))
			}
		}
	}
	return []result{{Outcome{Incomplete: "fell off block"}, st}}
}

func fieldName(t types.Type, i int) string {
	if p, ok := t.Underlying().(*types.Pointer); ok {
		t = p.Elem()
	}
	if st, ok := t.Underlying().(*types.Struct); ok && i < st.NumFields() {
		return st.Field(i).Name()
	}
	return fmt.Sprint(i)
}

func tupleOrSingle(rets []Value, call *ssa.Call) Value {
	if tup, ok := call.Type().(*types.Tuple); ok && tup.Len() != 1 {
		return Value{K: Tuple, Elems: rets}
	}
	if len(rets) == 1 {
		return rets[0]
	}
	return Value{K: Tuple, Elems: rets}
}

func (e *Eval) unknownResults(call *ssa.Call, term string) []Value {
	if tup, ok := call.Type().(*types.Tuple); ok {
		out := make([]Value, tup.Len())
		for i := range out {
			out[i] = Value{K: Unknown, T: fmt.Sprintf("%s.%d", term, i)}
		}
		return out
	}
	return []Value{{K: Unknown, T: term}}
}

func (e *Eval) doCall(fr *frame, x *ssa.Call, st *state, depth int) []result {
	var args []Value
	for _, a := range x.Call.Args {
		args = append(args, e.val(fr, a))
	}
	argTerms := func() string {
		var a []string
		for _, v := range args {
			a = append(a, v.Term())
		}
		return strings.Join(a, ",")
	}
	// builtins
	if b, ok := x.Call.Value.(*ssa.Builtin); ok {
		switch b.Name() {
		case "len", "cap":
			if len(args) == 1 {
				switch {
				case args[0].K == Nil:
					return []result{{Outcome{Rets: []Value{Int(0)}}, st}}
				case args[0].K == List:
					return []result{{Outcome{Rets: []Value{Int(int64(len(args[0].Elems)))}}, st}}
				case args[0].K == MapV && args[0].Cell < len(st.maps):
					if _, open := st.maps[args[0].Cell]["\x00open"]; !open {
						return []result{{Outcome{Rets: []Value{Int(int64(len(st.maps[args[0].Cell])))}}, st}}
					}
				case args[0].K == Const && args[0].C.Kind() == constant.String:
					return []result{{Outcome{Rets: []Value{Int(int64(len(constant.StringVal(args[0].C))))}}, st}}
				}
			}
			return []result{{Outcome{Rets: []Value{{K: Unknown, T: fmt.Sprintf("%s(%s)", b.Name(), argTerms())}}}, st}}
		case "append":
			return []result{{Outcome{Rets: []Value{{K: NonNil, T: fmt.Sprintf("append(%s)", argTerms())}}}, st}}
		case "delete":
			st.events = append(st.events, Event{Kind: "delete", Args: args})
			return []result{{Outcome{Rets: nil}, st}}
		}
		return []result{{Outcome{Rets: e.unknownResults(x, fmt.Sprintf("%s(%s)", b.Name(), argTerms()))}, st}}
	}
	callee := x.Call.StaticCallee()
	if callee == nil {
		// interface method or function value: anything may happen to the untracked objects
		// a closure (or function value) whose function is known: evaluated like a static call, with its bindings
		if !x.Call.IsInvoke() {
			if fv := e.val(fr, x.Call.Value); fv.Fn != nil && depth < e.MaxDepth && (e.Follow == nil || e.Follow(fv.Fn)) {
				return e.callBound(fv.Fn, args, fv.Elems, st, depth+1)
			}
		}
		name := "dynamic"
		if x.Call.IsInvoke() {
			name = "invoke " + x.Call.Method.Name()
			args = append([]Value{e.val(fr, x.Call.Value)}, args...)
		}
		t := fmt.Sprintf("%s(%s)@%d", name, argTerms(), st.epoch)
		st.havoc()
		return []result{{Outcome{Rets: e.unknownResults(x, t)}, st}}
	}
	if e.WantCall != nil && e.WantCall(callee) {
		ev := Event{Kind: "call", Fn: callee.String(), Args: args}
		// what the tracked pointer arguments point to at the time of the call
		for _, a := range args {
			if a.K == Ptr && a.Cell >= 0 {
				ev.Deref = append(ev.Deref, e.load(st, a))
			} else {
				ev.Deref = append(ev.Deref, Value{})
			}
		}
		st.events = append(st.events, ev)
	}
	if e.Oracle != nil {
		if res, ok := e.Oracle(callee, args); ok {
			if res.K == Tuple {
				return []result{{Outcome{Rets: res.Elems}, st}}
			}
			return []result{{Outcome{Rets: []Value{res}}, st}}
		}
	}
	// (*sync.Once).Do(f): the once-only initialiser is evaluated in place (the model is "it runs now": what it
	// builds is what later code sees)
	if callee.String() == "(*sync.Once).Do" && len(args) == 2 && args[1].Fn != nil && depth < e.MaxDepth {
		var out []result
		for _, r := range e.callBound(args[1].Fn, nil, args[1].Elems, st, depth+1) {
			if r.out.Incomplete == "" && !r.out.Panics {
				r.out.Rets = nil
			}
			out = append(out, r)
		}
		return out
	}
	if res, ok := foldPure(callee.String(), args); ok {
		return []result{{Outcome{Rets: res}, st}}
	}
	if len(callee.Blocks) == 0 || depth >= e.MaxDepth || (e.Follow != nil && !e.Follow(callee)) {
		// an uninterpreted function of its arguments (and of the state of the heap: the epoch)
		t := fmt.Sprintf("%s(%s)@%d", callee.String(), argTerms(), st.epoch)
		if nonNilConstructors[callee.String()] {
			return []result{{Outcome{Rets: []Value{{K: NonNil, T: t}}}, st}}
		}
		// a callee that is handed a reference may change what it refers to
		for _, a := range x.Call.Args {
			if refKind(a.Type()) {
				if _, isConst := a.(*ssa.Const); !isConst {
					st.havoc()
					break
				}
			}
		}
		return []result{{Outcome{Rets: e.unknownResults(x, t)}, st}}
	}
	return e.call(callee, args, st, depth+1)
}

func constIndex(v Value, n int) (int, bool) {
	if v.K != Const || v.C.Kind() != constant.Int {
		return 0, false
	}
	i, ok := constant.Int64Val(v.C)
	if !ok || i < 0 || int(i) >= n {
		return 0, false
	}
	return int(i), true
}

// foldPure folds calls of a few pure standard-library functions whose arguments are all constants.
func foldPure(name string, args []Value) ([]Value, bool) {
	if name == "strconv.Itoa" && len(args) == 1 && args[0].K == Const && args[0].C.Kind() == constant.Int {
		if n, ok := constant.Int64Val(args[0].C); ok {
			return []Value{Str(strconv.FormatInt(n, 10))}, true
		}
	}
	strs := make([]string, len(args))
	for i, a := range args {
		if a.K != Const || a.C.Kind() != constant.String {
			return nil, false
		}
		strs[i] = constant.StringVal(a.C)
	}
	switch name {
	case "strings.HasPrefix":
		if len(strs) == 2 {
			return []Value{Bool(strings.HasPrefix(strs[0], strs[1]))}, true
		}
	case "strings.HasSuffix":
		if len(strs) == 2 {
			return []Value{Bool(strings.HasSuffix(strs[0], strs[1]))}, true
		}
	case "strings.Contains":
		if len(strs) == 2 {
			return []Value{Bool(strings.Contains(strs[0], strs[1]))}, true
		}
	case "strings.Index":
		if len(strs) == 2 {
			return []Value{Int(int64(strings.Index(strs[0], strs[1])))}, true
		}
	case "strings.TrimSpace":
		if len(strs) == 1 {
			return []Value{Str(strings.TrimSpace(strs[0]))}, true
		}
	case "strconv.Atoi":
		if len(strs) == 1 {
			n, err := strconv.Atoi(strs[0])
			if err != nil {
				return []Value{Int(0), {K: NonNil, T: "strconv error"}}, true
			}
			return []Value{Int(int64(n)), {K: Nil}}, true
		}
	}
	return nil, false
}

// zeroOf: the zero value of a type.
func zeroOf(t types.Type) Value {
	switch u := t.Underlying().(type) {
	case *types.Basic:
		switch {
		case u.Info()&types.IsBoolean != 0:
			return Bool(false)
		case u.Info()&types.IsString != 0:
			return Str("")
		case u.Info()&types.IsNumeric != 0:
			return Int(0)
		}
	case *types.Struct:
		return Value{K: Struct, Fields: map[int]Value{}, T: "zero"}
	case *types.Array:
		if u.Len() <= 4096 {
			el := make([]Value, u.Len())
			for i := range el {
				el[i] = zeroOf(u.Elem())
			}
			return Value{K: List, Elems: el}
		}
	}
	return Value{K: Nil}
}

// Inits evaluates the initialiser of a package (its synthetic init function: the package-level variables with their
// literals, and the init functions of the source) and remembers what the package-level variables hold afterwards, so
// that later evaluations see the tables of the program (spelling tables, keyword maps) as known values. Variables
// whose value is not the same on every path of the initialiser stay unknown.
func (e *Eval) Inits(pkg *ssa.Package) {
	init := pkg.Func("init")
	if init == nil || len(init.Blocks) == 0 {
		return
	}
	sub := &Eval{MaxDepth: 3, MaxPaths: 64, MaxVisits: 5000}
	sub.Follow = func(fn *ssa.Function) bool {
		return fn.Pkg == pkg && fn.Name() != "init" || fn.Pkg == pkg && strings.HasPrefix(fn.Name(), "init#")
	}
	sub.Global = func(g *ssa.Global) (Value, bool) {
		if g.Name() == "init$guard" {
			return Bool(false), true
		}
		return Value{}, false
	}
	rs := sub.call(init, nil, &state{sym: map[string]Value{}}, 0)
	if len(rs) != 1 || rs[0].out.Incomplete != "" || rs[0].out.Panics {
		return
	}
	st := rs[0].st
	if e.initVals == nil {
		e.initVals = map[string]Value{}
	}
	for loc, v := range st.sym {
		if strings.HasPrefix(loc, "&global ") {
			// maps are kept by value: their entries are copied into the seed state of later runs
			e.initVals[loc] = v
		}
	}
	e.initMaps = append([]map[string]Value(nil), st.maps...)
	e.initCells = append([]Value(nil), st.cells...)
}
