package rules

import (
	"fmt"
	"os"
	"strings"

	"golang.org/x/tools/go/ssa"

	"jsverif/internal/ssaeval"
)

// dump "eval": JSVERIF_EVAL="scanner:Stack.Push" prints the outcomes of the abstract evaluation of one function with
// symbolic arguments (debugging aid for the rules built on internal/ssaeval).
func init() {
	dumpers["eval"] = func(c *Ctx) {
		spec := os.Getenv("JSVERIF_EVAL")
		parts := strings.SplitN(spec, ":", 2)
		if len(parts) != 2 {
			fmt.Println("set JSVERIF_EVAL=pkg:Func")
			return
		}
		f := c.P.LookupFunc(parts[0], parts[1])
		if f == nil {
			fmt.Println("not found")
			return
		}
		sf := c.P.SSAFunc(f)
		var args []ssaeval.Value
		for _, p := range sf.Params {
			args = append(args, ssaeval.Obj(p.Name()))
		}
		ev := &ssaeval.Eval{MaxDepth: 4, MaxPaths: 200}
		if want := os.Getenv("JSVERIF_EVAL_CALLS"); want != "" {
			ev.WantCall = func(fn *ssa.Function) bool { return strings.Contains(fn.String(), want) }
		}
		if op := os.Getenv("JSVERIF_EVAL_OPAQUE"); op != "" {
			// functions whose names contain one of the comma-separated substrings are not followed
			ev.Follow = func(fn *ssa.Function) bool {
				if !inModule(fn) {
					return false
				}
				for _, s := range strings.Split(op, ",") {
					if strings.Contains(fn.String(), s) {
						return false
					}
				}
				return true
			}
		}
		for i, o := range ev.Run(sf, args) {
			fmt.Printf("--- path %d  incomplete=%q panics=%v\n", i, o.Incomplete, o.Panics)
			for _, cd := range o.Conds {
				fmt.Printf("   cond %v: %s\n", cd.Taken, cd.Term)
			}
			for _, e := range o.Events {
				fmt.Printf("   %s\n", e)
			}
			fmt.Printf("   returns %v\n", o.Rets)
		}
	}
}
