package rules

// Engine E2: the language tables of package directive, read from the source as
// typed literals and cross-checked against each other and a frozen reference.

import (
	"encoding/json"
	"fmt"
	"go/ast"
	"go/constant"
	"go/token"
	"go/types"
	"jsverif/internal/ssaeval"
	"os"
	"path/filepath"
	"sort"
	"strconv"
	"strings"

	"golang.org/x/tools/go/packages"
)

type Tables struct {
	Consts     map[string]int64 // Enumeration constant name -> value
	ByValue    map[int64]string
	SS         []string // spelling table
	Root       map[string]bool
	Children   map[string]map[string]bool // parent -> allowed children
	HTTPMethod map[string]bool
	RespConst  string // the constant excluded from the spelling lookup (HTTPResponseCode)
	RespLo     int64
	RespHi     int64
	Problems   []string
	pkg        *packages.Package
	enumT      types.Type
}

func (t *Tables) problem(f string, a ...any) { t.Problems = append(t.Problems, fmt.Sprintf(f, a...)) }

func (c *Ctx) Tables() *Tables {
	pk := c.P.Pkg("directive")
	t := &Tables{Consts: map[string]int64{}, ByValue: map[int64]string{}, Root: map[string]bool{}, Children: map[string]map[string]bool{},
		HTTPMethod: map[string]bool{}, pkg: pk}
	if pk == nil {
		t.problem("package directive not loaded")
		return t
	}
	scope := pk.Types.Scope()
	tn, _ := scope.Lookup("Enumeration").(*types.TypeName)
	if tn == nil {
		t.problem("type directive.Enumeration not found")
		return t
	}
	t.enumT = tn.Type()
	for _, n := range scope.Names() {
		if k, ok := scope.Lookup(n).(*types.Const); ok && types.Identical(k.Type(), tn.Type()) {
			v, _ := constant.Int64Val(k.Val())
			t.Consts[n] = v
			if o, dup := t.ByValue[v]; dup {
				t.problem("constants %s and %s share value %d", o, n, v)
			}
			t.ByValue[v] = n
		}
	}
	// spelling table: the []string package variable indexed by Enumeration.String()
	strM := methodOf(pk, tn.Type(), "String")
	var ssVar *types.Var
	if d := c.P.Decl(strM); d != nil {
		ast.Inspect(d.Body, func(n ast.Node) bool {
			if ix, ok := n.(*ast.IndexExpr); ok {
				if id, ok := ast.Unparen(ix.X).(*ast.Ident); ok {
					if v, ok := pk.TypesInfo.Uses[id].(*types.Var); ok && v.Parent() == scope {
						ssVar = v
					}
				}
			}
			return true
		})
	}
	if ssVar == nil {
		t.problem("cannot find the spelling table used by Enumeration.String()")
		return t
	}
	lit := varInitializer(pk, ssVar)
	cl, _ := lit.(*ast.CompositeLit)
	if cl == nil {
		t.problem("spelling table is not a composite literal")
		return t
	}
	for _, e := range cl.Elts {
		tv := pk.TypesInfo.Types[e]
		if tv.Value == nil || tv.Value.Kind() != constant.String {
			t.problem("non-constant entry in spelling table")
			return t
		}
		t.SS = append(t.SS, constant.StringVal(tv.Value))
	}
	// predicates evaluated per constant
	for name, v := range t.Consts {
		if r, ok := c.enumPredicate(pk, methodOf(pk, tn.Type(), "IsAllowedForRootContext"), v); ok {
			if r {
				t.Root[name] = true
			}
		} else {
			t.problem("cannot evaluate IsAllowedForRootContext for %s", name)
		}
		if r, ok := c.enumPredicate(pk, methodOf(pk, tn.Type(), "IsHTTPRequestMethod"), v); ok {
			if r {
				t.HTTPMethod[name] = true
			}
		} else {
			t.problem("cannot evaluate IsHTTPRequestMethod for %s", name)
		}
	}
	// relation: the package-level map read by IsAllowedForDirectiveContext
	var relVar *types.Var
	if d := c.P.Decl(methodOf(pk, tn.Type(), "IsAllowedForDirectiveContext")); d != nil {
		ast.Inspect(d.Body, func(n ast.Node) bool {
			if ix, ok := n.(*ast.IndexExpr); ok {
				if id, ok := ast.Unparen(ix.X).(*ast.Ident); ok {
					if v, ok := pk.TypesInfo.Uses[id].(*types.Var); ok && v.Parent() == scope {
						if _, isMap := v.Type().Underlying().(*types.Map); isMap {
							relVar = v
						}
					}
				}
			}
			return true
		})
	}
	if relVar == nil {
		t.problem("cannot find the context table read by IsAllowedForDirectiveContext")
		return t
	}
	rl, _ := varInitializer(pk, relVar).(*ast.CompositeLit)
	if rl == nil {
		t.problem("context table is not a composite literal")
		return t
	}
	constName := func(e ast.Expr) string {
		tv := pk.TypesInfo.Types[e]
		if tv.Value == nil {
			return ""
		}
		v, ok := constant.Int64Val(tv.Value)
		if !ok {
			return ""
		}
		return t.ByValue[v]
	}
	for _, e := range rl.Elts {
		kv, ok := e.(*ast.KeyValueExpr)
		if !ok {
			t.problem("context table entry without key")
			continue
		}
		parent := constName(kv.Key)
		if parent == "" {
			t.problem("context table key is not an Enumeration constant")
			continue
		}
		if t.Children[parent] != nil {
			t.problem("duplicate context table key %s", parent)
		}
		set := map[string]bool{}
		t.Children[parent] = set
		switch v := ast.Unparen(kv.Value).(type) {
		case *ast.CallExpr:
			callee, _ := pk.TypesInfo.Uses[calleeIdent(v)].(*types.Func)
			if callee == nil || !isSetBuilder(pk, c.P.Decl(callee)) {
				t.problem("context table value for %s is not built by a recognised set constructor", parent)
				continue
			}
			for _, a := range v.Args {
				n := constName(a)
				if n == "" {
					t.problem("context table child of %s is not a constant", parent)
					continue
				}
				set[n] = true
			}
		case *ast.CompositeLit:
			for _, el := range v.Elts {
				if kv2, ok := el.(*ast.KeyValueExpr); ok {
					if n := constName(kv2.Key); n != "" {
						set[n] = true
						continue
					}
				}
				t.problem("context table child of %s is not a constant", parent)
			}
		default:
			t.problem("context table value for %s has an unsupported form", parent)
		}
	}
	// response code range and the excluded constant
	if f, ok := scope.Lookup("isHTTPResponseCode").(*types.Func); ok {
		if d := c.P.Decl(f); d != nil {
			ast.Inspect(d.Body, func(n ast.Node) bool {
				be, ok := n.(*ast.BinaryExpr)
				if !ok {
					return true
				}
				if tv := pk.TypesInfo.Types[be.Y]; tv.Value != nil {
					v, _ := constant.Int64Val(tv.Value)
					switch be.Op {
					case token.GEQ:
						t.RespLo = v
					case token.GTR:
						t.RespLo = v + 1
					case token.LEQ:
						t.RespHi = v
					case token.LSS:
						t.RespHi = v - 1
					}
				}
				return true
			})
		}
	}
	if t.RespLo == 0 || t.RespHi == 0 {
		// not the form `code >= lo && code <= hi`: fold the predicate on every code from 0 to 1100 and take the
		// (single, contiguous) range on which it is true
		if lo, hi, ok := c.foldResponseRange(); ok {
			t.RespLo, t.RespHi = lo, hi
		}
	}
	if t.RespLo == 0 || t.RespHi == 0 {
		t.problem("cannot read the response code range from isHTTPResponseCode")
	}
	// the constant excluded by NewDirectiveType (compared with != inside its table-building loop)
	if f, ok := scope.Lookup("NewDirectiveType").(*types.Func); ok {
		if d := c.P.Decl(f); d != nil {
			ast.Inspect(d.Body, func(n ast.Node) bool {
				if be, ok := n.(*ast.BinaryExpr); ok && be.Op == token.NEQ {
					if n := constName(be.Y); n != "" {
						t.RespConst = n
					}
				}
				return true
			})
		}
	}
	// independent of how the table-building loop is written: fold NewDirectiveType on every spelling; the constant
	// whose spelling does not come back as its own kind is the one kept out of the keyword table
	if ex := c.foldExcludedKind(t); ex != "" {
		t.RespConst = ex
	}
	if t.RespConst == "" {
		t.problem("cannot find the constant excluded from the keyword table in NewDirectiveType")
	}
	return t
}

// directiveEval: an evaluator that knows the package-level tables of package directive as its initialiser leaves them.
func (c *Ctx) directiveEval(maxVisits int) *ssaeval.Eval {
	ev := &ssaeval.Eval{MaxDepth: 6, MaxPaths: 64, MaxVisits: maxVisits}
	ev.Follow = inModule
	if dp := c.P.Pkg("directive"); dp != nil {
		c.P.BuildSSA()
		if sp := c.P.SSAPkgs[dp.Types]; sp != nil {
			ev.Inits(sp)
		}
	}
	return ev
}

// foldExcludedKind: the Enumeration constant for which NewDirectiveType(<its spelling>) does not fold to that constant.
func (c *Ctx) foldExcludedKind(t *Tables) string {
	f := c.P.LookupFunc("directive", "NewDirectiveType")
	if f == nil || len(t.SS) == 0 {
		return ""
	}
	sf := c.P.SSAFunc(f)
	if sf == nil || len(sf.Params) != 1 {
		return ""
	}
	ev := c.directiveEval(2000)
	var excluded []string
	for name, v := range t.Consts {
		if int(v) >= len(t.SS) {
			continue
		}
		same := false
		outs := ev.Run(sf, []ssaeval.Value{ssaeval.Str(t.SS[v])})
		for _, o := range outs {
			if o.Incomplete != "" || o.Panics || len(o.Rets) != 2 {
				return ""
			}
			if isNil, known := o.Rets[1].IsNilKnown(); known && isNil && o.Rets[0].K == ssaeval.Const {
				if n, ok := constant.Int64Val(constant.ToInt(o.Rets[0].C)); ok && n == v {
					same = true
				}
			}
		}
		if !same {
			excluded = append(excluded, name)
		}
	}
	if len(excluded) == 1 {
		return excluded[0]
	}
	return ""
}

// foldResponseRange folds directive.isHTTPResponseCode on 0..1100.
func (c *Ctx) foldResponseRange() (lo, hi int64, ok bool) {
	f := c.P.LookupFunc("directive", "isHTTPResponseCode")
	if f == nil {
		return 0, 0, false
	}
	sf := c.P.SSAFunc(f)
	if sf == nil || len(sf.Params) != 1 {
		return 0, 0, false
	}
	ev := c.directiveEval(50)
	lo, hi = -1, -1
	closed := false
	for n := int64(0); n <= 1100; n++ {
		outs := ev.Run(sf, []ssaeval.Value{ssaeval.Int(n)})
		if len(outs) != 1 || outs[0].Incomplete != "" || len(outs[0].Rets) != 1 || outs[0].Rets[0].K != ssaeval.Const {
			return 0, 0, false
		}
		yes := constant.BoolVal(outs[0].Rets[0].C)
		switch {
		case yes && lo < 0:
			lo = n
		case yes && closed:
			return 0, 0, false // not one contiguous range
		case !yes && lo >= 0 && !closed:
			hi, closed = n-1, true
		}
	}
	return lo, hi, lo > 0 && closed
}

func methodOf(pk *packages.Package, t types.Type, name string) *types.Func {
	obj, _, _ := types.LookupFieldOrMethod(types.NewPointer(t), true, pk.Types, name)
	f, _ := obj.(*types.Func)
	return f
}

func calleeIdent(call *ast.CallExpr) *ast.Ident {
	switch f := ast.Unparen(call.Fun).(type) {
	case *ast.Ident:
		return f
	case *ast.SelectorExpr:
		return f.Sel
	}
	return nil
}

// varInitializer returns the initializer expression of a package-level variable.
func varInitializer(pk *packages.Package, v *types.Var) ast.Expr {
	for _, f := range pk.Syntax {
		for _, d := range f.Decls {
			gd, ok := d.(*ast.GenDecl)
			if !ok || gd.Tok != token.VAR {
				continue
			}
			for _, sp := range gd.Specs {
				vs := sp.(*ast.ValueSpec)
				for i, n := range vs.Names {
					if pk.TypesInfo.Defs[n] == v && i < len(vs.Values) {
						return vs.Values[i]
					}
				}
			}
		}
	}
	return nil
}

// isSetBuilder: func f(xs ...T) map[T]struct{} whose body stores res[x] for every x ranged over xs and returns res.
func isSetBuilder(pk *packages.Package, d *ast.FuncDecl) bool {
	if d == nil || d.Body == nil || d.Type.Params == nil || len(d.Type.Params.List) != 1 {
		return false
	}
	if _, ok := d.Type.Params.List[0].Type.(*ast.Ellipsis); !ok || len(d.Type.Params.List[0].Names) != 1 {
		return false
	}
	param := pk.TypesInfo.Defs[d.Type.Params.List[0].Names[0]]
	ok := false
	ast.Inspect(d.Body, func(n ast.Node) bool {
		rs, isR := n.(*ast.RangeStmt)
		if !isR {
			return true
		}
		if id, isId := ast.Unparen(rs.X).(*ast.Ident); !isId || pk.TypesInfo.Uses[id] != param {
			return true
		}
		val, _ := rs.Value.(*ast.Ident)
		if val == nil {
			return true
		}
		vobj := pk.TypesInfo.Defs[val]
		for _, s := range rs.Body.List {
			if as, isA := s.(*ast.AssignStmt); isA && len(as.Lhs) == 1 {
				if ix, isIx := as.Lhs[0].(*ast.IndexExpr); isIx {
					if kid, isK := ast.Unparen(ix.Index).(*ast.Ident); isK && pk.TypesInfo.Uses[kid] == vobj {
						ok = true
					}
				}
			}
		}
		return true
	})
	return ok
}

// evalEnumPredicate evaluates `func (de T) P() bool { switch de { case A, B: return true; default: return false } }`
// (also if/return forms over ==) for a constant receiver value.
// enumPredicate evaluates a predicate method of the enumeration on one constant: the direct reading of its switch or
// comparison, and -- when the body has another form (a test of another predicate first, an if chain, a helper) -- the
// abstract run of the small constant evaluator with the receiver bound.
func (c *Ctx) enumPredicate(pk *packages.Package, m *types.Func, v int64) (res, ok bool) {
	if m == nil {
		return false, false
	}
	if r, ok := evalEnumPredicate(pk, c.P.Decl(m), v); ok {
		return r, true
	}
	f := c.fnOf(m)
	if f == nil || f.Decl.Recv == nil || len(f.Decl.Recv.List) != 1 || len(f.Decl.Recv.List[0].Names) != 1 {
		return false, false
	}
	env := &constEnv{c: c, vars: map[types.Object]constant.Value{pk.TypesInfo.Defs[f.Decl.Recv.List[0].Names[0]]: constant.MakeInt64(v)}}
	outs := map[string]bool{}
	env.evalBody(f, f.Decl.Body.List, outs, 0)
	if len(outs) == 1 {
		if outs["true"] {
			return true, true
		}
		if outs["false"] {
			return false, true
		}
	}
	return false, false
}

func evalEnumPredicate(pk *packages.Package, d *ast.FuncDecl, v int64) (res, ok bool) {
	if d == nil || d.Body == nil || d.Recv == nil || len(d.Recv.List) != 1 || len(d.Recv.List[0].Names) != 1 {
		return false, false
	}
	recv := pk.TypesInfo.Defs[d.Recv.List[0].Names[0]]
	cval := func(e ast.Expr) (int64, bool) {
		if tv := pk.TypesInfo.Types[e]; tv.Value != nil {
			return constant.Int64Val(constant.ToInt(tv.Value))
		}
		return 0, false
	}
	isRecv := func(e ast.Expr) bool {
		id, ok := ast.Unparen(e).(*ast.Ident)
		return ok && pk.TypesInfo.Uses[id] == recv
	}
	var evalBool func(e ast.Expr) (bool, bool)
	evalBool = func(e ast.Expr) (bool, bool) {
		if tv := pk.TypesInfo.Types[e]; tv.Value != nil && tv.Value.Kind() == constant.Bool {
			return constant.BoolVal(tv.Value), true
		}
		switch x := ast.Unparen(e).(type) {
		case *ast.BinaryExpr:
			switch x.Op {
			case token.EQL, token.NEQ:
				var k int64
				var okk bool
				if isRecv(x.X) {
					k, okk = cval(x.Y)
				} else if isRecv(x.Y) {
					k, okk = cval(x.X)
				}
				if !okk {
					return false, false
				}
				return (k == v) == (x.Op == token.EQL), true
			case token.LOR, token.LAND:
				a, ok1 := evalBool(x.X)
				b, ok2 := evalBool(x.Y)
				if !ok1 || !ok2 {
					return false, false
				}
				if x.Op == token.LOR {
					return a || b, true
				}
				return a && b, true
			}
		case *ast.UnaryExpr:
			if x.Op == token.NOT {
				a, ok1 := evalBool(x.X)
				return !a, ok1
			}
		}
		return false, false
	}
	var run func(list []ast.Stmt) (bool, bool, bool) // result, returned, ok
	run = func(list []ast.Stmt) (bool, bool, bool) {
		for _, s := range list {
			switch x := s.(type) {
			case *ast.ReturnStmt:
				if len(x.Results) != 1 {
					return false, false, false
				}
				b, ok := evalBool(x.Results[0])
				return b, true, ok
			case *ast.SwitchStmt:
				if x.Tag == nil || !isRecv(x.Tag) || x.Init != nil {
					return false, false, false
				}
				var def *ast.CaseClause
				matched := false
				for _, cs := range x.Body.List {
					cc := cs.(*ast.CaseClause)
					if cc.List == nil {
						def = cc
						continue
					}
					for _, e := range cc.List {
						k, ok := cval(e)
						if !ok {
							return false, false, false
						}
						if k == v {
							matched = true
						}
					}
					if matched {
						r, ret, ok := run(cc.Body)
						if !ok {
							return false, false, false
						}
						if ret {
							return r, true, true
						}
						break
					}
				}
				if !matched && def != nil {
					r, ret, ok := run(def.Body)
					if !ok {
						return false, false, false
					}
					if ret {
						return r, true, true
					}
				}
			case *ast.IfStmt:
				if x.Init != nil {
					return false, false, false
				}
				b, ok := evalBool(x.Cond)
				if !ok {
					return false, false, false
				}
				if b {
					r, ret, ok := run(x.Body.List)
					if !ok || ret {
						return r, ret, ok
					}
				} else if x.Else != nil {
					var list []ast.Stmt
					if bl, isB := x.Else.(*ast.BlockStmt); isB {
						list = bl.List
					} else {
						list = []ast.Stmt{x.Else}
					}
					r, ret, ok := run(list)
					if !ok || ret {
						return r, ret, ok
					}
				}
			default:
				return false, false, false
			}
		}
		return false, false, true
	}
	r, ret, ok2 := run(d.Body.List)
	return r, ok2 && ret
}

// ---------- reference table ----------

type ContextRef struct {
	Comment  string              `json:"_comment"`
	Kinds    map[string]string   `json:"kinds"` // constant -> spelling
	Root     []string            `json:"root"`
	Children map[string][]string `json:"children"`
	Methods  []string            `json:"http_methods"`
}

func loadContextRef() (*ContextRef, error) {
	dir := os.Getenv("VERIF_DIR")
	if dir == "" {
		dir = "/verif"
	}
	b, err := os.ReadFile(filepath.Join(dir, "tools", "reference", "context_table.json"))
	if err != nil {
		return nil, err
	}
	var r ContextRef
	if err := json.Unmarshal(b, &r); err != nil {
		return nil, err
	}
	return &r, nil
}

func sortedKeys(m map[string]bool) []string {
	var out []string
	for k, v := range m {
		if v {
			out = append(out, k)
		}
	}
	sort.Strings(out)
	return out
}

// DumpContextRef prints the current tables in reference format (used once to create the reference).
func (t *Tables) DumpContextRef() string {
	r := ContextRef{Kinds: map[string]string{}, Children: map[string][]string{}}
	for n, v := range t.Consts {
		if int(v) < len(t.SS) {
			r.Kinds[n] = t.SS[v]
		}
	}
	r.Root = sortedKeys(t.Root)
	r.Methods = sortedKeys(t.HTTPMethod)
	for p, cs := range t.Children {
		r.Children[p] = sortedKeys(cs)
	}
	b, _ := json.MarshalIndent(r, "", " ")
	return string(b)
}

func (t *Tables) KeywordSet() (words map[string]string) {
	words = map[string]string{}
	for n, v := range t.Consts {
		if n == t.RespConst || int(v) >= len(t.SS) {
			continue
		}
		words[t.SS[v]] = n
	}
	return
}

func itoa(i int64) string { return strconv.FormatInt(i, 10) }

var _ = strings.TrimSpace

// ruleAccessorFaithful: the rules that speak about "what may stand where" read the relation from the literal of the
// context table. The code asks the accessor. Fold the accessor (E8, on the evaluated package initialiser) for every
// pair of directive kinds and compare: a shortcut, an extra test or a swapped argument in the accessor changes the
// relation that is enforced without changing the table.
func (c *Ctx) ruleAccessorFaithful(rule string) {
	r := c.R
	r.Rule(rule, "for every pair (context kind, directive kind) of the enumeration, Enumeration.IsAllowedForDirectiveContext folds (abstract evaluation of the function on constants, package initialiser evaluated) to exactly the membership in the context table literal, and IsAllowedForRootContext to the root set: the accessors add nothing to and take nothing from the tables", 2)
	t := c.Tables()
	if len(t.Problems) > 0 {
		r.Undecided(rule, "tables", "directive tables not readable", "")
		return
	}
	f := c.P.LookupFunc("directive", "Enumeration.IsAllowedForDirectiveContext")
	if f == nil {
		r.Undecided(rule, "anchor", "Enumeration.IsAllowedForDirectiveContext not found", "")
		return
	}
	sf := c.P.SSAFunc(f)
	if sf == nil || len(sf.Params) != 2 {
		r.Undecided(rule, "anchor", "no SSA form of the accessor", "")
		return
	}
	ev := c.directiveEval(400)
	var names []string
	for n := range t.Consts {
		names = append(names, n)
	}
	sort.Strings(names)
	var diffs []string
	undecided := ""
	for _, p := range names {
		for _, ch := range names {
			outs := ev.Run(sf, []ssaeval.Value{ssaeval.Int(t.Consts[p]), ssaeval.Int(t.Consts[ch])})
			want := t.Children[p][ch]
			for _, o := range outs {
				if o.Incomplete != "" || o.Panics || len(o.Rets) != 1 || o.Rets[0].K != ssaeval.Const {
					undecided = fmt.Sprintf("(%s, %s): %s", p, ch, o.Incomplete)
					continue
				}
				if got := constant.BoolVal(o.Rets[0].C); got != want {
					diffs = append(diffs, fmt.Sprintf("%s in %s: table %v, accessor %v", ch, p, want, got))
				}
			}
			if len(outs) == 0 {
				undecided = fmt.Sprintf("(%s, %s): no outcome", p, ch)
			}
		}
	}
	pos := c.pos(c.P.Decl(f).Pos())
	switch {
	case len(diffs) > 0:
		if len(diffs) > 6 {
			diffs = append(diffs[:6], fmt.Sprintf("... %d more", len(diffs)-6))
		}
		r.Bad(rule, "IsAllowedForDirectiveContext", "the accessor does not answer what the context table says: "+strings.Join(diffs, "; "), pos)
	case undecided != "":
		r.Undecided(rule, "IsAllowedForDirectiveContext", "the accessor could not be folded for "+undecided, pos)
	default:
		r.Ok(rule, "IsAllowedForDirectiveContext", fmt.Sprintf("folded for %d pairs: equal to the table literal", len(names)*len(names)), pos)
	}
	// the root predicate
	if g := c.P.LookupFunc("directive", "Enumeration.IsAllowedForRootContext"); g != nil {
		if sg := c.P.SSAFunc(g); sg != nil && len(sg.Params) == 1 {
			var rd []string
			for _, n := range names {
				for _, o := range ev.Run(sg, []ssaeval.Value{ssaeval.Int(t.Consts[n])}) {
					if o.Incomplete != "" || len(o.Rets) != 1 || o.Rets[0].K != ssaeval.Const {
						rd = append(rd, n+": not folded")
					} else if constant.BoolVal(o.Rets[0].C) != t.Root[n] {
						rd = append(rd, n)
					}
				}
			}
			if len(rd) == 0 {
				r.Ok(rule, "IsAllowedForRootContext", "folds to the root set read from the source", c.pos(c.P.Decl(g).Pos()))
			} else {
				r.Bad(rule, "IsAllowedForRootContext", "differs from the root set for "+strings.Join(rd, ", "), c.pos(c.P.Decl(g).Pos()))
			}
		}
	}
}
