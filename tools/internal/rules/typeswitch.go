package rules

import (
	"fmt"
	"go/ast"
	"go/token"
	"go/types"
	"sort"
	"strings"

	"golang.org/x/tools/go/packages"
)

// A type switch over a parameter without a default clause does nothing for a value of any other type, and says so to
// nobody. Such a function is correct only as long as every caller hands it one of the listed types. The rule decides
// this from the static types at the call sites: a concrete argument type must be matched by a case; an argument of an
// interface type stands for every type of the module that implements the interface, each of which must be matched.

func (c *Ctx) ruleTypeSwitchArgs(rule string) {
	r := c.R
	r.Rule(rule, "for every library function whose body switches on the dynamic type of one of its parameters without a default clause, every static call site in the library passes an argument whose possible types (its static type if concrete, else the module's types that implement the static interface type) are all matched by a case: no value falls through the switch silently", 1)
	n := 0
	for _, f := range c.libFns() {
		pk := f.Pkg
		if strings.HasSuffix(pk.Fset.Position(f.Decl.Pos()).Filename, "_gen.go") {
			continue
		}
		ast.Inspect(f.Decl.Body, func(nd ast.Node) bool {
			if _, isLit := nd.(*ast.FuncLit); isLit {
				return false
			}
			ts, ok := nd.(*ast.TypeSwitchStmt)
			if !ok {
				return true
			}
			// the switched expression: x.(type) or v := x.(type)
			var x ast.Expr
			switch a := ts.Assign.(type) {
			case *ast.ExprStmt:
				if ta, ok := a.X.(*ast.TypeAssertExpr); ok {
					x = ta.X
				}
			case *ast.AssignStmt:
				if len(a.Rhs) == 1 {
					if ta, ok := a.Rhs[0].(*ast.TypeAssertExpr); ok {
						x = ta.X
					}
				}
			}
			pi := paramIndexOf(f, x)
			if x == nil || pi < 0 || paramAssigned(f, x) {
				return true
			}
			var cases []types.Type
			hasDefault := false
			for _, cl := range ts.Body.List {
				cc := cl.(*ast.CaseClause)
				if cc.List == nil {
					hasDefault = true
				}
				for _, e := range cc.List {
					if t := pk.TypesInfo.TypeOf(e); t != nil {
						cases = append(cases, t)
					}
				}
			}
			if hasDefault {
				return true
			}
			matched := func(t types.Type) bool {
				for _, ct := range cases {
					if types.Identical(ct, t) {
						return true
					}
					if it, ok := ct.Underlying().(*types.Interface); ok && types.Implements(t, it) {
						return true
					}
				}
				return false
			}
			sites, _ := c.callersOf(f)
			for _, cs := range sites {
				arg := argFor(cs, pi)
				if arg == nil {
					continue
				}
				n++
				at := cs.g.Pkg.TypesInfo.TypeOf(arg)
				key := fmt.Sprintf("%s | argument %s of %s", cs.g.Name(), exprString(arg), f.Name())
				if at == nil {
					r.Undecided(rule, key, "no type for the argument", c.pos(cs.call.Pos()))
					continue
				}
				var missing []string
				if it, isIface := at.Underlying().(*types.Interface); isIface {
					for _, t := range c.implementers(it) {
						if !matched(t) {
							missing = append(missing, types.TypeString(t, func(p *types.Package) string { return p.Name() }))
						}
					}
				} else if !matched(at) {
					missing = append(missing, types.TypeString(at, func(p *types.Package) string { return p.Name() }))
				}
				if len(missing) == 0 {
					r.Ok(rule, key, "every type the argument can have is a case of the switch", c.pos(cs.call.Pos()))
				} else {
					sort.Strings(missing)
					r.Bad(rule, key, "the callee switches on the type without a default and has no case for "+strings.Join(missing, ", ")+": such a value is silently ignored (here: nothing is added, and what was to be added is missing later)", c.pos(cs.call.Pos()))
				}
			}
			return true
		})
	}
	if n == 0 {
		r.OkTrivial(rule, "library", "no call site of a function with a default-less type switch over a parameter", "")
	}
}

// implementers: the named non-interface types of the module (and pointers to them) that implement the interface.
func (c *Ctx) implementers(it *types.Interface) []types.Type {
	var out []types.Type
	for _, pk := range c.P.Lib {
		scope := pk.Types.Scope()
		for _, name := range scope.Names() {
			tn, ok := scope.Lookup(name).(*types.TypeName)
			if !ok || tn.IsAlias() {
				continue
			}
			if _, isIface := tn.Type().Underlying().(*types.Interface); isIface {
				continue
			}
			if types.Implements(tn.Type(), it) {
				out = append(out, tn.Type())
			} else if pt := types.NewPointer(tn.Type()); types.Implements(pt, it) {
				out = append(out, pt)
			}
		}
	}
	return out
}

// ---------- a type assertion names the form (T or *T) that the package puts behind the interface ----------

// ruleAssertForms: an assertion x.(T) only matches values that were stored as T, not as *T (and the other way round).
// For every assertion of the library to a named struct type of the module (or a pointer to one): the composite
// literals of that type which the same package hands to an interface (returned as, assigned to, or passed for an
// interface type) must all have the asserted form. The other form behind the interface makes the assertion fail: with
// the comma-ok form the value is silently taken for "something else" (an error that becomes nil), without it the
// function panics.
func (c *Ctx) ruleAssertForms(rule string) {
	r := c.R
	r.Rule(rule, "every type assertion of the library to a struct type T of the module (or to *T) names the form in which the package stores such values behind interfaces: no composite literal of T that is returned as, assigned to or passed for an interface type has the other form (&T{} against an assertion to T, T{} against an assertion to *T)", 1)
	type form struct {
		ptr bool
		pos token.Pos
		fn  string
	}
	// literals flowing to an interface, per named type
	flows := map[*types.TypeName][]form{}
	isIface := func(t types.Type) bool {
		if t == nil {
			return false
		}
		_, ok := t.Underlying().(*types.Interface)
		return ok
	}
	litOf := func(pk *packages.Package, e ast.Expr) (*types.TypeName, bool) {
		e = ast.Unparen(e)
		ptr := false
		if u, ok := e.(*ast.UnaryExpr); ok && u.Op == token.AND {
			ptr, e = true, ast.Unparen(u.X)
		}
		cl, ok := e.(*ast.CompositeLit)
		if !ok {
			return nil, false
		}
		if n, ok := pk.TypesInfo.TypeOf(cl).(*types.Named); ok && c.P.IsLibPkg(n.Obj().Pkg()) {
			return n.Obj(), ptr
		}
		return nil, false
	}
	for _, f := range c.libFns() {
		pk := f.Pkg
		note := func(e ast.Expr, to types.Type) {
			if !isIface(to) {
				return
			}
			if tn, ptr := litOf(pk, unalias(f, e)); tn != nil {
				flows[tn] = append(flows[tn], form{ptr, e.Pos(), f.Name()})
			}
		}
		sig := f.Obj.Type().(*types.Signature)
		inspectWithStack(f.Decl.Body, func(nd ast.Node, stack []ast.Node) bool {
			switch x := nd.(type) {
			case *ast.ReturnStmt:
				// results of the innermost function
				rs := sig.Results()
				for i := len(stack) - 1; i >= 0; i-- {
					if lit, ok := stack[i].(*ast.FuncLit); ok {
						if ls, ok := pk.TypesInfo.TypeOf(lit).(*types.Signature); ok {
							rs = ls.Results()
						}
						break
					}
				}
				if len(x.Results) == rs.Len() {
					for i, e := range x.Results {
						note(e, rs.At(i).Type())
					}
				}
			case *ast.AssignStmt:
				if len(x.Lhs) == len(x.Rhs) {
					for i, e := range x.Rhs {
						note(e, pk.TypesInfo.TypeOf(x.Lhs[i]))
					}
				}
			case *ast.CallExpr:
				if fs, ok := pk.TypesInfo.TypeOf(x.Fun).(*types.Signature); ok {
					for i, a := range x.Args {
						if i < fs.Params().Len() {
							note(a, fs.Params().At(i).Type())
						}
					}
				}
			case *ast.ValueSpec:
				for i, e := range x.Values {
					if i < len(x.Names) {
						note(e, pk.TypesInfo.TypeOf(x.Names[i]))
					}
				}
			}
			return true
		})
	}
	n := 0
	for _, f := range c.libFns() {
		pk := f.Pkg
		perFn := 0
		ast.Inspect(f.Decl.Body, func(nd ast.Node) bool {
			ta, ok := nd.(*ast.TypeAssertExpr)
			if !ok || ta.Type == nil {
				return true
			}
			t := pk.TypesInfo.TypeOf(ta.Type)
			ptr := false
			if p, ok := t.(*types.Pointer); ok {
				ptr, t = true, p.Elem()
			}
			nm, ok := t.(*types.Named)
			if !ok || !c.P.IsLibPkg(nm.Obj().Pkg()) {
				return true
			}
			if _, isStruct := nm.Underlying().(*types.Struct); !isStruct {
				return true
			}
			n++
			perFn++
			key := fmt.Sprintf("%s | %s #%d", f.Name(), exprString(ta), perFn)
			var other []form
			for _, fl := range flows[nm.Obj()] {
				if fl.ptr != ptr {
					other = append(other, fl)
				}
			}
			if len(other) == 0 {
				r.OkTrivial(rule, key, fmt.Sprintf("%d literal(s) of %s go behind an interface, all in the asserted form", len(flows[nm.Obj()]), nm.Obj().Name()), c.pos(ta.Pos()))
				return true
			}
			want, got := nm.Obj().Name(), "&"+nm.Obj().Name()+"{}"
			if ptr {
				want, got = "*"+want, nm.Obj().Name()+"{}"
			}
			r.Bad(rule, key, fmt.Sprintf("the assertion matches %s, but %s puts %s behind an interface (%s): such a value fails the assertion - a comma-ok assertion then takes it for something else (an error turns into nil), a plain one panics", want, other[0].fn, got, c.pos(other[0].pos)), c.pos(ta.Pos()))
			return true
		})
	}
	r.Stats["assertions_to_module_structs"] = n
	if n == 0 {
		r.Ok(rule, "library", "no assertion to a struct type of the module", "")
	}
}
