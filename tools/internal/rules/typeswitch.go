package rules

import (
	"fmt"
	"go/ast"
	"go/types"
	"sort"
	"strings"
)

// A type switch over a parameter without a default clause does nothing for a value of any other type, and says so to
// nobody. Such a function is correct only as long as every caller hands it one of the listed types. The rule decides
// this from the static types at the call sites: a concrete argument type must be matched by a case; an argument of an
// interface type stands for every type of the module that implements the interface, each of which must be matched.

func (c *Ctx) ruleTypeSwitchArgs(rule string) {
	r := c.R
	r.Rule(rule, "for every library function whose body switches on the dynamic type of one of its parameters without a default clause, every static call site in the library passes an argument whose possible types (its static type if concrete, else the module's types that implement the static interface type) are all matched by a case: no value falls through the switch silently", 1)
	n := 0
	for _, f := range c.libFns() {
		pk := f.Pkg
		if strings.HasSuffix(pk.Fset.Position(f.Decl.Pos()).Filename, "_gen.go") {
			continue
		}
		ast.Inspect(f.Decl.Body, func(nd ast.Node) bool {
			if _, isLit := nd.(*ast.FuncLit); isLit {
				return false
			}
			ts, ok := nd.(*ast.TypeSwitchStmt)
			if !ok {
				return true
			}
			// the switched expression: x.(type) or v := x.(type)
			var x ast.Expr
			switch a := ts.Assign.(type) {
			case *ast.ExprStmt:
				if ta, ok := a.X.(*ast.TypeAssertExpr); ok {
					x = ta.X
				}
			case *ast.AssignStmt:
				if len(a.Rhs) == 1 {
					if ta, ok := a.Rhs[0].(*ast.TypeAssertExpr); ok {
						x = ta.X
					}
				}
			}
			pi := paramIndexOf(f, x)
			if x == nil || pi < 0 || paramAssigned(f, x) {
				return true
			}
			var cases []types.Type
			hasDefault := false
			for _, cl := range ts.Body.List {
				cc := cl.(*ast.CaseClause)
				if cc.List == nil {
					hasDefault = true
				}
				for _, e := range cc.List {
					if t := pk.TypesInfo.TypeOf(e); t != nil {
						cases = append(cases, t)
					}
				}
			}
			if hasDefault {
				return true
			}
			matched := func(t types.Type) bool {
				for _, ct := range cases {
					if types.Identical(ct, t) {
						return true
					}
					if it, ok := ct.Underlying().(*types.Interface); ok && types.Implements(t, it) {
						return true
					}
				}
				return false
			}
			sites, _ := c.callersOf(f)
			for _, cs := range sites {
				arg := argFor(cs, pi)
				if arg == nil {
					continue
				}
				n++
				at := cs.g.Pkg.TypesInfo.TypeOf(arg)
				key := fmt.Sprintf("%s | argument %s of %s", cs.g.Name(), exprString(arg), f.Name())
				if at == nil {
					r.Undecided(rule, key, "no type for the argument", c.pos(cs.call.Pos()))
					continue
				}
				var missing []string
				if it, isIface := at.Underlying().(*types.Interface); isIface {
					for _, t := range c.implementers(it) {
						if !matched(t) {
							missing = append(missing, types.TypeString(t, func(p *types.Package) string { return p.Name() }))
						}
					}
				} else if !matched(at) {
					missing = append(missing, types.TypeString(at, func(p *types.Package) string { return p.Name() }))
				}
				if len(missing) == 0 {
					r.Ok(rule, key, "every type the argument can have is a case of the switch", c.pos(cs.call.Pos()))
				} else {
					sort.Strings(missing)
					r.Bad(rule, key, "the callee switches on the type without a default and has no case for "+strings.Join(missing, ", ")+": such a value is silently ignored (here: nothing is added, and what was to be added is missing later)", c.pos(cs.call.Pos()))
				}
			}
			return true
		})
	}
	if n == 0 {
		r.OkTrivial(rule, "library", "no call site of a function with a default-less type switch over a parameter", "")
	}
}

// implementers: the named non-interface types of the module (and pointers to them) that implement the interface.
func (c *Ctx) implementers(it *types.Interface) []types.Type {
	var out []types.Type
	for _, pk := range c.P.Lib {
		scope := pk.Types.Scope()
		for _, name := range scope.Names() {
			tn, ok := scope.Lookup(name).(*types.TypeName)
			if !ok || tn.IsAlias() {
				continue
			}
			if _, isIface := tn.Type().Underlying().(*types.Interface); isIface {
				continue
			}
			if types.Implements(tn.Type(), it) {
				out = append(out, tn.Type())
			} else if pt := types.NewPointer(tn.Type()); types.Implements(pt, it) {
				out = append(out, pt)
			}
		}
	}
	return out
}
