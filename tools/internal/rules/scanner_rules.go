package rules

// Rules decided on the extracted scanner automaton (engine E1).

import (
	"fmt"
	"go/ast"
	"go/constant"
	"go/token"
	"go/types"
	"sort"
	"strings"

	"golang.org/x/tools/go/ssa"

	"jsverif/internal/prog"
	"jsverif/internal/scanfsm"
	"jsverif/internal/ssaeval"
)

const stackK = 6

// ruleC13 decides the keyword-language clause completely.
func (c *Ctx) ruleC13(m *scanfsm.Machine, t *Tables) {
	r := c.R
	r.Rule("E2-TABLES", "the directive tables (Enumeration constants, spellings, root set, context relation, response-code range) are read from typed literals; anything unreadable is UNDECIDED", 1)
	r.Rule("C13-LANGUAGE", "the words leading from a keyword-start state through letter states to a KeywordEnd event are exactly {spelling(k) | k != HTTPResponseCode} U [lo..hi] (3 digits, no leading 0), lo/hi read from isHTTPResponseCode", 400)
	r.Rule("C13-TERMINATOR", "the non-error bytes of every state entered by a KeywordEnd transition are exactly {NUL(EOF),TAB,LF,CR,SP,'#','/'}", 1)
	r.Rule("C13-FIRST-DEVIATION", "in keyword-start, letter and after-keyword states every error is constructed with index == cursor (jerr.NewJApiError(_,_,s.curIndex))", 50)
	r.Rule("C13-REACHABLE", "every Enumeration constant is produced by some accepted word, and every accepted word maps to a constant through NewDirectiveType's table (same spelling table, same exclusion)", 25)
	for _, p := range t.Problems {
		r.Undecided("E2-TABLES", "extract", p, "")
	}
	if len(t.Problems) > 0 {
		return
	}
	if len(t.Consts) < 25 || len(t.SS) != len(t.Consts) {
		r.Bad("E2-TABLES", "sizes", fmt.Sprintf("%d Enumeration constants but %d spellings", len(t.Consts), len(t.SS)), "")
		return
	}
	seenSp := map[string]string{}
	spOK := true
	for n, v := range t.Consts {
		if v < 0 || int(v) >= len(t.SS) || t.SS[v] == "" {
			r.Bad("E2-TABLES", "spelling of "+n, "constant has no (non-empty) spelling", "")
			spOK = false
			continue
		}
		if o, dup := seenSp[t.SS[v]]; dup {
			r.Bad("E2-TABLES", "spelling of "+n, "same spelling as "+o, "")
			spOK = false
		}
		seenSp[t.SS[v]] = n
	}
	if spOK {
		r.Ok("E2-TABLES", "sizes", fmt.Sprintf("%d constants, %d unique non-empty spellings, response range [%d,%d], excluded constant %s", len(t.Consts), len(t.SS), t.RespLo, t.RespHi, t.RespConst), "")
	}

	// expected language
	want := map[string]string{}
	for w, n := range t.KeywordSet() {
		want[w] = n
	}
	for code := t.RespLo; code <= t.RespHi; code++ {
		s := itoa(code)
		if len(s) == 3 && s[0] != '0' {
			want[s] = t.RespConst
		} else {
			r.Bad("C13-LANGUAGE", "range", fmt.Sprintf("response code %d in [lo,hi] is not a 3-digit word", code), "")
		}
	}
	starts := m.KeywordStartStates()
	if len(starts) == 0 {
		r.Undecided("C13-LANGUAGE", "start", "no state emits a Keyword-begin event", "")
		return
	}
	union := map[string]bool{}
	letters := map[string]bool{}
	for _, st := range starts {
		words, ls, overflow := m.KeywordPaths(st, 16)
		for _, a := range m.KeywordAnomalies {
			r.Bad("C13-LANGUAGE", "anomaly in "+st+": "+a, a, c.P.Pos(m.Pos[st]))
		}
		if overflow {
			r.Undecided("C13-LANGUAGE", "depth from "+st, "keyword path longer than 16 letters (cycle among letter states?)", c.P.Pos(m.Pos[st]))
		}
		bad := 0
		var extra []string
		for _, w := range words {
			union[w] = true
			if _, ok := want[w]; !ok {
				bad++
				if len(extra) < 8 {
					extra = append(extra, fmt.Sprintf("%q", w))
				}
			}
		}
		if bad > 0 {
			r.Bad("C13-LANGUAGE", "extra words from "+st, fmt.Sprintf("the scanner accepts %d words as keywords that are neither a spelling of the directive table nor a response code in [%d,%d]: %s ...", bad, t.RespLo, t.RespHi, strings.Join(extra, ", ")), c.P.Pos(m.Pos[st]))
		}
		for l := range ls {
			letters[l] = true
		}
		if bad == 0 {
			r.Ok("C13-LANGUAGE", "subset from "+st, fmt.Sprintf("%d words accepted from this state, all in the language", len(words)), c.P.Pos(m.Pos[st]))
		}
	}
	var ws []string
	for w := range want {
		ws = append(ws, w)
	}
	sort.Strings(ws)
	for _, w := range ws {
		if union[w] {
			r.Ok("C13-LANGUAGE", fmt.Sprintf("word %q", w), "accepted by the automaton and in the table", "")
		} else {
			r.Bad("C13-LANGUAGE", fmt.Sprintf("word %q", w), fmt.Sprintf("%q (%s) is in the directive table / response range but no path of letter states accepts it", w, want[w]), "")
		}
	}
	// reachable constants
	var cs []string
	for n := range t.Consts {
		cs = append(cs, n)
	}
	sort.Strings(cs)
	for _, n := range cs {
		ok := false
		for w := range union {
			if want[w] == n {
				ok = true
				break
			}
		}
		if ok {
			r.Ok("C13-REACHABLE", "constant "+n, "some accepted word maps to it", "")
		} else {
			r.Bad("C13-REACHABLE", "constant "+n, "no accepted keyword produces this directive kind", "")
		}
	}
	c.checkNewDirectiveType(t)

	// terminators
	if m.NulGuard {
		r.Ok("C13-TERMINATOR", "nul-guard", "Next() rejects a byte 0 inside the data, so byte 0 in a step function means end of file only", "")
	} else {
		r.Bad("C13-TERMINATOR", "nul-guard", "Next() does not reject byte 0 inside the data before evaluating the step: a NUL byte is taken for the end of file and terminates a keyword", "")
	}
	wantTerm := "\x00\t\n\r #/"
	after := m.AfterKeywordStates()
	var as []string
	for s := range after {
		as = append(as, s)
	}
	sort.Strings(as)
	for _, s := range as {
		if s == "" || s == "<pop>" {
			r.Bad("C13-TERMINATOR", "after-keyword state "+s, "a KeywordEnd transition does not set an explicit next state", "")
			continue
		}
		got := string(m.NonErrorBytes(s))
		if got == wantTerm {
			r.Ok("C13-TERMINATOR", "state "+s, fmt.Sprintf("non-error bytes %q", got), c.P.Pos(m.Pos[s]))
		} else {
			r.Bad("C13-TERMINATOR", "state "+s, fmt.Sprintf("bytes accepted after a keyword are %q, expected %q", got, wantTerm), c.P.Pos(m.Pos[s]))
		}
		letters[s] = true
	}
	for _, st := range starts {
		letters[st] = true
	}
	// first deviation
	var ls []string
	for l := range letters {
		ls = append(ls, l)
	}
	sort.Strings(ls)
	for _, l := range ls {
		bad := ""
		nerr := 0
		for b := 0; b < 256; b++ {
			for _, o := range m.Trans[l][b] {
				if o.Term == scanfsm.TErr {
					nerr++
					if !o.ErrCur || o.ErrOff != 0 {
						bad = fmt.Sprintf("on byte %q: %s", byte(b), o)
					}
				}
			}
		}
		if bad != "" {
			r.Bad("C13-FIRST-DEVIATION", "state "+l, "an error in a keyword state is not located at the cursor: "+bad, c.P.Pos(m.Pos[l]))
		} else {
			r.Ok("C13-FIRST-DEVIATION", "state "+l, fmt.Sprintf("%d error outcomes, all at the cursor", nerr), c.P.Pos(m.Pos[l]))
		}
	}
	r.Stats["c13_words"] = len(union)
	r.Stats["c13_letter_states"] = len(letters)
}

// checkNewDirectiveType: the keyword->kind table is filled from the spelling table with the single exclusion,
// and the fallback is the response-code predicate; IsStartWithDirective uses the same table and exclusion.
func (c *Ctx) checkNewDirectiveType(t *Tables) {
	r := c.R
	pk := t.pkg
	scope := pk.Types.Scope()
	check := func(fname string, needRange bool) {
		f, _ := scope.Lookup(fname).(*types.Func)
		d := c.P.Decl(f)
		if d == nil {
			r.Undecided("C13-REACHABLE", fname, "function not found", "")
			return
		}
		usesSS, usesExcl, usesResp := false, false, false
		// the function together with the helpers of its package it refers to (called, or handed to sync.Once.Do)
		seenFn := map[*types.Func]bool{f: true}
		var visit func(body *ast.BlockStmt, depth int)
		var inspect func(n ast.Node) bool
		visit = func(body *ast.BlockStmt, depth int) {
			ast.Inspect(body, func(n ast.Node) bool {
				if id, ok := n.(*ast.Ident); ok && depth < 3 {
					if g, ok := pk.TypesInfo.Uses[id].(*types.Func); ok && g.Pkg() == pk.Types && !seenFn[g] && g.Name() != "IsHTTPResponseCode" {
						seenFn[g] = true
						if gd := c.P.Decl(g); gd != nil && gd.Body != nil {
							visit(gd.Body, depth+1)
						}
					}
				}
				return inspect(n)
			})
		}
		inspect = func(n ast.Node) bool {
			switch x := n.(type) {
			case *ast.Ident:
				if v, ok := pk.TypesInfo.Uses[x].(*types.Var); ok && v.Parent() == scope {
					if sl, ok := v.Type().Underlying().(*types.Slice); ok {
						if b, ok := sl.Elem().(*types.Basic); ok && b.Kind() == types.String {
							usesSS = true
						}
					}
				}
				if k, ok := pk.TypesInfo.Uses[x].(*types.Const); ok && k.Name() == t.RespConst {
					usesExcl = true
				}
				if fn, ok := pk.TypesInfo.Uses[x].(*types.Func); ok && fn.Name() == "IsHTTPResponseCode" {
					usesResp = true
				}
			}
			return true
		}
		visit(d.Body, 0)
		if usesSS && usesExcl && usesResp {
			r.Ok("C13-REACHABLE", fname, "ranges over the spelling table, excludes "+t.RespConst+", falls back to IsHTTPResponseCode", c.P.Pos(d.Pos()))
		} else {
			r.Bad("C13-REACHABLE", fname, fmt.Sprintf("does not combine the spelling table (%v), the %s exclusion (%v) and IsHTTPResponseCode (%v)", usesSS, t.RespConst, usesExcl, usesResp), c.P.Pos(d.Pos()))
		}
	}
	check("NewDirectiveType", true)
	check("IsStartWithDirective", true)
	// IsHTTPResponseCode: Atoi + no leading zero + range
	if f, ok := scope.Lookup("IsHTTPResponseCode").(*types.Func); ok {
		d := c.P.Decl(f)
		lead, rng := false, false
		ast.Inspect(d.Body, func(n ast.Node) bool {
			if be, ok := n.(*ast.BinaryExpr); ok && be.Op == token.EQL {
				if tv := pk.TypesInfo.Types[be.Y]; tv.Value != nil && tv.Value.Kind() == constant.Int {
					if v, _ := constant.Int64Val(tv.Value); v == '0' {
						lead = true
					}
				}
			}
			if call, ok := n.(*ast.CallExpr); ok {
				if id := calleeIdent(call); id != nil {
					if fn, ok := pk.TypesInfo.Uses[id].(*types.Func); ok && fn.Name() == "isHTTPResponseCode" {
						rng = true
					}
				}
			}
			return true
		})
		if lead && rng {
			r.Ok("C13-REACHABLE", "IsHTTPResponseCode", "rejects a leading '0' and applies the range predicate", c.P.Pos(d.Pos()))
		} else {
			r.Bad("C13-REACHABLE", "IsHTTPResponseCode", "leading-zero test or range predicate missing", c.P.Pos(d.Pos()))
		}
	}
}

// ruleAnalysis turns the pushdown exploration into obligations for the given finding kinds.
func (c *Ctx) ruleAnalysis(m *scanfsm.Machine, kinds map[string]string, pessimistic bool) *scanfsm.Analysis {
	r := c.R
	r.Rule("E1-MODEL", "pushdown system: control = s.step (x open lexeme, distances, previous byte, replay after rewinds), stack = pushed step functions, k-bounded with bottom dropped (sound for 'no violation found'); every reachable abstract configuration is explored over byte equivalence classes", 1)
	a := c.Analysis(stackK, pessimistic)
	label := ""
	if pessimistic {
		label = " (byte 0 as ordinary byte)"
	}
	r.Ok("E1-MODEL", "exploration"+label, fmt.Sprintf("k=%d: %d configurations, %d transitions, %d distinct edges, %d byte classes, %d states reached", a.K, a.Configs, a.Transitions, a.Edges, a.ByteClasses, len(a.StatesSeen)), "")
	if !pessimistic {
		r.Stats["states"] = a.Configs
		r.Stats["transitions"] = a.Transitions
		r.Stats["e1_byte_classes"] = a.ByteClasses
	}
	for _, f := range a.Findings {
		rule, ok := kinds[f.Kind]
		if f.Kind == "undecided" {
			r.Undecided("E1-MODEL", f.Key+label, f.Text+"; trace: "+f.Trace, c.P.Pos(m.Pos[f.State]))
			continue
		}
		if !ok {
			continue
		}
		if pessimistic && f.Kind != "progress" {
			// with byte 0 as an ordinary byte the end-of-file branches of the step functions run in the middle of the
			// data; the brackets and extents they break are exactly why Next() rejects byte 0 (guard verified by
			// E1-EXTRACT nul-guard). What this run adds is the progress clause without that assumption.
			continue
		}
		r.Bad(rule, f.Key+label, f.Text+"; byte trace from the start of a file: "+f.Trace, c.P.Pos(m.Pos[f.State]))
	}
	return a
}

func (c *Ctx) ruleC12(m *scanfsm.Machine) {
	r := c.R
	r.Rule("C12-BRACKETS", "on every reachable path each End event meets the matching Begin, no Begin or single event occurs while a lexeme is open (so processLexemeEvent never reaches its error returns nor an empty Pop)", 1)
	r.Rule("C12-EXTENT", "for every Begin..End pair, end - begin >= -1 on all paths (-1 = empty lexeme)", 10)
	r.Rule("C12-ORDER", "every Begin/single event lies strictly after the previous End/single event", 1)
	r.Rule("C12-INSIDE", "event positions are cursor+{0,-1,-2}; scanner errors are not located before the bytes read", 1)
	r.Rule("C12-PAIRS", "processLexemeEvent accepts exactly the pairs (XBegin, XEnd) of the event classification", 1)
	kinds := map[string]string{"bracket": "C12-BRACKETS", "extent": "C12-EXTENT", "order": "C12-ORDER", "inside": "C12-INSIDE"}
	a := c.ruleAnalysis(m, kinds, false)
	byRule := map[string]int{}
	for _, f := range a.Findings {
		byRule[kinds[f.Kind]]++
	}
	for _, rule := range []string{"C12-BRACKETS", "C12-ORDER", "C12-INSIDE"} {
		if byRule[rule] == 0 {
			r.Ok(rule, "all reachable configurations", fmt.Sprintf("no violation in %d configurations", a.Configs), "")
		}
	}
	var ks []string
	for k := range a.ExtentMin {
		ks = append(ks, k)
	}
	sort.Strings(ks)
	for _, k := range ks {
		if a.ExtentMin[k] >= -1 {
			st := strings.SplitN(k, "/", 2)[0]
			r.Ok("C12-EXTENT", "end site "+k, fmt.Sprintf("minimal extent over all paths: %d", a.ExtentMin[k]), c.P.Pos(m.Pos[st]))
		}
	}
	c.checkPairs(m)
	// the annotation is the last lexeme on the directive line
	r.Rule("C12-ANNOTATION-LAST", "every transition that emits AnnotationEnd hands the control back: it pops the step that was waiting when the annotation began, or enters a line-comment state (which pops at the end of the line); it never goes on in a state that accepts further parameters or annotations of the same directive (quick-tier form of the Annotation clause of C12-GRAMMAR)", 2)
	{
		// line-comment states: states that, on LF, pop without emitting anything
		popsOnLF := map[string]bool{}
		for _, st := range m.Steps {
			for _, o := range m.Trans[st]['\n'] {
				pops, emits := false, false
				for _, e := range o.Effs {
					if e.K == scanfsm.EPop {
						pops = true
					}
					if e.K == scanfsm.EFound {
						emits = true
					}
				}
				if pops && !emits {
					popsOnLF[st] = true
				}
			}
			// ... and emit nothing on any byte, nor start anything (a state that begins a parameter on a letter is not
			// a comment)
			if popsOnLF[st] {
				for b := 0; b < 256 && popsOnLF[st]; b++ {
					for _, o := range m.Trans[st][b] {
						for _, e := range o.Effs {
							if e.K == scanfsm.EFound || e.K == scanfsm.EPush {
								popsOnLF[st] = false
							}
						}
						if fs := o.FinalStep(); o.Term == scanfsm.TOk && fs != "" && fs != "<pop>" && fs != st {
							popsOnLF[st] = false // leaves for another state: not a plain skip-to-end-of-line
						}
					}
				}
				if !popsOnLF[st] {
					delete(popsOnLF, st)
				}
			}
		}
		nAE := 0
		badAE := map[string]string{}
		for _, st := range m.Steps {
			for b := 0; b < 256; b++ {
				for _, o := range m.Trans[st][b] {
					ends, pops := false, false
					for _, e := range o.Effs {
						if e.K == scanfsm.EFound && e.Ev == "AnnotationEnd" {
							ends = true
						}
						if e.K == scanfsm.EPop {
							pops = true
						}
					}
					if !ends || o.Term == scanfsm.TErr {
						continue
					}
					nAE++
					if fs := o.FinalStep(); !pops && !popsOnLF[fs] {
						badAE[st] = fmt.Sprintf("on byte %q the annotation ends and the scanner goes on in %s", byte(b), fs)
					}
				}
			}
		}
		var bs []string
		for st := range badAE {
			bs = append(bs, st)
		}
		sort.Strings(bs)
		for _, st := range bs {
			r.Bad("C12-ANNOTATION-LAST", "state "+st, badAE[st]+": what follows on the line is read as more parameters or a second annotation of the same directive instead of by the step that was waiting", c.P.Pos(m.Pos[st]))
		}
		if len(bs) == 0 && nAE > 0 {
			r.Ok("C12-ANNOTATION-LAST", "all transitions", fmt.Sprintf("%d transitions emit AnnotationEnd; each pops or enters a line comment", nAE), "")
			r.Ok("C12-ANNOTATION-LAST", "line-comment states", fmt.Sprintf("%d states pop on LF without an event", len(popsOnLF)), "")
		} else if nAE == 0 {
			r.Undecided("C12-ANNOTATION-LAST", "sites", "no transition emits AnnotationEnd", "")
		}
	}
	// a body whose length comes from an opaque reader (schema, enum) ends where the reader stopped
	r.Rule("C12-READER-END", "where a step hands a body to an opaque reader and moves the cursor to its last byte (jump), the state that follows emits the End event of that lexeme at cursor-1 on EVERY byte it accepts: the lexeme is exactly what the reader measured, nothing of the rest of the line", 2)
	after := map[string]string{} // state after a reader -> lexeme kind it must end
	for _, st := range m.Steps {
		for b := 0; b < 256; b++ {
			for _, o := range m.Trans[st][b] {
				kind, jumped := "", false
				for _, e := range o.Effs {
					if e.K == scanfsm.EFound && strings.HasPrefix(m.EventKinds[e.Ev], "begin:") {
						kind = strings.TrimPrefix(m.EventKinds[e.Ev], "begin:")
					}
					if e.K == scanfsm.EJump {
						jumped = true
					}
				}
				if jumped && kind != "" && o.Term == scanfsm.TOk {
					if q := o.FinalStep(); q != "" && q != "<pop>" {
						after[q] = kind
					}
				}
			}
		}
	}
	var qs []string
	for q := range after {
		qs = append(qs, q)
	}
	sort.Strings(qs)
	for _, q := range qs {
		bad := ""
		for b := 0; b < 256 && bad == ""; b++ {
			for _, o := range m.Trans[q][b] {
				if o.Term == scanfsm.TErr {
					continue
				}
				ok := false
				if len(o.Effs) > 0 && o.Effs[0].K == scanfsm.EFound && m.EventKinds[o.Effs[0].Ev] == "end:"+after[q] && o.Effs[0].Off == -1 {
					ok = true
				}
				if !ok {
					bad = fmt.Sprintf("on byte %q the state goes on (%s) without ending the %s lexeme at cursor-1", byte(b), o, after[q])
				}
			}
		}
		if bad == "" {
			r.Ok("C12-READER-END", "state "+q, "every accepted byte ends the "+after[q]+" lexeme at the byte before it", c.P.Pos(m.Pos[q]))
		} else {
			r.Bad("C12-READER-END", "state "+q, bad+": the lexeme grows beyond what the reader measured (the rest of the line becomes part of the body)", c.P.Pos(m.Pos[q]))
		}
	}
	c.ruleEOFOpen(m, a, "C12-EOF-OPEN")
	if c.R.Tier == "thorough" {
		c.ruleC12Grammar(m)
	}
}

// ruleEOFOpen: see the comment inside.
func (c *Ctx) ruleEOFOpen(m *scanfsm.Machine, a *scanfsm.Analysis, rule string) {
	r := c.R
	// the end of the input swallowed while a lexeme is open: the unfinished lexeme is not reported and no error is raised.
	// For a well-formed document whose last line has no line break that loses a lexeme (F: a bare INCLUDE file name at
	// the very end of a file). The three places where today's scanner does it are reached only by input that is cut
	// inside a construct; they are named by the bytes that lead there (not by the name of the state, which a rename
	// would change), and anything else is a violation.
	r.Rule(rule, "no reachable configuration of the scanner automaton consumes the end of the input without an error while a lexeme is open (its Begin was emitted, its End never is) - except the configurations reached by the named byte sequences, each of which cuts the input inside a construct (named exceptions, keyed by the shortest byte sequence that leads there): the last lexeme of a file without a final line break is reported like any other", 3)
	open := a.EOFLeavesOpen()
	seenSt := map[string]bool{}
	for _, o := range open {
		if seenSt[o.State] {
			continue
		}
		seenSt[o.State] = true
		key := o.Open + " open after " + o.Trace
		if why, ok := eofOpenExceptions[key]; ok {
			r.Except(key, why)
			r.Ok(rule, key, "named exception: "+why+" (state "+o.State+")", c.P.Pos(m.Pos[o.State]))
			continue
		}
		r.Bad(rule, key, "the end of the input is consumed in state "+o.State+" without an error: the "+o.Open+" lexeme that has begun is dropped - the last "+o.Open+" of a file that does not end with a line break is lost", c.P.Pos(m.Pos[o.State]))
	}
}

// eofOpenExceptions: input that is cut inside a construct; confirmed by reading and by the messages the build gives.
var eofOpenExceptions = map[string]string{
	"Text open after 'D' 'e' 's' 'c' 'r' 'i' 'p' 't' 'i' 'o' 'n' '\\n' '('":       "a Description text in parentheses whose closing parenthesis is missing: malformed; the build reports 'the description cannot be empty'",
	"Text open after 'D' 'e' 's' 'c' 'r' 'i' 'p' 't' 'i' 'o' 'n' '\\n' '(' '\\n'": "a Description text in parentheses whose closing parenthesis is missing: malformed; the build reports 'the description cannot be empty'",
	"Text open after '1' '0' '0' '\\n' '/' '\\\\'":                                "a regular expression cut right after a backslash: malformed; the build reports 'the body cannot be empty'",
}

// ruleC12Grammar (thorough): the lexemes of one directive follow Keyword Parameter* Annotation? ... Body? as far as the
// scanner is concerned: parameters only directly after the keyword or another parameter, at most one annotation and only
// before parenthesis/body, at most one body. Where '(' may stand is decided by the core, not by the scanner
// (C11-CLOSE "single open"): ContextOpen findings are observations.
func (c *Ctx) ruleC12Grammar(m *scanfsm.Machine) {
	r := c.R
	r.Rule("C12-GRAMMAR", "explored with the phase of the current directive in every configuration: a Parameter lexeme only follows the Keyword or a Parameter; an Annotation only follows the Keyword or a Parameter (so at most one); a body (Schema/Text/Enum) follows a Keyword/Parameter/Annotation/ContextOpen and occurs at most once per directive", 1)
	a := m.AnalyseGrammar(stackK)
	n := 0
	for _, f := range a.Findings {
		if f.Kind != "grammar" {
			continue
		}
		if strings.HasPrefix(f.Key, "ContextOpen") {
			r.Observe("C12-GRAMMAR", f.Key, "the scanner emits an opening parenthesis here; the core decides whether it is legal (a second one for the same directive is refused: C11-CLOSE single open)", c.P.Pos(m.Pos[f.State]))
			continue
		}
		n++
		r.Bad("C12-GRAMMAR", f.Key, f.Text+"; byte trace: "+f.Trace, c.P.Pos(m.Pos[f.State]))
	}
	if n == 0 {
		r.Ok("C12-GRAMMAR", "all reachable configurations", fmt.Sprintf("no Parameter/Annotation/Body out of order in %d configurations", a.Configs), "")
	}
	r.Stats["c12_grammar_configs"] = a.Configs
}

// checkPairs decides, for every begin kind on the event stack and every end kind arriving, whether
// processLexemeEvent yields a lexeme or an error: the function is evaluated abstractly (internal/ssaeval) with the two
// event types as constants, the stack's Pop modelled by the begin event; how the comparison is written (one condition,
// a helper, a switch, a table of constants) does not matter.
func (c *Ctx) checkPairs(m *scanfsm.Machine) {
	r := c.R
	f := c.P.LookupFunc("scanner", "Scanner.processLexemeEvent")
	if f == nil {
		r.Undecided("C12-PAIRS", "processLexemeEvent", "function not found", "")
		return
	}
	where := ""
	if d := c.P.Decl(f); d != nil {
		where = c.P.Pos(d.Pos())
	}
	sf := c.P.SSAFunc(f)
	scanPk := c.P.Pkg("scanner")
	evT := c.P.LookupType("scanner", "LexemeEvent")
	if sf == nil || scanPk == nil || evT == nil {
		r.Undecided("C12-PAIRS", "processLexemeEvent", "no SSA form / LexemeEvent type", where)
		return
	}
	st, _ := evT.Type().Underlying().(*types.Struct)
	typeField := -1
	for i := 0; st != nil && i < st.NumFields(); i++ {
		if namedType(st.Field(i).Type()) == prog.ModulePath+"/scanner.LexemeEventType" {
			typeField = i
		}
	}
	consts := map[string]constant.Value{}
	for _, n := range scanPk.Types.Scope().Names() {
		if k, ok := scanPk.Types.Scope().Lookup(n).(*types.Const); ok && namedType(k.Type()) == prog.ModulePath+"/scanner.LexemeEventType" {
			consts[k.Name()] = k.Val()
		}
	}
	if typeField < 0 || len(consts) == 0 {
		r.Undecided("C12-PAIRS", "processLexemeEvent", "event type field or constants not found", where)
		return
	}
	// the event stack: the type of the Scanner field that holds LexemeEvents
	isEventStackMethod := func(fn *ssa.Function) (pop, push bool) {
		sig := fn.Signature
		if sig.Recv() == nil {
			return
		}
		rt := sig.Recv().Type()
		if p, ok := rt.(*types.Pointer); ok {
			rt = p.Elem()
		}
		sl, ok := rt.Underlying().(*types.Slice)
		if !ok || !types.Identical(sl.Elem(), evT.Type()) {
			return
		}
		if sig.Params().Len() == 0 && sig.Results().Len() == 1 && types.Identical(sig.Results().At(0).Type(), evT.Type()) && !strings.EqualFold(fn.Name(), "peek") {
			pop = true
		}
		if sig.Params().Len() == 1 && sig.Results().Len() == 0 && types.Identical(sig.Params().At(0).Type(), evT.Type()) {
			push = true
		}
		return
	}
	verdict := func(begin, end string) string {
		ev := &ssaeval.Eval{MaxDepth: 6, MaxPaths: 256}
		pops := 0
		ev.Oracle = func(callee *ssa.Function, args []ssaeval.Value) (ssaeval.Value, bool) {
			pop, push := isEventStackMethod(callee)
			if pop {
				pops++
				return ssaeval.StructOf(map[int]ssaeval.Value{typeField: ssaeval.C(consts[begin])}), true
			}
			if push {
				return ssaeval.Value{K: ssaeval.Tuple}, true
			}
			return ssaeval.Value{}, false
		}
		outs := ev.Run(sf, []ssaeval.Value{{K: ssaeval.NonNil}, ssaeval.StructOf(map[int]ssaeval.Value{typeField: ssaeval.C(consts[end])})})
		acc, rej := 0, 0
		for _, o := range outs {
			if o.Incomplete != "" || o.Panics || len(o.Rets) != 2 {
				return "undecided (" + o.Incomplete + ")"
			}
			lexNil, k1 := o.Rets[0].IsNilKnown()
			errNil, k2 := o.Rets[1].IsNilKnown()
			switch {
			case k1 && k2 && !lexNil && errNil:
				acc++
			case k2 && !errNil:
				rej++
			default:
				return fmt.Sprintf("undecided (returns %v, %v)", o.Rets[0], o.Rets[1])
			}
		}
		if pops == 0 {
			return "undecided (the begin event is not taken from the event stack)"
		}
		switch {
		case acc > 0 && rej == 0:
			return "lexeme"
		case rej > 0 && acc == 0:
			return "error"
		}
		return "undecided (both a lexeme and an error)"
	}
	var begins, ends []string
	for ev, kind := range m.EventKinds {
		if _, ok := consts[ev]; !ok {
			continue
		}
		if strings.HasPrefix(kind, "begin:") {
			begins = append(begins, ev)
		}
		if strings.HasPrefix(kind, "end:") {
			ends = append(ends, ev)
		}
	}
	sort.Strings(begins)
	sort.Strings(ends)
	for _, b := range begins {
		kind := strings.TrimPrefix(m.EventKinds[b], "begin:")
		bad := ""
		paired := ""
		for _, e := range ends {
			want := "error"
			if m.EventKinds[e] == "end:"+kind {
				want = "lexeme"
				paired = e
			}
			if got := verdict(b, e); got != want {
				bad = fmt.Sprintf("with %s on the event stack, %s arriving gives %s, the model expects %s", b, e, got, want)
			}
		}
		switch {
		case bad != "":
			r.Bad("C12-PAIRS", "pair "+b, bad, where)
		case paired == "":
			r.Bad("C12-PAIRS", "pair "+b, "no end event of kind "+kind, where)
		default:
			r.Ok("C12-PAIRS", "pair "+b, fmt.Sprintf("yields a lexeme with %s and an error with each of the other %d end kinds (abstract evaluation of processLexemeEvent)", paired, len(ends)-1), where)
		}
	}
	if len(begins) == 0 {
		r.Undecided("C12-PAIRS", "pairs", "no begin kinds in the event classification", where)
	}
}

func (c *Ctx) ruleC01Scanner(m *scanfsm.Machine, thorough bool) {
	r := c.R
	r.Rule("C01-PDS-UNDERFLOW", "no reachable configuration executes stepStack.Pop() with an empty stack; no End event meets an empty event stack (the two 'Reading from empty stack' panics and shiftFound are unreachable)", 1)
	r.Rule("C01-FSM-PROGRESS", "every cycle of the reachable configuration graph has strictly positive cursor weight (decided with potentials: no negative cycle, no cycle of tight edges)", 1)
	kinds := map[string]string{"underflow": "C01-PDS-UNDERFLOW", "progress": "C01-FSM-PROGRESS", "bracket": "C01-PDS-UNDERFLOW", "extent": "C01-LEXEME-EXTENT"}
	r.Rule("C01-LEXEME-EXTENT", "no lexeme ends more than one byte before it begins (Lexeme.Value would slice out of range and panic)", 1)
	runs := []bool{false}
	if thorough && m.NulGuard {
		runs = append(runs, true)
	}
	for _, pess := range runs {
		a := c.ruleAnalysis(m, kinds, pess)
		n := map[string]int{}
		for _, f := range a.Findings {
			if pess && f.Kind != "progress" {
				continue
			}
			n[kinds[f.Kind]]++
		}
		label := ""
		if pess {
			label = " (byte 0 as ordinary byte)"
		}
		if pess {
			// only the progress clause is claimed without the NUL guard
			if n["C01-FSM-PROGRESS"] == 0 {
				r.Ok("C01-FSM-PROGRESS", "all cycles"+label, fmt.Sprintf("no cycle of non-positive cursor weight among %d edges", a.Edges), "")
			}
			continue
		}
		if n["C01-PDS-UNDERFLOW"] == 0 {
			r.Ok("C01-PDS-UNDERFLOW", "all reachable configurations"+label, fmt.Sprintf("no pop of an empty step stack and no unmatched End event in %d configurations", a.Configs), "")
		}
		if n["C01-LEXEME-EXTENT"] == 0 {
			r.Ok("C01-LEXEME-EXTENT", "all Begin..End pairs"+label, fmt.Sprintf("minimal extent >= -1 at all %d end sites", len(a.ExtentMin)), "")
		}
		if n["C01-FSM-PROGRESS"] == 0 {
			r.Ok("C01-FSM-PROGRESS", "all cycles"+label, fmt.Sprintf("no cycle of non-positive cursor weight among %d edges", a.Edges), "")
		}
	}
}

func (c *Ctx) ruleC08Scanner(m *scanfsm.Machine) {
	r := c.R
	r.Rule("C08-NEWLINE-SYMMETRY", "for every state the outcome sets for LF and CR are identical, likewise for SP and TAB", 300)
	r.Rule("C08-COMMENT-RETURN", "every transition that enters a comment pushes the interrupted state; comment states emit nothing and move no cursor; a line comment ends by popping and re-feeding the terminating byte, a block comment by popping", 5)
	r.Rule("C08-BLANK-LINE", "in states without an open lexeme, newline and blank bytes emit no event, and the state reached is stable under further newlines within 3 steps", 20)
	r.Rule("C08-ANNOTATION-FORMS", "wherever '/' is taken as the start of an annotation, both '//' and '/*' lead to an Annotation lexeme; in every reachable configuration with a multi-line annotation open, the bytes '*' '/' close it", 3)
	for _, st := range m.Steps {
		if a, b := m.OutcomeSig(st, '\n'), m.OutcomeSig(st, '\r'); a == b {
			r.OkTrivial("C08-NEWLINE-SYMMETRY", "LF/CR in "+st, "identical outcome sets", c.P.Pos(m.Pos[st]))
		} else {
			r.Bad("C08-NEWLINE-SYMMETRY", "LF/CR in "+st, fmt.Sprintf("LF: %s  CR: %s", a, b), c.P.Pos(m.Pos[st]))
		}
		if a, b := m.OutcomeSig(st, ' '), m.OutcomeSig(st, '\t'); a == b {
			r.OkTrivial("C08-NEWLINE-SYMMETRY", "SP/TAB in "+st, "identical outcome sets", c.P.Pos(m.Pos[st]))
		} else {
			r.Bad("C08-NEWLINE-SYMMETRY", "SP/TAB in "+st, fmt.Sprintf("SP: %s  TAB: %s", a, b), c.P.Pos(m.Pos[st]))
		}
	}
	a := c.ruleAnalysis(m, map[string]string{}, false)

	// ---- CR LF is one line end
	r.Rule("C08-CRLF-ONE-LINE-END", "in every reachable configuration of the scanner automaton the byte pair CR LF does what LF alone does: the same events at the same places (counted from the first byte of the line end) and the same behaviour on the bytes that follow (events and errors, one byte of lookahead in the quick tier, two in the thorough tier); where the text of a Description begins is compared by the lexeme open afterwards (the text may begin at the LF of CR LF: core.description trims leading line breaks)", 1)
	if a != nil {
		la := 1
		if c.R.Tier == "thorough" {
			la = 2
		}
		divs := a.LineEndDivergences(la)
		for i, d := range divs {
			if i >= 12 {
				break
			}
			r.Bad("C08-CRLF-ONE-LINE-END", fmt.Sprintf("state %s (stack %s, open %q)", d.State, d.Stack, d.Open), fmt.Sprintf("CR LF and LF differ here. LF: %.300s   CR LF: %.300s   (reached by %s)", d.LF, d.CRLF, d.Trace), c.P.Pos(m.Pos[d.State]))
		}
		if len(divs) == 0 {
			r.Ok("C08-CRLF-ONE-LINE-END", "all configurations", fmt.Sprintf("%d explored configurations: CR LF behaves as LF in each", a.Configs), "")
		}
		r.Stats["c08_crlf_divergences"] = len(divs)
	}

	// ---- comments
	entry := map[string]bool{} // comment entry states
	enterSites := 0
	for _, st := range m.Steps {
		for b := 0; b < 256; b++ {
			for _, o := range m.Trans[st][b] {
				if len(o.Effs) == 2 && o.Effs[0].K == scanfsm.EPush && o.Effs[0].Fn == "" && o.Effs[1].K == scanfsm.ESetStep && o.Term == scanfsm.TOk {
					entry[o.Effs[1].Fn] = true
					enterSites++
				}
			}
		}
	}
	if len(entry) != 1 {
		r.Undecided("C08-COMMENT-RETURN", "entry", fmt.Sprintf("%d distinct comment entry states found (pattern push(s.step);step=X), expected 1", len(entry)), "")
		return
	}
	var ent string
	for e := range entry {
		ent = e
	}
	// comment states: closure from the entry state over step changes
	cs := map[string]bool{ent: true}
	work := []string{ent}
	for len(work) > 0 {
		s := work[0]
		work = work[1:]
		for b := 0; b < 256; b++ {
			for _, o := range m.Trans[s][b] {
				if fs := o.FinalStep(); fs != "" && fs != "<pop>" && !cs[fs] {
					cs[fs] = true
					work = append(work, fs)
				}
			}
		}
	}
	if len(cs) > 12 {
		r.Undecided("C08-COMMENT-RETURN", "closure", fmt.Sprintf("the comment state closure has %d states: comments leak into other states without popping", len(cs)), c.P.Pos(m.Pos[ent]))
		return
	}
	var csl []string
	for s := range cs {
		csl = append(csl, s)
	}
	sort.Strings(csl)
	for _, s := range csl {
		bad := ""
		for b := 0; b < 256 && bad == ""; b++ {
			for _, o := range m.Trans[s][b] {
				if o.Term == scanfsm.TErr {
					if b != 0 {
						bad = fmt.Sprintf("byte %q is an error inside a comment", byte(b))
					}
					continue
				}
				pops := 0
				for _, e := range o.Effs {
					switch e.K {
					case scanfsm.EFound, scanfsm.EPush, scanfsm.ECur, scanfsm.EJump:
						bad = fmt.Sprintf("comment state has effect %s on byte %q", e, byte(b))
					case scanfsm.EPop:
						pops++
					}
				}
				isNL := b == '\n' || b == '\r' || b == 0
				switch {
				case pops > 1:
					bad = "pops twice"
				case pops == 1 && o.Term == scanfsm.TPopped:
					if !isNL {
						bad = fmt.Sprintf("byte %q ends a comment and is re-fed although it is not a line end", byte(b))
					}
				case pops == 1 && o.Term == scanfsm.TOk:
					if isNL {
						bad = fmt.Sprintf("line end %q ends a comment but is consumed instead of re-fed to the interrupted state", byte(b))
					}
				case pops == 0 && o.Term == scanfsm.TPopped:
					bad = "continues in popped state without popping"
				}
			}
		}
		if bad != "" {
			r.Bad("C08-COMMENT-RETURN", "comment state "+s, bad, c.P.Pos(m.Pos[s]))
		} else {
			r.Ok("C08-COMMENT-RETURN", "comment state "+s, "emits nothing, line ends pop and re-feed, block end pops", c.P.Pos(m.Pos[s]))
		}
	}
	// the closing fence of a block comment is as long as the opening one, and made of bytes read inside the comment
	{
		r.Rule("C08-COMMENT-FENCE", "block comments: the number of bytes that must be consumed inside the comment before it can end (shortest path in the comment states from the first state in which a line end no longer ends the comment to the transition that pops and consumes) is at least the length of the opening fence (the byte that starts the comment plus the shortest path to that state): the bytes of the opening fence never count towards the closing one, so '####' does not open and close a comment", 1)
		lineEnds := func(st string) bool { // a line end ends the comment here
			for _, o := range m.Trans[st]['\n'] {
				if o.Term == scanfsm.TPopped {
					return true
				}
			}
			return false
		}
		// shortest consumed-byte distance from `from` to every comment state
		dist := func(from string) map[string]int {
			d := map[string]int{from: 0}
			work := []string{from}
			for len(work) > 0 {
				x := work[0]
				work = work[1:]
				for b := 1; b < 256; b++ {
					for _, o := range m.Trans[x][b] {
						if o.Term != scanfsm.TOk {
							continue
						}
						fs := o.FinalStep()
						if fs == "" {
							fs = x
						}
						if !cs[fs] {
							continue
						}
						if _, seen := d[fs]; !seen {
							d[fs] = d[x] + 1
							work = append(work, fs)
						}
					}
				}
			}
			return d
		}
		dEnt := dist(ent)
		block, openLen := "", -1
		for st, dd := range dEnt {
			if !lineEnds(st) && (openLen < 0 || dd+1 < openLen || (dd+1 == openLen && st < block)) {
				block, openLen = st, dd+1
			}
		}
		if block == "" {
			r.Ok("C08-COMMENT-FENCE", "block comments", "no comment state survives a line end: the language has no block comments in this tree", "")
		} else {
			dB := dist(block)
			closeLen := -1
			for st, dd := range dB {
				for b := 1; b < 256; b++ {
					for _, o := range m.Trans[st][b] {
						pops := false
						for _, e := range o.Effs {
							if e.K == scanfsm.EPop {
								pops = true
							}
						}
						if pops && o.Term == scanfsm.TOk && (closeLen < 0 || dd+1 < closeLen) {
							closeLen = dd + 1
						}
					}
				}
			}
			// the opening fence is contiguous: once a byte that is not part of the fence (and not a line end) has been
			// consumed on the way from the first sign, the block state is out of reach until the comment has ended
			{
				fenceByte := -1
				// the byte that leads from the entry towards the block state
				for b := 1; b < 256 && fenceByte < 0; b++ {
					for _, o := range m.Trans[ent][b] {
						if o.Term == scanfsm.TOk {
							fs := o.FinalStep()
							if fs != "" && fs != ent {
								if dd, ok := dEnt[fs]; ok && dd == 1 && dist(fs)[block] == openLen-2 {
									fenceByte = b
								}
							}
						}
					}
				}
				broken := ""
				for st, dd := range dEnt {
					if dd >= openLen-1 || !lineEnds(st) {
						continue // only the states that are still counting the fence
					}
					for b := 1; b < 256 && broken == ""; b++ {
						if b == fenceByte || b == '\n' || b == '\r' {
							continue
						}
						for _, o := range m.Trans[st][b] {
							if o.Term != scanfsm.TOk {
								continue
							}
							fs := o.FinalStep()
							if fs == "" {
								fs = st
							}
							if !cs[fs] {
								continue
							}
							if _, reach := dist(fs)[block]; reach {
								broken = fmt.Sprintf("in %s the byte %q, which is not part of the fence, leaves the scanner in %s, from where %s is still reached", st, byte(b), fs, block)
							}
						}
					}
				}
				if fenceByte < 0 {
					r.Undecided("C08-COMMENT-FENCE", "contiguous opening fence", "the byte of the opening fence was not identified", c.P.Pos(m.Pos[ent]))
				} else if broken != "" {
					r.Bad("C08-COMMENT-FENCE", "contiguous opening fence", broken+": the signs of the opening fence need not stand together, a one line comment that contains two more of them (\"# see #12 and #13\") opens a block comment and the directives that follow are dropped", c.P.Pos(m.Pos[ent]))
				} else {
					r.Ok("C08-COMMENT-FENCE", "contiguous opening fence", fmt.Sprintf("any byte other than %q (or a line end) in the states that count the opening fence puts the block state out of reach", byte(fenceByte)), c.P.Pos(m.Pos[ent]))
				}
			}
			key := "block comment entered in " + block
			switch {
			case closeLen < 0:
				r.Bad("C08-COMMENT-FENCE", key, "no transition ends a block comment", c.P.Pos(m.Pos[block]))
			case closeLen < openLen:
				r.Bad("C08-COMMENT-FENCE", key, fmt.Sprintf("the opening fence is %d bytes long, but the comment can end after %d byte(s) read inside it: bytes of the opening fence count towards the closing one (a decision taken by looking behind the cursor cannot tell them apart), so a longer opening fence closes the comment at once and its text is scanned as directives", openLen, closeLen), c.P.Pos(m.Pos[block]))
			default:
				r.Ok("C08-COMMENT-FENCE", key, fmt.Sprintf("opening fence %d bytes, closing needs %d bytes read inside the comment", openLen, closeLen), c.P.Pos(m.Pos[block]))
			}
		}
	}
	// every '#' transition out of a non-comment state that is not an error and not content either enters a comment properly
	for _, st := range m.Steps {
		if cs[st] || !a.StatesSeen[st] {
			continue
		}
		for _, o := range m.Trans[st]['#'] {
			if o.Term == scanfsm.TErr {
				continue
			}
			if fs := o.FinalStep(); cs[fs] {
				ok := false
				endsLexeme := false
				for _, e := range o.Effs {
					if e.K == scanfsm.EPush && e.Fn == "" {
						ok = true
					}
					if e.K == scanfsm.EFound && strings.HasPrefix(m.EventKinds[e.Ev], "end:") {
						endsLexeme = true
					}
				}
				if !ok && endsLexeme {
					// the state is not interrupted but finished: the comment sign ends the lexeme it was reading (an
					// annotation runs to the comment or the end of the line), and the rest of the line is the comment
					r.Ok("C08-COMMENT-RETURN", "comment start in "+st, "the comment sign ends the lexeme of this state; nothing is left to come back to but the state that was pushed when the line began", c.P.Pos(m.Pos[st]))
					continue
				}
				if ok {
					r.Ok("C08-COMMENT-RETURN", "comment start in "+st, "pushes the interrupted state", c.P.Pos(m.Pos[st]))
				} else {
					r.Bad("C08-COMMENT-RETURN", "comment start in "+st, "enters a comment state without pushing s.step: "+o.String(), c.P.Pos(m.Pos[st]))
				}
			}
		}
	}
	r.Stats["c08_comment_states"] = csl

	// ---- blank lines
	pushed := map[string]bool{}
	for _, st := range m.Steps {
		for b := 0; b < 256; b++ {
			for _, o := range m.Trans[st][b] {
				for _, e := range o.Effs {
					if e.K == scanfsm.EPush && e.Fn != "" {
						pushed[e.Fn] = true
					}
				}
			}
		}
	}
	noOpen := func(st string) bool {
		ob := a.OpenByState[st]
		return len(ob) == 1 && ob[""]
	}
	// next states on newline, resolving pops to every pushed state and delegation in popped state
	var nlNext func(st string, depth int) (next map[string]bool, events bool)
	nlNext = func(st string, depth int) (map[string]bool, bool) {
		next := map[string]bool{}
		ev := false
		for _, o := range m.Trans[st]['\n'] {
			if o.Term == scanfsm.TErr {
				continue
			}
			for _, e := range o.Effs {
				if e.K == scanfsm.EFound {
					ev = true
				}
			}
			fs := o.FinalStep()
			targets := []string{fs}
			if fs == "" {
				targets = []string{st}
			}
			if fs == "<pop>" {
				targets = nil
				for p := range pushed {
					targets = append(targets, p)
				}
				for s := range a.StatesSeen { // states pushed via push(s.step)
					if !cs[s] && noOpen(s) {
						_ = s
					}
				}
			}
			for _, tgt := range targets {
				if o.Term == scanfsm.TPopped && depth < 4 {
					n2, e2 := nlNext(tgt, depth+1)
					ev = ev || e2
					for k := range n2 {
						next[k] = true
					}
				} else {
					next[tgt] = true
				}
			}
		}
		return next, ev
	}
	for _, st := range m.Steps {
		if cs[st] || !a.StatesSeen[st] || !noOpen(st) {
			continue
		}
		// blank bytes must not emit
		evOn := ""
		for _, b := range []byte{'\n', ' '} {
			for _, o := range m.Trans[st][b] {
				if o.Term == scanfsm.TErr {
					continue
				}
				began := false
				for _, e := range o.Effs {
					if e.K == scanfsm.EFound && strings.HasPrefix(m.EventKinds[e.Ev], "begin:") {
						began = true // the byte opens (and possibly closes) a lexeme of its own: not a blank-line situation
					}
					if e.K == scanfsm.EFound && !began {
						evOn = fmt.Sprintf("%q emits %s", b, e)
					}
				}
			}
		}
		if evOn != "" {
			r.Bad("C08-BLANK-LINE", "state "+st, "a blank byte emits an event although no lexeme is open: "+evOn, c.P.Pos(m.Pos[st]))
			continue
		}
		// stability
		front := map[string]bool{st: true}
		stable := false
		for i := 0; i < 4 && !stable; i++ {
			nf := map[string]bool{}
			for s := range front {
				n, _ := nlNext(s, 0)
				for k := range n {
					nf[k] = true
				}
			}
			same := len(nf) == len(front)
			for k := range nf {
				if !front[k] {
					same = false
				}
			}
			if same || len(nf) == 0 {
				stable = true
			}
			front = nf
		}
		if stable {
			r.Ok("C08-BLANK-LINE", "state "+st, "blank bytes emit nothing; newline successors reach a fixed point", c.P.Pos(m.Pos[st]))
		} else {
			r.Bad("C08-BLANK-LINE", "state "+st, "repeated newlines keep changing the state set: a blank line is not idempotent here", c.P.Pos(m.Pos[st]))
		}
	}

	// ---- annotation forms
	introducers := map[string]bool{}
	for _, st := range m.Steps {
		t1, t2 := "", ""
		for _, o := range m.Trans[st]['/'] {
			if o.Term == scanfsm.TOk && len(o.Effs) == 1 && o.Effs[0].K == scanfsm.ESetStep {
				t1 = o.Effs[0].Fn
			}
		}
		for _, o := range m.Trans[st]['*'] {
			if o.Term == scanfsm.TOk && len(o.Effs) == 1 && o.Effs[0].K == scanfsm.ESetStep {
				t2 = o.Effs[0].Fn
			}
		}
		begins := func(s string) bool {
			if s == "" {
				return false
			}
			for _, o := range m.Trans[s]['x'] {
				for _, e := range o.Effs {
					if e.K == scanfsm.EFound && m.EventKinds[e.Ev] == "begin:Annotation" {
						return true
					}
				}
			}
			return false
		}
		if begins(t1) && begins(t2) && t1 != t2 {
			introducers[st] = true
		}
	}
	if len(introducers) == 0 {
		r.Bad("C08-ANNOTATION-FORMS", "introducer", "no state accepts both '/' and '*' as the second byte of an annotation start", "")
	}
	for _, st := range m.Steps {
		if !a.StatesSeen[st] || !noOpen(st) || cs[st] || introducers[st] {
			continue
		}
		for _, o := range m.Trans[st]['/'] {
			if o.Term != scanfsm.TOk || len(o.Effs) != 1 || o.Effs[0].K != scanfsm.ESetStep {
				continue
			}
			tgt := o.Effs[0].Fn
			if introducers[tgt] {
				r.Ok("C08-ANNOTATION-FORMS", "annotation start in "+st, "'/' leads to "+tgt+" which accepts '/' and '*'", c.P.Pos(m.Pos[st]))
			} else if hasAnnotationBegin(m, tgt) {
				r.Bad("C08-ANNOTATION-FORMS", "annotation start in "+st, "'/' starts an annotation here but only one of the forms // and /* is available", c.P.Pos(m.Pos[st]))
			}
		}
	}
	// "*/" closes a multi-line annotation in every reachable configuration
	mlStates := map[string]bool{}
	for in := range introducers {
		for _, o := range m.Trans[in]['*'] {
			if fs := o.FinalStep(); fs != "" {
				for _, o2 := range m.Trans[fs]['x'] {
					if fs2 := o2.FinalStep(); fs2 != "" && fs2 != "<pop>" {
						mlStates[fs2] = true
					}
				}
			}
		}
	}
	// closure of multi-line states over non-closing transitions
	workML := []string{}
	for s := range mlStates {
		workML = append(workML, s)
	}
	for len(workML) > 0 {
		s := workML[0]
		workML = workML[1:]
		for b := 1; b < 256; b++ {
			for _, o := range m.Trans[s][b] {
				closes := false
				for _, e := range o.Effs {
					if e.K == scanfsm.EFound {
						closes = true
					}
				}
				if fs := o.FinalStep(); !closes && fs != "" && fs != "<pop>" && !mlStates[fs] {
					mlStates[fs] = true
					workML = append(workML, fs)
				}
			}
		}
	}
	checked, badClose := 0, ""
	for _, cf := range a.ConfigList {
		if cf.Open != "Annotation" || !mlStates[cf.St] || cf.Replay != "" {
			continue
		}
		checked++
		for _, res := range a.Feed(cf, []byte{'x', '*', '/'}) {
			if res.Open != "" {
				badClose = fmt.Sprintf("in state %s (stack %s) the bytes \"x*/\" leave the annotation open (state %s)", cf.St, cf.Stack, res.St)
			}
		}
		for _, res := range a.Feed(cf, []byte{'*', '*', '/'}) {
			if res.Open != "" {
				badClose = fmt.Sprintf("in state %s (stack %s) the bytes \"**/\" leave the annotation open (state %s)", cf.St, cf.Stack, res.St)
			}
		}
	}
	var mll []string
	for s := range mlStates {
		mll = append(mll, s)
	}
	sort.Strings(mll)
	switch {
	case checked == 0:
		r.Undecided("C08-ANNOTATION-FORMS", "multi-line close", "no reachable configuration with a multi-line annotation open was found", "")
	case badClose != "":
		r.Bad("C08-ANNOTATION-FORMS", "multi-line close", badClose, "")
	default:
		r.Ok("C08-ANNOTATION-FORMS", "multi-line close", fmt.Sprintf("\"x*/\" and \"**/\" close the annotation in all %d configurations of states %v", checked, mll), "")
	}
}

func hasAnnotationBegin(m *scanfsm.Machine, st string) bool {
	seen := map[string]bool{}
	var walk func(s string, d int) bool
	walk = func(s string, d int) bool {
		if s == "" || s == "<pop>" || seen[s] || d > 2 {
			return false
		}
		seen[s] = true
		for b := 1; b < 256; b++ {
			for _, o := range m.Trans[s][b] {
				for _, e := range o.Effs {
					if e.K == scanfsm.EFound && m.EventKinds[e.Ev] == "begin:Annotation" {
						return true
					}
				}
				if walk(o.FinalStep(), d+1) {
					return true
				}
			}
		}
		return false
	}
	return walk(st, 0)
}

// ruleUnquote: a parameter lexeme's value is unquoted before it is interpreted.
func (c *Ctx) ruleUnquote() {
	r := c.R
	r.Rule("C08-UNQUOTE", "every consumer of the value of a Parameter lexeme applies Unquote() FIRST: in a call chain rooted at <parameter lexeme>.Value() the next method is Unquote, or the value is handed to a function that uses its parameter only as the receiver of Unquote() (until it overwrites it with the unquoted value: directive.AppendParameter). Parameter lexemes are the elements of Scanner.lastDirectiveParameters, the lexeme of core.processParameter and the file-name lexeme of getIncludedFilePath", 4)
	n := 0
	check := func(f *Fn, isParamLexeme func(e ast.Expr) bool) {
		pk := f.Pkg
		inspectWithStack(f.Decl.Body, func(nd ast.Node, stack []ast.Node) bool {
			call, ok := nd.(*ast.CallExpr)
			if !ok || len(call.Args) != 0 {
				return true
			}
			sel, ok := ast.Unparen(call.Fun).(*ast.SelectorExpr)
			if !ok || sel.Sel.Name != "Value" || !isParamLexeme(sel.X) {
				return true
			}
			if !strings.HasSuffix(namedType(pk.TypesInfo.TypeOf(sel.X)), "scanner.Lexeme") {
				return true
			}
			n++
			key := fmt.Sprintf("%s | %s.Value()", f.Name(), exprString(sel.X))
			parent := stack[len(stack)-1]
			switch p := parent.(type) {
			case *ast.SelectorExpr:
				if p.Sel.Name == "Unquote" {
					r.Ok("C08-UNQUOTE", key, "followed by Unquote()", c.pos(call.Pos()))
				} else {
					r.Bad("C08-UNQUOTE", key, "the parameter value is interpreted ("+p.Sel.Name+") before it is unquoted: a quoted parameter is treated differently from the bare one", c.pos(call.Pos()))
				}
			case *ast.CallExpr:
				// passed to a function: its first statement must unquote the parameter
				cal := callee(pk, p)
				g := c.fnOf(cal)
				okFirst := false
				rawUse := ""
				if g != nil {
					// which parameter of g receives the value
					pi := -1
					for k, a := range p.Args {
						if a.Pos() <= call.Pos() && call.End() <= a.End() {
							pi = k
						}
					}
					var pobj types.Object
					k := 0
					for _, fl := range g.Decl.Type.Params.List {
						for _, nm := range fl.Names {
							if k == pi {
								pobj = g.Pkg.TypesInfo.Defs[nm]
							}
							k++
						}
					}
					// every use of that parameter is the receiver of Unquote(), until it is overwritten by its own
					// unquoted value (p = p.Unquote()): the raw, possibly quoted bytes are never looked at
					if pobj != nil {
						okFirst = true
						reassignedAt := token.NoPos
						ast.Inspect(g.Decl.Body, func(m ast.Node) bool {
							if as, ok := m.(*ast.AssignStmt); ok && len(as.Lhs) == 1 && len(as.Rhs) == 1 && reassignedAt == token.NoPos {
								if lid := identOf(as.Lhs[0]); lid != nil && g.Pkg.TypesInfo.Uses[lid] == pobj {
									if rc, ok := ast.Unparen(as.Rhs[0]).(*ast.CallExpr); ok {
										if rs, ok := ast.Unparen(rc.Fun).(*ast.SelectorExpr); ok && rs.Sel.Name == "Unquote" {
											if rid := identOf(rs.X); rid != nil && g.Pkg.TypesInfo.Uses[rid] == pobj {
												reassignedAt = as.End()
											}
										}
									}
								}
							}
							return true
						})
						inspectWithStack(g.Decl.Body, func(m ast.Node, stack []ast.Node) bool {
							id, ok := m.(*ast.Ident)
							if !ok || g.Pkg.TypesInfo.Uses[id] != pobj {
								return true
							}
							if reassignedAt != token.NoPos && id.Pos() >= reassignedAt {
								return true // the unquoted value by now
							}
							if len(stack) >= 2 {
								if sel, ok := stack[len(stack)-1].(*ast.SelectorExpr); ok && sel.X == ast.Expr(id) && sel.Sel.Name == "Unquote" {
									return true
								}
							}
							if reassignedAt != token.NoPos && len(stack) >= 1 {
								if as, ok := stack[len(stack)-1].(*ast.AssignStmt); ok && as.End() == reassignedAt {
									return true // the left-hand side of p = p.Unquote()
								}
							}
							okFirst = false
							rawUse = c.pos(id.Pos())
							return true
						})
					}
				}
				if okFirst {
					r.Ok("C08-UNQUOTE", key, "handed to "+cal.Name()+", which uses it only through Unquote()", c.pos(call.Pos()))
				} else {
					r.Bad("C08-UNQUOTE", key, "the raw parameter value is handed to "+cal.Name()+", which looks at it without unquoting it first ("+rawUse+"): a quoted parameter is treated differently from the bare one", c.pos(call.Pos()))
				}
			default:
				r.Bad("C08-UNQUOTE", key, "the raw parameter value is used without Unquote()", c.pos(call.Pos()))
			}
			return true
		})
	}
	// scanner: range variables over lastDirectiveParameters
	var ldp *types.Var
	if tn := c.P.LookupType("scanner", "Scanner"); tn != nil {
		st := tn.Type().Underlying().(*types.Struct)
		for i := 0; i < st.NumFields(); i++ {
			if sl, ok := st.Field(i).Type().Underlying().(*types.Slice); ok && strings.HasSuffix(namedType(sl.Elem()), "scanner.Lexeme") {
				ldp = st.Field(i)
			}
		}
	}
	// parameter-lexeme variables per function, propagated to callees that receive them as arguments
	pv := map[*types.Func]map[types.Object]bool{}
	mark := func(f *Fn, o types.Object) bool {
		if o == nil {
			return false
		}
		if pv[f.Obj] == nil {
			pv[f.Obj] = map[types.Object]bool{}
		}
		if pv[f.Obj][o] {
			return false
		}
		pv[f.Obj][o] = true
		return true
	}
	fns := c.libFns()
	for _, f := range fns {
		pk := f.Pkg
		ast.Inspect(f.Decl.Body, func(nd ast.Node) bool {
			if rs, ok := nd.(*ast.RangeStmt); ok && ldp != nil && fieldSel(pk, rs.X) == ldp {
				if id, ok := rs.Value.(*ast.Ident); ok {
					mark(f, pk.TypesInfo.Defs[id])
				}
			}
			return true
		})
		if f.Name() == "core.(*JApiCore).processParameter" || f.Name() == "core.(*JApiCore).getIncludedFilePath" {
			name := map[string]string{"core.(*JApiCore).processParameter": "lexeme", "core.(*JApiCore).getIncludedFilePath": "parameter"}[f.Name()]
			ast.Inspect(f.Decl, func(nd ast.Node) bool {
				if id, ok := nd.(*ast.Ident); ok && id.Name == name {
					mark(f, pk.TypesInfo.Defs[id])
				}
				return true
			})
		}
	}
	for changed := true; changed; {
		changed = false
		for _, f := range fns {
			vars := pv[f.Obj]
			if len(vars) == 0 {
				continue
			}
			pk := f.Pkg
			ast.Inspect(f.Decl.Body, func(nd ast.Node) bool {
				call, ok := nd.(*ast.CallExpr)
				if !ok {
					return true
				}
				g := c.fnOf(callee(pk, call))
				if g == nil {
					return true
				}
				for i, a := range call.Args {
					id, ok := ast.Unparen(a).(*ast.Ident)
					if !ok || !vars[pk.TypesInfo.Uses[id]] {
						continue
					}
					j := 0
					for _, fl := range g.Decl.Type.Params.List {
						for _, nm := range fl.Names {
							if j == i && mark(g, g.Pkg.TypesInfo.Defs[nm]) {
								changed = true
							}
							j++
						}
					}
				}
				return true
			})
		}
	}
	for _, f := range fns {
		vars := pv[f.Obj]
		pk := f.Pkg
		// locals bound to an element of the parameter list: lex := s.lastDirectiveParameters[i]
		isElem := func(e ast.Expr) bool {
			ix, ok := ast.Unparen(e).(*ast.IndexExpr)
			return ok && ldp != nil && fieldSel(pk, ix.X) == ldp
		}
		locals := map[types.Object]bool{}
		ast.Inspect(f.Decl.Body, func(nd ast.Node) bool {
			if as, ok := nd.(*ast.AssignStmt); ok && len(as.Lhs) == len(as.Rhs) {
				for i, l := range as.Lhs {
					if id, ok := l.(*ast.Ident); ok && isElem(as.Rhs[i]) {
						if o := pk.TypesInfo.Defs[id]; o != nil {
							locals[o] = true
						}
					}
				}
			}
			return true
		})
		check(f, func(e ast.Expr) bool {
			if isElem(e) {
				return true
			}
			id, ok := ast.Unparen(e).(*ast.Ident)
			return ok && (vars[pk.TypesInfo.Uses[id]] || locals[pk.TypesInfo.Uses[id]])
		})
	}
	if n == 0 {
		r.Undecided("C08-UNQUOTE", "sites", "no consumer of a parameter lexeme value found", "")
	}
}

// ruleNormalisers: newline content inside Description text and annotations is normalised the same way for LF, CRLF and CR.
func (c *Ctx) ruleNormalisers() {
	r := c.R
	// no wrapper may decide by itself which texts need the normaliser
	r.Rule("C08-NORMALISER-NO-BYPASS", "no library function returns one of its parameters through catalog.Annotation (or core.description) on one path and untouched on another: whatever test picks the path knows fewer cases than the normaliser (expected count 0; the matcher is shown to find its built-in example on every run)", 1)
	if why := normaliserBypassSelfTest(); why != "" {
		r.Undecided("C08-NORMALISER-NO-BYPASS", "self-test", why, "")
	} else {
		ann := c.P.LookupFunc("catalog", "Annotation")
		desc := c.P.LookupFunc("core", "description")
		nb := 0
		for _, f := range c.libFns() {
			fpk := f.Pkg
			for _, p := range normaliserBypasses(fpk.TypesInfo, f.Decl, func(call *ast.CallExpr) bool {
				cal := callee(fpk, call)
				return cal != nil && (cal == ann || cal == desc)
			}) {
				nb++
				r.Bad("C08-NORMALISER-NO-BYPASS", f.Name()+" | parameter "+p, "the text is normalised on one path and returned as it came on another: a layout the path test does not think of (CR-only line ends, a tab, a run of blanks) reaches the catalog unnormalised", c.pos(f.Decl.Pos()))
			}
		}
		if nb == 0 {
			r.Ok("C08-NORMALISER-NO-BYPASS", "library", "no conditional wrapper of a normaliser (the matcher finds the one in its built-in example)", "")
		}
	}
	r.Rule("C08-NORMALISERS", "core.description replaces CRLF by LF BEFORE it replaces a lone CR by LF (the other order turns CRLF into two line ends) and does both before anything else looks at the text; catalog.Annotation trims and collapses every run of white space (regexp \\s+, which covers CR, LF and TAB) into one blank", 2)
	if f := c.fn("core", "description"); f != nil {
		pk := f.Pkg
		type rep struct {
			old, new string
			pos      int
		}
		var reps []rep
		lit := func(e ast.Expr) (string, bool) {
			cl, ok := ast.Unparen(e).(*ast.CompositeLit)
			if !ok {
				if call, ok := ast.Unparen(e).(*ast.CallExpr); ok && len(call.Args) == 1 {
					if s, ok := constString(pk, call.Args[0]); ok {
						return s, true
					}
				}
				return "", false
			}
			var bs []byte
			for _, el := range cl.Elts {
				v, ok := constInt(pk, el)
				if !ok {
					return "", false
				}
				bs = append(bs, byte(v))
			}
			return string(bs), true
		}
		firstOther := -1
		for i, st := range f.Decl.Body.List {
			isRep := false
			ast.Inspect(st, func(n ast.Node) bool {
				if call, ok := n.(*ast.CallExpr); ok {
					if cal := callee(pk, call); cal != nil && cal.Pkg() != nil && cal.Pkg().Path() == "bytes" && cal.Name() == "ReplaceAll" && len(call.Args) == 3 {
						o, ok1 := lit(call.Args[1])
						nw, ok2 := lit(call.Args[2])
						if ok1 && ok2 {
							reps = append(reps, rep{o, nw, i})
							isRep = true
						}
					}
				}
				return true
			})
			if !isRep && firstOther < 0 {
				firstOther = i
			}
		}
		crlf, cr := -1, -1
		for _, x := range reps {
			if x.old == "\r\n" && x.new == "\n" {
				crlf = x.pos
			}
			if x.old == "\r" && x.new == "\n" {
				cr = x.pos
			}
		}
		switch {
		case crlf < 0 || cr < 0:
			r.Bad("C08-NORMALISERS", "description", "Description text is not normalised for both CRLF and CR line ends", c.pos(f.Decl.Pos()))
		case crlf > cr:
			r.Bad("C08-NORMALISERS", "description", "a lone CR is replaced before CRLF: every CRLF becomes two line ends, so a CRLF document gets blank lines in its descriptions", c.pos(f.Decl.Pos()))
		case firstOther >= 0 && firstOther < cr:
			r.Bad("C08-NORMALISERS", "description", "the text is inspected before its line ends are normalised", c.pos(f.Decl.Pos()))
		default:
			r.Ok("C08-NORMALISERS", "description", "CRLF -> LF, then CR -> LF, before anything else", c.pos(f.Decl.Pos()))
		}
	} else {
		r.Undecided("C08-NORMALISERS", "description", "core.description not found", "")
	}
	if f := c.fn("catalog", "Annotation"); f != nil {
		pk := f.Pkg
		trims, collapses := false, false
		ast.Inspect(f.Decl.Body, func(n ast.Node) bool {
			call, ok := n.(*ast.CallExpr)
			if !ok {
				return true
			}
			cal := callee(pk, call)
			if cal == nil {
				return true
			}
			if cal.Name() == "TrimSpace" {
				trims = true
			}
			if cal.Name() == "ReplaceAllString" && len(call.Args) == 2 {
				if s, ok := constString(pk, call.Args[1]); ok && s == " " {
					// the regexp variable's pattern
					if sel, ok := ast.Unparen(call.Fun).(*ast.SelectorExpr); ok {
						if id, ok := ast.Unparen(sel.X).(*ast.Ident); ok {
							if v, ok := pk.TypesInfo.Uses[id].(*types.Var); ok {
								if init, ok := varInitializer(pk, v).(*ast.CallExpr); ok && len(init.Args) == 1 {
									if pat, ok := constString(pk, init.Args[0]); ok && pat == `\s+` {
										collapses = true
									}
								}
							}
						}
					}
				}
			}
			return true
		})
		if trims && collapses {
			r.Ok("C08-NORMALISERS", "annotation", "TrimSpace + \\s+ -> one blank", c.pos(f.Decl.Pos()))
		} else {
			r.Bad("C08-NORMALISERS", "annotation", fmt.Sprintf("annotation white space is not normalised (trim=%v, collapse \\s+=%v): a multi-line /* */ annotation differs between LF and CRLF documents", trims, collapses), c.pos(f.Decl.Pos()))
		}
	} else {
		r.Undecided("C08-NORMALISERS", "annotation", "catalog.Annotation not found", "")
	}
}

// ruleEOFAsEOL: an included file may end without a line break, and what follows in the including file continues the
// same line structure. In every state in which a line break is simply the end of the line (the step function emits
// nothing for LF and goes to the state that expects a keyword), the end of the file must not be an error either:
// otherwise a piece that is legal with a trailing line break is rejected without one.
// ruleStartState: the scanner of an included file starts in the machine's initial state, while the unsplit document is,
// at the same place, in the state that expects a keyword at the start of a line. Whatever may stand there in the
// unsplit document - a keyword, a blank line, a comment, the "(" that opens the context of the directive before the
// cut, the ")" that closes one - must be taken the same way by the initial state.
func (c *Ctx) ruleStartState(m *scanfsm.Machine, rule string) {
	r := c.R
	r.Rule(rule, "for every byte the initial state of the scanner (where an INCLUDEd file starts) has the same outcomes as the state that expects a keyword at the start of a line (where the unsplit document is at a cut between directives), apart from the name of the state the step variable is left in", 1)
	// the keyword-expecting line-start state: the state most transitions on LF without an event lead to
	votes := map[string]int{}
	for _, st := range m.Steps {
		for _, o := range m.Trans[st]['\n'] {
			if o.Term != scanfsm.TOk {
				continue
			}
			ev := false
			for _, e := range o.Effs {
				if e.K == scanfsm.EFound {
					ev = true
				}
			}
			if fs := o.FinalStep(); !ev && fs != "" && fs != "<pop>" {
				votes[fs]++
			}
		}
	}
	best, bn := "", 0
	for st, n := range votes {
		if n > bn || (n == bn && st < best) {
			best, bn = st, n
		}
	}
	if best == "" {
		r.Undecided(rule, "anchor", "no line-start state recognised", "")
		return
	}
	norm := func(sig, self string) string {
		return strings.ReplaceAll(sig, "step="+self, "step=<self>")
	}
	var diffs []string
	for b := 0; b < 256; b++ {
		x := norm(m.OutcomeSig(m.InitStep, byte(b)), m.InitStep)
		y := norm(m.OutcomeSig(best, byte(b)), best)
		if x != y {
			diffs = append(diffs, fmt.Sprintf("%q: %s gives [%s], %s gives [%s]", byte(b), m.InitStep, trunc(x, 90), best, trunc(y, 90)))
		}
	}
	if len(diffs) == 0 {
		r.Ok(rule, m.InitStep+" = "+best, "identical outcomes for all 256 bytes", c.P.Pos(m.Pos[m.InitStep]))
	} else {
		if len(diffs) > 4 {
			diffs = append(diffs[:4], fmt.Sprintf("... %d more", len(diffs)-4))
		}
		r.Bad(rule, m.InitStep+" = "+best, "a piece cut out at a directive boundary is read differently when it starts a file of its own: "+strings.Join(diffs, "; "), c.P.Pos(m.Pos[m.InitStep]))
	}
}

func (c *Ctx) ruleEOFAsEOL(m *scanfsm.Machine, a *scanfsm.Analysis) {
	r := c.R
	r.Rule("C09-EOF-AS-EOL", "in every reachable scanner state where LF only ends the line (no event, next state = the keyword-expecting state) the end of the file is accepted as well: a file that is INCLUDEd may end without a line break at any such point", 3)
	// the states in which a new line of directives starts: the initial state and every state the keyword trie starts
	// from (a state that emits KeywordBegin on a letter)
	lineStart := map[string]bool{m.InitStep: true}
	for _, st := range m.Steps {
		for b := 'A'; b <= 'Z'; b++ {
			for _, o := range m.Trans[st][byte(b)] {
				for _, e := range o.Effs {
					if e.K == scanfsm.EFound && e.Ev == "KeywordBegin" {
						lineStart[st] = true
					}
				}
			}
		}
	}
	n := 0
	for _, st := range m.Steps {
		if a != nil && !a.StatesSeen[st] {
			continue
		}
		plainEOL := false
		for _, o := range m.Trans[st]['\n'] {
			if o.Term == scanfsm.TErr {
				continue
			}
			events := 0
			for _, e := range o.Effs {
				if e.K == scanfsm.EFound {
					events++
				}
			}
			if events == 0 && lineStart[o.FinalStep()] && o.Weight() == 1 {
				plainEOL = true
			}
		}
		if !plainEOL {
			continue
		}
		n++
		okEOF := false
		for _, o := range m.Trans[st][0] {
			if o.Term != scanfsm.TErr {
				okEOF = true
			}
		}
		if okEOF {
			r.Ok("C09-EOF-AS-EOL", "state "+st, "LF ends the line and the end of the file is accepted too", c.P.Pos(m.Pos[st]))
		} else {
			r.Bad("C09-EOF-AS-EOL", "state "+st, "LF simply ends the line here but the end of the file is an error: an included file that ends at this point without a line break is rejected although the same text with a line break is accepted", c.P.Pos(m.Pos[st]))
		}
	}
	if n == 0 {
		r.Undecided("C09-EOF-AS-EOL", "states", "no state found in which LF simply ends the line", "")
	}
}

// ruleOpenTransparent: "(" is announced and then forgotten: the scanner reads what follows "(" and the line end exactly
// as it reads what follows the line end alone (E1, bounded bisimulation on the explored configurations).
func (c *Ctx) ruleOpenTransparent(m *scanfsm.Machine, rule string) {
	r := c.R
	r.Rule(rule, "in every reachable configuration of the scanner automaton in which the byte '(' is announced as ContextOpen, the scanner afterwards reads the input as it would without the parenthesis: the behaviour (events, errors) on every byte sequence up to the lookahead (2 bytes quick, 3 thorough) after '(' LF equals that after LF alone - a body, an enum list or nested directives are scanned the same in the explicit and the implicit layout", 1)
	a := c.Analysis(stackK, false)
	if a == nil {
		r.Undecided(rule, "E1", "no exploration", "")
		return
	}
	la := 2
	if r.Tier == "thorough" {
		la = 3
	}
	divs, compared := a.ContextOpenDivergences(la)
	if compared < 5 {
		r.Undecided(rule, "sites", fmt.Sprintf("only %d configurations announce '(' as ContextOpen (expected the keyword state and the body states)", compared), "")
		return
	}
	seen := map[string]bool{}
	for _, d := range divs {
		if seen[d.State] || len(seen) >= 8 {
			continue
		}
		seen[d.State] = true
		r.Bad(rule, "state "+d.State, fmt.Sprintf("after '(' and the line end the scanner does not continue as after the line end alone (stack %s). plain: %.300s   explicit: %.300s   (reached by %s)", d.Stack, d.Plain, d.Explicit, d.Trace), c.P.Pos(m.Pos[d.State]))
	}
	if len(divs) == 0 {
		r.Ok(rule, "all configurations", fmt.Sprintf("%d configurations announce '(' as ContextOpen: each continues as without it", compared), "")
	}
	r.Stats["open_transparent_compared"] = compared
}

// ruleParamsPositionFree: which reader a body is handed to (jsight schema, regex, none) is decided by the scanner from
// the parameters of the directive it has just read. The core classifies parameters by their look, not by their place
// (directive.AppendParameter), so `TYPE regex @a` is the directive `TYPE @a regex`. The scanner's predicates have to be
// as position-free: the parameter list is only walked as a whole.
func (c *Ctx) ruleParamsPositionFree(rule string) {
	r := c.R
	r.Rule(rule, "the scanner's list of the parameters of the current directive (the []*Lexeme field of Scanner) is only appended to, emptied, measured, or walked from end to end (range, or a counting loop that covers every index): no predicate looks at one position of it, because the core classifies parameters by their look and accepts them in any order", 3)
	pk := c.P.Pkg("scanner")
	if pk == nil {
		r.Undecided(rule, "anchor", "package scanner not found", "")
		return
	}
	var fields []*types.Var
	if tn, ok := pk.Types.Scope().Lookup("Scanner").(*types.TypeName); ok {
		if st, ok := tn.Type().Underlying().(*types.Struct); ok {
			for i := 0; i < st.NumFields(); i++ {
				if sl, ok := st.Field(i).Type().(*types.Slice); ok {
					if p, ok := sl.Elem().(*types.Pointer); ok && namedType(p.Elem()) == prog.ModulePath+"/scanner.Lexeme" {
						fields = append(fields, st.Field(i))
					}
				}
			}
		}
	}
	if len(fields) == 0 {
		r.Undecided(rule, "anchor", "no []*Lexeme field in scanner.Scanner", "")
		return
	}
	isF := func(f *Fn, e ast.Expr) bool {
		fv := fieldSel(f.Pkg, e)
		for _, x := range fields {
			if fv == x {
				return true
			}
		}
		return false
	}
	n := 0
	perFn := map[string]int{}
	for _, f := range c.libFns() {
		if f.Pkg != pk {
			continue
		}
		inspectWithStack(f.Decl.Body, func(nd ast.Node, stack []ast.Node) bool {
			e, ok := nd.(ast.Expr)
			if !ok || !isF(f, e) || len(stack) == 0 {
				return true
			}
			if _, isSel := nd.(*ast.SelectorExpr); !isSel {
				return true
			}
			n++
			perFn[f.Name()]++
			key := fmt.Sprintf("%s | %s #%d", f.Name(), exprString(e), perFn[f.Name()])
			par := stack[len(stack)-1]
			why := ""
			switch p := par.(type) {
			case *ast.RangeStmt:
				if p.X == e {
					why = "walked by range"
				}
			case *ast.CallExpr:
				if id, ok := p.Fun.(*ast.Ident); ok && (id.Name == "len" || id.Name == "cap" || (id.Name == "append" && len(p.Args) > 0 && p.Args[0] == e)) {
					why = id.Name
				}
			case *ast.AssignStmt:
				for _, l := range p.Lhs {
					if l == e {
						why = "assigned"
					}
				}
			case *ast.SliceExpr:
				if p.X == e && p.Low == nil && p.High != nil {
					if k, isK := constInt(f.Pkg, p.High); isK && k == 0 {
						why = "emptied"
					}
				}
			case *ast.IndexExpr:
				if p.X == e {
					// the counter of a loop that covers every index of this list
					if id, ok := ast.Unparen(p.Index).(*ast.Ident); ok {
						for i := len(stack) - 1; i >= 0; i-- {
							if fs, isFor := stack[i].(*ast.ForStmt); isFor {
								if lc := coverOfLoop(f, fs); lc != nil && lc.first == "" && lc.last == "" && lc.list == exprString(unalias(f, e)) {
									if init, ok := fs.Init.(*ast.AssignStmt); ok && len(init.Lhs) == 1 {
										if iv, ok := init.Lhs[0].(*ast.Ident); ok && f.Pkg.TypesInfo.Defs[iv] == f.Pkg.TypesInfo.Uses[id] {
											why = "indexed by the counter of a loop over every index"
										}
									}
								}
							}
						}
					}
				}
			case *ast.KeyValueExpr:
				why = "initialised"
			}
			if why != "" {
				r.OkTrivial(rule, key, why, c.pos(nd.Pos()))
			} else {
				r.Bad(rule, key, "the parameter list is looked at by position ("+exprString(par.(ast.Node).(ast.Expr))+"): a directive whose parameters come in another order is scanned differently, although the core accepts it as the same directive", c.pos(nd.Pos()))
			}
			return true
		})
	}
	r.Stats["param_list_uses"] = n
}

// ruleBlankPairs: blank and tab are one thing for the language (C08: re-indentation with either). Outside the scanner's
// transition table, which is compared state by state, the library treats blanks by hand in a few places: cut sets of the
// Trim family and comparisons of a byte with ' ' or '\t'. Wherever one of the two is named, the other must be named in
// the same cut set or the same condition.
func (c *Ctx) ruleBlankPairs(rule string) {
	r := c.R
	r.Rule(rule, "wherever library code names the blank or the tab by hand - in the cut set of bytes/strings.Trim, TrimLeft, TrimRight, or in a comparison of a byte or rune with ' ' or '\\t' - the same cut set or the same condition names the other one too: a text indented with tabs is treated as the text indented with blanks", 2)
	n := 0
	for _, f := range c.libFns() {
		pk := f.Pkg
		perFn := 0
		inspectWithStack(f.Decl.Body, func(nd ast.Node, stack []ast.Node) bool {
			switch x := nd.(type) {
			case *ast.CallExpr:
				cal := callee(pk, x)
				if cal == nil || cal.Pkg() == nil || (cal.Pkg().Path() != "bytes" && cal.Pkg().Path() != "strings") || len(x.Args) != 2 {
					return true
				}
				switch cal.Name() {
				case "Trim", "TrimLeft", "TrimRight", "IndexAny", "ContainsAny", "LastIndexAny":
				default:
					return true
				}
				set, ok := constString(pk, x.Args[1])
				if !ok {
					return true
				}
				sp, tab := strings.ContainsRune(set, ' '), strings.ContainsRune(set, '\t')
				if !sp && !tab {
					return true
				}
				n++
				perFn++
				key := fmt.Sprintf("%s | %s cut set #%d", f.Name(), cal.Name(), perFn)
				if sp && tab {
					r.OkTrivial(rule, key, "blank and tab together", c.pos(x.Pos()))
				} else {
					r.Bad(rule, key, fmt.Sprintf("the cut set %q names only one of blank and tab: the same text indented with the other is treated differently", set), c.pos(x.Pos()))
				}
			case *ast.BinaryExpr:
				if x.Op != token.EQL && x.Op != token.NEQ {
					return true
				}
				isBlankConst := func(e ast.Expr) (rune, bool) {
					if k, ok := constInt(pk, e); ok && (k == ' ' || k == '\t') {
						if _, isLit := ast.Unparen(e).(*ast.BasicLit); isLit {
							return rune(k), true
						}
					}
					return 0, false
				}
				var which rune
				var subj ast.Expr
				if k, ok := isBlankConst(x.Y); ok {
					which, subj = k, x.X
				} else if k, ok := isBlankConst(x.X); ok {
					which, subj = k, x.Y
				} else {
					return true
				}
				n++
				perFn++
				key := fmt.Sprintf("%s | comparison with %q #%d", f.Name(), which, perFn)
				// the outermost && / || chain this comparison belongs to
				var top ast.Expr = x
				for i := len(stack) - 1; i >= 0; i-- {
					if be, ok := stack[i].(*ast.BinaryExpr); ok && (be.Op == token.LAND || be.Op == token.LOR) {
						top = be
						continue
					}
					if _, ok := stack[i].(*ast.ParenExpr); ok {
						continue
					}
					break
				}
				other := ' '
				if which == ' ' {
					other = '\t'
				}
				paired := false
				ast.Inspect(top, func(m ast.Node) bool {
					if be, ok := m.(*ast.BinaryExpr); ok && be.Op == x.Op {
						for _, pair := range [][2]ast.Expr{{be.X, be.Y}, {be.Y, be.X}} {
							if k, ok := isBlankConst(pair[1]); ok && k == other && exprString(pair[0]) == exprString(subj) {
								paired = true
							}
						}
					}
					return true
				})
				if paired {
					r.OkTrivial(rule, key, "the same condition compares with the other one too", c.pos(x.Pos()))
				} else {
					r.Bad(rule, key, fmt.Sprintf("%s is compared with %q but not, in the same condition, with %q", exprString(subj), which, other), c.pos(x.Pos()))
				}
			}
			return true
		})
	}
	if n < 2 {
		r.Undecided(rule, "sites", fmt.Sprintf("%d hand-written uses of blank/tab found (the Description handling and the scanner's blank predicate on the pinned tree)", n), "")
	}
}

// ruleQuotedEscapes: inside a quoted directive parameter the language knows two escapes, \\ and \". The reader that
// removes the quotes (bytes.Unquote of the dependency) knows more (it also turns \/ into /). The name predicate of
// INCLUDE - no backslash anywhere - is applied to the unquoted string, so every further escape the scanner lets through
// is a way of writing a character that the predicate will not see as written with a backslash.
func (c *Ctx) ruleQuotedEscapes(m *scanfsm.Machine, rule string) {
	r := c.R
	r.Rule(rule, "in the scanner automaton, the state entered by a backslash inside a quoted parameter (found by its role: entered on '\\\\' from a state in which '\"' ends a Parameter lexeme, and returning to that state) accepts exactly the two bytes '\\\\' and '\"' (JSight API 0.3: the escapes of a quoted parameter): an additional escape is removed by Unquote before the INCLUDE name predicate looks for backslashes", 1)
	n := 0
	for _, q := range m.Steps {
		// q: '"' ends a parameter here
		ends := false
		for _, o := range m.Trans[q]['"'] {
			for _, e := range o.Effs {
				if e.K == scanfsm.EFound && strings.Contains(e.String(), "ParameterEnd") {
					ends = true
				}
			}
		}
		if !ends {
			continue
		}
		for _, o := range m.Trans[q]['\\'] {
			esc := o.FinalStep()
			if o.Term != scanfsm.TOk || esc == "" || esc == q {
				continue
			}
			// esc returns to q
			back := false
			for b := 1; b < 256; b++ {
				for _, o2 := range m.Trans[esc][b] {
					if o2.Term == scanfsm.TOk && o2.FinalStep() == q {
						back = true
					}
				}
			}
			if !back {
				continue
			}
			n++
			got := m.NonErrorBytes(esc)
			key := "escape state " + esc
			if len(got) == 2 && got[0] == '"' && got[1] == '\\' {
				r.Ok(rule, key, `accepts exactly \\ and \"`, c.P.Pos(m.Pos[esc]))
			} else {
				r.Bad(rule, key, fmt.Sprintf("after a backslash inside a quoted parameter the scanner accepts %q; the language has the escapes \\\\ and \\\" only. Unquote removes the backslash of the others too, so the unquoted value contains characters that were written with a backslash the INCLUDE name predicate never sees", got), c.P.Pos(m.Pos[esc]))
			}
		}
	}
	if n == 0 {
		r.Undecided(rule, "sites", "no escape state of a quoted parameter recognised in the automaton", "")
	}
}

// ruleSchemaExtentByDependency: where a JSight schema body ends is not decided by the scanner of this module but by
// the schema reader of jsight-schema-core (JSchema.Len). That reader also consumes what FOLLOWS the schema as long as it
// looks like a comment to it, and its comment grammar is not the one of the API language: a bare "#" line makes it
// swallow the next line, "## note" is an error. The lines between two directives are then not insignificant (F37). The
// rule names the call sites; the finding is recorded against them, the dependency is read-only.
func (c *Ctx) ruleSchemaExtentByDependency(rule string) {
	r := c.R
	r.Rule(rule, "the extent of a schema body is computed by the scanner of this module, not taken from (*jschema.JSchema).Len of the dependency, whose reader goes on into the lines after the schema and reads '#' comments there by a grammar of its own (known finding F37: the one call site in package scanner)", 1)
	pk := c.P.Pkg("scanner")
	if pk == nil {
		r.Undecided(rule, "anchor", "package scanner not found", "")
		return
	}
	n := 0
	for _, f := range c.libFns() {
		if f.Pkg != pk {
			continue
		}
		ast.Inspect(f.Decl.Body, func(nd ast.Node) bool {
			call, ok := nd.(*ast.CallExpr)
			if !ok {
				return true
			}
			cal := callee(pk, call)
			if cal == nil || cal.Name() != "Len" || cal.Pkg() == nil || !strings.HasSuffix(cal.Pkg().Path(), "notations/jschema") {
				return true
			}
			n++
			// keyed by what is called, not by the function that holds the call (moving the call into a helper is the same
			// finding; a second call elsewhere is a new one)
			key := "package scanner | JSchema.Len"
			if n > 1 {
				key = fmt.Sprintf("%s #%d", key, n)
			}
			r.Bad(rule, key, "the end of the schema body is where the dependency's reader stops, and it stops after the '#' comments that follow the schema, read by its own grammar: a bare '#' line after a body makes the next directive disappear ('200' / '{}' / '#' / '404 any' builds without the 404), '## note' there is an error, while both are plain comments between any other two directives", c.pos(call.Pos()))
			return true
		})
	}
	if n == 0 {
		r.Ok(rule, "package scanner", "no schema extent is taken from the dependency's JSchema.Len", "")
	}
}

// ruleRegexPreludeComment: between the line of a directive and its body, comment lines are insignificant. Where the
// scanner waits for the delimiter of a regular expression, a '#' has to start a comment like everywhere else between
// lexemes - in all the states that wait (TYPE, Body, response, request), not in some (F38).
func (c *Ctx) ruleRegexPreludeComment(rule string) {
	r := c.R
	r.Rule(rule, "in every explored configuration of the scanner automaton in which '/' begins the Text lexeme of a regular expression (and a letter does not begin a text), the byte '#' is not an error: a comment line between a directive of the regex notation and its body is a comment, whichever directive it is", 1)
	a := c.Analysis(stackK, false)
	if a == nil {
		r.Undecided(rule, "E1", "no exploration", "")
		return
	}
	fails, n := a.RegexPreludeCommentFailures()
	if n < 2 {
		r.Undecided(rule, "sites", fmt.Sprintf("only %d configurations wait for the delimiter of a regular expression", n), "")
		return
	}
	seen := map[string]bool{}
	for _, f := range fails {
		if seen[f.State] {
			continue
		}
		seen[f.State] = true
		r.Bad(rule, "state "+f.State, fmt.Sprintf("the scanner waits for the '/' of a regular expression here (stack %s) and refuses '#': a comment line before the body of this directive is an error, while it is a comment before the regular expression of the other directives (reached by %s)", f.Stack, f.Trace), "")
	}
	if len(fails) == 0 {
		r.Ok(rule, "all configurations", fmt.Sprintf("%d configurations wait for the delimiter of a regular expression: '#' is accepted in each", n), "")
	}
}

// ruleCommentBeforeOpen: comment lines are insignificant wherever they stand between lexemes, and a directive may have
// its body in an explicit context. Where the scanner accepts the '(' of that context it has to accept a comment line
// in front of it - as a comment of the API description, not as the beginning of the body (F49: TYPE and Body in the
// jsight notation handed the '#' to the schema reader, which then met the parenthesis).
func (c *Ctx) ruleCommentBeforeOpen(rule string) {
	r := c.R
	r.Rule(rule, "in every explored configuration of the scanner automaton in which '(' is reported as ContextOpen, the byte '#' is neither an error nor the beginning of a Schema/Text/Enum lexeme (nor a transition into a state of the schema reader): a comment line between a directive and the parenthesis of its explicit context is a comment, whichever directive it is", 1)
	a := c.Analysis(stackK, false)
	if a == nil {
		r.Undecided(rule, "E1", "no exploration", "")
		return
	}
	fails, n := a.CommentBeforeOpenFailures()
	if n < 10 {
		r.Undecided(rule, "sites", fmt.Sprintf("only %d configurations accept the parenthesis of an explicit context", n), "")
		return
	}
	seen := map[string]bool{}
	for _, f := range fails {
		if seen[f.State] {
			continue
		}
		seen[f.State] = true
		r.Bad(rule, "state "+f.State, fmt.Sprintf("the scanner accepts '(' as the beginning of an explicit context here (stack %s), but %s: a comment line in front of the parenthesis changes the verdict (reached by %s)", f.Stack, f.What, f.Trace), "")
	}
	if len(fails) == 0 {
		r.Ok(rule, "all configurations", fmt.Sprintf("%d configurations accept the parenthesis of an explicit context: '#' starts a comment in each", n), "")
	}
}

// ruleFinalNewline: a line break at the very end of a file changes nothing (C08: trailing blanks and blank lines are
// insignificant; files without a final line break are common). Decided on E1: the end of the input right away and
// after one more LF must have the same verdict in every explored configuration in which a LF is accepted.
func (c *Ctx) ruleFinalNewline(rule string) {
	r := c.R
	r.Rule(rule, "in every explored configuration of the scanner automaton in which LF is accepted, the end of the input has the same verdict (consumed without an error / an error) as LF followed by the end of the input: a document is not accepted without its final line break and refused with it, or the other way round", 1)
	a := c.Analysis(stackK, false)
	if a == nil {
		r.Undecided(rule, "E1", "no exploration", "")
		return
	}
	divs, n := a.FinalNewlineDivergences()
	if n < 50 {
		r.Undecided(rule, "sites", fmt.Sprintf("only %d configurations compared", n), "")
		return
	}
	seen := map[string]bool{}
	nBad := 0
	for _, d := range divs {
		// only definite verdicts: where the abstraction leaves a predicate open ("accept or error") nothing is claimed
		if !((d.Direct == "accept" && d.AfterLF == "error") || (d.Direct == "error" && d.AfterLF == "accept")) {
			continue
		}
		// what the pending state is decides the verdict: the key names the state and the state that waits below it
		top := d.Stack
		if i := strings.LastIndexByte(top, ','); i >= 0 {
			top = top[i+1:]
		}
		k := c.canonState(d.State) + " over " + c.canonState(top) + ": " + d.Direct + " / after LF " + d.AfterLF
		if seen[k] {
			continue
		}
		seen[k] = true
		nBad++
		r.Bad(rule, k, fmt.Sprintf("the end of the file in this configuration gives '%s', one more line break before it gives '%s' (stack %s; reached by %s): a document is judged differently with and without its final line break", d.Direct, d.AfterLF, d.Stack, d.Trace), "")
	}
	if nBad == 0 {
		r.Ok(rule, "all configurations", fmt.Sprintf("%d configurations compared: the final line break changes no verdict", n), "")
	}
}

// canonState: the name a step function had on the pinned tree (a renamed state keeps its keys).
func (c *Ctx) canonState(st string) string {
	if st == "" {
		return "(empty stack)"
	}
	if pk := c.P.Pkg("scanner"); pk != nil {
		if fn, ok := pk.Types.Scope().Lookup(st).(*types.Func); ok {
			n := prog.FuncName(fn)
			if i := strings.LastIndexByte(n, '.'); i >= 0 {
				return n[i+1:]
			}
			return n
		}
	}
	return st
}
