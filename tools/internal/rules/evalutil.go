package rules

import (
	"go/types"
	"strings"

	"golang.org/x/tools/go/ssa"

	"jsverif/internal/prog"
	"jsverif/internal/ssaeval"
)

// newEval: the standard configuration of the abstract evaluation: functions of the analysed module are entered;
// a callee that, evaluated on its own with unknown arguments, has no effect on untracked objects and returns a
// non-nil pointer on every path (an error constructor) is summarised by "non-nil" instead of being entered, which
// keeps its internal case distinctions out of the caller's paths.
func (c *Ctx) newEval() *ssaeval.Eval {
	ev := &ssaeval.Eval{MaxDepth: 5, MaxPaths: 400}
	ev.Follow = func(fn *ssa.Function) bool {
		return inModule(fn)
	}
	ev.Oracle = func(callee *ssa.Function, args []ssaeval.Value) (ssaeval.Value, bool) {
		if c.pureNonNil(callee) {
			var ts []string
			for _, a := range args {
				ts = append(ts, a.Term())
			}
			return ssaeval.Value{K: ssaeval.NonNil, T: callee.String() + "(" + strings.Join(ts, ",") + ")"}, true
		}
		return ssaeval.Value{}, false
	}
	return ev
}

// pureNonNil: fn has one result of pointer type, and on every path of its abstract evaluation with unknown arguments
// it returns a non-nil value without storing into, updating or deleting from anything it did not allocate itself.
func (c *Ctx) pureNonNil(fn *ssa.Function) bool {
	if c.pureNN == nil {
		c.pureNN = map[*ssa.Function]int{}
	}
	switch c.pureNN[fn] {
	case 1:
		return true
	case 2, 3:
		return false // no, or being computed (recursion)
	}
	c.pureNN[fn] = 3
	ok := func() bool {
		if !inModule(fn) || len(fn.Blocks) == 0 {
			return false
		}
		res := fn.Signature.Results()
		if res.Len() != 1 {
			return false
		}
		if _, isPtr := res.At(0).Type().Underlying().(*types.Pointer); !isPtr {
			return false
		}
		var args []ssaeval.Value
		for _, p := range fn.Params {
			args = append(args, ssaeval.Obj("arg:"+p.Name()))
		}
		ev := &ssaeval.Eval{MaxDepth: 4, MaxPaths: 300}
		ev.Follow = func(g *ssa.Function) bool {
			return inModule(g)
		}
		for _, o := range ev.Run(fn, args) {
			if o.Incomplete != "" || o.Panics || len(o.Rets) != 1 {
				return false
			}
			if isNil, known := o.Rets[0].IsNilKnown(); !known || isNil {
				return false
			}
			for _, e := range o.Events {
				switch e.Kind {
				case "store", "mapupdate", "delete":
					return false
				}
			}
		}
		return true
	}()
	if ok {
		c.pureNN[fn] = 1
	} else {
		c.pureNN[fn] = 2
	}
	return ok
}

// inModule: the function (or, for an instance of a generic function, its origin) is declared in the analysed module.
func inModule(fn *ssa.Function) bool {
	if o := fn.Origin(); o != nil {
		fn = o
	}
	return fn.Pkg != nil && strings.HasPrefix(fn.Pkg.Pkg.Path(), prog.ModulePath)
}
