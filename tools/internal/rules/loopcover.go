package rules

import (
	"fmt"
	"go/ast"
	"go/token"
	"go/types"
)

// Counting loops over a list visit every element.
//
// A loop `for i := A; i <op> B; i++ / i--` whose bounds are written in terms of len(X) is read as the set of indexes it
// visits (bounds as base + offset, locals followed through their one definition). The set must be 0 .. len(X)-1. A loop
// that leaves out the first (or last) element is accepted only where the function handles that element by itself: it
// indexes X[0] (or X[len(X)-1]) outside the loop header. Loops whose body moves the counter are not of this family and
// are left alone.

type loopCover struct {
	fs          *ast.ForStmt
	list        string // the X of len(X)
	first, last string // what the loop leaves out: "" or a description
}

func lenArg(f *Fn, e ast.Expr) (string, bool) {
	call, ok := ast.Unparen(e).(*ast.CallExpr)
	if !ok || len(call.Args) != 1 {
		return "", false
	}
	if id, ok := call.Fun.(*ast.Ident); !ok || id.Name != "len" {
		return "", false
	} else if _, isB := f.Pkg.TypesInfo.Uses[id].(*types.Builtin); !isB {
		return "", false
	}
	return exprString(unalias(f, call.Args[0])), true
}

func coverOfLoop(f *Fn, fs *ast.ForStmt) *loopCover {
	init, ok := fs.Init.(*ast.AssignStmt)
	if !ok || len(init.Lhs) != 1 || len(init.Rhs) != 1 || fs.Cond == nil || fs.Post == nil {
		return nil
	}
	iv, ok := init.Lhs[0].(*ast.Ident)
	if !ok {
		return nil
	}
	obj := f.Pkg.TypesInfo.Defs[iv]
	if obj == nil {
		obj = f.Pkg.TypesInfo.Uses[iv]
	}
	if obj == nil {
		return nil
	}
	isI := func(e ast.Expr) bool {
		id, ok := ast.Unparen(e).(*ast.Ident)
		return ok && f.Pkg.TypesInfo.Uses[id] == obj
	}
	dir := 0
	switch p := fs.Post.(type) {
	case *ast.IncDecStmt:
		if isI(p.X) {
			if p.Tok == token.INC {
				dir = 1
			} else {
				dir = -1
			}
		}
	case *ast.AssignStmt:
		if len(p.Lhs) == 1 && len(p.Rhs) == 1 && isI(p.Lhs[0]) {
			if k, isK := constInt(f.Pkg, p.Rhs[0]); isK && k == 1 {
				if p.Tok == token.ADD_ASSIGN {
					dir = 1
				} else if p.Tok == token.SUB_ASSIGN {
					dir = -1
				}
			}
		}
	}
	if dir == 0 {
		return nil
	}
	// the body must not move the counter
	moved := false
	ast.Inspect(fs.Body, func(n ast.Node) bool {
		switch x := n.(type) {
		case *ast.AssignStmt:
			for _, l := range x.Lhs {
				if isI(l) {
					moved = true
				}
			}
		case *ast.IncDecStmt:
			if isI(x.X) {
				moved = true
			}
		case *ast.UnaryExpr:
			if x.Op == token.AND && isI(x.X) {
				moved = true
			}
		}
		return true
	})
	if moved {
		return nil
	}
	be, ok := ast.Unparen(fs.Cond).(*ast.BinaryExpr)
	if !ok {
		return nil
	}
	op, bound := be.Op, be.Y
	if !isI(be.X) {
		if !isI(be.Y) {
			return nil
		}
		bound = be.X
		switch op {
		case token.LSS:
			op = token.GTR
		case token.GTR:
			op = token.LSS
		case token.LEQ:
			op = token.GEQ
		case token.GEQ:
			op = token.LEQ
		}
	}
	sb, so, ok1 := affineOf(f, init.Rhs[0])
	bb, bo, ok2 := affineOf(f, bound)
	if !ok1 || !ok2 {
		return nil
	}
	lc := &loopCover{fs: fs}
	// shift: the body indexes the list with counter+shift (the same shift everywhere): for n := len(x); n > 0; n-- { x[n-1] }
	usesIndex := func(list string) bool {
		used := false
		ast.Inspect(fs.Body, func(n ast.Node) bool {
			ix, ok := n.(*ast.IndexExpr)
			if !ok || exprString(unalias(f, ix.X)) != list {
				return true
			}
			ast.Inspect(ix.Index, func(m ast.Node) bool {
				if id, ok := m.(*ast.Ident); ok && isI(id) {
					used = true
				}
				return true
			})
			return true
		})
		return used
	}
	shiftOf := func(list string) int64 {
		var shift int64
		first, mixed := true, false
		ast.Inspect(fs.Body, func(n ast.Node) bool {
			ix, ok := n.(*ast.IndexExpr)
			if !ok || exprString(unalias(f, ix.X)) != list {
				return true
			}
			b, o, ok := affineOf(f, ix.Index)
			if !ok || b == nil || !isI(b) {
				return true
			}
			if first {
				shift, first = o, false
			} else if o != shift {
				mixed = true
			}
			return true
		})
		if mixed {
			return 0
		}
		return shift
	}
	if dir == 1 {
		// i from so (constant) up to a bound in terms of len(X)
		if sb != nil || bb == nil {
			return nil
		}
		list, isLen := lenArg(f, bb)
		if !isLen {
			return nil
		}
		lc.list = list
		if !usesIndex(list) {
			return nil // the counter only counts the rounds (each round takes the next element by other means)
		}
		var lastRel int64 // last visited index = len + lastRel
		switch op {
		case token.LSS, token.NEQ:
			lastRel = bo - 1
		case token.LEQ:
			lastRel = bo
		default:
			return nil
		}
		k := shiftOf(list)
		if so+k > 0 {
			lc.first = fmt.Sprintf("starts at index %d", so+k)
		}
		if lastRel+k < -1 {
			lc.last = fmt.Sprintf("stops at index len%+d", lastRel+k)
		}
		return lc
	}
	// i from len(X)+so down to a constant bound
	if sb == nil || bb != nil {
		return nil
	}
	list, isLen := lenArg(f, sb)
	if !isLen {
		return nil
	}
	lc.list = list
	if !usesIndex(list) {
		return nil // the counter only counts the rounds (each round takes the next element by other means)
	}
	var firstIdx int64
	switch op {
	case token.GEQ:
		firstIdx = bo
	case token.GTR, token.NEQ:
		firstIdx = bo + 1
	default:
		return nil
	}
	k := shiftOf(list)
	if firstIdx+k > 0 {
		lc.first = fmt.Sprintf("stops at index %d", firstIdx+k)
	}
	if so+k < -1 {
		lc.last = fmt.Sprintf("starts at index len%+d", so+k)
	}
	return lc
}

// handlesByItself: outside the loop header the function indexes the list with the constant 0 (first) or with
// len(list)-1 (last).
func handlesByItself(f *Fn, lc *loopCover, first bool) bool {
	found := false
	ast.Inspect(f.Decl.Body, func(n ast.Node) bool {
		ix, ok := n.(*ast.IndexExpr)
		if !ok || exprString(unalias(f, ix.X)) != lc.list {
			return true
		}
		b, o, ok := affineOf(f, ix.Index)
		if !ok {
			return true
		}
		if first && b == nil && o == 0 {
			found = true
		}
		if !first && b != nil && o == -1 {
			if l, isLen := lenArg(f, b); isLen && l == lc.list {
				found = true
			}
		}
		return true
	})
	return found
}

func (c *Ctx) ruleLoopsCoverAll(rule string) {
	r := c.R
	r.Rule(rule, "every counting loop of the library whose bounds are written with len(X) (for i := A; i <op> B; i++ or i--, bounds read as base + offset with locals followed to their definition, counter not moved by the body) visits every index 0 .. len(X)-1; a loop that leaves out the first or the last element is accepted only where the function indexes that element by itself (X[0], X[len(X)-1]) - an element that no code looks at is a check that is not made or an entity that is not emitted", 5)
	n := 0
	for _, f := range c.libFns() {
		ast.Inspect(f.Decl.Body, func(nd ast.Node) bool {
			fs, ok := nd.(*ast.ForStmt)
			if !ok {
				return true
			}
			lc := coverOfLoop(f, fs)
			if lc == nil {
				return true
			}
			n++
			key := fmt.Sprintf("%s | loop over %s", f.Name(), lc.list)
			switch {
			case lc.first != "" && !handlesByItself(f, lc, true):
				r.Bad(rule, key, "the loop "+lc.first+": the first element of "+lc.list+" is never visited, and the function does not index it by itself", c.pos(fs.Pos()))
			case lc.last != "" && !handlesByItself(f, lc, false):
				r.Bad(rule, key, "the loop "+lc.last+": the last element of "+lc.list+" is never visited, and the function does not index it by itself", c.pos(fs.Pos()))
			case lc.first != "" || lc.last != "":
				r.Ok(rule, key, "leaves out an end element that the function indexes by itself ("+lc.first+lc.last+")", c.pos(fs.Pos()))
			default:
				r.OkTrivial(rule, key, "visits 0 .. len-1", c.pos(fs.Pos()))
			}
			return true
		})
	}
	r.Stats["counting_loops"] = n
}
