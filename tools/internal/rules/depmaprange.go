package rules

import (
	"encoding/json"
	"fmt"
	"go/ast"
	"go/token"
	"go/types"
	"os"
	"path/filepath"
	"sort"
	"strings"

	"golang.org/x/tools/go/ssa"
)

// ---------- which fault the schema library reports first ----------
//
// jsight-schema-core reports a fault of a schema by panicking; the first panic wins. Where it walks a Go map (the
// types of a schema, the constraints of a node, the properties of an object) and a fault can be raised from inside
// the walk, a document with two faults is rejected with one or the other from build to build: the module hands that
// error on as its own. The loops are the dependency's; the module decides to call Check()/Compile() on schemas with
// more than one user type and presents the result as the error of the project, so the nondeterminism is observable
// through kit.NewJApiFromFile. reference/dep_mapranges.json lists, for the pinned version, every `range` over a map
// in a function of the dependency that the module's build can reach and in whose body a fault can be raised (a panic,
// a return of an error, or a call - resolved on the call graph - of a function from which an explicit panic is
// reachable without passing a recover). Generated with the deep load:
//     JSVERIF_DEEP=1 jsverif dump depmapranges > tools/reference/dep_mapranges.json

func (c *Ctx) computeDepMapRanges() map[string]string {
	cg := c.P.CallGraph()
	raisers := c.depRaisers()
	// dependency functions the module can reach
	var roots []*ssa.Function
	for f := range cg.Nodes {
		if f != nil && f.Pkg != nil && f.Pkg.Pkg != nil && c.P.IsLibPkg(f.Pkg.Pkg) {
			roots = append(roots, f)
		}
	}
	reach := c.P.Reachable(roots...)
	out := map[string]string{}
	for path, pk := range c.P.ByPath {
		if !strings.HasPrefix(path, depModule) || pk.TypesInfo == nil {
			continue
		}
		for _, file := range pk.Syntax {
			fname := pk.Fset.Position(file.Pos()).Filename
			if strings.HasSuffix(fname, "_test.go") {
				continue
			}
			for _, d := range file.Decls {
				fd, ok := d.(*ast.FuncDecl)
				if !ok || fd.Body == nil {
					continue
				}
				obj, _ := pk.TypesInfo.Defs[fd.Name].(*types.Func)
				if obj == nil {
					continue
				}
				sf := c.P.SSAFunc(obj)
				if sf == nil || !reach[sf] {
					continue
				}
				// call sites of this function and of its closures, by the position of the opening parenthesis
				calleesAt := map[token.Pos][]*ssa.Function{}
				var collect func(g *ssa.Function)
				collect = func(g *ssa.Function) {
					if n := cg.Nodes[g]; n != nil {
						for _, e := range n.Out {
							if e.Site != nil && e.Callee.Func != nil {
								calleesAt[e.Site.Pos()] = append(calleesAt[e.Site.Pos()], e.Callee.Func)
							}
						}
					}
					for _, an := range g.AnonFuncs {
						collect(an)
					}
				}
				collect(sf)
				k := 0
				ast.Inspect(fd.Body, func(nd ast.Node) bool {
					rs, ok := nd.(*ast.RangeStmt)
					if !ok {
						return true
					}
					t := pk.TypesInfo.TypeOf(rs.X)
					if t == nil {
						return true
					}
					if _, isMap := t.Underlying().(*types.Map); !isMap {
						return true
					}
					k++
					why := ""
					ast.Inspect(rs.Body, func(m ast.Node) bool {
						if why != "" {
							return false
						}
						switch x := m.(type) {
						case *ast.FuncLit:
							return false
						case *ast.ReturnStmt:
							if len(x.Results) > 0 {
								last := x.Results[len(x.Results)-1]
								if isPlainError(pk.TypesInfo.TypeOf(last)) && !isNil(pk, last) {
									why = "returns an error from inside the walk"
								}
							}
						case *ast.CallExpr:
							if id, ok := x.Fun.(*ast.Ident); ok && id.Name == "panic" {
								why = "panics from inside the walk"
								return false
							}
							for _, g := range calleesAt[x.Lparen] {
								if w, ok := raisers[g]; ok {
									why = "calls " + shortSSAName(g) + ", which can raise a fault (" + shortName(w) + ")"
									break
								}
							}
						}
						return true
					})
					if why == "" {
						return true
					}
					rel := fname
					if i := strings.Index(rel, "jsight-schema-core@"); i >= 0 {
						rel = rel[i:]
					}
					key := fmt.Sprintf("%s | range %s #%d", shortName(sf.String()), exprString(rs.X), k)
					out[key] = why + " [" + rel + ":" + fmt.Sprint(pk.Fset.Position(rs.Pos()).Line) + "]"
					return true
				})
			}
		}
	}
	return out
}

func shortSSAName(f *ssa.Function) string { return shortName(f.String()) }

func shortName(s string) string {
	return strings.ReplaceAll(s, "github.com/jsightapi/", "")
}

func init() {
	dumpers["depmapranges"] = func(c *Ctx) {
		ref := depStateRef{Module: depModule, Version: c.depModuleVersion(), Reach: c.computeDepMapRanges()}
		b, _ := json.MarshalIndent(ref, "", " ")
		os.Stdout.Write(b)
		fmt.Println()
	}
}

func (c *Ctx) depMapRanges() (map[string]string, string) {
	dir := os.Getenv("VERIF_DIR")
	if dir == "" {
		dir = "/verif"
	}
	b, err := os.ReadFile(filepath.Join(dir, "tools", "reference", "dep_mapranges.json"))
	if err != nil {
		return nil, "reference/dep_mapranges.json not readable"
	}
	var ref depStateRef
	if json.Unmarshal(b, &ref) != nil {
		return nil, "reference/dep_mapranges.json is not valid"
	}
	if v := c.depModuleVersion(); v != ref.Version {
		return nil, fmt.Sprintf("the tree requires %s %s, the reference was made for %s: regenerate it (JSVERIF_DEEP=1 jsverif dump depmapranges)", depModule, v, ref.Version)
	}
	return ref.Reach, ""
}

// depMapRangeExceptions: confirmed by reading the dependency at the pinned version.
var depMapRangeExceptions = map[string]string{
	"jsight-schema-core/notations/jschema/checker.checkJsonType | range stringBasedTypes #1": "the walk looks for THE string-based type of the node (email, uri, date, datetime, uuid): each of the five constraints is made from the node's one `type` rule, so at most one is present and the walk ends at the same element in every order",
}

// ruleDepFirstFault: see the comment at the top of the file.
func (c *Ctx) ruleDepFirstFault(rule string) {
	r := c.R
	r.Rule(rule, "no function of jsight-schema-core that the build can reach raises a fault from inside a `range` over a Go map (reference/dep_mapranges.json, computed on the dependency's syntax and call graph for the version go.mod requires; recomputed in the thorough tier): which of two faults of one document is reported would otherwise change from build to build, and the module hands the error of Check()/Compile() on as the error of the project", 1)
	ref, why := c.depMapRanges()
	if ref == nil {
		r.Undecided(rule, "reference", why, "")
		return
	}
	if c.Deep {
		now := c.computeDepMapRanges()
		var diff []string
		for _, k := range sortedStrKeys(now) {
			if _, ok := ref[k]; !ok {
				diff = append(diff, "+"+k)
			}
		}
		for _, k := range sortedStrKeys(ref) {
			if _, ok := now[k]; !ok {
				diff = append(diff, "-"+k)
			}
		}
		if len(diff) > 0 {
			r.Undecided(rule, "reference (recomputed)", "reference/dep_mapranges.json differs from the dependency as loaded today: "+strings.Join(diff, " "), "")
		} else {
			r.Ok(rule, "reference (recomputed)", "equal to what the deep load gives today", "")
		}
	}
	// the module does hand such errors on: it calls Check/Compile of the schema interface on the build path
	hands := 0
	for _, f := range c.libFns() {
		ast.Inspect(f.Decl.Body, func(nd ast.Node) bool {
			call, ok := nd.(*ast.CallExpr)
			if !ok {
				return true
			}
			cal := callee(f.Pkg, call)
			if cal != nil && cal.Pkg() != nil && strings.HasPrefix(cal.Pkg().Path(), depModule) && (cal.Name() == "Check" || cal.Name() == "Compile") {
				hands++
			}
			return true
		})
	}
	if hands == 0 {
		r.Ok(rule, "library", "the module calls neither Check nor Compile of the schema library", "")
		return
	}
	keys := make([]string, 0, len(ref))
	for k := range ref {
		keys = append(keys, k)
	}
	sort.Strings(keys)
	for _, k := range keys {
		if why, ok := depMapRangeExceptions[k]; ok {
			r.Except(k, why)
			r.Ok(rule, k, "named exception: "+why, "")
			continue
		}
		r.Bad(rule, k, "a fault is raised from inside a walk over a Go map: with two faults in one document the error of the build changes from run to run ("+ref[k]+"); the module calls Check/Compile at "+fmt.Sprint(hands)+" sites and reports the result as the error of the project", bracketed(ref[k]))
	}
	if len(keys) == 0 {
		r.Ok(rule, "dependency", "no walk over a map raises a fault in the reachable part of the dependency", "")
	}
}

// bracketed: the text between the last pair of square brackets (the position kept in the reference).
func bracketed(s string) string {
	i, j := strings.LastIndex(s, "["), strings.LastIndex(s, "]")
	if i < 0 || j < i {
		return ""
	}
	return s[i+1 : j]
}
