package rules

import (
	"fmt"
	"go/ast"
	"go/importer"
	"go/parser"
	"go/token"
	"go/types"
)

// ruleInsertAliasing: the "insert into the middle" idiom `append(append(s[:i], x...), s[i:]...)` is wrong whenever s
// has room behind i - and a slice that is appended to always ends up with room: the inner append writes x over
// s[i] before the outer one reads s[i:], so the element that stood at the insertion point is lost and x is listed
// twice. The lists of the catalog (the interactions of a tag, the parameters of an operation) are built by append, so
// for them the idiom loses an entry. The rule reports every nested append whose inner first argument is a two-index
// slice expression s[:i] / s[a:i] and whose outer spread argument is a slice expression of the same s; a three-index
// s[:i:i] (which forces the inner append to copy) is the correct form and is not reported.
func (c *Ctx) ruleInsertAliasing(rule string) {
	r := c.R
	r.Rule(rule, "no list of the library is edited by `append(append(s[:i], x), s[i:]...)`: the inner append overwrites s[i] in place before the outer one copies s[i:], so one entry is lost and the new one appears twice (every nested append over the same slice expression in the library functions is looked at; the recogniser is tried on a positive and a negative example on every run)", 2)
	if msg := insertAliasSelfTest(); msg != "" {
		r.Undecided(rule, "self-test", msg, "")
		return
	}
	r.Ok(rule, "self-test", "the recogniser reports the two-index form and accepts the three-index form and an insert through a fresh slice on a built-in example", "")
	n, bad := 0, 0
	for _, f := range c.libFns() {
		n++
		for _, call := range insertAliasFindings(f.Decl.Body) {
			bad++
			r.Bad(rule, f.Name()+" | "+types.ExprString(call.Args[0]), "an element is inserted with append(append(s[:i], x), s[i:]...): the inner append writes over s[i] before s[i:] is copied - the entry at the insertion point is lost and the inserted one is listed twice", c.pos(call.Pos()))
		}
	}
	if bad == 0 {
		r.Ok(rule, "library", fmt.Sprintf("%d functions looked at: no in-place insert through a nested append", n), "")
	}
}

func insertAliasFindings(body ast.Node) []*ast.CallExpr {
	var out []*ast.CallExpr
	isAppend := func(e ast.Expr) *ast.CallExpr {
		call, ok := ast.Unparen(e).(*ast.CallExpr)
		if !ok {
			return nil
		}
		if id, ok := call.Fun.(*ast.Ident); ok && id.Name == "append" && len(call.Args) >= 1 {
			return call
		}
		return nil
	}
	ast.Inspect(body, func(n ast.Node) bool {
		outer := isAppend(nil)
		if e, ok := n.(ast.Expr); ok {
			outer = isAppend(e)
		}
		if outer == nil || len(outer.Args) != 2 || outer.Ellipsis == token.NoPos {
			return true
		}
		inner := isAppend(outer.Args[0])
		if inner == nil {
			return true
		}
		head, ok := ast.Unparen(inner.Args[0]).(*ast.SliceExpr)
		if !ok || head.Slice3 || head.High == nil {
			return true
		}
		tail, ok := ast.Unparen(outer.Args[1]).(*ast.SliceExpr)
		if !ok {
			return true
		}
		if types.ExprString(head.X) == types.ExprString(tail.X) {
			out = append(out, outer)
		}
		return true
	})
	return out
}

func insertAliasSelfTest() string {
	const src = `package p
func bad(s []int, i, x int) []int { return append(append(s[:i], x), s[i:]...) }
func bad2(l *struct{ v []int }, i, x int) { l.v = append(append(l.v[:i], x), l.v[i:]...) }
func good3(s []int, i, x int) []int { return append(append(s[:i:i], x), s[i:]...) }
func goodFresh(s []int, i, x int) []int { t := append([]int{}, s[:i]...); return append(append(t, x), s[i:]...) }
`
	fset := token.NewFileSet()
	f, err := parser.ParseFile(fset, "selftest.go", src, 0)
	if err != nil {
		return "self-test does not parse"
	}
	conf := types.Config{Importer: importer.Default()}
	if _, err := conf.Check("p", fset, []*ast.File{f}, nil); err != nil {
		return "self-test does not type-check: " + err.Error()
	}
	got := map[string]int{}
	for _, d := range f.Decls {
		if fd, ok := d.(*ast.FuncDecl); ok {
			got[fd.Name.Name] = len(insertAliasFindings(fd.Body))
		}
	}
	if got["bad"] != 1 || got["bad2"] != 1 || got["good3"] != 0 || got["goodFresh"] != 0 {
		return fmt.Sprintf("self-test: bad=%d bad2=%d (want 1) good3=%d goodFresh=%d (want 0)", got["bad"], got["bad2"], got["good3"], got["goodFresh"])
	}
	return ""
}
