package rules

// Engine E7 (part): a string predicate written with ==, s[0], len and the strings.*
// substring tests is translated to a product of small automata over the alphabet of
// the characters it mentions (plus "any other byte"), so that language inclusion in
// a "safe" language can be decided for ALL strings, with a counterexample word.

import (
	"fmt"
	"go/ast"
	"go/token"
	"go/types"
	"strings"

	"golang.org/x/tools/go/packages"
)

type atomKind int

const (
	aEq atomKind = iota
	aPrefix
	aSuffix
	aContains
	aFirst
	aLenGE // len(s) >= n
	aSegEq
	aAnyOf
)

type atom struct {
	kind atomKind
	lit  string
	n    int
	sep  byte
	fail []int // KMP failure table
}

func (a *atom) String() string {
	switch a.kind {
	case aEq:
		return fmt.Sprintf("s==%q", a.lit)
	case aPrefix:
		return fmt.Sprintf("HasPrefix(s,%q)", a.lit)
	case aSuffix:
		return fmt.Sprintf("HasSuffix(s,%q)", a.lit)
	case aContains:
		return fmt.Sprintf("Contains(s,%q)", a.lit)
	case aFirst:
		return fmt.Sprintf("s[0]==%q", a.lit)
	case aLenGE:
		return fmt.Sprintf("len(s)>=%d", a.n)
	case aSegEq:
		return fmt.Sprintf("segment(s,%q)==%q", string(a.sep), a.lit)
	case aAnyOf:
		return fmt.Sprintf("ContainsAny(s,%q)", a.lit)
	}
	return "?"
}

func kmpTable(p string) []int {
	f := make([]int, len(p)+1)
	f[0] = -1
	k := -1
	for i := 0; i < len(p); i++ {
		for k >= 0 && p[k] != p[i] {
			k = f[k]
		}
		k++
		f[i+1] = k
	}
	return f
}

func (a *atom) init() int {
	if a.kind == aContains || a.kind == aSuffix {
		a.fail = kmpTable(a.lit)
	}
	if a.kind == aSegEq {
		return 1 // found=0, progress=0
	}
	return 0
}

// other is the class of every byte not mentioned by any literal.
const other = 0

func (a *atom) step(st int, ch byte) int {
	L := len(a.lit)
	switch a.kind {
	case aEq:
		if st >= 0 && st < L && ch != other && a.lit[st] == ch {
			return st + 1
		}
		return -1
	case aPrefix:
		if st == L {
			return L
		}
		if st >= 0 && ch != other && a.lit[st] == ch {
			return st + 1
		}
		return -1
	case aContains, aSuffix:
		if a.kind == aContains && st == L {
			return L
		}
		if L == 0 {
			return 0
		}
		k := st
		if k == L {
			k = a.fail[L]
		}
		for k >= 0 && (ch == other || a.lit[k] != ch) {
			k = a.fail[k]
		}
		return k + 1
	case aFirst:
		if st == 0 {
			if ch != other && a.lit[0] == ch {
				return 1
			}
			return 2
		}
		return st
	case aLenGE:
		if st < a.n {
			return st + 1
		}
		return st
	case aSegEq:
		// st encodes found*1000 + (progress+1) where progress -1 = segment already differs
		found, pr := st/1000, st%1000-1
		if ch == a.sep {
			if pr == L {
				found = 1
			}
			pr = 0
		} else if pr >= 0 && pr < L && ch != other && a.lit[pr] == ch {
			pr++
		} else {
			pr = -1
		}
		return found*1000 + pr + 1
	case aAnyOf:
		if st == 1 || (ch != other && strings.IndexByte(a.lit, ch) >= 0) {
			return 1
		}
		return 0
	}
	return st
}

func (a *atom) accepts(st int) bool {
	L := len(a.lit)
	switch a.kind {
	case aEq, aPrefix, aContains, aSuffix:
		return st == L
	case aFirst:
		return st == 1
	case aLenGE:
		return st >= a.n
	case aSegEq:
		return st/1000 == 1 || st%1000-1 == L
	case aAnyOf:
		return st == 1
	}
	return false
}

type formula struct {
	op   byte // 'a' atom, '&', '|', '!', 't', 'f'
	atom int
	l, r *formula
}

func fTrue() *formula  { return &formula{op: 't'} }
func fFalse() *formula { return &formula{op: 'f'} }
func fNot(x *formula) *formula {
	return &formula{op: '!', l: x}
}
func fOr(a, b *formula) *formula  { return &formula{op: '|', l: a, r: b} }
func fAnd(a, b *formula) *formula { return &formula{op: '&', l: a, r: b} }

func (f *formula) eval(acc []bool) bool {
	switch f.op {
	case 't':
		return true
	case 'f':
		return false
	case 'a':
		return acc[f.atom]
	case '!':
		return !f.l.eval(acc)
	case '|':
		return f.l.eval(acc) || f.r.eval(acc)
	case '&':
		return f.l.eval(acc) && f.r.eval(acc)
	}
	return false
}

type strPred struct {
	atoms    []*atom
	reject   *formula // the predicate refuses the string
	usesIdx0 bool     // s[0] is evaluated
	idx0Safe bool     // ... only after an emptiness test that rejects
	problems []string
}

func (p *strPred) addAtom(a *atom) *formula {
	for i, x := range p.atoms {
		if x.kind == a.kind && x.lit == a.lit && x.n == a.n && x.sep == a.sep {
			return &formula{op: 'a', atom: i}
		}
	}
	p.atoms = append(p.atoms, a)
	return &formula{op: 'a', atom: len(p.atoms) - 1}
}

// translatePredicate turns `func V(s string) error` into reject(s).
func translatePredicate(pk *packages.Package, d *ast.FuncDecl) *strPred {
	return translatePredicateWith(pk, d, nil)
}

// translatePredicateWith: declOf resolves helper predicates of the same package (func(s string) bool whose body is a
// single return): a call h(s) is translated as the returned expression.
func translatePredicateWith(pk *packages.Package, d *ast.FuncDecl, declOf func(*types.Func) *ast.FuncDecl) *strPred {
	p := &strPred{reject: fFalse()}
	if d == nil || d.Type.Params == nil || len(d.Type.Params.List) != 1 || len(d.Type.Params.List[0].Names) != 1 {
		p.problems = append(p.problems, "the predicate does not have the form func(s string) error")
		return p
	}
	sObj := pk.TypesInfo.Defs[d.Type.Params.List[0].Names[0]]
	sAlias := map[types.Object]bool{sObj: true} // the string under test, also as the parameter of an inlined helper
	isS := func(e ast.Expr) bool {
		id, ok := ast.Unparen(e).(*ast.Ident)
		return ok && sAlias[pk.TypesInfo.Uses[id]]
	}
	env := map[types.Object]*formula{}
	segVars := map[types.Object]byte{} // range variable over strings.Split(s, sep)
	emptinessRejected := false
	var cond func(e ast.Expr) *formula
	litVars := map[types.Object]string{} // range variable over a literal list of strings, bound to the current element
	var boolBody func(list []ast.Stmt) *formula
	strCall := func(call *ast.CallExpr) (string, bool) {
		f := callee(pk, call)
		if f == nil || f.Pkg() == nil || f.Pkg().Path() != "strings" {
			return "", false
		}
		return f.Name(), true
	}
	cond = func(e ast.Expr) *formula {
		e = ast.Unparen(e)
		switch x := e.(type) {
		case *ast.Ident:
			if f, ok := env[pk.TypesInfo.Uses[x]]; ok {
				return f
			}
			if tv := pk.TypesInfo.Types[x]; tv.Value != nil {
				if tv.Value.String() == "true" {
					return fTrue()
				}
				return fFalse()
			}
		case *ast.UnaryExpr:
			if x.Op == token.NOT {
				if f := cond(x.X); f != nil {
					return fNot(f)
				}
			}
		case *ast.BinaryExpr:
			switch x.Op {
			case token.LOR, token.LAND:
				a, b := cond(x.X), cond(x.Y)
				if a == nil || b == nil {
					return nil
				}
				if x.Op == token.LOR {
					return fOr(a, b)
				}
				return fAnd(a, b)
			case token.EQL, token.NEQ:
				neg := x.Op == token.NEQ
				wrap := func(f *formula) *formula {
					if neg {
						return fNot(f)
					}
					return f
				}
				l, r := x.X, x.Y
				if _, ok := constString(pk, l); ok {
					l, r = r, l
				}
				if lit, ok := constString(pk, r); ok {
					if isS(l) {
						return wrap(p.addAtom(&atom{kind: aEq, lit: lit}))
					}
					if id, ok := ast.Unparen(l).(*ast.Ident); ok {
						if sep, isSeg := segVars[pk.TypesInfo.Uses[id]]; isSeg {
							return wrap(p.addAtom(&atom{kind: aSegEq, lit: lit, sep: sep}))
						}
					}
				}
				// s[0] == 'c'
				if ix, ok := ast.Unparen(l).(*ast.IndexExpr); ok && isS(ix.X) {
					if i, ok := constInt(pk, ix.Index); ok && i == 0 {
						if cv, ok := constInt(pk, r); ok && cv > 0 && cv < 256 {
							p.usesIdx0 = true
							p.idx0Safe = emptinessRejected
							return wrap(p.addAtom(&atom{kind: aFirst, lit: string([]byte{byte(cv)})}))
						}
					}
				}
				// len(s) == n
				if call, ok := ast.Unparen(l).(*ast.CallExpr); ok {
					if id, ok := call.Fun.(*ast.Ident); ok && id.Name == "len" && len(call.Args) == 1 && isS(call.Args[0]) {
						if n, ok := constInt(pk, r); ok && n >= 0 && n < 64 {
							ge := p.addAtom(&atom{kind: aLenGE, n: int(n)})
							ge1 := p.addAtom(&atom{kind: aLenGE, n: int(n) + 1})
							return wrap(fAnd(ge, fNot(ge1)))
						}
					}
				}
			case token.GTR, token.GEQ, token.LSS, token.LEQ:
				if call, ok := ast.Unparen(x.X).(*ast.CallExpr); ok {
					if id, ok := call.Fun.(*ast.Ident); ok && id.Name == "len" && len(call.Args) == 1 && isS(call.Args[0]) {
						if n, ok := constInt(pk, x.Y); ok && n >= 0 && n < 64 {
							switch x.Op {
							case token.GTR:
								return p.addAtom(&atom{kind: aLenGE, n: int(n) + 1})
							case token.GEQ:
								return p.addAtom(&atom{kind: aLenGE, n: int(n)})
							case token.LSS:
								return fNot(p.addAtom(&atom{kind: aLenGE, n: int(n)}))
							case token.LEQ:
								return fNot(p.addAtom(&atom{kind: aLenGE, n: int(n) + 1}))
							}
						}
					}
				}
			}
		case *ast.CallExpr:
			// a helper predicate of the package applied to s: its single returned expression
			if declOf != nil && len(x.Args) == 1 && isS(x.Args[0]) {
				if h := callee(pk, x); h != nil && h.Pkg() == pk.Types {
					if hd := declOf(h); hd != nil && hd.Body != nil && len(hd.Body.List) == 1 && hd.Type.Params != nil && len(hd.Type.Params.List) == 1 && len(hd.Type.Params.List[0].Names) == 1 {
						if ret, ok := hd.Body.List[0].(*ast.ReturnStmt); ok && len(ret.Results) == 1 {
							po := pk.TypesInfo.Defs[hd.Type.Params.List[0].Names[0]]
							if !sAlias[po] {
								sAlias[po] = true
								f := cond(ret.Results[0])
								delete(sAlias, po)
								return f
							}
						}
					}
				}
			}
			// a helper predicate with statements: `if c { return true }`, a loop over a literal list of strings with such
			// an if inside, a final return - unrolled into one formula
			if declOf != nil && len(x.Args) == 1 && isS(x.Args[0]) && boolBody != nil {
				if h := callee(pk, x); h != nil && h.Pkg() == pk.Types {
					if hd := declOf(h); hd != nil && hd.Body != nil && len(hd.Body.List) > 1 && hd.Type.Params != nil && len(hd.Type.Params.List) == 1 && len(hd.Type.Params.List[0].Names) == 1 {
						po := pk.TypesInfo.Defs[hd.Type.Params.List[0].Names[0]]
						if !sAlias[po] {
							sAlias[po] = true
							f := boolBody(hd.Body.List)
							delete(sAlias, po)
							if f != nil {
								return f
							}
						}
					}
				}
			}
			if name, ok := strCall(x); ok && len(x.Args) == 2 && isS(x.Args[0]) {
				switch name {
				case "Contains", "HasPrefix", "HasSuffix", "ContainsAny":
					lit, ok := constString(pk, x.Args[1])
					if !ok {
						if id, isId := ast.Unparen(x.Args[1]).(*ast.Ident); isId {
							lit, ok = litVars[pk.TypesInfo.Uses[id]]
						}
					}
					if ok {
						k := map[string]atomKind{"Contains": aContains, "HasPrefix": aPrefix, "HasSuffix": aSuffix, "ContainsAny": aAnyOf}[name]
						return p.addAtom(&atom{kind: k, lit: lit})
					}
				case "ContainsRune":
					if cv, ok := constInt(pk, x.Args[1]); ok && cv > 0 && cv < 128 {
						return p.addAtom(&atom{kind: aContains, lit: string([]byte{byte(cv)})})
					}
				}
			}
		}
		return nil
	}
	// boolBody: the value of a boolean helper as a formula: OR over its returns of (not returned before & condition & value)
	boolBody = func(list []ast.Stmt) *formula {
		result := fFalse()
		open := fTrue() // no return taken so far
		retVal := func(st ast.Stmt) *formula {
			ret, ok := st.(*ast.ReturnStmt)
			if !ok || len(ret.Results) != 1 {
				return nil
			}
			return cond(ret.Results[0])
		}
		var run func(list []ast.Stmt) bool
		run = func(list []ast.Stmt) bool {
			for _, st := range list {
				switch x := st.(type) {
				case *ast.IfStmt:
					if x.Init != nil || x.Else != nil || len(x.Body.List) != 1 {
						return false
					}
					cf, rv := cond(x.Cond), retVal(x.Body.List[0])
					if cf == nil || rv == nil {
						return false
					}
					result = fOr(result, fAnd(fAnd(open, cf), rv))
					open = fAnd(open, fNot(cf))
				case *ast.RangeStmt:
					cl, ok := ast.Unparen(x.X).(*ast.CompositeLit)
					val, _ := x.Value.(*ast.Ident)
					if !ok || val == nil || len(cl.Elts) > 64 {
						return false
					}
					vobj := pk.TypesInfo.Defs[val]
					for _, el := range cl.Elts {
						lit, isLit := constString(pk, el)
						if !isLit {
							return false
						}
						litVars[vobj] = lit
						if !run(x.Body.List) {
							delete(litVars, vobj)
							return false
						}
					}
					delete(litVars, vobj)
				case *ast.ReturnStmt:
					rv := retVal(x)
					if rv == nil {
						return false
					}
					result = fOr(result, fAnd(open, rv))
					open = fFalse()
				default:
					return false
				}
			}
			return true
		}
		if !run(list) {
			return nil
		}
		return result
	}
	isEmptinessTest := func(f *formula) bool {
		if f.op == 'a' {
			a := p.atoms[f.atom]
			return a.kind == aEq && a.lit == ""
		}
		if f.op == '!' && f.l.op == 'a' {
			a := p.atoms[f.l.atom]
			return a.kind == aLenGE && a.n == 1
		}
		if f.op == '&' { // len(s)==0 -> ge0 & !ge1
			return f.r.op == '!' && f.r.l.op == 'a' && p.atoms[f.r.l.atom].kind == aLenGE && p.atoms[f.r.l.atom].n == 1
		}
		return false
	}
	var stmts func(list []ast.Stmt, guard *formula) bool
	stmts = func(list []ast.Stmt, guard *formula) bool {
		for _, s := range list {
			switch x := s.(type) {
			case *ast.IfStmt:
				if x.Init != nil || x.Else != nil {
					p.problems = append(p.problems, "if with init/else at "+pk.Fset.Position(x.Pos()).String())
					return false
				}
				f := cond(x.Cond)
				if f == nil {
					p.problems = append(p.problems, "condition not in the supported string-predicate subset: "+exprString(x.Cond))
					return false
				}
				if !returnsNonNilError(pk, x.Body.List) || len(x.Body.List) != 1 {
					p.problems = append(p.problems, "if body is not a single `return <error>` at "+pk.Fset.Position(x.Pos()).String())
					return false
				}
				p.reject = fOr(p.reject, fAnd(guard, f))
				if isEmptinessTest(f) && guard.op == 't' {
					emptinessRejected = true
				}
			case *ast.AssignStmt:
				if x.Tok != token.DEFINE || len(x.Lhs) != 1 || len(x.Rhs) != 1 {
					p.problems = append(p.problems, "assignment form not supported at "+pk.Fset.Position(x.Pos()).String())
					return false
				}
				f := cond(x.Rhs[0])
				if f == nil {
					p.problems = append(p.problems, "definition not in the supported subset: "+exprString(x.Rhs[0]))
					return false
				}
				env[pk.TypesInfo.Defs[x.Lhs[0].(*ast.Ident)]] = f
			case *ast.RangeStmt:
				call, ok := ast.Unparen(x.X).(*ast.CallExpr)
				if !ok {
					p.problems = append(p.problems, "range over something else than strings.Split(s, sep)")
					return false
				}
				name, isStr := strCall(call)
				sepLit, okSep := "", false
				if len(call.Args) == 2 {
					sepLit, okSep = constString(pk, call.Args[1])
				}
				val, _ := x.Value.(*ast.Ident)
				if !isStr || name != "Split" || !isS(call.Args[0]) || !okSep || len(sepLit) != 1 || val == nil {
					p.problems = append(p.problems, "range over something else than strings.Split(s, \"<one char>\")")
					return false
				}
				segVars[pk.TypesInfo.Defs[val]] = sepLit[0]
				if !stmts(x.Body.List, guard) {
					return false
				}
			case *ast.SwitchStmt:
				if x.Tag == nil && x.Init == nil {
					// tagless switch = if / else-if chain: clause i applies under guard & !c1 & ... & !c(i-1)
					g := guard
					var def *ast.CaseClause
					for _, cs := range x.Body.List {
						cc := cs.(*ast.CaseClause)
						if cc.List == nil {
							def = cc
							continue
						}
						f := fFalse()
						for _, e := range cc.List {
							fe := cond(e)
							if fe == nil {
								p.problems = append(p.problems, "condition not in the supported string-predicate subset: "+exprString(e))
								return false
							}
							f = fOr(f, fe)
						}
						switch {
						case len(cc.Body) == 1 && returnsNonNilError(pk, cc.Body):
							p.reject = fOr(p.reject, fAnd(g, f))
							if len(cc.List) == 1 && isEmptinessTest(cond(cc.List[0])) && g.op == 't' {
								emptinessRejected = true
							}
						case len(cc.Body) == 1 && isReturnNil(pk, cc.Body[0]):
							// accepted under g & f
						default:
							p.problems = append(p.problems, "switch clause that is neither `return <error>` nor `return nil` at "+pk.Fset.Position(cc.Pos()).String())
							return false
						}
						g = fAnd(g, fNot(f))
					}
					if def != nil {
						switch {
						case len(def.Body) == 1 && returnsNonNilError(pk, def.Body):
							p.reject = fOr(p.reject, g)
							return true
						case len(def.Body) == 1 && isReturnNil(pk, def.Body[0]):
							return true
						case len(def.Body) == 0:
						default:
							p.problems = append(p.problems, "switch default that is neither a return nor empty")
							return false
						}
					}
					guard = g
					continue
				}
				// switch seg { case ".", "..": return err }
				id, ok := ast.Unparen(x.Tag).(*ast.Ident)
				if !ok || x.Init != nil {
					p.problems = append(p.problems, "switch form not supported")
					return false
				}
				sep, isSeg := segVars[pk.TypesInfo.Uses[id]]
				for _, cs := range x.Body.List {
					cc := cs.(*ast.CaseClause)
					if cc.List == nil {
						if len(cc.Body) != 0 {
							p.problems = append(p.problems, "switch default with a body")
							return false
						}
						continue
					}
					if !returnsNonNilError(pk, cc.Body) {
						p.problems = append(p.problems, "switch case that does not return an error")
						return false
					}
					for _, e := range cc.List {
						lit, ok := constString(pk, e)
						if !ok {
							p.problems = append(p.problems, "non-constant switch case")
							return false
						}
						var f *formula
						if isSeg {
							f = p.addAtom(&atom{kind: aSegEq, lit: lit, sep: sep})
						} else if pk.TypesInfo.Uses[id] == sObj {
							f = p.addAtom(&atom{kind: aEq, lit: lit})
						} else {
							p.problems = append(p.problems, "switch over an unknown variable")
							return false
						}
						p.reject = fOr(p.reject, fAnd(guard, f))
					}
				}
			case *ast.ReturnStmt:
				if len(x.Results) == 1 && isNil(pk, x.Results[0]) {
					return true
				}
				p.problems = append(p.problems, "unconditional error return")
				return false
			default:
				p.problems = append(p.problems, fmt.Sprintf("statement %T not in the supported string-predicate subset at %s", s, pk.Fset.Position(s.Pos())))
				return false
			}
		}
		return true
	}
	stmts(d.Body.List, fTrue())
	return p
}

func isReturnNil(pk *packages.Package, s ast.Stmt) bool {
	ret, ok := s.(*ast.ReturnStmt)
	return ok && len(ret.Results) == 1 && isNil(pk, ret.Results[0])
}

// safeIncludeName is the reference language: non-empty, does not start with '/',
// contains no '\', no segment (split at '/') equal to "." or "..".
func safeAtoms(p *strPred) *formula {
	nonEmpty := p.addAtom(&atom{kind: aLenGE, n: 1})
	abs := p.addAtom(&atom{kind: aFirst, lit: "/"})
	bs := p.addAtom(&atom{kind: aContains, lit: "\\"})
	dot := p.addAtom(&atom{kind: aSegEq, lit: ".", sep: '/'})
	dotdot := p.addAtom(&atom{kind: aSegEq, lit: "..", sep: '/'})
	unsafe := fOr(fNot(nonEmpty), fOr(abs, fOr(bs, fOr(dot, dotdot))))
	return fNot(unsafe)
}

// findUnsafeAccepted explores the product automaton and returns a word that the
// predicate accepts although it is not in the safe language ("" , false if none).
func (p *strPred) findUnsafeAccepted() (word string, found bool, states int) {
	safe := safeAtoms(p)
	// alphabet: every byte mentioned in a literal, plus `other`
	alpha := []byte{other}
	seen := map[byte]bool{}
	for _, a := range p.atoms {
		for i := 0; i < len(a.lit); i++ {
			if !seen[a.lit[i]] {
				seen[a.lit[i]] = true
				alpha = append(alpha, a.lit[i])
			}
		}
		if a.kind == aSegEq && !seen[a.sep] {
			seen[a.sep] = true
			alpha = append(alpha, a.sep)
		}
	}
	n := len(p.atoms)
	start := make([]int, n)
	for i, a := range p.atoms {
		start[i] = a.init()
	}
	key := func(v []int) string { return fmt.Sprint(v) }
	type node struct {
		v    []int
		word string
	}
	queue := []node{{start, ""}}
	visited := map[string]bool{key(start): true}
	acc := make([]bool, n)
	for len(queue) > 0 {
		cur := queue[0]
		queue = queue[1:]
		for i, a := range p.atoms {
			acc[i] = a.accepts(cur.v[i])
		}
		if !p.reject.eval(acc) && !safe.eval(acc) {
			return cur.word, true, len(visited)
		}
		if len(visited) > 200000 {
			p.problems = append(p.problems, "product automaton larger than 200000 states")
			return "", false, len(visited)
		}
		for _, ch := range alpha {
			nv := make([]int, n)
			for i, a := range p.atoms {
				nv[i] = a.step(cur.v[i], ch)
			}
			k := key(nv)
			if !visited[k] {
				visited[k] = true
				c := "x"
				if ch != other {
					c = string([]byte{ch})
				}
				queue = append(queue, node{nv, cur.word + c})
			}
		}
	}
	return "", false, len(visited)
}
