package rules

import (
	"fmt"
	"go/ast"
	"go/types"
	"strings"
)

// The example generator of regular expressions is tried before an expression is let into the catalog.
//
// (*regex.RSchema).Example hands the expression to a third-party generator that panics on some valid expressions (a
// negated class without printable ASCII characters). Every JSight schema that is given the user types converts the
// regex types (an example is taken of each), and the serialisers take the example of every regex body: neither lies
// under a recover, so such an expression must not get past the build. The mechanism that keeps it out (F31):
//   - a probe: a function with a deferred recover that sets its named error result and that calls Example on a scratch
//     schema (made by regex.FromFile / regex.New inside the probe: the example sequence of the real one is not advanced);
//   - the Check method of the catalog's regex schema calls the probe after the expression itself was checked;
//   - the schema of a regex user type passes the probe between its creation and its entry into the table of user types.
func (c *Ctx) ruleRegexExampleProbed(rule string) {
	r := c.R
	r.Rule(rule, "a regular expression is tried on the example generator, under a recover and on a scratch schema, before it enters the catalog: (1) the library has such a probe (deferred recover assigning the named error result; Example called on a schema made inside the probe); (2) the Check method of catalog.ExchangeRegexSchema - which every regex body passes when it is built (C04-REGEX-CHECKED) - calls it on every path that returns success; (3) where the schema of a regex user type is made (regex.New / FromFile) it passes the probe on every path to the Set that stores it in the table of user types - before any other type can convert it. Otherwise an expression on which the generator panics makes the build (through every schema that refers to the type) or the serialisation panic", 3)
	isExample := func(f *types.Func) bool {
		if f == nil || f.Name() != "Example" || f.Pkg() == nil || !strings.HasSuffix(f.Pkg().Path(), "notations/regex") {
			return false
		}
		sig := f.Type().(*types.Signature)
		return sig.Recv() != nil
	}
	// (1) probes
	var probes []*Fn
	for _, f := range c.libFns() {
		if found, assigns, _ := c.recoverSetsNamedError(f); !found || !assigns {
			continue
		}
		// Example on a schema made here
		scratch := false
		ast.Inspect(f.Decl.Body, func(n ast.Node) bool {
			call, ok := n.(*ast.CallExpr)
			if !ok || !isExample(callee(f.Pkg, call)) {
				return true
			}
			sel, ok := ast.Unparen(call.Fun).(*ast.SelectorExpr)
			if !ok {
				return true
			}
			recv := ast.Unparen(unalias(f, sel.X))
			if dc, _ := definingCall(f, sel.X); dc != nil {
				recv = dc
			}
			if mk, ok := recv.(*ast.CallExpr); ok {
				if g := callee(f.Pkg, mk); g != nil && g.Pkg() != nil && strings.HasSuffix(g.Pkg().Path(), "notations/regex") && (g.Name() == "FromFile" || g.Name() == "New") {
					scratch = true
				}
			}
			return true
		})
		if scratch {
			probes = append(probes, f)
		}
	}
	if len(probes) == 0 {
		r.Bad(rule, "probe", "no function of the library tries the example generator under a recover on a scratch schema: a valid regular expression on which the generator panics (e.g. /[^\\x00-\\x7F]/) is accepted; a regex user type that a jsight schema refers to then makes the build panic (every schema converts the regex types it is given and takes an example), a regex body makes ToJson panic", "")
		return
	}
	isProbe := func(f *types.Func) bool {
		for _, p := range probes {
			if f != nil && p.Obj == f.Origin() {
				return true
			}
		}
		return false
	}
	for _, p := range probes {
		r.Ok(rule, "probe "+p.Name(), "deferred recover sets the named error; Example is called on a schema made inside the function", c.pos(p.Decl.Pos()))
	}
	// (2) the Check method of the catalog's regex schema
	var chk *Fn
	for _, f := range c.libFns() {
		if f.Obj.Name() != "Check" || f.Decl.Recv == nil {
			continue
		}
		sig := f.Obj.Type().(*types.Signature)
		if nt, ok := ownerOf(sig.Recv().Type()).Underlying().(*types.Struct); ok {
			for i := 0; i < nt.NumFields(); i++ {
				if nt.Field(i).Embedded() && strings.HasSuffix(namedType(nt.Field(i).Type()), "notations/regex.RSchema") {
					chk = f
				}
			}
		}
	}
	if chk == nil {
		r.Bad(rule, "Check of the regex schema", "the catalog's regex schema has no Check method of its own (the promoted (*regex.RSchema).Check only compiles the expression): regex bodies are not tried on the example generator when they are built", "")
	} else {
		fc := c.cfgOf(chk)
		var probeCalls []ast.Node
		ast.Inspect(chk.Decl.Body, func(n ast.Node) bool {
			if call, ok := n.(*ast.CallExpr); ok && isProbe(callee(chk.Pkg, call)) {
				probeCalls = append(probeCalls, call)
			}
			return true
		})
		bad := ""
		ast.Inspect(chk.Decl.Body, func(n ast.Node) bool {
			ret, ok := n.(*ast.ReturnStmt)
			if !ok || len(ret.Results) != 1 {
				return true
			}
			if !isNil(chk.Pkg, ret.Results[0]) {
				return true // an error, or the probe's own verdict
			}
			if fc.reachesFromEntryAvoiding(ret, probeCalls) {
				bad = c.pos(ret.Pos())
			}
			return true
		})
		switch {
		case len(probeCalls) == 0:
			r.Bad(rule, "Check of the regex schema", chk.Name()+" does not call the probe", c.pos(chk.Decl.Pos()))
		case bad != "":
			r.Bad(rule, "Check of the regex schema", chk.Name()+" returns success on a path that does not pass the probe ("+bad+")", c.pos(chk.Decl.Pos()))
		default:
			r.Ok(rule, "Check of the regex schema", chk.Name()+" returns success only after the probe", c.pos(chk.Decl.Pos()))
		}
	}
	// (3) where the schema of a regex user type is made
	n := 0
	for _, f := range c.libFns() {
		if isProbe(f.Obj) {
			continue
		}
		fc := c.cfgOf(f)
		ast.Inspect(f.Decl.Body, func(nd ast.Node) bool {
			mk, ok := nd.(*ast.CallExpr)
			if !ok {
				return true
			}
			g := callee(f.Pkg, mk)
			if g == nil || g.Pkg() == nil || !strings.HasSuffix(g.Pkg().Path(), "notations/regex") || (g.Name() != "New" && g.Name() != "FromFile") {
				return true
			}
			// only schemas that go into the table of user types: a Set on a field of the core in the same function
			var sets []ast.Node
			ast.Inspect(f.Decl.Body, func(m ast.Node) bool {
				if call, ok := m.(*ast.CallExpr); ok {
					if cal := callee(f.Pkg, call); cal != nil && cal.Name() == "Set" && len(call.Args) == 2 {
						if sel, ok := ast.Unparen(call.Fun).(*ast.SelectorExpr); ok && fieldSel(f.Pkg, sel.X) != nil && strings.HasSuffix(namedType(f.Pkg.TypesInfo.TypeOf(sel.X)), "catalog.UserSchemas") && call.Pos() > mk.Pos() {
							sets = append(sets, call)
						}
					}
				}
				return true
			})
			if len(sets) == 0 {
				// the schema may be made by a helper and stored by its caller: then the returns of the helper that hand
				// the schema out are what the probe has to come before
				feeds := false
				if sites, _ := c.callersOf(f); len(sites) > 0 {
					for _, cs := range sites {
						ast.Inspect(cs.g.Decl.Body, func(m ast.Node) bool {
							if call, ok := m.(*ast.CallExpr); ok && call.Pos() > cs.call.Pos() {
								if cal := callee(cs.g.Pkg, call); cal != nil && cal.Name() == "Set" && len(call.Args) == 2 {
									if sel, ok := ast.Unparen(call.Fun).(*ast.SelectorExpr); ok && strings.HasSuffix(namedType(cs.g.Pkg.TypesInfo.TypeOf(sel.X)), "catalog.UserSchemas") {
										feeds = true
									}
								}
							}
							return true
						})
					}
				}
				if !feeds {
					return true
				}
				ast.Inspect(f.Decl.Body, func(m ast.Node) bool {
					if _, isLit := m.(*ast.FuncLit); isLit {
						return false
					}
					if ret, ok := m.(*ast.ReturnStmt); ok && ret.Pos() > mk.Pos() && len(ret.Results) >= 1 && !isNil(f.Pkg, ret.Results[0]) {
						if d := ast.Unparen(unalias(f, ret.Results[0])); d == ast.Expr(mk) || func() bool { dc, _ := definingCall(f, ret.Results[0]); return dc == mk }() {
							sets = append(sets, ret)
						}
					}
					return true
				})
				if len(sets) == 0 {
					return true
				}
			}
			n++
			var probeCalls []ast.Node
			ast.Inspect(f.Decl.Body, func(m ast.Node) bool {
				if call, ok := m.(*ast.CallExpr); ok && isProbe(callee(f.Pkg, call)) {
					probeCalls = append(probeCalls, call)
				}
				return true
			})
			key := "user types | " + f.Name() + " | " + exprString(mk.Fun)
			bad := false
			for _, st := range sets {
				if fc.reachesAvoiding(mk, st, probeCalls) {
					bad = true
				}
			}
			if bad || len(probeCalls) == 0 {
				r.Bad(rule, key, "the schema of a regex user type is put into the table of user types without having been tried on the example generator: the first jsight schema that is given the user types (another TYPE, a body) converts it, takes an example and panics while the project is built", c.pos(mk.Pos()))
			} else {
				r.Ok(rule, key, "tried on the generator before it is stored in the table of user types", c.pos(mk.Pos()))
			}
			return true
		})
	}
	if n == 0 {
		r.Undecided(rule, "user types", fmt.Sprintf("no place found where a regex schema is made and stored in the table of user types (%d probes known)", len(probes)), "")
	}
}
