package rules

import (
	"fmt"
	"go/ast"
	"go/types"
	"sort"
)

// Functions that rewrite a name. The library compares, registers and emits paths, file names and identifiers as they
// are written: the same string is split by one consumer, used as a key by a second and printed by a third. A function
// that normalises (collapses "//", resolves "..", follows links, folds case) in ONE of those places makes them
// disagree. Each entry below was used by an independently written faulty change; none is called by the pinned tree.
var disallowedCalls = map[string]string{
	"path.Clean":                 "collapses // and resolves . and .. in a URL path: the parameters found no longer match the path as written (two seeded changes)",
	"path/filepath.Clean":        "rewrites a file name: the cleaned name is not the name the length test, the trace or the INCLUDE resolution use",
	"path/filepath.EvalSymlinks": "names a file by the target of a link: INCLUDEs of that file are resolved in another directory, errors name a path nobody wrote",
	"path/filepath.Abs":          "makes a file name absolute: depends on the working directory of the process",
	"path/filepath.ToSlash":      "rewrites a file name (backslashes are ordinary characters of a name outside Windows)",
	"path/filepath.FromSlash":    "rewrites a file name",
	"strings.ToLower":            "case folding of a name: names that differ in case are different names in JSight",
	"strings.ToUpper":            "case folding of a name",
	"strings.EqualFold":          "case-insensitive comparison of names",
	"strings.Title":              "rewrites a name",
	"time.Now":                   "the build must not depend on the clock (deterministic output and errors)",
	"math/rand.Seed":             "the build must not depend on a random source",
	"math/rand.Intn":             "the build must not depend on a random source",
	"os.Getenv":                  "the build must not depend on the environment of the process",
	"os.Getwd":                   "the build must not depend on the working directory of the process",
	"unicode.IsSpace":            "white space is blank and tab for the language (a no-break space inside an annotation is text)",
	"unicode.IsNumber":           "a digit of a response code is 0-9 (IsNumber also accepts superscripts and fractions above 0x7F)",
	"unicode.IsDigit":            "a digit of a response code is the ASCII 0-9",
	"strings.Fields":             "splits on Unicode white space: blanks of the language are blank and tab (and line ends)",
	"path/filepath.Walk":         "walks the file system",
	"path/filepath.Glob":         "matches the file system",
}

func (c *Ctx) ruleDisallowedCalls(rule string) {
	r := c.R
	r.Rule(rule, "no function of the library calls one of the normalising or environment-reading functions of the deny list (path.Clean, filepath.Clean/EvalSymlinks/Abs/ToSlash, strings.ToLower/ToUpper/EqualFold/Fields, unicode.IsSpace/IsNumber/IsDigit, time.Now, os.Getenv/Getwd, math/rand): names, paths and blanks are taken as written everywhere, and the result depends on the document only; callees are resolved by type information (expected count 0, the list and one reason per entry are in the checker)", 1)
	var names []string
	for k := range disallowedCalls {
		names = append(names, k)
	}
	sort.Strings(names)
	n, calls := 0, 0
	for _, f := range c.libFns() {
		ast.Inspect(f.Decl.Body, func(nd ast.Node) bool {
			var fn *types.Func
			switch x := nd.(type) {
			case *ast.CallExpr:
				fn = callee(f.Pkg, x)
				calls++
			case *ast.SelectorExpr:
				// used as a value
				if o, ok := f.Pkg.TypesInfo.Uses[x.Sel].(*types.Func); ok {
					fn = o
				}
			}
			if fn == nil || fn.Pkg() == nil {
				return true
			}
			if sig := fn.Type().(*types.Signature); sig.Recv() != nil {
				return true
			}
			full := fn.Pkg().Path() + "." + fn.Name()
			why, bad := disallowedCalls[full]
			if !bad {
				return true
			}
			if _, isCall := nd.(*ast.CallExpr); !isCall {
				// the selector of a call is seen twice (as call and as selector): count the call only
				return true
			}
			n++
			r.Bad(rule, fmt.Sprintf("%s | %s", f.Name(), full), why, c.pos(nd.Pos()))
			return true
		})
	}
	if calls < 500 {
		r.Undecided(rule, "scope", fmt.Sprintf("only %d calls seen in the library", calls), "")
		return
	}
	if n == 0 {
		r.Ok(rule, "library", fmt.Sprintf("%d calls resolved, none to the %d functions of the deny list", calls, len(names)), "")
	}
}
