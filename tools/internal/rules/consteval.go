package rules

import (
	"go/ast"
	"go/constant"
	"go/token"
	"go/types"
)

// A small constant evaluator over the syntax tree: decides a boolean (or enum-valued) expression when some of its
// leaves are given constant values. Used to ask "does this test exclude the value k?" without caring how the test is
// written: ==, !=, ||, &&, !, a tagged-switch case, a predicate method such as IsAnyOrEmpty() (its single returned
// expression is evaluated with the receiver and parameters bound).

type constEnv struct {
	c    *Ctx
	vars map[types.Object]constant.Value
	// leaf, when set, may give a value to an arbitrary sub-expression (e.g. every call `x.Notation()`)
	leaf func(f *Fn, e ast.Expr) (constant.Value, bool)
	// trace, when set, is told what the abstract run of evalBody passes: ("panic", <argument>) and ("assign", <target>)
	trace func(kind, what string)
	// retLabel, when set, names a returned expression that is not a constant (instead of "?"); a returned call of a
	// library function is followed into that function first (same leaf values, parameters unbound)
	retLabel func(f *Fn, e ast.Expr) string
	// visit, when set, is shown every statement-level node that lies on an explored path (expression statements,
	// assignments, conditions and initialisers of if/switch, returned expressions); with it set, loops are entered
	// (their body is run once; continue/break end that run)
	visit func(f *Fn, n ast.Node)
}

func (ev *constEnv) eval(f *Fn, e ast.Expr, depth int) (constant.Value, bool) {
	e = ast.Unparen(e)
	if ev.leaf != nil {
		if v, ok := ev.leaf(f, e); ok {
			return v, true
		}
	}
	if tv, ok := f.Pkg.TypesInfo.Types[e]; ok && tv.Value != nil {
		return tv.Value, true
	}
	switch x := e.(type) {
	case *ast.Ident:
		if obj := f.Pkg.TypesInfo.Uses[x]; obj != nil {
			if v, ok := ev.vars[obj]; ok {
				return v, true
			}
			if d := soleDef(f, x); d != nil && depth < 6 {
				return ev.eval(f, d, depth+1)
			}
		}
	case *ast.UnaryExpr:
		if x.Op == token.NOT {
			if v, ok := ev.eval(f, x.X, depth); ok && v.Kind() == constant.Bool {
				return constant.MakeBool(!constant.BoolVal(v)), true
			}
		}
	case *ast.BinaryExpr:
		l, lok := ev.eval(f, x.X, depth)
		switch x.Op {
		case token.LAND:
			if lok && l.Kind() == constant.Bool && !constant.BoolVal(l) {
				return l, true
			}
			r, rok := ev.eval(f, x.Y, depth)
			if rok && r.Kind() == constant.Bool && !constant.BoolVal(r) {
				return r, true
			}
			if lok && rok && l.Kind() == constant.Bool && r.Kind() == constant.Bool {
				return constant.MakeBool(true), true
			}
			return nil, false
		case token.LOR:
			if lok && l.Kind() == constant.Bool && constant.BoolVal(l) {
				return l, true
			}
			r, rok := ev.eval(f, x.Y, depth)
			if rok && r.Kind() == constant.Bool && constant.BoolVal(r) {
				return r, true
			}
			if lok && rok && l.Kind() == constant.Bool && r.Kind() == constant.Bool {
				return constant.MakeBool(false), true
			}
			return nil, false
		case token.EQL, token.NEQ, token.LSS, token.LEQ, token.GTR, token.GEQ:
			r, rok := ev.eval(f, x.Y, depth)
			if lok && rok && l.Kind() == r.Kind() && l.Kind() != constant.Unknown {
				return constant.MakeBool(constant.Compare(l, x.Op, r)), true
			}
		case token.ADD, token.SUB, token.MUL, token.AND, token.OR, token.XOR, token.AND_NOT:
			// integer arithmetic and bit sets (a predicate written as `set & (1 << kind) != 0`)
			r, rok := ev.eval(f, x.Y, depth)
			if lok && rok && l.Kind() == constant.Int && r.Kind() == constant.Int {
				return constant.BinaryOp(l, x.Op, r), true
			}
		case token.SHL, token.SHR:
			r, rok := ev.eval(f, x.Y, depth)
			if lok && rok && l.Kind() == constant.Int && r.Kind() == constant.Int {
				if n, exact := constant.Uint64Val(r); exact && n < 64 {
					return constant.Shift(l, x.Op, uint(n)), true
				}
			}
		}
	case *ast.CallExpr:
		if depth > 4 {
			return nil, false
		}
		// conversion T(x)
		if tv, ok := f.Pkg.TypesInfo.Types[x.Fun]; ok && tv.IsType() && len(x.Args) == 1 {
			return ev.eval(f, x.Args[0], depth)
		}
		cal := callee(f.Pkg, x)
		if cal == nil {
			return nil, false
		}
		g := ev.c.fnOf(cal)
		if g == nil || g.Decl.Body == nil {
			return nil, false
		}
		sub := &constEnv{c: ev.c, vars: map[types.Object]constant.Value{}}
		if g.Decl.Recv != nil && len(g.Decl.Recv.List) == 1 && len(g.Decl.Recv.List[0].Names) == 1 {
			if sel, ok := ast.Unparen(x.Fun).(*ast.SelectorExpr); ok {
				if v, ok := ev.eval(f, sel.X, depth+1); ok {
					sub.vars[g.Pkg.TypesInfo.Defs[g.Decl.Recv.List[0].Names[0]]] = v
				}
			}
		}
		i := 0
		for _, fl := range g.Decl.Type.Params.List {
			for _, nm := range fl.Names {
				if i < len(x.Args) {
					if v, ok := ev.eval(f, x.Args[i], depth+1); ok {
						sub.vars[g.Pkg.TypesInfo.Defs[nm]] = v
					}
				}
				i++
			}
			if len(fl.Names) == 0 {
				i++
			}
		}
		if len(g.Decl.Body.List) == 1 {
			if ret, ok := g.Decl.Body.List[0].(*ast.ReturnStmt); ok && len(ret.Results) == 1 {
				return sub.eval(g, ret.Results[0], depth+1)
			}
		}
		// a small predicate with statements: every way through it must give the same constant
		outs := map[string]bool{}
		sub.evalBody(g, g.Decl.Body.List, outs, depth+1)
		if len(outs) == 1 {
			for k := range outs {
				switch k {
				case "true":
					return constant.MakeBool(true), true
				case "false":
					return constant.MakeBool(false), true
				}
			}
		}
		return nil, false
	}
	return nil, false
}

// refutes: the condition having truth value `holds` is impossible under the environment (it evaluates to the other
// value): walking an edge on which it holds excludes the environment.
func (ev *constEnv) refutes(f *Fn, cond ast.Expr, holds bool) bool {
	v, ok := ev.eval(f, cond, 0)
	return ok && v.Kind() == constant.Bool && constant.BoolVal(v) != holds
}

// enumConstants: the package-level constants of a named type.
func enumConstants(t types.Type) []*types.Const {
	named, ok := t.(*types.Named)
	if !ok || named.Obj().Pkg() == nil {
		return nil
	}
	var out []*types.Const
	scope := named.Obj().Pkg().Scope()
	for _, n := range scope.Names() {
		if k, ok := scope.Lookup(n).(*types.Const); ok && types.Identical(k.Type(), named) {
			out = append(out, k)
		}
	}
	return out
}

// evalBody abstractly runs a statement list whose conditions are decided by the environment where they can be and
// explored both ways where they cannot: the set of constants the function can return (as strings; "?" for a result that
// is not constant) is collected. Only the statement forms of small predicates are understood (if / switch / return /
// assignments, which are skipped); anything else makes the result "?".
func (ev *constEnv) evalBody(f *Fn, list []ast.Stmt, out map[string]bool, depth int) (terminated bool) {
	for _, st := range list {
		if ev.visit != nil {
			switch x := st.(type) {
			case *ast.ReturnStmt, *ast.ExprStmt, *ast.AssignStmt:
				ev.visit(f, x)
			case *ast.IfStmt:
				if x.Init != nil {
					ev.visit(f, x.Init)
				}
				ev.visit(f, x.Cond)
			case *ast.SwitchStmt:
				if x.Init != nil {
					ev.visit(f, x.Init)
				}
				if x.Tag != nil {
					ev.visit(f, x.Tag)
				}
			case *ast.RangeStmt:
				ev.visit(f, x.X)
				ev.evalBody(f, x.Body.List, out, depth)
				continue
			case *ast.ForStmt:
				if x.Init != nil {
					ev.visit(f, x.Init)
				}
				if x.Cond != nil {
					ev.visit(f, x.Cond)
				}
				ev.evalBody(f, x.Body.List, out, depth)
				continue
			case *ast.BranchStmt:
				if x.Tok == token.CONTINUE || x.Tok == token.BREAK {
					return true
				}
			}
		}
		switch x := st.(type) {
		case *ast.ReturnStmt:
			if len(x.Results) != 1 {
				out["?"] = true
				return true
			}
			if v, ok := ev.eval(f, x.Results[0], depth); ok {
				out[v.ExactString()] = true
			} else if ev.retLabel != nil {
				if call, isCall := ast.Unparen(x.Results[0]).(*ast.CallExpr); isCall && depth < 3 {
					if cal := callee(f.Pkg, call); cal != nil {
						if g := ev.c.fnOf(cal); g != nil && g.Decl.Body != nil && g != f {
							sub := &constEnv{c: ev.c, vars: map[types.Object]constant.Value{}, leaf: ev.leaf, retLabel: ev.retLabel}
							inner := map[string]bool{}
							sub.evalBody(g, g.Decl.Body.List, inner, depth+1)
							if !inner["?"] && len(inner) > 0 {
								for k := range inner {
									out[k] = true
								}
								return true
							}
						}
					}
				}
				out[ev.retLabel(f, x.Results[0])] = true
			} else {
				out["?"] = true
			}
			return true
		case *ast.IfStmt:
			v, known := ev.eval(f, x.Cond, depth)
			takeThen := !known || (v.Kind() == constant.Bool && constant.BoolVal(v))
			takeElse := !known || (v.Kind() == constant.Bool && !constant.BoolVal(v))
			thenTerm, elseTerm := false, false
			if takeThen {
				thenTerm = ev.evalBody(f, x.Body.List, out, depth)
			}
			if takeElse {
				switch e := x.Else.(type) {
				case *ast.BlockStmt:
					elseTerm = ev.evalBody(f, e.List, out, depth)
				case *ast.IfStmt:
					elseTerm = ev.evalBody(f, []ast.Stmt{e}, out, depth)
				}
			}
			if known && ((takeThen && thenTerm) || (takeElse && elseTerm)) {
				return true
			}
			if !known && thenTerm && elseTerm {
				return true
			}
		case *ast.SwitchStmt:
			var tag constant.Value
			tagKnown := true
			if x.Tag != nil {
				tag, tagKnown = ev.eval(f, x.Tag, depth)
			}
			matched, allTerm := false, true
			var def *ast.CaseClause
			for _, cs := range x.Body.List {
				cc := cs.(*ast.CaseClause)
				if cc.List == nil {
					def = cc
					continue
				}
				may, must := false, false
				for _, e := range cc.List {
					cv, ck := ev.eval(f, e, depth)
					switch {
					case x.Tag == nil && ck && cv.Kind() == constant.Bool:
						if constant.BoolVal(cv) {
							must = true
						}
					case x.Tag != nil && ck && tagKnown && cv.Kind() == tag.Kind():
						if constant.Compare(tag, token.EQL, cv) {
							must = true
						}
					default:
						may = true
					}
				}
				if must || may {
					if !ev.evalBody(f, cc.Body, out, depth) {
						allTerm = false
					}
				}
				if must {
					matched = true
					break
				}
			}
			if !matched {
				if def != nil {
					if !ev.evalBody(f, def.Body, out, depth) {
						allTerm = false
					}
				} else {
					allTerm = false
				}
			}
			if allTerm {
				return true
			}
		case *ast.ExprStmt:
			if call, ok := ast.Unparen(x.X).(*ast.CallExpr); ok {
				if id, ok := call.Fun.(*ast.Ident); ok && id.Name == "panic" {
					if _, isB := f.Pkg.TypesInfo.Uses[id].(*types.Builtin); isB {
						if ev.trace != nil {
							ev.trace("panic", types.ExprString(call))
						}
						out["panic"] = true
						return true
					}
				}
			}
		case *ast.AssignStmt:
			if ev.trace != nil {
				for _, l := range x.Lhs {
					ev.trace("assign", types.ExprString(l))
				}
			}
		case *ast.DeclStmt, *ast.IncDecStmt:
			// no effect on the constants we follow
		case *ast.BlockStmt:
			if ev.evalBody(f, x.List, out, depth) {
				return true
			}
		default:
			out["?"] = true
			return true
		}
	}
	return false
}
