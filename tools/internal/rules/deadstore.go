package rules

import (
	"fmt"
	"go/ast"
	"go/token"
	"go/types"

	"golang.org/x/tools/go/ssa"
)

// An error that is stored and never looked at.
//
// `x, err := f()` inside a block declares a new err when one of the left-hand names is new: an `err = g()` that
// follows assigns the inner variable, and the outer one - the one that is tested after the block - stays nil. The
// assigned value is then dead: in SSA form the call (or the extracted error component) has no referrer at all. The rule
// reports every error-like result of a call that is assigned to a named variable and never read on any path.
func (c *Ctx) ruleDeadErrorStores(rule string) {
	r := c.R
	r.Rule(rule, "no error-like result of a call is assigned to a (non-blank) local variable and then never read on any path (in SSA form the value has no referrer): the typical cause is a `:=` in an inner block that shadows the error variable which is tested after the block, so the failure of the call is lost", 1)
	n, bad := 0, 0
	for _, f := range c.libFns() {
		sf := c.P.SSAFunc(f.Obj)
		if sf == nil {
			continue
		}
		// syntax of the assignments of f, by the position of the call's opening parenthesis
		type asg struct {
			call *ast.CallExpr
			lhs  []ast.Expr
		}
		byPos := map[token.Pos]asg{}
		ast.Inspect(f.Decl.Body, func(nd ast.Node) bool {
			if as, ok := nd.(*ast.AssignStmt); ok && len(as.Rhs) == 1 {
				if call, ok := ast.Unparen(as.Rhs[0]).(*ast.CallExpr); ok {
					byPos[call.Lparen] = asg{call, as.Lhs}
				}
			}
			return true
		})
		nonDebugRefs := func(v ssa.Value) int {
			k := 0
			if v.Referrers() == nil {
				return 1
			}
			for _, ref := range *v.Referrers() {
				if _, isDbg := ref.(*ssa.DebugRef); !isDbg {
					k++
				}
			}
			return k
		}
		var scan func(g *ssa.Function)
		scan = func(g *ssa.Function) {
			for _, b := range g.Blocks {
				for _, ins := range b.Instrs {
					call, ok := ins.(*ssa.Call)
					if !ok {
						continue
					}
					a, has := byPos[call.Pos()]
					if !has {
						continue
					}
					report := func(idx int, what string) {
						if idx >= len(a.lhs) {
							return
						}
						id, ok := a.lhs[idx].(*ast.Ident)
						if !ok || id.Name == "_" {
							return
						}
						bad++
						key := fmt.Sprintf("%s | %s = %s", f.Name(), id.Name, exprString(a.call.Fun))
						r.Bad(rule, key, "the "+what+" of "+exprString(a.call.Fun)+" is assigned to `"+id.Name+"` and never read: if this `"+id.Name+"` shadows the variable that is tested afterwards, a failure of the call is silently lost", c.pos(a.call.Pos()))
					}
					// looked at, never handed on: every use of the error is a comparison with nil, in a function that
					// reports failures itself, and the branch taken on failure does not end in a return of an error
					failureReported := func(cmp *ssa.BinOp) bool {
						refs := cmp.Referrers()
						if refs == nil {
							return true
						}
						for _, ref := range *refs {
							ifi, isIf := ref.(*ssa.If)
							if !isIf {
								return true // the comparison is a value (a predicate's result): not this rule's business
							}
							blk := ifi.Block()
							if len(blk.Succs) != 2 {
								return true
							}
							fail := blk.Succs[0] // taken when err != nil is true
							if cmp.Op == token.EQL {
								fail = blk.Succs[1]
							}
							reported := false
							if len(fail.Instrs) > 0 {
								if ret, isRet := fail.Instrs[len(fail.Instrs)-1].(*ssa.Return); isRet {
									for _, rv := range ret.Results {
										// an error made for this failure: a value computed in the failure branch itself
										if isErrorLike(rv.Type()) {
											if ins, isIns := rv.(ssa.Instruction); isIns && ins.Block() == fail {
												reported = true
											}
										}
									}
								}
							}
							if !reported {
								return false
							}
						}
						return true
					}
					hasErrResult := false
					if res := g.Signature.Results(); res != nil {
						for i := 0; i < res.Len(); i++ {
							if isErrorLike(res.At(i).Type()) {
								hasErrResult = true
							}
						}
					}
					onlyCompared := func(v ssa.Value) bool {
						refs := v.Referrers()
						if refs == nil || !hasErrResult {
							return false
						}
						k := 0
						allReported := true
						for _, ref := range *refs {
							switch x := ref.(type) {
							case *ssa.DebugRef:
							case *ssa.BinOp:
								if x.Op != token.EQL && x.Op != token.NEQ {
									return false
								}
								other := x.X
								if other == v {
									other = x.Y
								}
								if cst, isC := other.(*ssa.Const); !isC || !cst.IsNil() {
									return false
								}
								k++
								if !failureReported(x) {
									allReported = false
								}
							default:
								return false
							}
						}
						return k > 0 && !allReported
					}
					reportCmp := func(idx int) {
						if idx >= len(a.lhs) {
							return
						}
						id, ok := a.lhs[idx].(*ast.Ident)
						if !ok || id.Name == "_" {
							return
						}
						// only where the variable hides an error variable of an enclosing block: a failure that is
						// deliberately ignored ("try this, else go on") uses a name of its own
						inner := f.Pkg.TypesInfo.Defs[id]
						if inner == nil || inner.Parent() == nil || inner.Parent().Parent() == nil {
							return
						}
						_, outer := inner.Parent().Parent().LookupParent(id.Name, id.Pos())
						ov, isVar := outer.(*types.Var)
						if !isVar || ov.Pkg() == nil || ov.Parent() == ov.Pkg().Scope() || !isErrorLike(ov.Type()) {
							return
						}
						bad++
						key := fmt.Sprintf("%s | %s = %s (only compared)", f.Name(), id.Name, exprString(a.call.Fun))
						r.Bad(rule, key, "the error of "+exprString(a.call.Fun)+" is kept in a new `"+id.Name+"` that hides the `"+id.Name+"` of the enclosing block and is only ever compared with nil: when the call fails, nothing is returned, stored or reported, and what the function returns afterwards is the outer variable, which says success", c.pos(a.call.Pos()))
					}
					t := call.Type()
					if tup, isTup := t.(*types.Tuple); isTup {
						if call.Referrers() != nil {
							for _, ref := range *call.Referrers() {
								if ex, ok := ref.(*ssa.Extract); ok && isErrorLike(tup.At(ex.Index).Type()) && onlyCompared(ex) {
									reportCmp(ex.Index)
								}
							}
						}
					} else if isErrorLike(t) && onlyCompared(call) {
						reportCmp(0)
					}
					if tup, isTup := t.(*types.Tuple); isTup {
						// which components are extracted and used
						used := map[int]bool{}
						if call.Referrers() != nil {
							for _, ref := range *call.Referrers() {
								if ex, ok := ref.(*ssa.Extract); ok && nonDebugRefs(ex) > 0 {
									used[ex.Index] = true
								}
							}
						}
						for i := 0; i < tup.Len(); i++ {
							if isErrorLike(tup.At(i).Type()) {
								n++
								if !used[i] {
									report(i, "error result")
								}
							}
						}
					} else if isErrorLike(t) {
						n++
						if nonDebugRefs(call) == 0 {
							report(0, "error")
						}
					}
				}
			}
			for _, an := range g.AnonFuncs {
				scan(an)
			}
		}
		scan(sf)
	}
	if bad == 0 {
		r.Ok(rule, "library", fmt.Sprintf("%d error-like call results assigned to variables: each is read on some path", n), "")
	}
}
