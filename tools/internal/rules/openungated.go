package rules

import (
	"fmt"
	"go/ast"
	"go/types"
)

// ruleOpenUngated: parentheses are layout. Whether a '(' met by a step function opens an explicit context may depend
// on where the scanner is (which step function runs) and on the byte - not on what the scanner has remembered about
// the directive (its notation, a parameter seen before): a state that reports ContextOpen for one notation and hands
// the same '(' to a body reader for another refuses, for that notation only, the explicit form of a document it
// accepts in the implicit form. Structurally: every statement that reports ContextOpen stands under conditions
// (if, case) that mention the byte only, never the scanner.
func (c *Ctx) ruleOpenUngated(rule string) {
	r := c.R
	r.Rule(rule, "in the step functions of package scanner every report of the ContextOpen event stands under conditions that read the current byte only: no enclosing if-condition or case expression mentions the scanner (its fields or methods) - whether '(' opens a context does not depend on the notation or the parameters of the directive", 1)
	pk := c.P.Pkg("scanner")
	if pk == nil {
		r.Undecided(rule, "anchor", "package scanner not loaded", "")
		return
	}
	open := pk.Types.Scope().Lookup("ContextOpen")
	if open == nil {
		r.Undecided(rule, "anchor", "scanner.ContextOpen not found", "")
		return
	}
	n := 0
	for _, f := range c.libFns() {
		if f.Pkg != pk || f.Decl.Type.Params == nil {
			continue
		}
		// the scanner parameter or receiver
		var sc []types.Object
		add := func(fl *ast.FieldList) {
			if fl == nil {
				return
			}
			for _, fld := range fl.List {
				for _, nm := range fld.Names {
					if o := pk.TypesInfo.Defs[nm]; o != nil && namedType(derefType(o.Type())) == pk.Types.Path()+".Scanner" {
						sc = append(sc, o)
					}
				}
			}
		}
		add(f.Decl.Recv)
		add(f.Decl.Type.Params)
		if len(sc) == 0 {
			continue
		}
		mentions := func(e ast.Node) bool {
			hit := false
			ast.Inspect(e, func(nd ast.Node) bool {
				if id, ok := nd.(*ast.Ident); ok {
					for _, o := range sc {
						if pk.TypesInfo.Uses[id] == o {
							hit = true
						}
					}
				}
				return !hit
			})
			return hit
		}
		var stack []ast.Node
		idx := 0
		ast.Inspect(f.Decl.Body, func(nd ast.Node) bool {
			if nd == nil {
				stack = stack[:len(stack)-1]
				return true
			}
			stack = append(stack, nd)
			call, ok := nd.(*ast.CallExpr)
			if !ok {
				return true
			}
			isOpen := false
			for _, a := range call.Args {
				if id, ok := ast.Unparen(a).(*ast.Ident); ok && pk.TypesInfo.Uses[id] == open {
					isOpen = true
				}
			}
			if !isOpen {
				return true
			}
			n++
			idx++
			key := fmt.Sprintf("%s | ContextOpen #%d", f.Name(), idx)
			var gate ast.Node
			for i := len(stack) - 2; i >= 0 && gate == nil; i-- {
				switch x := stack[i].(type) {
				case *ast.IfStmt:
					if mentions(x.Cond) || (x.Init != nil && mentions(x.Init)) {
						gate = x.Cond
					}
				case *ast.CaseClause:
					for _, e := range x.List {
						if mentions(e) {
							gate = e
						}
					}
				case *ast.SwitchStmt:
					if x.Tag != nil && mentions(x.Tag) {
						gate = x.Tag
					}
				case *ast.FuncLit:
					i = -1
				}
			}
			if gate != nil {
				r.Bad(rule, key, "the report of ContextOpen stands under a condition on the scanner's state ("+exprString(gate.(ast.Expr))+"): for the directives for which it is false the same '(' is not an opening parenthesis, and the explicit form of a document that the implicit form accepts is refused", c.pos(call.Pos()))
			} else {
				r.Ok(rule, key, "reported under conditions on the byte only", c.pos(call.Pos()))
			}
			return true
		})
	}
	if n == 0 {
		r.Undecided(rule, "sites", "no report of ContextOpen found in package scanner", "")
	}
}
