package rules

import (
	"encoding/json"
	"fmt"
	"go/ast"
	"go/types"
	"os"
	"path/filepath"
	"sort"
	"strings"

	"jsverif/internal/prog"
)

// Anchors by fingerprint. Rules name about seventy functions of the library, and exception tables, obligation keys
// and known findings are keyed by function names. A pure rename of one of them (no test refers to unexported names)
// would otherwise turn every rule that starts from it into UNDECIDED. reference/anchors.json holds, for every
// function of the pinned tree, its signature and the set of functions it calls and is called by. A name of the pinned
// tree that no longer exists is matched against the functions of the same package that the pinned tree did not have:
// same signature, the most similar call neighbourhood (Jaccard >= 0.6, clearly better than the runner-up, and the best
// match of that candidate in turn). Matching is repeated with the renames found so far applied to the neighbourhoods,
// so that a renamed caller of a renamed function is still recognised. Every substitution is written into the
// evidence; the renamed function is analysed under the role, and reported under the name, it had. A function whose body
// was rewritten beyond recognition stays unresolved (UNDECIDED), as before.

type anchorFP struct {
	Sig     string   `json:"sig"`
	Callees []string `json:"callees"`
	Callers []string `json:"callers"`
}

func fingerprints(c *Ctx) map[string]anchorFP {
	out := map[string]anchorFP{}
	callers := map[string]map[string]bool{}
	for _, f := range c.libFns() {
		if f.Decl == nil || f.Decl.Body == nil {
			continue
		}
		name := prog.RawFuncName(f.Obj)
		set := map[string]bool{}
		inCallPos := map[*ast.Ident]bool{}
		ast.Inspect(f.Decl.Body, func(n ast.Node) bool {
			if call, ok := n.(*ast.CallExpr); ok {
				switch fun := ast.Unparen(call.Fun).(type) {
				case *ast.Ident:
					inCallPos[fun] = true
				case *ast.SelectorExpr:
					inCallPos[fun.Sel] = true
				}
				if cal := callee(f.Pkg, call); cal != nil && cal.Pkg() != nil {
					cn := cal.Pkg().Name() + "." + cal.Name()
					if c.P.IsLibPkg(cal.Pkg()) {
						cn = prog.RawFuncName(cal.Origin())
						if callers[cn] == nil {
							callers[cn] = map[string]bool{}
						}
						callers[cn][name] = true
					}
					set[cn] = true
				}
			}
			return true
		})
		// a function of the library used as a value (the step functions of the scanner are never called by name: they
		// are stored into s.step or pushed): counted like a call, in both directions
		ast.Inspect(f.Decl.Body, func(n ast.Node) bool {
			id, ok := n.(*ast.Ident)
			if !ok || inCallPos[id] {
				return true
			}
			fo, ok := f.Pkg.TypesInfo.Uses[id].(*types.Func)
			if !ok || fo.Pkg() == nil || !c.P.IsLibPkg(fo.Pkg()) {
				return true
			}
			cn := prog.RawFuncName(fo.Origin())
			if callers[cn] == nil {
				callers[cn] = map[string]bool{}
			}
			callers[cn][name] = true
			set[cn] = true
			return true
		})
		var cs []string
		for k := range set {
			cs = append(cs, k)
		}
		sort.Strings(cs)
		out[name] = anchorFP{Sig: types.TypeString(f.Obj.Type(), func(p *types.Package) string { return p.Name() }), Callees: cs}
	}
	for name, fp := range out {
		var cs []string
		for k := range callers[name] {
			cs = append(cs, k)
		}
		sort.Strings(cs)
		fp.Callers = cs
		out[name] = fp
	}
	return out
}

// fieldFingerprints: for every field of a struct of the library, its type and the functions that mention it (key
// "field:<pkg>.<Struct>.<name>"); used to find a renamed field of core.JApiCore the way renamed functions are found.
func fieldFingerprints(c *Ctx) map[string]anchorFP {
	users := map[*types.Var]map[string]bool{}
	for _, f := range c.libFns() {
		if f.Decl == nil || f.Decl.Body == nil {
			continue
		}
		name := prog.RawFuncName(f.Obj)
		ast.Inspect(f.Decl.Body, func(n ast.Node) bool {
			var fld *types.Var
			switch x := n.(type) {
			case *ast.SelectorExpr:
				fld = fieldSel(f.Pkg, x)
			case *ast.KeyValueExpr:
				if id, ok := x.Key.(*ast.Ident); ok {
					if v, ok := f.Pkg.TypesInfo.Uses[id].(*types.Var); ok && v.IsField() {
						fld = v
					}
				}
			}
			if fld != nil && fld.Pkg() != nil && c.P.IsLibPkg(fld.Pkg()) {
				if users[fld.Origin()] == nil {
					users[fld.Origin()] = map[string]bool{}
				}
				users[fld.Origin()][name] = true
			}
			return true
		})
	}
	out := map[string]anchorFP{}
	for _, pk := range c.P.Lib {
		scope := pk.Types.Scope()
		for _, n := range scope.Names() {
			tn, ok := scope.Lookup(n).(*types.TypeName)
			if !ok {
				continue
			}
			st, ok := tn.Type().Underlying().(*types.Struct)
			if !ok {
				continue
			}
			for i := 0; i < st.NumFields(); i++ {
				fld := st.Field(i)
				var us []string
				for u := range users[fld] {
					us = append(us, u)
				}
				sort.Strings(us)
				out["field:"+pk.Types.Name()+"."+tn.Name()+"."+fld.Name()] = anchorFP{Sig: types.TypeString(fld.Type(), func(p *types.Package) string { return p.Name() }), Callers: us}
			}
		}
	}
	return out
}

// renamedField: the field of pkg.Struct that the pinned tree called `name`, when no field has that name any more:
// same type, the most similar set of using functions (Jaccard >= 0.6, clear of the runner-up), a name the pinned
// struct did not have.
func (c *Ctx) renamedField(pkgName, structName, name string) *types.Var {
	dir := os.Getenv("VERIF_DIR")
	if dir == "" {
		dir = "/verif"
	}
	ref := map[string]anchorFP{}
	b, err := os.ReadFile(filepath.Join(dir, "tools", "reference", "anchors.json"))
	if err != nil || json.Unmarshal(b, &ref) != nil {
		return nil
	}
	prefix := "field:" + pkgName + "." + structName + "."
	want, ok := ref[prefix+name]
	if !ok {
		return nil
	}
	cur := fieldFingerprints(c)
	type cand struct {
		name  string
		score float64
	}
	var cands []cand
	for k, fp := range cur {
		if !strings.HasPrefix(k, prefix) || fp.Sig != want.Sig {
			continue
		}
		if _, existed := ref[k]; existed {
			continue
		}
		a := map[string]bool{}
		for _, u := range want.Callers {
			a[u] = true
		}
		inter, union := 0, len(a)
		for _, u := range fp.Callers {
			if p, ok := canonName(u); ok {
				u = p
			}
			if a[u] {
				inter++
			} else {
				union++
			}
		}
		if union > 0 {
			cands = append(cands, cand{strings.TrimPrefix(k, prefix), float64(inter) / float64(union)})
		}
	}
	sort.Slice(cands, func(i, j int) bool { return cands[i].score > cands[j].score })
	if len(cands) == 0 || cands[0].score < 0.6 || (len(cands) > 1 && cands[0].score-cands[1].score < 0.15) {
		return nil
	}
	tn := c.P.LookupType(pkgName, structName)
	if tn == nil {
		return nil
	}
	st, _ := tn.Type().Underlying().(*types.Struct)
	for i := 0; st != nil && i < st.NumFields(); i++ {
		if st.Field(i).Name() == cands[0].name {
			c.R.Assumptions = append(c.R.Assumptions, fmt.Sprintf("field %s.%s.%s of the pinned tree no longer exists; %s (same type, used by the same functions: similarity %.2f) is taken in its place", pkgName, structName, name, cands[0].name, cands[0].score))
			return st.Field(i)
		}
	}
	return nil
}

// canonName: the pinned name of a function that was recognised as renamed.
func canonName(cur string) (string, bool) {
	for f, p := range prog.Canon {
		if prog.RawFuncName(f) == cur {
			return p, true
		}
	}
	return "", false
}

func init() {
	dumpers["anchors"] = func(c *Ctx) {
		all := fingerprints(c)
		for k, v := range fieldFingerprints(c) {
			all[k] = v
		}
		b, _ := json.MarshalIndent(all, "", " ")
		os.Stdout.Write(b)
		fmt.Println()
	}
}

// installAnchorFallback computes the rename map (current function -> pinned name) and makes LookupFunc use it.
func (c *Ctx) installAnchorFallback() {
	prog.Canon = map[*types.Func]string{}
	c.P.Fallback = nil
	ref := map[string]anchorFP{}
	dir := os.Getenv("VERIF_DIR")
	if dir == "" {
		dir = "/verif"
	}
	b, err := os.ReadFile(filepath.Join(dir, "tools", "reference", "anchors.json"))
	if err != nil || json.Unmarshal(b, &ref) != nil || len(ref) == 0 {
		return
	}
	cur := fingerprints(c)
	byName := map[string]*Fn{}
	for _, f := range c.libFns() {
		byName[prog.RawFuncName(f.Obj)] = f
	}
	var missing, fresh []string
	for n := range ref {
		if _, ok := cur[n]; !ok {
			missing = append(missing, n)
		}
	}
	for n := range cur {
		if _, ok := ref[n]; !ok {
			fresh = append(fresh, n)
		}
	}
	sort.Strings(missing)
	sort.Strings(fresh)
	if len(missing) == 0 || len(fresh) == 0 {
		return
	}
	pkgOf := func(n string) string {
		if i := strings.Index(n, "."); i >= 0 {
			return n[:i]
		}
		return n
	}
	toPinned := map[string]string{} // current name -> pinned name
	score := func(m, f string) float64 {
		a := map[string]bool{}
		for _, x := range ref[m].Callees {
			a["c:"+x] = true
		}
		for _, x := range ref[m].Callers {
			a["r:"+x] = true
		}
		seen := map[string]bool{}
		mp := func(x string) string {
			if p, ok := toPinned[x]; ok {
				return p
			}
			return x
		}
		for _, x := range cur[f].Callees {
			seen["c:"+mp(x)] = true
		}
		for _, x := range cur[f].Callers {
			seen["r:"+mp(x)] = true
		}
		inter, union := 0, len(a)
		for k := range seen {
			if a[k] {
				inter++
			} else {
				union++
			}
		}
		if union == 0 {
			return 0
		}
		return float64(inter) / float64(union)
	}
	scores := map[string]float64{}
	for round := 0; round < 6; round++ {
		changed := false
		taken := map[string]bool{}
		for _, p := range toPinned {
			taken[p] = true
		}
		for _, m := range missing {
			if taken[m] {
				continue
			}
			best, second, bestF := 0.0, 0.0, ""
			for _, f := range fresh {
				if _, done := toPinned[f]; done || pkgOf(f) != pkgOf(m) || cur[f].Sig != ref[m].Sig {
					continue
				}
				s := score(m, f)
				if s > best {
					best, second, bestF = s, best, f
				} else if s > second {
					second = s
				}
			}
			if bestF == "" || best < 0.6 || best-second < 0.15 {
				continue
			}
			// the candidate's best pinned name must be this one too
			mutual := true
			for _, m2 := range missing {
				if m2 != m && !taken[m2] && pkgOf(m2) == pkgOf(m) && ref[m2].Sig == ref[m].Sig && score(m2, bestF) >= best {
					mutual = false
				}
			}
			if !mutual {
				continue
			}
			toPinned[bestF] = m
			taken[m] = true
			scores[bestF] = best
			changed = true
		}
		if !changed {
			break
		}
	}
	pinnedTo := map[string]*types.Func{}
	var names []string
	for f := range toPinned {
		names = append(names, f)
	}
	sort.Strings(names)
	for _, f := range names {
		fn := byName[f]
		if fn == nil {
			continue
		}
		prog.Canon[fn.Obj.Origin()] = toPinned[f]
		pinnedTo[toPinned[f]] = fn.Obj
		c.R.Assumptions = append(c.R.Assumptions, fmt.Sprintf("function %s of the pinned tree no longer exists; %s (same signature, call neighbourhood similarity %.2f) is analysed in its place and reported under the old name", toPinned[f], f, scores[f]))
	}
	c.P.Fallback = func(rel, name string) *types.Func {
		pk := c.P.Pkg(rel)
		if pk == nil {
			return nil
		}
		for n, f := range pinnedTo {
			if f.Pkg() == pk.Types && fpName(n, name) {
				return f
			}
		}
		return nil
	}
}

// fpName: does the FuncName-style name n denote the function/method `name` ("Type.Method" or "Func")?
func fpName(n, name string) bool {
	parts := strings.Split(name, ".")
	if len(parts) == 1 {
		return strings.HasSuffix(n, "."+name) && !strings.Contains(n, ")")
	}
	return strings.HasSuffix(n, ".(*"+parts[0]+")."+parts[1]) || strings.HasSuffix(n, ".("+parts[0]+")."+parts[1])
}
