package rules

import (
	"fmt"
	"go/ast"
	"go/token"
	"go/types"
	"sort"
	"strings"

	"golang.org/x/tools/go/packages"

	"jsverif/internal/prog"
)

func init() { register("C18", propC18, true, true) }

func propC18(c *Ctx) {
	c.R.Explanation = "Decides the module's share of 'no shared mutable state without synchronisation': no package-level variable is written after initialisation (sync.Once-initialised tables excepted) and none is a shared synchronised cache; a core built with an Option does not alias state owned by the Option value; every method of a mutex-guarded type touches the guarded fields only with the lock held (writes: Lock); serialisers only read the catalog apart from Once-protected lazy state (C16-MARSHAL-PURITY), and the library starts no goroutines. Thorough tier: in jsight-schema-core, byte slices of pooled buffers must not be returned after the buffer went back to the pool (known finding F19). Not decided: actual schedules / the race detector's happens-before; synchronisation inside the dependency beyond the pooled-buffer escape rule."
	c.ruleGlobalState("C18-GLOBAL-STATE")
	c.ruleLockDiscipline()
	c.ruleMarshalPurity("C18-MARSHAL-PURITY")
	c.ruleOnceErrPersists("C18-ONCE-STATE")
	c.ruleOnceGuardedReads("C18-ONCE-GUARDED-READS")
	c.ruleOptionAliasing()
	c.ruleSequentialAs("C18-NO-GOROUTINES")
	if c.Deep {
		c.rulePooledEscape()
	} else {
		c.R.Rule("C18-POOLED-ESCAPE", "thorough tier only: dependency functions that return bytes of a buffer which they put back into a sync.Pool", 0)
		c.rulePooledEscapeQuick()
	}
}

func (c *Ctx) ruleSequentialAs(rule string) {
	r := c.R
	r.Rule(rule, "the library starts no goroutine: all concurrency comes from the callers", 1)
	n := 0
	for _, f := range c.libFns() {
		ast.Inspect(f.Decl.Body, func(nd ast.Node) bool {
			if g, ok := nd.(*ast.GoStmt); ok {
				n++
				r.Bad(rule, f.Name()+" go statement", "a goroutine is started inside the library", c.pos(g.Pos()))
			}
			return true
		})
	}
	if n == 0 {
		r.Ok(rule, "library", "no go statement", "")
	}
}

// ruleOptionAliasing: an Option closure must not store captured (Option-owned) reference values into the core.
func (c *Ctx) ruleOptionAliasing() { c.ruleOptionAliasingAs("C18-OPTION-ALIASING") }

func (c *Ctx) ruleOptionAliasingAs(rule string) {
	r := c.R
	r.Rule(rule, "a function returning core.Option (a closure applied to every core built with it) stores into the core only values made inside the closure or copied element by element: no map/slice/pointer captured from the enclosing function is assigned to a field of the core", 1)
	pk := c.P.Pkg("core")
	optT := c.P.LookupType("core", "Option")
	if pk == nil || optT == nil {
		r.Undecided(rule, "anchor", "core.Option not found", "")
		return
	}
	n := 0
	for _, f := range c.libFns() {
		if f.Pkg != pk {
			continue
		}
		sig := f.Obj.Type().(*types.Signature)
		if sig.Results().Len() != 1 || !types.Identical(sig.Results().At(0).Type(), optT.Type()) {
			continue
		}
		ast.Inspect(f.Decl.Body, func(nd ast.Node) bool {
			fl, ok := nd.(*ast.FuncLit)
			if !ok {
				return true
			}
			n++
			bad := ""
			ast.Inspect(fl.Body, func(m ast.Node) bool {
				as, ok := m.(*ast.AssignStmt)
				if !ok {
					return true
				}
				for i, l := range as.Lhs {
					if fieldSel(pk, l) == nil || i >= len(as.Rhs) {
						continue
					}
					id, ok := ast.Unparen(as.Rhs[i]).(*ast.Ident)
					if !ok {
						continue
					}
					obj := pk.TypesInfo.Uses[id]
					if obj == nil || obj.Pos() >= fl.Pos() {
						continue
					}
					switch obj.Type().Underlying().(type) {
					case *types.Map, *types.Slice, *types.Pointer:
						bad = fmt.Sprintf("%s = %s", exprString(l), id.Name)
					}
				}
				return true
			})
			key := f.Name() + " | option closure"
			if bad == "" {
				r.Ok(rule, key, "nothing captured is stored by reference", c.pos(fl.Pos()))
			} else {
				r.Bad(rule, key, "the closure stores a captured reference into the core ("+bad+"): every core built with this Option value shares, and mutates, the same object", c.pos(fl.Pos()))
			}
			return false
		})
	}
	if n == 0 {
		r.Undecided(rule, "sites", "no Option constructor with a closure found", "")
	}
}

// ruleLockDiscipline: struct types with a sync.(RW)Mutex field.
func (c *Ctx) ruleLockDiscipline() {
	r := c.R
	r.Rule("C18-LOCK-DISCIPLINE", "for every struct with a mutex field: each exported method that reads the other fields takes RLock or Lock first and defers the matching unlock; each method that writes them takes Lock; unexported helpers that touch the fields without locking are only called from methods that hold the lock", 30)
	for _, pk := range c.P.Lib {
		scope := pk.Types.Scope()
		for _, name := range scope.Names() {
			tn, ok := scope.Lookup(name).(*types.TypeName)
			if !ok {
				continue
			}
			st, ok := tn.Type().Underlying().(*types.Struct)
			if !ok {
				continue
			}
			var mu *types.Var
			guarded := map[*types.Var]bool{}
			for i := 0; i < st.NumFields(); i++ {
				f := st.Field(i)
				switch namedType(f.Type()) {
				case "sync.Mutex", "sync.RWMutex":
					mu = f
				default:
					if namedType(f.Type()) != "sync.Once" {
						guarded[f] = true
					}
				}
			}
			if mu == nil {
				continue
			}
			named := tn.Type().(*types.Named)
			// a field that no method assigns (nor index-assigns, deletes from, appends to) after construction is immutable:
			// reading it needs no lock
			mutable := map[*types.Var]bool{}
			for i := 0; i < named.NumMethods(); i++ {
				f := c.fnOf(named.Method(i))
				if f == nil {
					continue
				}
				ast.Inspect(f.Decl.Body, func(nd ast.Node) bool {
					mark := func(e ast.Expr) {
						e = ast.Unparen(e)
						if ix, ok := e.(*ast.IndexExpr); ok {
							e = ast.Unparen(ix.X)
						}
						if fld := fieldSel(pk, e); fld != nil && guarded[fld.Origin()] {
							mutable[fld.Origin()] = true
						}
					}
					switch x := nd.(type) {
					case *ast.AssignStmt:
						for _, l := range x.Lhs {
							mark(l)
						}
					case *ast.IncDecStmt:
						mark(x.X)
					case *ast.CallExpr:
						if id, ok := x.Fun.(*ast.Ident); ok && (id.Name == "delete" || id.Name == "clear" || id.Name == "copy") && len(x.Args) > 0 {
							mark(x.Args[0])
						}
					}
					return true
				})
			}
			for f := range guarded {
				if !mutable[f] {
					delete(guarded, f)
				}
			}
			type minfo struct {
				f                        *Fn
				reads, writes            bool
				lock, rlock, deferUnlock bool
				callsUnlocked            []string
			}
			infos := map[string]*minfo{}
			for i := 0; i < named.NumMethods(); i++ {
				m := named.Method(i)
				f := c.fnOf(m)
				if f == nil {
					continue
				}
				mi := &minfo{f: f}
				infos[m.Name()] = mi
				inspectWithStack(f.Decl.Body, func(nd ast.Node, stack []ast.Node) bool {
					switch x := nd.(type) {
					case *ast.SelectorExpr:
						if fld := fieldSel(pk, x); fld != nil && guarded[fld.Origin()] {
							// write?
							w := false
							for i := len(stack) - 1; i >= 0; i-- {
								switch p := stack[i].(type) {
								case *ast.AssignStmt:
									for _, l := range p.Lhs {
										if l.Pos() <= x.Pos() && x.End() <= l.End() {
											w = true
										}
									}
								case *ast.IncDecStmt:
									w = true
								case *ast.CallExpr:
									if id, ok := p.Fun.(*ast.Ident); ok && (id.Name == "delete" || id.Name == "clear") {
										w = true
									}
								}
							}
							if w {
								mi.writes = true
							} else {
								mi.reads = true
							}
						}
					case *ast.CallExpr:
						if sel, ok := ast.Unparen(x.Fun).(*ast.SelectorExpr); ok {
							if fieldSel(pk, sel.X) == mu {
								inDefer := len(stack) > 0
								if inDefer {
									_, inDefer = stack[len(stack)-1].(*ast.DeferStmt)
								}
								switch sel.Sel.Name {
								case "Lock":
									mi.lock = true
								case "RLock":
									mi.rlock = true
								case "Unlock", "RUnlock":
									if inDefer {
										mi.deferUnlock = true
									}
								}
							} else if cal := callee(pk, x); cal != nil {
								if rs := cal.Type().(*types.Signature).Recv(); rs != nil && namedType(rs.Type()) == namedType(named) {
									mi.callsUnlocked = append(mi.callsUnlocked, cal.Name())
								}
							}
						}
					}
					return true
				})
			}
			// helpers: touch fields without locking
			helper := map[string]bool{}
			for n, mi := range infos {
				if (mi.reads || mi.writes) && !mi.lock && !mi.rlock {
					helper[n] = true
				}
			}
			tname := strings.TrimPrefix(pk.PkgPath, prog.ModulePath+"/") + "." + tn.Name()
			var ms []string
			for n := range infos {
				ms = append(ms, n)
			}
			sort.Strings(ms)
			for _, n := range ms {
				mi := infos[n]
				key := tname + "." + n
				where := c.pos(mi.f.Decl.Pos())
				switch {
				case !mi.reads && !mi.writes && len(mi.callsUnlocked) == 0:
					r.OkTrivial("C18-LOCK-DISCIPLINE", key, "does not touch guarded fields", where)
				case helper[n]:
					// every caller must hold the lock
					bad := ""
					for cn, ci := range infos {
						for _, called := range ci.callsUnlocked {
							if called == n && !(ci.lock || ci.rlock) && !helper[cn] {
								bad = cn
							}
							if called == n && mi.writes && !ci.lock && !helper[cn] {
								bad = cn + " (holds only a read lock)"
							}
						}
					}
					exported := ast.IsExported(n)
					if exported {
						r.Bad("C18-LOCK-DISCIPLINE", key, "an exported method touches the guarded fields without taking the lock", where)
					} else if bad != "" {
						r.Bad("C18-LOCK-DISCIPLINE", key, "unlocked helper called from "+bad+" without the (write) lock", where)
					} else {
						r.Ok("C18-LOCK-DISCIPLINE", key, "unlocked helper, only called by methods that hold the lock", where)
					}
				case mi.writes && !mi.lock:
					r.Bad("C18-LOCK-DISCIPLINE", key, "writes guarded fields holding at most a read lock", where)
				case !mi.deferUnlock:
					r.Bad("C18-LOCK-DISCIPLINE", key, "takes the lock without a deferred unlock: an early return or a panic in a callback leaves the map locked", where)
				default:
					mode := "RLock"
					if mi.lock {
						mode = "Lock"
					}
					r.Ok("C18-LOCK-DISCIPLINE", key, mode+" + deferred unlock around every access", where)
				}
			}
		}
	}
}

// ---------- pooled buffers in the dependency ----------

// pooledProducers (needs dependency syntax): functions of jsight-schema-core that return x.Bytes() of a buffer obtained
// from a pool and put back (defer pool.Put(x)), plus functions that return the result of such a function.
func (c *Ctx) pooledProducers() map[string]token.Pos {
	out := map[string]token.Pos{}
	type fnInfo struct {
		pk   *packages.Package
		decl *ast.FuncDecl
		obj  *types.Func
	}
	var all []fnInfo
	for path, pk := range c.P.ByPath {
		if !strings.HasPrefix(path, prog.DepPath) || pk.TypesInfo == nil {
			continue
		}
		for _, file := range pk.Syntax {
			if strings.HasSuffix(pk.Fset.Position(file.Pos()).Filename, "_test.go") {
				continue
			}
			for _, d := range file.Decls {
				if fd, ok := d.(*ast.FuncDecl); ok && fd.Body != nil {
					if obj, ok := pk.TypesInfo.Defs[fd.Name].(*types.Func); ok {
						all = append(all, fnInfo{pk, fd, obj})
					}
				}
			}
		}
	}
	direct := map[*types.Func]bool{}
	for _, fi := range all {
		pk := fi.pk
		pooled := map[types.Object]bool{}
		putBack := map[types.Object]bool{}
		ast.Inspect(fi.decl.Body, func(n ast.Node) bool {
			switch x := n.(type) {
			case *ast.AssignStmt:
				if len(x.Lhs) == 1 && len(x.Rhs) == 1 {
					if call, ok := ast.Unparen(x.Rhs[0]).(*ast.CallExpr); ok {
						if sel, ok := ast.Unparen(call.Fun).(*ast.SelectorExpr); ok && sel.Sel.Name == "Get" {
							if t := pk.TypesInfo.TypeOf(sel.X); t != nil && strings.Contains(namedType(t), "Pool") {
								if id, ok := x.Lhs[0].(*ast.Ident); ok {
									pooled[pk.TypesInfo.Defs[id]] = true
								}
							}
						}
					}
				}
			case *ast.CallExpr:
				if sel, ok := ast.Unparen(x.Fun).(*ast.SelectorExpr); ok && sel.Sel.Name == "Put" && len(x.Args) == 1 {
					if id, ok := ast.Unparen(x.Args[0]).(*ast.Ident); ok {
						putBack[pk.TypesInfo.Uses[id]] = true
					}
				}
			}
			return true
		})
		ast.Inspect(fi.decl.Body, func(n ast.Node) bool {
			ret, ok := n.(*ast.ReturnStmt)
			if !ok {
				return true
			}
			for _, e := range ret.Results {
				if call, ok := ast.Unparen(e).(*ast.CallExpr); ok {
					if sel, ok := ast.Unparen(call.Fun).(*ast.SelectorExpr); ok && sel.Sel.Name == "Bytes" {
						if id, ok := ast.Unparen(sel.X).(*ast.Ident); ok {
							obj := pk.TypesInfo.Uses[id]
							if pooled[obj] && putBack[obj] {
								direct[fi.obj] = true
								out[prog.FuncName(fi.obj)+" (returns Bytes() of a pooled buffer)"] = ret.Pos()
							}
						}
					}
				}
			}
			return true
		})
	}
	// transitive: return f(...) where f is a producer
	prod := map[*types.Func]bool{}
	for f := range direct {
		prod[f] = true
	}
	for changed := true; changed; {
		changed = false
		for _, fi := range all {
			if prod[fi.obj] {
				continue
			}
			pk := fi.pk
			ast.Inspect(fi.decl.Body, func(n ast.Node) bool {
				ret, ok := n.(*ast.ReturnStmt)
				if !ok || len(ret.Results) == 0 {
					return true
				}
				if call, ok := ast.Unparen(ret.Results[0]).(*ast.CallExpr); ok {
					if cal := callee(pk, call); cal != nil && prod[cal] {
						prod[fi.obj] = true
						changed = true
					}
				}
				return true
			})
		}
	}
	for f := range prod {
		if !direct[f] && f.Exported() {
			out[f.FullName()+" (hands the pooled bytes on)"] = f.Pos()
		}
	}
	return out
}

func (c *Ctx) rulePooledEscape() {
	r := c.R
	r.Rule("C18-POOLED-ESCAPE", "in jsight-schema-core: a []byte obtained from Bytes() of a buffer that the same function gets from a sync.Pool and puts back (defer Put) must not be returned: another goroutine's Get reuses the memory while the caller still reads it. Exported functions that hand such bytes on must be classified pool-backed in the module's depAPI table", 1)
	prods := c.pooledProducers()
	var names []string
	for n := range prods {
		names = append(names, n)
	}
	sort.Strings(names)
	if len(names) == 0 {
		r.Ok("C18-POOLED-ESCAPE", "dependency", "no function returns bytes of a buffer it puts back into a pool", "")
	}
	for _, n := range names {
		if strings.Contains(n, "returns Bytes()") {
			r.Bad("C18-POOLED-ESCAPE", n, "the returned slice aliases a buffer that is already back in the pool: concurrent serialisations corrupt each other's examples (data race)", c.pos(prods[n]))
		} else {
			full := strings.TrimSuffix(n, " (hands the pooled bytes on)")
			if _, ok := depAPI[full]; ok {
				r.Ok("C18-POOLED-ESCAPE", "classification of "+full, "classified pool-backed: module callers must copy at once (C16-DEP-CALLS)", c.pos(prods[n]))
			} else if c.moduleCalls(full) {
				r.Bad("C18-POOLED-ESCAPE", "classification of "+full, "the module calls this function but it is not classified pool-backed in depAPI", c.pos(prods[n]))
			} else {
				r.Observe("C18-POOLED-ESCAPE", "unused producer "+full, "hands pooled bytes on; not called by the module", c.pos(prods[n]))
			}
		}
	}
}

func (c *Ctx) moduleCalls(full string) bool {
	found := false
	for _, f := range c.libFns() {
		ast.Inspect(f.Decl.Body, func(n ast.Node) bool {
			if call, ok := n.(*ast.CallExpr); ok {
				if cal := callee(f.Pkg, call); cal != nil && cal.FullName() == full {
					found = true
				}
			}
			return !found
		})
	}
	return found
}

// rulePooledEscapeQuick: quick tier cannot read the dependency's source; it only re-states the recorded finding so that
// the known finding is visible on every run.
func (c *Ctx) rulePooledEscapeQuick() {
	r := c.R
	r.Observe("C18-POOLED-ESCAPE", "quick tier", "dependency source is loaded only in the thorough tier; the recorded finding F19 (jschema example builder returns Bytes() of a pooled buffer) is re-established there", "")
}
