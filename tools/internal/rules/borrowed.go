package rules

import (
	"fmt"
	"go/ast"
	"go/importer"
	"go/parser"
	"go/token"
	"go/types"
	"strings"
)

// ---------- a slice that was handed in is not written through ----------

// ruleBorrowedSliceReadOnly: a slice parameter, and a slice field of a value receiver or of a struct passed by value,
// share their backing array with whoever handed them in: the copy of the header is the function's own, the elements
// are not. Swapping, sorting, overwriting or filtering such a slice in place (x[:0] + append) changes what the caller,
// and every other holder of the same array, sees afterwards: the include stack that all directives of a file share,
// the rule list of a schema that the other serialiser reads, the catalog between two serialisations.
type borrowedFinding struct {
	key, what string
	pos       token.Pos
	// param: the slice parameter the write goes through (nil when the source is a by-value struct or a file view)
	param types.Object
}

// borrowedFindings: the writes through a lent slice in one function.
func borrowedFindings(info *types.Info, fd *ast.FuncDecl) (out []borrowedFinding) {
	borrowed := map[types.Object]string{}        // object -> why
	rootParam := map[types.Object]types.Object{} // borrowed object -> the slice parameter it comes from
	isSlice := func(t types.Type) bool {
		if t == nil {
			return false
		}
		_, ok := t.Underlying().(*types.Slice)
		return ok
	}
	valueStruct := map[types.Object]bool{}
	addParam := func(fl *ast.FieldList, recv bool) {
		if fl == nil {
			return
		}
		for _, fld := range fl.List {
			for _, nm := range fld.Names {
				obj := info.Defs[nm]
				if obj == nil {
					continue
				}
				t := obj.Type()
				if isSlice(t) {
					borrowed[obj] = "the parameter " + nm.Name
					if !recv {
						rootParam[obj] = obj
					}
				}
				if _, isStruct := t.Underlying().(*types.Struct); isStruct {
					if _, isPtr := t.(*types.Pointer); !isPtr {
						valueStruct[obj] = true
					}
				}
			}
		}
	}
	addParam(fd.Type.Params, false)
	addParam(fd.Recv, true)
	// is e (a slice expression) borrowed? returns why
	var why func(e ast.Expr, depth int) string
	why = func(e ast.Expr, depth int) string {
		if depth > 4 {
			return ""
		}
		switch x := ast.Unparen(e).(type) {
		case *ast.Ident:
			if w, ok := borrowed[info.Uses[x]]; ok {
				return w
			}
		case *ast.SliceExpr:
			return why(x.X, depth+1)
		case *ast.CallExpr:
			// the bytes of a file as the schema library hands them out: Data() of a bytes.Bytes is the backing array of
			// the file's content (or a window of it, with the rest of the file in its spare capacity)
			if cal := calleeInfo(info, x); cal != nil && cal.Name() == "Data" && cal.Pkg() != nil && strings.HasSuffix(cal.Pkg().Path(), "jsight-schema-core/bytes") {
				return "the bytes of a file (" + exprString(x) + ")"
			}
		case *ast.SelectorExpr:
			// a slice field reached from a by-value struct (receiver or parameter) through value fields only
			if !isSlice(info.TypeOf(x)) {
				return ""
			}
			root := x.X
			for {
				if s2, ok := ast.Unparen(root).(*ast.SelectorExpr); ok {
					if _, isPtr := info.TypeOf(s2).(*types.Pointer); isPtr {
						return ""
					}
					root = s2.X
					continue
				}
				break
			}
			if id, ok := ast.Unparen(root).(*ast.Ident); ok && valueStruct[info.Uses[id]] {
				return "the field " + exprString(x) + " of a struct passed by value"
			}
		}
		return ""
	}
	// aliases: x := <borrowed> or x := <borrowed>[a:b]  (to a fixpoint, single definitions only)
	for round := 0; round < 3; round++ {
		ast.Inspect(fd.Body, func(nd ast.Node) bool {
			as, ok := nd.(*ast.AssignStmt)
			if !ok || len(as.Lhs) != len(as.Rhs) {
				return true
			}
			for i, l := range as.Lhs {
				id, ok := l.(*ast.Ident)
				if !ok {
					continue
				}
				obj := info.ObjectOf(id)
				if obj == nil || borrowed[obj] != "" || !isSlice(obj.Type()) {
					continue
				}
				if w := why(as.Rhs[i], 0); w != "" {
					// every other definition of the local must be borrowed too, or the local is mixed: skip mixed
					borrowed[obj] = w + " (through " + id.Name + ")"
					ast.Inspect(as.Rhs[i], func(m ast.Node) bool {
						if rid, ok := m.(*ast.Ident); ok {
							if rp := rootParam[info.Uses[rid]]; rp != nil {
								rootParam[obj] = rp
							}
						}
						return true
					})
				}
			}
			return true
		})
	}
	// a local that is also assigned something of the function's own (make, literal, append(nil..)) is not judged
	own := map[types.Object]bool{}
	ast.Inspect(fd.Body, func(nd ast.Node) bool {
		as, ok := nd.(*ast.AssignStmt)
		if !ok || len(as.Lhs) != len(as.Rhs) {
			return true
		}
		for i, l := range as.Lhs {
			id, ok := l.(*ast.Ident)
			if !ok {
				continue
			}
			obj := info.ObjectOf(id)
			if obj == nil || borrowed[obj] == "" {
				continue
			}
			if _, isParam := info.Defs[id]; isParam && as.Tok == token.DEFINE {
				// the defining assignment of an alias
			}
			if why(as.Rhs[i], 0) == "" {
				// reassigned from something else: x = append(x, ..) keeps it borrowed; make/literal/copy makes it own
				if call, ok := ast.Unparen(as.Rhs[i]).(*ast.CallExpr); ok && exprString(call.Fun) == "append" && len(call.Args) > 0 && why(call.Args[0], 0) != "" {
					continue
				}
				own[obj] = true
			}
		}
		return true
	})
	var curRoot types.Object
	report := func(key, what string, pos token.Pos) {
		out = append(out, borrowedFinding{key, what, pos, curRoot})
	}
	borrowedExpr := func(e ast.Expr) string {
		if id, ok := ast.Unparen(e).(*ast.Ident); ok && own[info.Uses[id]] {
			return ""
		}
		curRoot = nil
		ast.Inspect(e, func(m ast.Node) bool {
			if rid, ok := m.(*ast.Ident); ok && curRoot == nil {
				curRoot = rootParam[info.Uses[rid]]
			}
			return true
		})
		return why(e, 0)
	}
	ast.Inspect(fd.Body, func(nd ast.Node) bool {
		switch x := nd.(type) {
		case *ast.AssignStmt:
			for _, l := range x.Lhs {
				if ix, ok := ast.Unparen(l).(*ast.IndexExpr); ok && isSlice(info.TypeOf(ix.X)) {
					if w := borrowedExpr(ix.X); w != "" {
						report("store into "+exprString(ix.X), "an element of "+w+" is overwritten", x.Pos())
					}
				}
			}
		case *ast.IncDecStmt:
			if ix, ok := ast.Unparen(x.X).(*ast.IndexExpr); ok && isSlice(info.TypeOf(ix.X)) {
				if w := borrowedExpr(ix.X); w != "" {
					report("store into "+exprString(ix.X), "an element of "+w+" is changed", x.Pos())
				}
			}
		case *ast.CallExpr:
			name := exprString(x.Fun)
			cal := calleeInfo(info, x)
			switch {
			case name == "append" && len(x.Args) > 0 && strings.HasPrefix(borrowedExpr(x.Args[0]), "the bytes of a file"):
				report("append to "+exprString(x.Args[0]), borrowedExpr(x.Args[0])+" are appended to: a window of a file has the rest of the file in its spare capacity, so the appended bytes overwrite the bytes that follow the window in the file itself", x.Pos())
			case name == "append" && len(x.Args) > 0:
				if se, ok := ast.Unparen(x.Args[0]).(*ast.SliceExpr); ok && se.High != nil {
					if w := borrowedExpr(se.X); w != "" {
						report("append to a prefix of "+exprString(se.X), "a prefix of "+w+" is appended to (the in-place filter idiom): the elements behind the prefix are overwritten", x.Pos())
					}
				} else if id, ok := ast.Unparen(x.Args[0]).(*ast.Ident); ok {
					// x := p[:0]; ...; x = append(x, ..)
					obj := info.Uses[id]
					if w, isB := borrowed[obj]; isB && !own[obj] && strings.Contains(w, "(through ") && definedAsPrefix(info, fd, obj) {
						report("append to "+id.Name, id.Name+" is a prefix of "+w+" and is appended to (the in-place filter idiom): the elements of the original are overwritten", x.Pos())
					}
				}
			case name == "copy" && len(x.Args) == 2:
				if w := borrowedExpr(x.Args[0]); w != "" {
					report("copy into "+exprString(x.Args[0]), w+" is the destination of copy", x.Pos())
				}
			case cal != nil && cal.Pkg() != nil && (cal.Pkg().Path() == "sort" || cal.Pkg().Path() == "slices") && len(x.Args) > 0 && (strings.HasPrefix(cal.Name(), "Sort") || cal.Name() == "Slice" || cal.Name() == "SliceStable" || cal.Name() == "Strings" || cal.Name() == "Ints" || cal.Name() == "Stable" || cal.Name() == "Reverse"):
				if w := borrowedExpr(x.Args[0]); w != "" {
					report("sort of "+exprString(x.Args[0]), w+" is sorted in place", x.Pos())
				}
			}
		}
		return true
	})
	return out
}

func (c *Ctx) ruleBorrowedSliceReadOnly(rule string) {
	r := c.R
	r.Rule(rule, "no function of the library writes through a slice it was lent: a slice-typed parameter, a slice field reached from a value receiver or from a struct parameter passed by value, or a local that aliases one of those (x := p, x := p[a:b]) is never the target of an element store (x[i] = ..., swaps), of copy(x, ..), of a sort, nor re-sliced to a prefix and appended to (append(x[:k], ..): the in-place filter). Writing into a slice the function has made itself (make, literal, append to nil, a copy) is free; so is a method with a pointer receiver changing its own fields", 1)
	if msg := borrowedSelfTest(); msg != "" {
		r.Undecided(rule, "self-test", msg, "")
		return
	}
	n, sites := 0, 0
	for _, f := range c.libFns() {
		pk := f.Pkg
		if strings.HasSuffix(pk.Fset.Position(f.Decl.Pos()).Filename, "_gen.go") {
			continue
		}
		sites++
		for _, fd := range borrowedFindings(pk.TypesInfo, f.Decl) {
			// a helper that works on a slice in place is judged where it is called: when every call site hands it a slice
			// the caller has made itself, nothing lent is written through
			if fd.param != nil && c.callersOwnArg(f, fd.param) {
				continue
			}
			n++
			r.Bad(rule, fmt.Sprintf("%s | %s", f.Name(), fd.key), fd.what+": the slice shares its backing array with the value it was taken from, so the change is seen by every holder of that value (and by the next call)", c.pos(fd.pos))
		}
	}
	if n == 0 {
		r.Ok(rule, "library", fmt.Sprintf("%d functions: none writes through a slice it was lent (the matcher finds the four writes of its built-in example and passes the copy-then-sort idiom on every run)", sites), "")
	}
}

// borrowedSelfTest: the matcher must find its positive examples and pass the negative ones on every run (the rule
// expects zero sites in the library).
func borrowedSelfTest() string {
	src := `package p
import "sort"
type tracer struct{ stack []int }
func (d tracer) reverse() {
	frames := d.stack
	for i, j := 0, len(frames)-1; i < j; i, j = i+1, j-1 {
		frames[i], frames[j] = frames[j], frames[i]
	}
}
func filter(items []string) []string {
	uniq := items[:0]
	for _, n := range items {
		if n != "" {
			uniq = append(uniq, n)
		}
	}
	return uniq
}
func sorted(xs []string) []string {
	sort.Strings(xs)
	return xs
}
func okCopy(xs []string) []string {
	ys := make([]string, len(xs))
	copy(ys, xs)
	sort.Strings(ys)
	ys[0] = "a"
	return ys
}
func (d *tracer) okOwn(v int) {
	d.stack[0] = v
}
`
	fset := token.NewFileSet()
	f, err := parser.ParseFile(fset, "selftest.go", src, 0)
	if err != nil {
		return "self-test does not parse"
	}
	info := &types.Info{Types: map[ast.Expr]types.TypeAndValue{}, Uses: map[*ast.Ident]types.Object{}, Defs: map[*ast.Ident]types.Object{}, Selections: map[*ast.SelectorExpr]*types.Selection{}}
	conf := types.Config{Importer: importer.Default()}
	if _, err := conf.Check("p", fset, []*ast.File{f}, info); err != nil {
		return "self-test does not type-check: " + err.Error()
	}
	got := map[string]int{}
	for _, d := range f.Decls {
		if fd, ok := d.(*ast.FuncDecl); ok {
			got[fd.Name.Name] = len(borrowedFindings(info, fd))
		}
	}
	if got["reverse"] < 1 || got["filter"] != 1 || got["sorted"] != 1 || got["okCopy"] != 0 || got["okOwn"] != 0 {
		return fmt.Sprintf("self-test: reverse=%d (want >=1) filter=%d (want 1) sorted=%d (want 1) okCopy=%d okOwn=%d (want 0)", got["reverse"], got["filter"], got["sorted"], got["okCopy"], got["okOwn"])
	}
	return ""
}

func isNilInfo(info *types.Info, e ast.Expr) bool {
	id, ok := ast.Unparen(e).(*ast.Ident)
	if !ok {
		return false
	}
	_, isNil := info.Uses[id].(*types.Nil)
	return isNil
}

func calleeInfo(info *types.Info, call *ast.CallExpr) *types.Func {
	switch fun := ast.Unparen(call.Fun).(type) {
	case *ast.Ident:
		f, _ := info.Uses[fun].(*types.Func)
		return f
	case *ast.SelectorExpr:
		f, _ := info.Uses[fun.Sel].(*types.Func)
		return f
	}
	return nil
}

// definedAsPrefix: the local is defined as <something>[:k] (a prefix that keeps the backing array).
func definedAsPrefix(info *types.Info, fd *ast.FuncDecl, obj types.Object) bool {
	res := false
	ast.Inspect(fd.Body, func(nd ast.Node) bool {
		as, ok := nd.(*ast.AssignStmt)
		if !ok || len(as.Lhs) != len(as.Rhs) {
			return true
		}
		for i, l := range as.Lhs {
			if id, ok := l.(*ast.Ident); ok && info.ObjectOf(id) == obj {
				if se, ok := ast.Unparen(as.Rhs[i]).(*ast.SliceExpr); ok && se.High != nil {
					res = true
				}
			}
		}
		return true
	})
	return res
}

// callersOwnArg: f is an unexported function all of whose uses are calls, and at every call site the argument for the
// parameter is a local of the caller that is made there (the result of a call, a make, a literal) and is not itself
// lent to the caller.
func (c *Ctx) callersOwnArg(f *Fn, param types.Object) bool {
	sig := f.Obj.Type().(*types.Signature)
	idx := -1
	for i := 0; i < sig.Params().Len(); i++ {
		if sig.Params().At(i) == param {
			idx = i
		}
	}
	if idx < 0 {
		return false
	}
	sites, all := c.callersOf(f)
	if !all || len(sites) == 0 {
		return false
	}
	for _, cs := range sites {
		arg := argFor(cs, idx)
		switch ast.Unparen(arg).(type) {
		case *ast.CallExpr, *ast.CompositeLit:
			continue // made on the spot
		}
		id, ok := ast.Unparen(arg).(*ast.Ident)
		if !ok {
			return false
		}
		obj, _ := cs.g.Pkg.TypesInfo.Uses[id].(*types.Var)
		if obj == nil || obj.IsField() || obj.Pos() < cs.g.Decl.Body.Pos() || obj.Pos() > cs.g.Decl.Body.End() {
			return false // a parameter of the caller, a field, a package variable
		}
		made := true
		ast.Inspect(cs.g.Decl.Body, func(nd ast.Node) bool {
			as, ok := nd.(*ast.AssignStmt)
			if !ok {
				return true
			}
			for i, l := range as.Lhs {
				lid, ok := l.(*ast.Ident)
				if !ok || cs.g.Pkg.TypesInfo.ObjectOf(lid) != types.Object(obj) {
					continue
				}
				rhs := as.Rhs[0]
				if len(as.Lhs) == len(as.Rhs) {
					rhs = as.Rhs[i]
				}
				switch x := ast.Unparen(rhs).(type) {
				case *ast.CallExpr, *ast.CompositeLit:
					_ = x
				default:
					made = false
				}
			}
			return true
		})
		if !made {
			return false
		}
	}
	return true
}
