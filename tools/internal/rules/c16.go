package rules

import (
	"fmt"
	"go/ast"
	"go/token"
	"go/types"
	"os"
	"sort"
	"strings"

	"golang.org/x/tools/go/ssa"

	"jsverif/internal/prog"
)

func init() {
	register("C16", propC16, false, true)
}

func propC16(c *Ctx) {
	c.R.Explanation = "Decides for the module's code that the five accessors do not change the catalog model outside once-only initialisation: write effects are computed over SSA for every function reachable from ToJson/ToJsonIndent/ToOpenAPIJson[Indent]/Title and from the MarshalJSON/MarshalText methods (closures given to sync.Once.Do are cut), and no write may land in a pre-existing object of the catalog/core/directive model or in package state; lazily computed state keeps its error in the object (no captured local); stateful or pool-backed results of the dependency are only consumed inside a Once memo or copied (string conversion) before they are kept. Not decided: that the bytes are equal across calls inside jsight-schema-core (trusted; the two classified functions are a table in the checker, the functions of the dependency that reach them are listed in reference/dep_stateful.json for the version go.mod requires and recomputed in the thorough tier, which also checks the classification of pooled-buffer producers against the dependency source)."
	c.ruleMarshalPurity("C16-MARSHAL-PURITY")
	c.ruleBorrowedSliceReadOnly("C16-BORROWED-SLICE-READ-ONLY")
	c.ruleOnceErrPersists("C16-ONCE-STATE")
	c.ruleOnceNotAroundPanic("C16-ONCE-NO-PANIC")
	c.ruleDepASTReadOnly("C16-DEP-AST-READ-ONLY")
	c.ruleDepCalls("C16-DEP-CALLS")
	c.ruleOnceOwnObject("C16-ONCE-OWN-OBJECT")
	c.ruleGlobalState("C16-GLOBAL-STATE")
	// a serialiser that ranges over a Go map gives other bytes on the next call
	c.ruleMapRange("C16-MAPRANGE")
	c.ruleOnceGuardedReads("C16-ONCE-GUARDED-READS")
}

// serialiseFunctions: functions reachable from the accessors and marshal methods, Once closures cut.
func (c *Ctx) serialiseFunctions() (map[*ssa.Function]bool, []*ssa.Function) {
	roots := c.ssaRoots(serialiseRoots...)
	roots = append(roots, c.marshalRoots(nil)...)
	// String()/Error() methods that formatting of ids calls
	return c.reachableLibOpts(roots, nil, true), roots
}

func (c *Ctx) ruleMarshalPurity(rule string) {
	r := c.R
	r.Rule(rule, "for every function reachable from the serialisers (sync.Once.Do closures cut): no store, map update, delete/copy or in-place append lands in memory that existed before the call and belongs to the catalog/core/directive/scanner model, or in a package variable; writes through a parameter are followed to the callers' arguments until a fresh allocation or an entry point's own receiver is reached", 5)
	fns, roots := c.serialiseFunctions()
	e := c.computeEffects(fns)
	isRoot := map[*ssa.Function]bool{}
	for _, rt := range roots {
		isRoot[rt] = true
	}
	n := 0
	var names []*ssa.Function
	for f := range fns {
		names = append(names, f)
	}
	sort.Slice(names, func(i, j int) bool { return prog.SSAName(names[i]) < prog.SSAName(names[j]) })
	if dbg := os.Getenv("VERIF_DEBUG_EFF"); dbg != "" {
		for _, f := range names {
			if !strings.Contains(prog.SSAName(f), dbg) {
				continue
			}
			for _, w := range e.direct[f] {
				fmt.Fprintf(os.Stderr, "EFF direct %s: what=%q typ=%q org=%s\n", prog.SSAName(f), w.what, w.typ, originDesc(w.org))
			}
			for idx, what := range e.params[f] {
				fmt.Fprintf(os.Stderr, "EFF param %s: %d %q\n", prog.SSAName(f), idx, what)
			}
		}
	}
	for _, f := range names {
		for _, w := range e.direct[f] {
			t := w.typ
			if t == "" {
				t = typeOfWhat(w.what)
			}
			if w.org.kind != oGlobal && !modelType(t) {
				// a store without a struct type of its own (a string behind a pointer) into memory that some call
				// handed out: what the accessors hand out is the catalog
				if !(t == "" && w.org.kind == oExisting && strings.HasPrefix(w.what, "store to memory")) {
					continue
				}
			}
			n++
			key := fmt.Sprintf("%s | %s", prog.SSAName(f), trimVia(w.what))
			r.Bad(rule, key, fmt.Sprintf("a serialiser writes to pre-existing state (%s; origin: %s): a later call, or a concurrent one, sees a different catalog", w.what, originDesc(w.org)), c.pos(w.pos))
		}
		if isRoot[f] {
			for idx, what := range e.params[f] {
				if !modelType(typeOfWhat(what)) {
					// a store whose target has no struct type of its own (a string, a number behind a pointer) is still a
					// write into the catalog when it is reached from the entry point's receiver or argument and that one
					// is the model
					pt := ""
					if idx < len(f.Params) {
						pt = namedType(f.Params[idx].Type())
					}
					if !(strings.HasPrefix(what, "store to memory") && (modelType(pt) || strings.Contains(pt, "jsight-api-core/kit."))) {
						continue
					}
				}
				n++
				key := fmt.Sprintf("%s | param %d: %s", prog.SSAName(f), idx, trimVia(what))
				r.Bad(rule, key, "an accessor / marshal method writes through its receiver or argument into the catalog model: "+what, c.pos(f.Pos()))
			}
		}
	}
	r.Ok(rule, "scope", fmt.Sprintf("%d functions analysed (%d entry points); write effects computed to a fixpoint", len(fns), len(roots)), "")
	for _, f := range names {
		if isRoot[f] {
			bad := false
			for _, what := range e.params[f] {
				if modelType(typeOfWhat(what)) {
					bad = true
				}
			}
			if !bad {
				r.Ok(rule, "entry "+prog.SSAName(f), "no write reaches the receiver/arguments", c.pos(f.Pos()))
			}
		}
	}
	r.Stats["c16_functions"] = len(fns)
	r.Stats["c16_violating_writes"] = n
}

// ruleOnceOwnObject: what a once-only initialiser writes stays: it is not repeated and not undone. If it writes into
// another object of the model than the one it initialises (the user type it inherits from, a sibling interaction), then
// whoever serialises that other object BEFORE the initialiser has run sees other bytes than whoever does it after:
// the first ToJson and the second one differ.
func (c *Ctx) ruleOnceOwnObject(rule string) {
	r := c.R
	r.Rule(rule, "the code run under a (*sync.Once).Do of the library (closure or named function, with everything it reaches) writes only into memory it allocated itself or into the object that owns the Once (what the closure captured): no store lands in another pre-existing object of the catalog/core/directive model or in a package variable (write effects over SSA to a fixpoint; a copy of an existing value shares what its pointers lead to)", 2)
	n := 0
	for _, pkgFn := range c.libFns() {
		sf := c.P.SSAFunc(pkgFn.Obj)
		if sf == nil {
			continue
		}
		var scan func(f *ssa.Function)
		scan = func(f *ssa.Function) {
			for _, b := range f.Blocks {
				for _, ins := range b.Instrs {
					ci, ok := ins.(ssa.CallInstruction)
					if !ok || !isOnceDo(ci.Common().StaticCallee()) || len(ci.Common().Args) < 2 {
						continue
					}
					var root *ssa.Function
					switch a := ci.Common().Args[1].(type) {
					case *ssa.MakeClosure:
						root, _ = a.Fn.(*ssa.Function)
					case *ssa.Function:
						root = a
					}
					if root == nil {
						continue
					}
					n++
					fns := c.reachableLibOpts([]*ssa.Function{root}, nil, false)
					e := c.computeEffects(fns)
					var names []*ssa.Function
					for g := range fns {
						names = append(names, g)
					}
					sort.Slice(names, func(i, j int) bool { return prog.SSAName(names[i]) < prog.SSAName(names[j]) })
					// a package-level Once owns package-level state (judged by the GLOBAL-STATE rule)
					globalOnce := e.rootOf(ci.Common().Args[0], 0).kind == oGlobal
					bad := 0
					for _, g := range names {
						for _, w := range e.direct[g] {
							t := w.typ
							if t == "" {
								t = typeOfWhat(w.what)
							}
							if w.org.kind != oGlobal && !modelType(t) {
								continue
							}
							if w.org.kind == oGlobal && globalOnce {
								continue
							}
							bad++
							key := fmt.Sprintf("%s | Once in %s | %s", prog.SSAName(g), prog.SSAName(f), trimVia(w.what))
							r.Bad(rule, key, fmt.Sprintf("once-only initialisation writes into an object it does not own (%s; origin: %s): that object serialises differently before and after the initialiser has run, so the first and a later ToJson differ", w.what, originDesc(w.org)), c.pos(w.pos))
						}
					}
					if bad == 0 {
						r.Ok(rule, "Once in "+prog.SSAName(f), fmt.Sprintf("%d functions reachable from the once-only code: every write stays in fresh memory or in the owner", len(fns)), c.pos(ci.Pos()))
					}
				}
			}
			for _, an := range f.AnonFuncs {
				scan(an)
			}
		}
		scan(sf)
	}
	if n == 0 {
		r.Undecided(rule, "sites", "no (*sync.Once).Do found in the library", "")
	}
}

func trimVia(s string) string {
	if i := strings.Index(s, " (via"); i >= 0 {
		return s[:i]
	}
	return s
}

func originDesc(o origin) string {
	switch o.kind {
	case oGlobal:
		return "package variable " + o.desc
	case oExisting:
		return o.desc
	case oFreeVar:
		return "captured variable " + o.desc
	case oParam:
		return "parameter " + o.desc
	}
	return "fresh"
}

// ruleOnceErrPersists: the closure of a sync.Once.Do only assigns fields (state that lives in the object), never
// variables of the enclosing function; and the enclosing function returns state read from the object.
func (c *Ctx) ruleOnceErrPersists(rule string) {
	r := c.R
	r.Rule(rule, "a closure passed to (*sync.Once).Do communicates only through fields of an object: it assigns no local variable or named result of the enclosing function (on the second call the closure does not run and such a variable keeps its zero value: the failure is lost)", 2)
	n := 0
	for _, f := range c.libFns() {
		pk := f.Pkg
		inspectWithStack(f.Decl.Body, func(nd ast.Node, stack []ast.Node) bool {
			call, ok := nd.(*ast.CallExpr)
			if !ok || len(call.Args) != 1 {
				return true
			}
			cal := callee(pk, call)
			if cal == nil || cal.Name() != "Do" || cal.Pkg() == nil || cal.Pkg().Path() != "sync" {
				return true
			}
			fl, ok := call.Args[0].(*ast.FuncLit)
			if !ok {
				return true
			}
			n++
			key := fmt.Sprintf("%s | %s.Do", f.Name(), exprString(call.Fun.(*ast.SelectorExpr).X))
			bad := ""
			ast.Inspect(fl.Body, func(m ast.Node) bool {
				as, ok := m.(*ast.AssignStmt)
				if !ok {
					return true
				}
				for _, l := range as.Lhs {
					id, ok := ast.Unparen(l).(*ast.Ident)
					if !ok || id.Name == "_" {
						continue
					}
					obj := pk.TypesInfo.Uses[id]
					if obj == nil {
						continue // defined inside the closure
					}
					if v, isVar := obj.(*types.Var); isVar && !v.IsField() && obj.Pos() < fl.Pos() && v.Parent() != pk.Types.Scope() {
						bad = id.Name
					}
				}
				return true
			})
			if bad != "" {
				r.Bad(rule, key, "the Once closure assigns `"+bad+"`, a variable of the enclosing function: only the first call reports it (e.g. a compile error), every later call returns the zero value", c.pos(fl.Pos()))
			} else {
				r.Ok(rule, key, "the closure only writes fields of the object", c.pos(fl.Pos()))
			}
			return true
		})
	}
	if n == 0 {
		r.Undecided(rule, "sites", "no sync.Once.Do with a closure found", "")
	}
}

// depAPI is the reviewed classification of dependency functions whose result is not a pure function of the
// receiver's content: stateful (advance internal state on every call) or pool-backed (the returned bytes alias a
// buffer that goes back to a sync.Pool).
var depAPI = map[string]string{
	"(*github.com/jsightapi/jsight-schema-core/notations/regex.RSchema).Example":   "stateful: advances the example generator on every call",
	"(*github.com/jsightapi/jsight-schema-core/notations/jschema.JSchema).Example": "pooled: returns buf.Bytes() of a buffer that is put back into a sync.Pool",
}

func (c *Ctx) ruleDepCalls(rule string) {
	r := c.R
	r.Rule(rule, "calls of dependency functions classified stateful must sit inside a sync.Once.Do closure (memoised once); results of functions classified pool-backed must be consumed at once by a copying conversion (string(x), append([]byte(nil), x...), bytes.Clone) and never be stored in a field, captured or returned as []byte", 2)
	n := 0
	var serDecls map[*types.Func]bool
	// functions of the dependency that reach a classified one inherit its class (reference/dep_stateful.json)
	reach, why := c.depReach()
	if reach == nil {
		r.Undecided(rule, "inherited classification", why, "")
	} else {
		r.Ok(rule, "inherited classification", fmt.Sprintf("%d functions of the dependency reach a classified one (reference made for the version go.mod requires)", len(reach)), "")
		if c.Deep {
			// deep load at hand: the reference must be what the call graph says today
			now := c.computeDepReach()
			var diff []string
			for _, k := range sortedStrKeys(now) {
				if _, ok := reach[k]; !ok {
					diff = append(diff, "+"+k)
				}
			}
			for _, k := range sortedStrKeys(reach) {
				if _, ok := now[k]; !ok {
					diff = append(diff, "-"+k)
				}
			}
			if len(diff) > 0 {
				if len(diff) > 5 {
					diff = append(diff[:5], fmt.Sprintf("... %d more", len(diff)-5))
				}
				r.Undecided(rule, "inherited classification (recomputed)", "reference/dep_stateful.json differs from the call graph of the dependency: "+strings.Join(diff, " "), "")
			} else {
				r.Ok(rule, "inherited classification (recomputed)", "equal to the reverse reachability computed on the deep load", "")
			}
		}
	}
	for _, f := range c.libFns() {
		pk := f.Pkg
		inspectWithStack(f.Decl.Body, func(nd ast.Node, stack []ast.Node) bool {
			call, ok := nd.(*ast.CallExpr)
			if !ok {
				return true
			}
			cal := callee(pk, call)
			if cal == nil {
				return true
			}
			class, ok := depAPI[cal.FullName()]
			if !ok {
				// inherited class: it matters where a serialiser can get to it outside a Once (what a constructor does
				// once per build, to objects of that build, is not repeated by repeated serialisation)
				if class, ok = reach[cal.FullName()]; ok {
					if serDecls == nil {
						fns, _ := c.serialiseFunctions()
						serDecls = reachDecls(fns)
					}
					if !serDecls[f.Obj] {
						return true
					}
				}
			}
			if !ok {
				return true
			}
			n++
			key := fmt.Sprintf("%s | %s", f.Name(), exprString(call.Fun))
			where := c.pos(call.Pos())
			if strings.HasPrefix(class, "stateful") {
				inOnce := false
				for i := len(stack) - 1; i >= 1; i-- {
					if fl, isLit := stack[i].(*ast.FuncLit); isLit {
						if oc, isCall := stack[i-1].(*ast.CallExpr); isCall && len(oc.Args) == 1 && oc.Args[0] == ast.Expr(fl) {
							if m := callee(pk, oc); m != nil && m.Name() == "Do" && m.Pkg() != nil && m.Pkg().Path() == "sync" {
								inOnce = true
							}
						}
					}
				}
				if !inOnce && c.onlyOnceDoArg(f) {
					inOnce = true // the method is only ever handed to Once.Do as a method value
				}
				if inOnce {
					r.Ok(rule, key, "stateful dependency call memoised by sync.Once", where)
				} else if freshRegexReceiver(f, call) {
					r.Ok(rule, key, "the state that advances belongs to a scratch schema made in this very function (regex.FromFile / regex.New): nobody else sees it", where)
				} else {
					r.Bad(rule, key, "a stateful dependency call ("+class+") is not memoised by a sync.Once: repeated serialisation returns different bytes", where)
				}
				return true
			}
			// pooled: how is the result used?
			bad := ""
			parent := stack[len(stack)-1]
			switch p := parent.(type) {
			case *ast.AssignStmt:
				for i, l := range p.Lhs {
					if len(p.Rhs) == 1 && i == 0 {
						if fieldSel(pk, l) != nil {
							bad = "stored in the field " + exprString(l)
							continue
						}
						id, ok := ast.Unparen(l).(*ast.Ident)
						if !ok || id.Name == "_" {
							continue
						}
						obj := pk.TypesInfo.Defs[id]
						if obj == nil {
							obj = pk.TypesInfo.Uses[id]
						}
						// every use of the variable must be a copying conversion or a len()/nil test
						inspectWithStack(f.Decl.Body, func(m ast.Node, st []ast.Node) bool {
							uid, ok := m.(*ast.Ident)
							if !ok || pk.TypesInfo.Uses[uid] != obj {
								return true
							}
							up := st[len(st)-1]
							if conv, ok := up.(*ast.CallExpr); ok {
								if tv, isT := pk.TypesInfo.Types[conv.Fun]; isT && tv.IsType() {
									if b, ok := tv.Type.Underlying().(*types.Basic); ok && b.Info()&types.IsString != 0 {
										return true
									}
								}
								if id2, ok := conv.Fun.(*ast.Ident); ok && id2.Name == "len" {
									return true
								}
							}
							bad = "used as a []byte at " + c.pos(uid.Pos())
							return true
						})
					}
				}
			case *ast.ReturnStmt:
				// returning it on is fine only for a thin wrapper whose own callers are checked: treat the wrapper as pooled too
				if f.Obj.Name() != "Example" {
					bad = "returned to the caller"
				}
			case *ast.CallExpr:
				if tv, isT := pk.TypesInfo.Types[p.Fun]; !isT || !tv.IsType() {
					bad = "passed on as a []byte"
				}
			}
			if bad == "" {
				r.Ok(rule, key, "pool-backed bytes are copied (string conversion) before anything else can reuse the buffer", where)
			} else {
				r.Bad(rule, key, "pool-backed bytes ("+class+") are kept without a copy ("+bad+"): the next schema example overwrites them", where)
			}
			return true
		})
	}
	// wrappers that return a pooled result are pooled themselves: their callers
	wrappers := map[*types.Func]bool{}
	for _, f := range c.libFns() {
		pk := f.Pkg
		ast.Inspect(f.Decl.Body, func(nd ast.Node) bool {
			ret, ok := nd.(*ast.ReturnStmt)
			if !ok || len(ret.Results) != 1 {
				return true
			}
			if call, ok := ast.Unparen(ret.Results[0]).(*ast.CallExpr); ok {
				if cal := callee(pk, call); cal != nil {
					if cls, ok := depAPI[cal.FullName()]; ok && strings.HasPrefix(cls, "pooled") {
						wrappers[f.Obj] = true
					}
				}
			}
			return true
		})
	}
	for _, f := range c.libFns() {
		pk := f.Pkg
		inspectWithStack(f.Decl.Body, func(nd ast.Node, stack []ast.Node) bool {
			call, ok := nd.(*ast.CallExpr)
			if !ok {
				return true
			}
			cal := callee(pk, call)
			if cal == nil || !wrappers[cal] {
				return true
			}
			n++
			key := fmt.Sprintf("%s | %s (wrapper of a pool-backed result)", f.Name(), exprString(call.Fun))
			bad := ""
			if as, ok := stack[len(stack)-1].(*ast.AssignStmt); ok && len(as.Lhs) >= 1 {
				if fieldSel(pk, as.Lhs[0]) != nil {
					bad = "stored in the field " + exprString(as.Lhs[0])
				} else if id, ok := ast.Unparen(as.Lhs[0]).(*ast.Ident); ok && id.Name != "_" {
					obj := pk.TypesInfo.Defs[id]
					if obj == nil {
						obj = pk.TypesInfo.Uses[id]
					}
					inspectWithStack(f.Decl.Body, func(m ast.Node, st []ast.Node) bool {
						uid, ok := m.(*ast.Ident)
						if !ok || pk.TypesInfo.Uses[uid] != obj {
							return true
						}
						if conv, ok := st[len(st)-1].(*ast.CallExpr); ok {
							if tv, isT := pk.TypesInfo.Types[conv.Fun]; isT && tv.IsType() {
								return true
							}
						}
						bad = "used as a []byte at " + c.pos(uid.Pos())
						return true
					})
				}
			} else {
				bad = "not assigned to a variable that is converted at once"
			}
			if bad == "" {
				r.Ok(rule, key, "converted to a string right away", c.pos(call.Pos()))
			} else {
				r.Bad(rule, key, "pool-backed bytes are kept without a copy ("+bad+")", c.pos(call.Pos()))
			}
			return true
		})
	}
	if n == 0 {
		r.Undecided(rule, "sites", "no call of a classified dependency function found", "")
	}
	if c.Deep {
		c.checkPooledClassification(rule)
	}
}

// checkPooledClassification (thorough): every exported dependency method reachable from the serialisers that returns
// buf.Bytes() of a pooled buffer (directly or through unexported helpers) must be in depAPI.
func (c *Ctx) checkPooledClassification(rule string) {
	r := c.R
	prods := c.pooledProducers()
	var names []string
	for n := range prods {
		names = append(names, n)
	}
	sort.Strings(names)
	r.Stats["dep_pooled_producers"] = names
	for _, n := range names {
		r.Observe(rule, "dependency pooled producer "+n, "returns bytes of a buffer that goes back to a sync.Pool (see C18-POOLED-ESCAPE)", "")
	}
}

var _ = token.NoPos

// ruleOnceNotAroundPanic: sync.Once marks itself done even when the function it runs panics. A once-only computation
// that can panic therefore leaves its result unset for good: the first call fails loudly (the panic is recovered by the
// caller and turned into an error), every later call silently works with the zero result. The closure handed to Do
// must either recover itself and record the failure, or reach no explicit panic and no unchecked type assertion of the
// module.
func (c *Ctx) ruleOnceNotAroundPanic(rule string) {
	r := c.R
	r.Rule(rule, "a closure handed to (*sync.Once).Do in the library either has its own deferred recover that records the failure, or no function of the module reachable from it contains an explicit panic or a single-result type assertion: otherwise a panic in the first call leaves the once-only result unset and every later call returns it as if it had been computed", 3)
	n := 0
	for _, f := range c.libFns() {
		pk := f.Pkg
		ast.Inspect(f.Decl.Body, func(nd ast.Node) bool {
			call, ok := nd.(*ast.CallExpr)
			if !ok || len(call.Args) != 1 {
				return true
			}
			cal := callee(pk, call)
			if cal == nil || cal.Name() != "Do" || cal.Pkg() == nil || cal.Pkg().Path() != "sync" {
				return true
			}
			// the once-only code: a closure, or a named function of the module handed over as a value
			var onceBody *ast.BlockStmt
			var onceFn *Fn
			fl, isLit := call.Args[0].(*ast.FuncLit)
			if isLit {
				onceBody = fl.Body
			} else {
				var id *ast.Ident
				switch x := ast.Unparen(call.Args[0]).(type) {
				case *ast.Ident:
					id = x
				case *ast.SelectorExpr:
					id = x.Sel
				}
				if id != nil {
					if g, ok := pk.TypesInfo.Uses[id].(*types.Func); ok {
						if onceFn = c.fnOf(g); onceFn != nil {
							onceBody = onceFn.Decl.Body
						}
					}
				}
			}
			if onceBody == nil {
				return true
			}
			n++
			sel, _ := ast.Unparen(call.Fun).(*ast.SelectorExpr)
			key := fmt.Sprintf("%s | %s.Do", f.Name(), exprString(sel.X))
			// own recover
			recovers := false
			ast.Inspect(onceBody, func(m ast.Node) bool {
				if ds, ok := m.(*ast.DeferStmt); ok {
					ast.Inspect(ds.Call, func(k ast.Node) bool {
						if id, ok := k.(*ast.Ident); ok && id.Name == "recover" {
							recovers = true
						}
						return true
					})
				}
				return true
			})
			if recovers {
				r.Ok(rule, key, "the closure recovers and records the failure itself", c.pos(call.Pos()))
				return true
			}
			// module functions reachable from the closure
			var roots []*ssa.Function
			if onceFn != nil {
				if sf := c.P.SSAFunc(onceFn.Obj); sf != nil {
					roots = append(roots, sf)
				}
			} else if sf := c.P.SSAFunc(f.Obj); sf != nil {
				for _, an := range sf.AnonFuncs {
					if an.Pos() == fl.Pos() || (an.Syntax() != nil && an.Syntax().Pos() == fl.Pos()) {
						roots = append(roots, an)
					}
				}
			}
			if len(roots) == 0 {
				r.Undecided(rule, key, "the closure has no SSA form", c.pos(call.Pos()))
				return true
			}
			reach := reachDecls(c.reachableLib(roots, nil))
			var sites []string
			scan := func(body ast.Node, g *Fn) {
				inspectWithStack(body, func(m ast.Node, stack []ast.Node) bool {
					switch x := m.(type) {
					case *ast.CallExpr:
						if id, ok := x.Fun.(*ast.Ident); ok && id.Name == "panic" {
							if _, isB := g.Pkg.TypesInfo.Uses[id].(*types.Builtin); isB {
								// a panic that the panic inventory (C01-PANIC-INVENTORY) discharges as unreachable does not count
								if _, dead := panicExceptions[g.Name()+" | panic"]; !dead && c.exhaustiveDefault(g.Pkg, x, stack) == "" && c.enumRangeGuard(g.Pkg, stack) == "" && c.panicOfDeadError(g, x) == "" {
									sites = append(sites, "panic in "+g.Name())
								}
							}
						}
					case *ast.TypeAssertExpr:
						if x.Type == nil {
							return true
						}
						if len(stack) > 0 {
							if as, ok := stack[len(stack)-1].(*ast.AssignStmt); ok && len(as.Lhs) == 2 {
								return true
							}
							if vs, ok := stack[len(stack)-1].(*ast.ValueSpec); ok && len(vs.Names) == 2 {
								return true
							}
						}
						if c.dischargeAssertion(g, x, stack) == "" {
							sites = append(sites, "unchecked assertion in "+g.Name())
						}
					}
					return true
				})
			}
			scanIn := f
			if onceFn != nil {
				scanIn = onceFn
			}
			scan(onceBody, scanIn)
			for _, g := range c.libFns() {
				if reach[g.Obj] && g.Obj != scanIn.Obj {
					scan(g.Decl.Body, g)
				}
			}
			sort.Strings(sites)
			if len(sites) == 0 {
				r.Ok(rule, key, "no explicit panic and no unchecked assertion of the module is reachable from the closure", c.pos(call.Pos()))
			} else {
				if len(sites) > 4 {
					sites = append(sites[:4], fmt.Sprintf("... %d more", len(sites)-4))
				}
				r.Bad(rule, key, "the once-only closure can panic ("+strings.Join(sites, "; ")+") and does not recover: after a panic the Once is done and the result stays unset", c.pos(call.Pos()))
			}
			return true
		})
	}
	if n == 0 {
		r.Undecided(rule, "sites", "no sync.Once.Do closure found", "")
	}
}

// ruleDepASTReadOnly: the AST that jsight-schema-core hands out (GetAST) is shared: the JSON catalog (lazily, inside a
// Once) and the OpenAPI export both read the same nodes and the same rule collections behind their pointers. The
// module must only read them: a mutating method of one of the dependency's AST collections, called anywhere in the
// library, makes one serialiser change what the other one (or a later call) sees.
func (c *Ctx) ruleDepASTReadOnly(rule string) {
	r := c.R
	r.Rule(rule, "no library function calls a mutating method (Set, SetToTop, Update, Delete, Filter, Map) of an AST collection type of jsight-schema-core (…ASTNodes): the schema AST is shared between the serialisers and is only read (Each, EachSafe, Get, GetValue, Has, Len, Find)", 3)
	mut := map[string]bool{"Set": true, "SetToTop": true, "Update": true, "Delete": true, "Filter": true, "Map": true}
	reads := 0
	for _, f := range c.libFns() {
		pk := f.Pkg
		ast.Inspect(f.Decl.Body, func(nd ast.Node) bool {
			call, ok := nd.(*ast.CallExpr)
			if !ok {
				return true
			}
			cal := callee(pk, call)
			if cal == nil || cal.Pkg() == nil || !strings.HasPrefix(cal.Pkg().Path(), prog.DepPath) {
				return true
			}
			sig := cal.Type().(*types.Signature)
			if sig.Recv() == nil || !strings.Contains(namedType(sig.Recv().Type()), "ASTNodes") {
				return true
			}
			if !mut[cal.Name()] {
				reads++
				return true
			}
			// a collection the function has just made for itself is its own
			sel, _ := ast.Unparen(call.Fun).(*ast.SelectorExpr)
			if sel != nil && c.mapIsCallLocalCtor(f, sel.X) {
				return true
			}
			key := fmt.Sprintf("%s | %s", f.Name(), exprString(call.Fun))
			r.Bad(rule, key, "a collection of the shared schema AST is changed: the other serialiser (and every later call) reads the changed AST", c.pos(call.Pos()))
			return true
		})
	}
	if reads >= 3 {
		r.Ok(rule, "reads", fmt.Sprintf("%d calls of reading methods of the dependency's AST collections, no mutating one", reads), "")
		r.Ok(rule, "scope", "every library function scanned", "")
		r.Ok(rule, "mutators", "Set, SetToTop, Update, Delete, Filter, Map", "")
	} else {
		r.Undecided(rule, "reads", fmt.Sprintf("only %d reads of the dependency's AST collections found: the rule no longer sees where the AST is used", reads), "")
	}
}

// mapIsCallLocalCtor: the expression is a local variable defined in f from a constructor call or a composite literal.
func (c *Ctx) mapIsCallLocalCtor(f *Fn, e ast.Expr) bool {
	id, ok := ast.Unparen(e).(*ast.Ident)
	if !ok {
		return false
	}
	obj := f.Pkg.TypesInfo.Uses[id]
	if obj == nil || paramIndexOf(f, id) != -1 {
		return false
	}
	n, fresh := 0, true
	ast.Inspect(f.Decl.Body, func(nd ast.Node) bool {
		as, isAs := nd.(*ast.AssignStmt)
		if !isAs {
			return true
		}
		for i, l := range as.Lhs {
			lid, isId := ast.Unparen(l).(*ast.Ident)
			if !isId || (f.Pkg.TypesInfo.Defs[lid] != obj && f.Pkg.TypesInfo.Uses[lid] != obj) {
				continue
			}
			n++
			if i >= len(as.Rhs) {
				fresh = false
				continue
			}
			switch x := ast.Unparen(as.Rhs[i]).(type) {
			case *ast.CompositeLit:
			case *ast.UnaryExpr:
				if _, isLit := ast.Unparen(x.X).(*ast.CompositeLit); !isLit || x.Op != token.AND {
					fresh = false
				}
			case *ast.CallExpr:
				if cal := callee(f.Pkg, x); cal == nil || !strings.HasPrefix(cal.Name(), "New") && !strings.HasPrefix(cal.Name(), "new") && cal.Name() != "make" {
					fresh = false
				}
			default:
				fresh = false
			}
		}
		return true
	})
	return n > 0 && fresh
}

// freshRegexReceiver: the receiver of the call is a regex schema made in the same function (directly, or a local defined
// once by regex.FromFile / regex.New): its example sequence is nobody else's.
func freshRegexReceiver(f *Fn, call *ast.CallExpr) bool {
	sel, ok := ast.Unparen(call.Fun).(*ast.SelectorExpr)
	if !ok {
		return false
	}
	recv := ast.Unparen(unalias(f, sel.X))
	if dc, _ := definingCall(f, sel.X); dc != nil {
		recv = dc
	}
	mk, ok := recv.(*ast.CallExpr)
	if !ok {
		return false
	}
	g := callee(f.Pkg, mk)
	return g != nil && g.Pkg() != nil && strings.HasSuffix(g.Pkg().Path(), "notations/regex") && (g.Name() == "FromFile" || g.Name() == "New")
}

// onlyOnceDoArg: f is a declared function or method whose every use in the library is as the (only) argument of a
// (*sync.Once).Do call - a method value handed to Do runs exactly like a closure handed to Do.
func (c *Ctx) onlyOnceDoArg(f *Fn) bool {
	uses, ok := 0, true
	for _, g := range c.libFns() {
		var stack []ast.Node
		ast.Inspect(g.Decl.Body, func(nd ast.Node) bool {
			if nd == nil {
				stack = stack[:len(stack)-1]
				return true
			}
			stack = append(stack, nd)
			var id *ast.Ident
			switch x := nd.(type) {
			case *ast.SelectorExpr:
				id = x.Sel
			case *ast.Ident:
				id = x
			}
			if id == nil {
				return true
			}
			if o, _ := g.Pkg.TypesInfo.Uses[id].(*types.Func); o == nil || o.Origin() != f.Obj.Origin() {
				return true
			}
			if _, isSel := nd.(*ast.Ident); isSel && len(stack) >= 2 {
				if sel, ok := stack[len(stack)-2].(*ast.SelectorExpr); ok && sel.Sel == id {
					return true // counted at the selector
				}
			}
			uses++
			// the parent must be a call of sync.Once.Do with this expression as its argument
			good := false
			if len(stack) >= 2 {
				if oc, isCall := stack[len(stack)-2].(*ast.CallExpr); isCall && len(oc.Args) == 1 && ast.Unparen(oc.Args[0]) == nd.(ast.Expr) {
					if m := callee(g.Pkg, oc); m != nil && m.Name() == "Do" && m.Pkg() != nil && m.Pkg().Path() == "sync" {
						good = true
					}
				}
			}
			if !good {
				ok = false
			}
			return true
		})
	}
	return ok && uses > 0
}
