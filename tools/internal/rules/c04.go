package rules

import (
	"fmt"
	"go/ast"
	"go/token"
	"go/types"
	"sort"
	"strings"

	"jsverif/internal/prog"
)

func init() { register("C04", propC04, false, false) }

func propC04(c *Ctx) {
	c.R.Explanation = "Decides mechanisms behind 'accepted => serialisable': (a) no compile/load/check error of a schema object is discarded on the build path (two sites in ObjectBuilder.Build are a recorded finding); (b) lazily computed exchange content keeps its failure in the object; (c) ToJson and ToJsonIndent encode the same value; (d) the hand-written emitters only write encoder output and constants; (e) a pseudo schema is only built for the notations any/empty, so its MarshalJSON cannot fail; (f) every regex body is Check()ed when it is built; every path-variable property brings all its types; pool-backed example bytes are copied before they are kept. Not decided: the JDoc shape of every schema node (values come from the dependency's AST)."
	c.ruleNoDroppedErrorOpt("C04-COMPILE-ERR-KEPT", false)
	c.ruleOnceErrPersists("C04-ONCE-STATE")
	c.ruleAccessorPair()
	c.ruleEmitterTaint()
	c.rulePseudoTotal()
	c.ruleFormatFollowsNotation()
	c.ruleKeyKind()
	c.ruleLazyErrors()
	c.ruleSerialiseDepErrors("C04-SERIALISE-DEP-ERRORS")
	c.ruleSerialiseStatefulRecovered("C04-SERIALISE-STATEFUL-RECOVERED")
	c.ruleTypedNilError("C04-TYPED-NIL-ERROR") // a nil *JApiError returned as error ends the walk over the user types: the rest is never checked
	c.ruleRegexChecked()
	c.rulePathVarTypes()
	c.ruleDepCalls("C04-DEP-CALLS")
	c.ruleShapeTags()
	c.ruleRequiredArrays()
	c.ruleTypeSwitchArgs("C04-TYPE-SWITCH-ARGS")
	// a check that is skipped for "the same body again" must know what "the same" is
	c.rulePositionNeedsFile("C04-POSITION-NEEDS-FILE")
	c.ruleMemoCoverage("C04-MEMO-KEY-COVERS")
	// a check that walks a list must look at every element of it
	c.ruleLoopsCoverAll("C04-LOOPS-COVER-ALL")
	// ToJson and ToJsonIndent give the same document only if serialising changes nothing but once-only lazy state
	c.ruleMarshalPurity("C04-MARSHAL-PURITY")
	c.ruleOnceGuardedReads("C04-ONCE-GUARDED-READS")
	c.ruleDeadErrorStores("C04-DEAD-ERROR-STORE")
	c.ruleRegexExampleProbed("C04-REGEX-EXAMPLE-PROBED")
}

func (c *Ctx) ruleAccessorPair() {
	r := c.R
	r.Rule("C04-ACCESSOR-PAIR", "Catalog.ToJson and Catalog.ToJsonIndent each consist of one return of json.Marshal / json.MarshalIndent applied to the same receiver; the kit wrappers call exactly these on j.Catalog()", 4)
	for _, spec := range [][3]string{{"catalog", "Catalog.ToJson", "Marshal"}, {"catalog", "Catalog.ToJsonIndent", "MarshalIndent"}} {
		f := c.fn(spec[0], spec[1])
		if f == nil {
			r.Undecided("C04-ACCESSOR-PAIR", spec[1], "function not found", "")
			continue
		}
		ok := false
		if len(f.Decl.Body.List) == 1 {
			if ret, isRet := f.Decl.Body.List[0].(*ast.ReturnStmt); isRet && len(ret.Results) == 1 {
				if call, isCall := ret.Results[0].(*ast.CallExpr); isCall {
					if cal := callee(f.Pkg, call); cal != nil && cal.Pkg() != nil && cal.Pkg().Path() == "encoding/json" && cal.Name() == spec[2] && len(call.Args) >= 1 {
						if id, isId := ast.Unparen(call.Args[0]).(*ast.Ident); isId && f.Decl.Recv != nil && len(f.Decl.Recv.List[0].Names) == 1 && id.Name == f.Decl.Recv.List[0].Names[0].Name {
							ok = true
						}
					}
				}
			}
		}
		if ok {
			r.Ok("C04-ACCESSOR-PAIR", spec[1], "return json."+spec[2]+"(<receiver>, ...)", c.pos(f.Decl.Pos()))
		} else {
			r.Bad("C04-ACCESSOR-PAIR", spec[1], "the accessor is no longer a single json."+spec[2]+" of the catalog itself: the two forms can disagree", c.pos(f.Decl.Pos()))
		}
	}
	for _, spec := range [][2]string{{"JApi.ToJson", "ToJson"}, {"JApi.ToJsonIndent", "ToJsonIndent"}} {
		f := c.fn("kit", spec[0])
		if f == nil {
			r.Undecided("C04-ACCESSOR-PAIR", "kit."+spec[0], "function not found", "")
			continue
		}
		ok := false
		if len(f.Decl.Body.List) == 1 {
			if ret, isRet := f.Decl.Body.List[0].(*ast.ReturnStmt); isRet && len(ret.Results) == 1 {
				if call, isCall := ret.Results[0].(*ast.CallExpr); isCall {
					if cal := callee(f.Pkg, call); cal != nil && cal.Name() == spec[1] && namedType(cal.Type().(*types.Signature).Recv().Type()) == prog.ModulePath+"/catalog.Catalog" {
						ok = true
					}
				}
			}
		}
		if ok {
			r.Ok("C04-ACCESSOR-PAIR", "kit."+spec[0], "delegates to catalog."+spec[1], c.pos(f.Decl.Pos()))
		} else {
			r.Bad("C04-ACCESSOR-PAIR", "kit."+spec[0], "the wrapper does not simply delegate to the catalog's "+spec[1], c.pos(f.Decl.Pos()))
		}
	}
}

// ruleEmitterTaint: hand-written MarshalJSON with a buffer: only json.Marshal results and constants are written.
func (c *Ctx) ruleEmitterTaint() {
	r := c.R
	r.Rule("C04-EMITTER-TAINT", "in every MarshalJSON of the library that assembles output in a bytes.Buffer, each argument of Write/WriteString/WriteRune/WriteByte is the result of json.Marshal (whose error was returned) or a constant: nothing unescaped reaches the document", 5)
	n := 0
	for _, f := range c.libFns() {
		if f.Obj.Name() != "MarshalJSON" {
			continue
		}
		pk := f.Pkg
		// variables assigned from json.Marshal
		marshalled := map[types.Object]bool{}
		ast.Inspect(f.Decl.Body, func(nd ast.Node) bool {
			if as, ok := nd.(*ast.AssignStmt); ok && len(as.Rhs) == 1 && len(as.Lhs) >= 1 {
				if call, ok := ast.Unparen(as.Rhs[0]).(*ast.CallExpr); ok {
					if cal := callee(pk, call); cal != nil && cal.Pkg() != nil && cal.Pkg().Path() == "encoding/json" && strings.HasPrefix(cal.Name(), "Marshal") {
						if id, ok := as.Lhs[0].(*ast.Ident); ok {
							marshalled[objOf(pk, id)] = true
						}
					}
				}
			}
			return true
		})
		writes, bad := 0, ""
		ast.Inspect(f.Decl.Body, func(nd ast.Node) bool {
			call, ok := nd.(*ast.CallExpr)
			if !ok {
				return true
			}
			cal := callee(pk, call)
			if cal == nil || cal.Pkg() == nil || cal.Pkg().Path() != "bytes" || !strings.HasPrefix(cal.Name(), "Write") || len(call.Args) != 1 {
				return true
			}
			writes++
			a := ast.Unparen(call.Args[0])
			if tv := pk.TypesInfo.Types[a]; tv.Value != nil {
				return true
			}
			if id, ok := a.(*ast.Ident); ok && marshalled[pk.TypesInfo.Uses[id]] {
				return true
			}
			bad = exprString(a) + " at " + c.pos(call.Pos())
			return true
		})
		if writes == 0 {
			continue
		}
		n++
		key := f.Name()
		if bad == "" {
			r.Ok("C04-EMITTER-TAINT", key, fmt.Sprintf("%d buffer writes: constants and json.Marshal results only", writes), c.pos(f.Decl.Pos()))
		} else {
			r.Bad("C04-EMITTER-TAINT", key, "a value that did not go through json.Marshal is written into the JSON buffer: "+bad, c.pos(f.Decl.Pos()))
		}
	}
	if n == 0 {
		r.Undecided("C04-EMITTER-TAINT", "sites", "no buffer-assembling MarshalJSON found", "")
	}
	// the same for byte slices put together with append, anywhere below a MarshalJSON: what is appended is a constant,
	// the output of the encoder, or bytes that such a function has produced itself
	seen := map[*types.Func]bool{}
	var cone []*Fn
	for _, f := range c.libFns() {
		if f.Obj.Name() != "MarshalJSON" {
			continue
		}
		for _, g := range c.reachableAcrossLib(f) {
			if !seen[g.Obj] {
				seen[g.Obj] = true
				cone = append(cone, g)
			}
		}
	}
	appends := 0
	for _, f := range cone {
		pk := f.Pkg
		marshalled := map[types.Object]bool{}
		ast.Inspect(f.Decl.Body, func(nd ast.Node) bool {
			if as, ok := nd.(*ast.AssignStmt); ok && len(as.Rhs) == 1 && len(as.Lhs) >= 1 {
				if call, ok := ast.Unparen(as.Rhs[0]).(*ast.CallExpr); ok {
					if cal := callee(pk, call); cal != nil && (cal.Name() == "MarshalJSON" || (cal.Pkg() != nil && cal.Pkg().Path() == "encoding/json" && strings.HasPrefix(cal.Name(), "Marshal"))) {
						if id, ok := as.Lhs[0].(*ast.Ident); ok {
							marshalled[objOf(pk, id)] = true
						}
					}
				}
			}
			return true
		})
		ast.Inspect(f.Decl.Body, func(nd ast.Node) bool {
			call, ok := nd.(*ast.CallExpr)
			if !ok || len(call.Args) < 2 {
				return true
			}
			id, ok := call.Fun.(*ast.Ident)
			if !ok || id.Name != "append" {
				return true
			}
			if _, isB := pk.TypesInfo.Uses[id].(*types.Builtin); !isB {
				return true
			}
			sl, ok := pk.TypesInfo.TypeOf(call.Args[0]).Underlying().(*types.Slice)
			if !ok {
				return true
			}
			if bt, ok := sl.Elem().Underlying().(*types.Basic); !ok || bt.Kind() != types.Byte && bt.Kind() != types.Uint8 {
				return true
			}
			appends++
			for _, a := range call.Args[1:] {
				a = ast.Unparen(a)
				if tv := pk.TypesInfo.Types[a]; tv.Value != nil {
					continue
				}
				if aid, ok := a.(*ast.Ident); ok && marshalled[pk.TypesInfo.Uses[aid]] {
					continue
				}
				// bytes produced by another emitter of the cone: a call result
				if ac, ok := a.(*ast.CallExpr); ok {
					if g := callee(pk, ac); g != nil && (seen[g] || g.Name() == "MarshalJSON" || (g.Pkg() != nil && g.Pkg().Path() == "encoding/json")) {
						continue
					}
				}
				// raw text: a string (s...) or one byte of a string / field
				t := pk.TypesInfo.TypeOf(a)
				raw := false
				if bt, ok := t.Underlying().(*types.Basic); ok && (bt.Info()&types.IsString != 0 || bt.Kind() == types.Byte || bt.Kind() == types.Uint8) {
					raw = true
				}
				if sl2, ok := t.Underlying().(*types.Slice); ok {
					if bt, ok := sl2.Elem().Underlying().(*types.Basic); ok && (bt.Kind() == types.Byte || bt.Kind() == types.Uint8) {
						raw = true
					}
				}
				if raw {
					r.Bad("C04-EMITTER-TAINT", f.Name()+" | append of "+exprString(a), "below a MarshalJSON, text that did not go through the JSON encoder is appended to the bytes of the document ("+exprString(a)+"): a byte that is not valid UTF-8, or any other thing a hand-made escaper forgets, reaches the output - the encoder replaces such bytes, so the two ways of writing disagree and the document may not be valid JSON text", c.pos(call.Pos()))
				}
			}
			return true
		})
	}
	r.Stats["c04_marshal_cone"] = len(cone)
	r.Stats["c04_byte_appends_in_cone"] = appends
}

// rulePseudoTotal: every construction of a pseudo schema happens where the notation is known to be any/empty.
func (c *Ctx) rulePseudoTotal() {
	r := c.R
	r.Rule("C04-PSEUDO-TOTAL", "NewExchangePseudoSchema is only called (a) inside a case/if that restricts the notation to SchemaNotationAny/Empty, or (b) in the default branch of the switch over the serialise format in NewHTTPResponseBody, where SchemaSerializeFormat maps only any/empty to a format other than json/plainString (table checked); so ExchangePseudoSchema.MarshalJSON never takes its error branch", 3)
	ctor := c.P.LookupFunc("catalog", "NewExchangePseudoSchema")
	if ctor == nil {
		r.Undecided("C04-PSEUDO-TOTAL", "anchor", "NewExchangePseudoSchema not found", "")
		return
	}
	formatTableOK := c.formatTableMapsOnlyAnyEmptyToOther()
	for _, f := range c.libFns() {
		pk := f.Pkg
		inspectWithStack(f.Decl.Body, func(nd ast.Node, stack []ast.Node) bool {
			call, ok := nd.(*ast.CallExpr)
			if !ok || callee(pk, call) != ctor {
				return true
			}
			key := f.Name() + " | NewExchangePseudoSchema"
			where := c.pos(call.Pos())
			restricted := ""
			mentionsAnyEmpty := func(e ast.Expr) bool {
				a, em := false, false
				ast.Inspect(e, func(m ast.Node) bool {
					switch x := m.(type) {
					case *ast.SelectorExpr:
						if k, ok := pk.TypesInfo.Uses[x.Sel].(*types.Const); ok {
							a = a || k.Name() == "SchemaNotationAny"
							em = em || k.Name() == "SchemaNotationEmpty"
						}
						if x.Sel.Name == "IsAnyOrEmpty" {
							a, em = true, true
						}
					}
					return true
				})
				return a && em
			}
			for i := len(stack) - 1; i >= 0; i-- {
				switch p := stack[i].(type) {
				case *ast.CaseClause:
					for _, e := range p.List {
						if mentionsAnyEmpty(e) {
							restricted = "case restricting the notation to any/empty"
						}
					}
					if len(p.List) == 2 {
						both := 0
						for _, e := range p.List {
							if k := constObj(pk, e); k != nil && (k.Name() == "SchemaNotationAny" || k.Name() == "SchemaNotationEmpty") {
								both++
							}
						}
						if both == 2 {
							restricted = "case SchemaNotationAny, SchemaNotationEmpty"
						}
					}
					if p.List == nil && formatTableOK && i >= 2 {
						// default of a switch over a SerializeFormat value that has cases for json and plainString
						if sw, isSw := stack[i-2].(*ast.SwitchStmt); isSw && sw.Tag != nil && namedType(pk.TypesInfo.TypeOf(sw.Tag)) == prog.ModulePath+"/catalog.SerializeFormat" {
							seen := map[string]bool{}
							for _, cs := range sw.Body.List {
								for _, e := range cs.(*ast.CaseClause).List {
									if k := constObj(pk, e); k != nil {
										seen[k.Name()] = true
									}
								}
							}
							if seen["SerializeFormatJSON"] && seen["SerializeFormatPlainString"] {
								restricted = "default of a switch over the serialise format with cases for json and plainString; SchemaSerializeFormat maps only any/empty to another format"
							}
						}
					}
				case *ast.IfStmt:
					if p.Body.Pos() <= call.Pos() && call.End() <= p.Body.End() && mentionsAnyEmpty(p.Cond) {
						restricted = "if restricting the notation to any/empty"
					}
				}
			}
			if restricted != "" {
				r.Ok("C04-PSEUDO-TOTAL", key, restricted, where)
			} else {
				r.Bad("C04-PSEUDO-TOTAL", key, "a pseudo schema can be built for a notation other than any/empty: its MarshalJSON then fails after the build succeeded", where)
			}
			return true
		})
	}
}

func (c *Ctx) formatTableMapsOnlyAnyEmptyToOther() bool {
	f := c.fn("catalog", "SchemaSerializeFormat")
	if f == nil {
		return false
	}
	ok := true
	seen := 0
	ast.Inspect(f.Decl.Body, func(n ast.Node) bool {
		cc, isCC := n.(*ast.CaseClause)
		if !isCC || cc.List == nil {
			return true
		}
		for _, e := range cc.List {
			k := constObj(f.Pkg, e)
			if k == nil {
				continue
			}
			seen++
			ret, _ := cc.Body[len(cc.Body)-1].(*ast.ReturnStmt)
			if ret == nil {
				ok = false
				continue
			}
			fmtName := exprString(ret.Results[0])
			isPseudo := k.Name() == "SchemaNotationAny" || k.Name() == "SchemaNotationEmpty"
			isData := fmtName == "SerializeFormatJSON" || fmtName == "SerializeFormatPlainString"
			if isPseudo == isData {
				ok = false
			}
		}
		return true
	})
	return ok && seen >= 4
}

// ruleRegexChecked: every regex exchange schema created on the build path is Check()ed in the same function.
func (c *Ctx) ruleRegexChecked() {
	r := c.R
	r.Rule("C04-REGEX-CHECKED", "after every call of NewExchangeRegexSchema in a function reachable from the build entry points, the new schema's Check() is called and its error reaches the function's error result before the schema is stored in the catalog", 2)
	ctor := c.P.LookupFunc("catalog", "NewExchangeRegexSchema")
	if ctor == nil {
		r.Undecided("C04-REGEX-CHECKED", "anchor", "NewExchangeRegexSchema not found", "")
		return
	}
	reach := reachDecls(c.reachableLib(c.ssaRoots(buildRoots...), nil))
	n := 0
	for _, f := range c.libFns() {
		if !reach[f.Obj] {
			continue
		}
		pk := f.Pkg
		for _, call := range callsIn(pk, f.Decl.Body, ctor) {
			n++
			key := f.Name() + " | NewExchangeRegexSchema"
			checked := false
			ast.Inspect(f.Decl.Body, func(nd ast.Node) bool {
				c2, ok := nd.(*ast.CallExpr)
				if !ok || c2.Pos() < call.End() {
					return true
				}
				if sel, ok := ast.Unparen(c2.Fun).(*ast.SelectorExpr); ok && sel.Sel.Name == "Check" {
					if cal := callee(pk, c2); cal != nil {
						checked = true
					}
				}
				return true
			})
			if checked {
				r.Ok("C04-REGEX-CHECKED", key, "Check() follows the construction", c.pos(call.Pos()))
			} else {
				r.Bad("C04-REGEX-CHECKED", key, "a regex body is stored without being compiled: an invalid expression is accepted by the build and fails when the catalog is serialised", c.pos(call.Pos()))
			}
		}
	}
	if n == 0 {
		r.Undecided("C04-REGEX-CHECKED", "sites", "no call of NewExchangeRegexSchema on the build path", "")
	}
}

// rulePathVarTypes: ObjectBuilder.AddProperty adds the child and all of the piece's types unconditionally.
func (c *Ctx) rulePathVarTypes() {
	r := c.R
	r.Rule("C04-PATHVAR-TYPES", "ObjectBuilder.AddProperty: the property node is added and the loop that copies the piece's types into the synthetic schema is an unconditional top-level statement ranging over the whole `types` parameter", 1)
	f := c.fn("catalog", "ObjectBuilder.AddProperty")
	if f == nil {
		r.Undecided("C04-PATHVAR-TYPES", "anchor", "ObjectBuilder.AddProperty not found", "")
		return
	}
	pk := f.Pkg
	var typesParam types.Object
	for _, fl := range f.Decl.Type.Params.List {
		for _, n := range fl.Names {
			if _, isMap := pk.TypesInfo.Defs[n].Type().Underlying().(*types.Map); isMap {
				typesParam = pk.TypesInfo.Defs[n]
			}
		}
	}
	addChild, loopTop := false, false
	earlyReturn := false
	for _, st := range f.Decl.Body.List {
		if _, isRange := st.(*ast.RangeStmt); isRange {
			break
		}
		ast.Inspect(st, func(n ast.Node) bool {
			if _, ok := n.(*ast.ReturnStmt); ok {
				earlyReturn = true
			}
			return true
		})
	}
	for _, st := range f.Decl.Body.List {
		switch x := st.(type) {
		case *ast.ExprStmt:
			if call, ok := x.X.(*ast.CallExpr); ok {
				if cal := callee(pk, call); cal != nil && cal.Name() == "AddChild" {
					addChild = true
				}
			}
		case *ast.RangeStmt:
			if id, ok := ast.Unparen(x.X).(*ast.Ident); ok && pk.TypesInfo.Uses[id] == typesParam {
				// body: unconditional AddType
				for _, bs := range x.Body.List {
					if es, ok := bs.(*ast.ExprStmt); ok {
						if call, ok := es.X.(*ast.CallExpr); ok {
							if cal := callee(pk, call); cal != nil && cal.Name() == "AddType" {
								loopTop = true
							}
						}
					}
				}
			}
		}
	}
	if earlyReturn {
		loopTop = false
	}
	if addChild && loopTop {
		r.Ok("C04-PATHVAR-TYPES", "AddProperty", "child and all types are added unconditionally", c.pos(f.Decl.Pos()))
	} else {
		r.Bad("C04-PATHVAR-TYPES", "AddProperty", fmt.Sprintf("child added unconditionally=%v, all types copied unconditionally=%v: a path variable can refer to a type the synthetic schema does not know, which only fails when the catalog is serialised", addChild, loopTop), c.pos(f.Decl.Pos()))
	}
	// the callers: the node and the type list handed to AddProperty belong to the same piece (field selections of one
	// value); a type list that is a separate variable can be emptied or belong to another piece
	for _, g := range c.libFns() {
		ast.Inspect(g.Decl.Body, func(nd ast.Node) bool {
			call, ok := nd.(*ast.CallExpr)
			if !ok || len(call.Args) != 3 {
				return true
			}
			cal := callee(g.Pkg, call)
			if cal == nil || cal.Name() != "AddProperty" || g.Obj == f.Obj {
				return true
			}
			if _, isMap := g.Pkg.TypesInfo.TypeOf(call.Args[2]).Underlying().(*types.Map); !isMap {
				return true
			}
			if idx := paramIndexOf(g, call.Args[2]); idx >= 0 && !paramAssigned(g, call.Args[2]) {
				return true // a wrapper that hands its own parameters on: judged at its callers
			}
			key := "call site | " + g.Name()
			baseOf := func(e ast.Expr) string {
				e = ast.Unparen(e)
				for {
					if ce, ok := e.(*ast.CallExpr); ok { // x.node.Copy()
						if sel, ok := ast.Unparen(ce.Fun).(*ast.SelectorExpr); ok && len(ce.Args) == 0 {
							e = ast.Unparen(sel.X)
							continue
						}
					}
					break
				}
				if sel, ok := e.(*ast.SelectorExpr); ok && fieldSel(g.Pkg, sel) != nil {
					return accessPath(g.Pkg, sel.X)
				}
				return ""
			}
			nb, tb := baseOf(call.Args[1]), baseOf(call.Args[2])
			if nb != "" && nb == tb {
				r.Ok("C04-PATHVAR-TYPES", key, "node and type list are fields of the same piece", c.pos(call.Pos()))
			} else {
				r.Bad("C04-PATHVAR-TYPES", key, "the type list handed to AddProperty is not the one of the piece whose node is added ("+exprString(call.Args[2])+"): a property can refer to a type the synthetic schema does not know, which only fails when the catalog is serialised", c.pos(call.Pos()))
			}
			return true
		})
	}
}

var _ = token.NoPos

// ---------- the serialise format of a body is the one its notation gives ----------

// ruleFormatFollowsNotation: which schema object is built for a body is decided on the serialise format, which
// document is written for it on the notation. The two agree as long as the format is the value SchemaSerializeFormat
// gives for that notation. Every variable of type SerializeFormat in the library is therefore assigned exactly once,
// by that function (or is a parameter handed on unchanged), and where a call passes a format and a notation together
// the format was computed from that very notation.
func (c *Ctx) ruleFormatFollowsNotation() {
	r := c.R
	r.Rule("C04-FORMAT-FOLLOWS-NOTATION", "every local of type catalog.SerializeFormat is defined once, by SchemaSerializeFormat(n) (or is a parameter that is not reassigned); at every call that passes a SerializeFormat together with a SchemaNotation, n is the notation passed: a format set by hand for some case makes NewHTTPResponseBody build a schema object of one kind under the notation of another, which cannot be serialised", 2)
	conv := c.P.LookupFunc("catalog", "SchemaSerializeFormat")
	if conv == nil {
		r.Undecided("C04-FORMAT-FOLLOWS-NOTATION", "anchor", "catalog.SchemaSerializeFormat not found", "")
		return
	}
	isFmt := func(t types.Type) bool { return namedType(t) == prog.ModulePath+"/catalog.SerializeFormat" }
	isNot := func(t types.Type) bool { return namedType(t) == prog.ModulePath+"/notation.SchemaNotation" }
	n := 0
	for _, f := range c.libFns() {
		pk := f.Pkg
		if f.Obj == conv {
			continue
		}
		// assignments to format variables
		ast.Inspect(f.Decl.Body, func(nd ast.Node) bool {
			as, ok := nd.(*ast.AssignStmt)
			if !ok {
				return true
			}
			for i, l := range as.Lhs {
				id, ok := l.(*ast.Ident)
				if !ok || id.Name == "_" {
					continue
				}
				obj := pk.TypesInfo.Defs[id]
				if obj == nil {
					obj = pk.TypesInfo.Uses[id]
				}
				if obj == nil || !isFmt(obj.Type()) {
					continue
				}
				n++
				key := fmt.Sprintf("%s | %s assigned", f.Name(), id.Name)
				var rhs ast.Expr
				if len(as.Rhs) == 1 {
					rhs = as.Rhs[0]
				} else if i < len(as.Rhs) {
					rhs = as.Rhs[i]
				}
				call, _ := ast.Unparen(rhs).(*ast.CallExpr)
				if call != nil && callee(pk, call) == conv && as.Tok == token.DEFINE {
					r.OkTrivial("C04-FORMAT-FOLLOWS-NOTATION", key, "defined by SchemaSerializeFormat", c.pos(as.Pos()))
				} else if call != nil && as.Tok == token.DEFINE && c.formatNotationProducer(c.fnOf(callee(pk, call)), conv) >= 0 {
					r.OkTrivial("C04-FORMAT-FOLLOWS-NOTATION", key, "defined by a helper that returns the format together with the notation it computed it from", c.pos(as.Pos()))
				} else {
					r.Bad("C04-FORMAT-FOLLOWS-NOTATION", key, "a serialise format is set by hand ("+exprString(rhs)+") instead of being the format of the notation: the schema object built for the body (chosen by the format) and the notation written for it no longer belong together", c.pos(as.Pos()))
				}
			}
			return true
		})
		// calls passing both
		ast.Inspect(f.Decl.Body, func(nd ast.Node) bool {
			call, ok := nd.(*ast.CallExpr)
			if !ok {
				return true
			}
			var fa, na ast.Expr
			for _, a := range call.Args {
				t := pk.TypesInfo.TypeOf(a)
				if t == nil {
					continue
				}
				if isFmt(t) {
					fa = a
				}
				if isNot(t) {
					na = a
				}
			}
			if fa == nil || na == nil {
				return true
			}
			n++
			key := fmt.Sprintf("%s | %s(format, notation)", f.Name(), exprString(call.Fun))
			if paramIndexOf(f, fa) >= 0 && paramIndexOf(f, na) >= 0 && !paramAssigned(f, fa) && !paramAssigned(f, na) {
				r.OkTrivial("C04-FORMAT-FOLLOWS-NOTATION", key, "both handed on from the parameters", c.pos(call.Pos()))
				return true
			}
			dc, kf := definingCall(f, fa)
			if dc != nil && callee(pk, dc) == conv && len(dc.Args) == 1 && c.stableExpr(f, dc.Args[0], nil) == c.stableExpr(f, na, nil) {
				r.Ok("C04-FORMAT-FOLLOWS-NOTATION", key, "the format is SchemaSerializeFormat of the notation that is passed", c.pos(call.Pos()))
			} else if dn, kn := definingCall(f, na); dc != nil && dn == dc && c.formatNotationProducer(c.fnOf(callee(pk, dc)), conv) == kf*16+kn {
				r.Ok("C04-FORMAT-FOLLOWS-NOTATION", key, "format and notation come from one call of a helper that computes the one from the other", c.pos(call.Pos()))
			} else {
				r.Bad("C04-FORMAT-FOLLOWS-NOTATION", key, "the format passed is not (only) SchemaSerializeFormat of the notation passed with it", c.pos(call.Pos()))
			}
			return true
		})
	}
	if n == 0 {
		r.Undecided("C04-FORMAT-FOLLOWS-NOTATION", "sites", "no variable of type SerializeFormat found", "")
	}
}

// ---------- inherited properties are matched by key and kind of key ----------

// ruleKeyKind: an object may hold the key `@k` twice: once as a reference to the user type @k (any key that is a @k)
// and once as the literal key "@k". The schema library accepts that, so the build does. The allOf inheritance runs
// lazily, at the first serialisation; if it takes the two for one property it reports an override that nobody can be
// told about any more: the project was accepted, ToJson fails.
func (c *Ctx) ruleKeyKind() {
	r := c.R
	r.Rule("C04-KEY-KIND", "in the functions of package catalog that the allOf inheritance runs (reachable from ExchangeContent.processAllOf, executed at the first serialisation): every equality test on the Key of an ExchangeContent stands in a conjunction with an equality test on IsKeyUserTypeRef - a key that refers to a user type and a literal key of the same spelling are different properties, and a clash found only then is an error of an accepted project", 1)
	root := c.fn("catalog", "ExchangeContent.processAllOf")
	if root == nil {
		r.Undecided("C04-KEY-KIND", "anchor", "catalog.(*ExchangeContent).processAllOf not found", "")
		return
	}
	var keyF, kindF *types.Var
	if tn := c.P.LookupType("catalog", "ExchangeContent"); tn != nil {
		if st, ok := tn.Type().Underlying().(*types.Struct); ok {
			for i := 0; i < st.NumFields(); i++ {
				switch st.Field(i).Name() {
				case "Key":
					keyF = st.Field(i)
				case "IsKeyUserTypeRef":
					kindF = st.Field(i)
				}
			}
		}
	}
	if keyF == nil || kindF == nil {
		r.Undecided("C04-KEY-KIND", "anchor", "fields Key / IsKeyUserTypeRef of catalog.ExchangeContent not found", "")
		return
	}
	mentions := func(f *Fn, e ast.Expr, fld *types.Var) bool {
		found := false
		ast.Inspect(e, func(n ast.Node) bool {
			if sel, ok := n.(*ast.SelectorExpr); ok && f.Pkg.TypesInfo.Uses[sel.Sel] == types.Object(fld) {
				found = true
			}
			return true
		})
		return found
	}
	n := 0
	for _, f := range c.reachableInPkg(root) {
		inspectWithStack(f.Decl.Body, func(nd ast.Node, stack []ast.Node) bool {
			be, ok := nd.(*ast.BinaryExpr)
			if !ok || be.Op != token.EQL || !(mentions(f, be.X, keyF) || mentions(f, be.Y, keyF)) {
				return true
			}
			if isNil(f.Pkg, be.X) || isNil(f.Pkg, be.Y) {
				return true // Key == nil: is there a key at all
			}
			n++
			key := fmt.Sprintf("%s | %s", f.Name(), exprString(be))
			var top ast.Expr = be
			for i := len(stack) - 1; i >= 0; i-- {
				if b2, ok := stack[i].(*ast.BinaryExpr); ok && b2.Op == token.LAND {
					top = b2
					continue
				}
				if _, ok := stack[i].(*ast.ParenExpr); ok {
					continue
				}
				break
			}
			kind := false
			for _, a := range impliedAtoms(top, true) {
				if b2, ok := ast.Unparen(a.e).(*ast.BinaryExpr); ok && a.holds && b2.Op == token.EQL && mentions(f, b2.X, kindF) && mentions(f, b2.Y, kindF) {
					kind = true
				}
			}
			if kind {
				r.Ok("C04-KEY-KIND", key, "the kind of key is compared in the same condition", c.pos(be.Pos()))
			} else {
				r.Bad("C04-KEY-KIND", key, "properties are matched by the text of the key alone: `@k: ...` (a key that refers to the user type @k) inherited through allOf is taken for the literal key \"@k\" of the inheriting object, and the first serialisation of the accepted project fails with 'it is not allowed to override the property'", c.pos(be.Pos()))
			}
			return true
		})
	}
	if n == 0 {
		r.Undecided("C04-KEY-KIND", "sites", "the allOf inheritance compares no keys: the matcher no longer recognises how own and inherited properties are told apart", "")
	}
}

// ruleLazyErrors lists, as observations, the errors that the lazily compiled exchange content can produce: whatever is
// returned as a fresh error by the code that runs under the Once of ExchangeJSightSchema.Compile is an error that a
// project meets at its first serialisation, after it was accepted. Each one has to be shadowed by a check made while
// the catalog is built (by the schema library or by the module); the list is what a reviewer has to go through.
func (c *Ctx) ruleLazyErrors() {
	r := c.R
	r.Rule("C04-LAZY-ERRORS", "observation: the fresh errors (fmt.Errorf / errors.New) returned by the functions that run under the Once of the exchange schema's Compile (package catalog, reachable from the Do closure): each is an error of an already accepted project unless a build-time check shadows it (F32 was one that nothing shadowed)", 1)
	n := 0
	for _, oi := range c.onceInfos() {
		var roots []*Fn
		for fn := range oi.inside {
			if g := c.fnOf(fn); g != nil {
				roots = append(roots, g)
			}
		}
		sort.Slice(roots, func(i, j int) bool { return roots[i].Name() < roots[j].Name() })
		seen := map[*types.Func]bool{}
		for _, rt := range roots {
			for _, g := range c.reachableInPkg(rt) {
				if seen[g.Obj] {
					continue
				}
				seen[g.Obj] = true
				k := 0
				ast.Inspect(g.Decl.Body, func(nd ast.Node) bool {
					ret, ok := nd.(*ast.ReturnStmt)
					if !ok {
						return true
					}
					for _, e := range ret.Results {
						call, ok := ast.Unparen(e).(*ast.CallExpr)
						if !ok {
							continue
						}
						cal := callee(g.Pkg, call)
						if cal == nil || cal.Pkg() == nil || !((cal.Pkg().Path() == "fmt" && cal.Name() == "Errorf") || (cal.Pkg().Path() == "errors" && cal.Name() == "New")) {
							continue
						}
						k++
						n++
						msg := ""
						if len(call.Args) > 0 {
							msg = exprString(call.Args[0])
						}
						r.Observe("C04-LAZY-ERRORS", fmt.Sprintf("%s | %s #%d", g.Name(), msg, k), "can only be raised at the first serialisation (under "+oi.owner.Obj().Name()+"."+oi.field.Name()+")", c.pos(ret.Pos()))
					}
					return true
				})
			}
		}
	}
	if n == 0 {
		r.Ok("C04-LAZY-ERRORS", "library", "the once-only code returns no fresh error", "")
	}
}

// formatNotationProducer: g returns a serialise format and a schema notation such that on every return that carries a
// format it is SchemaSerializeFormat(<the returned notation>). The result encodes the two result positions
// (format*16 + notation); -1 when g is not of that kind.
func (c *Ctx) formatNotationProducer(g *Fn, conv *types.Func) int {
	if g == nil {
		return -1
	}
	sig := g.Obj.Type().(*types.Signature)
	kf, kn := -1, -1
	for i := 0; i < sig.Results().Len(); i++ {
		switch namedType(sig.Results().At(i).Type()) {
		case prog.ModulePath + "/catalog.SerializeFormat":
			kf = i
		case prog.ModulePath + "/notation.SchemaNotation":
			kn = i
		}
	}
	if kf < 0 || kn < 0 {
		return -1
	}
	ok, n := true, 0
	ast.Inspect(g.Decl.Body, func(nd ast.Node) bool {
		if _, isLit := nd.(*ast.FuncLit); isLit {
			return false
		}
		ret, isRet := nd.(*ast.ReturnStmt)
		if !isRet || len(ret.Results) != sig.Results().Len() {
			return true
		}
		n++
		// an error return: the last result is not nil, the format does not matter
		last := ret.Results[len(ret.Results)-1]
		if isErrorLike(g.Pkg.TypesInfo.TypeOf(last)) && !isNil(g.Pkg, last) {
			return true
		}
		dc, _ := definingCall(g, ret.Results[kf])
		if dc == nil || callee(g.Pkg, dc) != conv || len(dc.Args) != 1 || c.stableExpr(g, dc.Args[0], nil) != c.stableExpr(g, ret.Results[kn], nil) {
			ok = false
		}
		return true
	})
	if !ok || n == 0 {
		return -1
	}
	return kf*16 + kn
}
