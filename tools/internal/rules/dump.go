package rules

import (
	"fmt"
	"golang.org/x/tools/go/ssa"
	"os"
	"strings"

	"jsverif/internal/obl"
	"jsverif/internal/prog"
	"jsverif/internal/scanfsm"
)

var dumpers = map[string]func(c *Ctx){}

// Dump prints engine internals for debugging the checker itself.
func Dump(what string) {
	p, err := prog.Load(os.Getenv("JSVERIF_DEEP") != "")
	if err != nil {
		fmt.Println("load:", err)
		os.Exit(1)
	}
	c := &Ctx{R: obl.NewReport("dump", "quick"), P: p, an: map[string]*scanfsm.Analysis{}}
	if d, ok := dumpers[what]; ok {
		d(c)
		return
	}
	switch what {
	case "fsm":
		m := c.Machine()
		if m == nil {
			fmt.Println(c.R.Obls)
			return
		}
		fmt.Println("steps", len(m.Steps), "init", m.InitStep, "nulguard", m.NulGuard, "unsupported", len(m.Unsupported))
		for _, u := range m.Unsupported {
			fmt.Println("  UNSUPPORTED", u)
		}
		ws, ov := m.Keywords("stateExpectKeyword", 14)
		fmt.Println("keywords", len(ws), ov)
		for _, w := range ws {
			if w[0] < '0' || w[0] > '9' {
				fmt.Print(w, " ")
			}
		}
		fmt.Println()
		for st := range m.AfterKeywordStates() {
			fmt.Printf("after keyword: %s non-error bytes %q\n", st, m.NonErrorBytes(st))
		}
		for _, k := range []int{6} {
			if os.Getenv("NOAN") != "" {
				break
			}
			a := m.Analyse(k, false)
			fmt.Println("k", k, "configs", a.Configs, "transitions", a.Transitions, "edges", a.Edges, a.ByKind)
			for _, f := range a.Findings {
				fmt.Printf("  %s: %s  [%s] trace %s\n", f.Kind, f.Key, f.Text, f.Trace)
			}
		}
		if len(os.Args) > 3 {
			st := os.Args[3]
			for b := 0; b < 256; b++ {
				for _, o := range m.Trans[st][b] {
					fmt.Printf("%s[%q] %s\n", st, byte(b), o)
				}
			}
		}
	}
}

func init() {
	dumpers["tables"] = func(c *Ctx) {
		t := c.Tables()
		for _, p := range t.Problems {
			fmt.Fprintln(os.Stderr, "PROBLEM", p)
		}
		fmt.Println(t.DumpContextRef())
	}
}

func init() {
	dumpers["sccs"] = func(c *Ctx) {
		roots := append(c.ssaRoots(buildRoots...), c.ssaRoots(serialiseRoots...)...)
		roots = append(roots, c.marshalRoots(nil)...)
		reach := c.reachableLib(roots, nil)
		fmt.Println("reachable lib functions:", len(reach))
		for _, comp := range c.libSCCs(reach) {
			var names []string
			for _, f := range comp {
				names = append(names, prog.SSAName(f))
			}
			fmt.Println("SCC:", names)
		}
	}
}

func init() {
	dumpers["nil"] = func(c *Ctx) {
		nf := c.nilableFields()
		fmt.Println("nilable fields:", len(nf))
		cfgs := map[*Fn]*funcCFG{}
		n, un := 0, 0
		for _, s := range c.derefSites(nf) {
			n++
			cf := cfgs[s.f]
			if cf == nil {
				cf = buildCFG(s.f.Decl.Body)
				cfgs[s.f] = cf
			}
			g := guardedNonNil(s.f.Pkg, cf, s.f.Decl.Body, s.node, c.stackOf(s.f, s.node), s.path)
			if g == "" {
				un++
				fmt.Printf("UNGUARDED %s.%s in %s at %s: %s\n", c.structOfField(s.field), s.field.Name(), s.f.Name(), c.pos(s.node.Pos()), exprString(s.base))
			}
		}
		fmt.Println("deref sites", n, "unguarded", un)
	}
}

func init() {
	dumpers["path"] = func(c *Ctx) {
		// print a call path from the build roots to the function named in os.Args[3]
		target := os.Args[3]
		cg := c.P.CallGraph()
		roots := c.ssaRoots(buildRoots...)
		prev := map[*ssa.Function]*ssa.Function{}
		var work []*ssa.Function
		for _, r := range roots {
			prev[r] = nil
			work = append(work, r)
		}
		for len(work) > 0 {
			f := work[0]
			work = work[1:]
			if prog.SSAName(f) == target {
				for x := f; x != nil; x = prev[x] {
					fmt.Println("  <-", prog.SSAName(x))
				}
				return
			}
			var next []*ssa.Function
			next = append(next, f.AnonFuncs...)
			if n := cg.Nodes[f]; n != nil {
				for _, e := range n.Out {
					next = append(next, e.Callee.Func)
				}
			}
			for _, g := range next {
				if _, ok := prev[g]; !ok && g != nil {
					prev[g] = f
					work = append(work, g)
				}
			}
		}
		fmt.Println("not reachable")
	}
}

func init() {
	dumpers["reach"] = func(c *Ctx) {
		reach := c.reachableLib(c.ssaRoots(buildRoots...), nil)
		for f := range reach {
			n := prog.SSAName(f)
			if strings.Contains(n, os.Args[3]) {
				fmt.Println(n, "synthetic:", f.Synthetic, "decl:", declOf(f))
			}
		}
	}
}

func init() {
	dumpers["grammar"] = func(c *Ctx) {
		m := c.Machine()
		a := m.AnalyseGrammar(6)
		fmt.Println("configs", a.Configs, "transitions", a.Transitions, a.ByKind)
		for _, f := range a.Findings {
			fmt.Printf("  %s: %s  trace %s\n", f.Kind, f.Key, f.Trace)
		}
	}
}
