package rules

import (
	"fmt"
	"os"

	"jsverif/internal/obl"
	"jsverif/internal/prog"
	"jsverif/internal/scanfsm"
)

var dumpers = map[string]func(c *Ctx){}

// Dump prints engine internals for debugging the checker itself.
func Dump(what string) {
	p, err := prog.Load(false)
	if err != nil {
		fmt.Println("load:", err)
		os.Exit(1)
	}
	c := &Ctx{R: obl.NewReport("dump", "quick"), P: p, an: map[string]*scanfsm.Analysis{}}
	if d, ok := dumpers[what]; ok {
		d(c)
		return
	}
	switch what {
	case "fsm":
		m := c.Machine()
		if m == nil {
			fmt.Println(c.R.Obls)
			return
		}
		fmt.Println("steps", len(m.Steps), "init", m.InitStep, "nulguard", m.NulGuard, "unsupported", len(m.Unsupported))
		for _, u := range m.Unsupported {
			fmt.Println("  UNSUPPORTED", u)
		}
		ws, ov := m.Keywords("stateExpectKeyword", 14)
		fmt.Println("keywords", len(ws), ov)
		for _, w := range ws {
			if w[0] < '0' || w[0] > '9' {
				fmt.Print(w, " ")
			}
		}
		fmt.Println()
		for st := range m.AfterKeywordStates() {
			fmt.Printf("after keyword: %s non-error bytes %q\n", st, m.NonErrorBytes(st))
		}
		for _, k := range []int{6} {
			if os.Getenv("NOAN") != "" {
				break
			}
			a := m.Analyse(k, false)
			fmt.Println("k", k, "configs", a.Configs, "transitions", a.Transitions, "edges", a.Edges, a.ByKind)
			for _, f := range a.Findings {
				fmt.Printf("  %s: %s  [%s] trace %s\n", f.Kind, f.Key, f.Text, f.Trace)
			}
		}
		if len(os.Args) > 3 {
			st := os.Args[3]
			for b := 0; b < 256; b++ {
				for _, o := range m.Trans[st][b] {
					fmt.Printf("%s[%q] %s\n", st, byte(b), o)
				}
			}
		}
	}
}

func init() {
	dumpers["tables"] = func(c *Ctx) {
		t := c.Tables()
		for _, p := range t.Problems {
			fmt.Fprintln(os.Stderr, "PROBLEM", p)
		}
		fmt.Println(t.DumpContextRef())
	}
}
