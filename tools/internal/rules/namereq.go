package rules

import (
	"fmt"
	"go/ast"
	"go/token"
	"go/types"
)

// ---------- a declaration without a name is refused ----------

// ruleDeclaredNameRequired: TYPE, ENUM, MACRO, SERVER and TAG declare a name. The functions of package core that file a
// declaration under the name its directive gives (a store into a map, or a Set on one of the module's collections,
// keyed by a local that holds d.NamedParameter("Name")) have to refuse the empty name: otherwise the declaration is
// filed under "" - `ENUM` + `[1]` built a catalog with the enum "" (F57) while the nameless TYPE, MACRO, SERVER and
// TAG are refused with "required parameter(s) not specified".
func (c *Ctx) ruleDeclaredNameRequired(rule string) {
	r := c.R
	r.Rule(rule, "in package core, every store that files something under the name parameter of a directive - M[name] = v, or <collection>.Set(name, v), with name a local only assigned from d.NamedParameter(<constant>) - is reached only over the non-empty edge of a comparison of that local with \"\" whose other branch returns an error (edge facts on go/cfg), in the function itself or, for a helper that is handed the name, at every call site: a declaration without a name is an error, whichever directive makes it", 3)
	pkc := c.P.Pkg("core")
	if pkc == nil {
		r.Undecided(rule, "anchor", "package core not loaded", "")
		return
	}
	n := 0
	for _, f := range c.libFns() {
		if f.Pkg != pkc {
			continue
		}
		pk := f.Pkg
		// locals only assigned from NamedParameter(const)
		nameLocals := map[types.Object]string{}
		bad := map[types.Object]bool{}
		ast.Inspect(f.Decl.Body, func(nd ast.Node) bool {
			as, ok := nd.(*ast.AssignStmt)
			if !ok || len(as.Lhs) != len(as.Rhs) {
				return true
			}
			for i, l := range as.Lhs {
				id, ok := l.(*ast.Ident)
				if !ok {
					continue
				}
				obj := pk.TypesInfo.ObjectOf(id)
				if obj == nil {
					continue
				}
				call, ok := ast.Unparen(as.Rhs[i]).(*ast.CallExpr)
				if ok && len(call.Args) == 1 {
					if cal := callee(pk, call); cal != nil && cal.Name() == "NamedParameter" {
						if k, isK := constString(pk, call.Args[0]); isK {
							nameLocals[obj] = k
							continue
						}
					}
				}
				if _, had := nameLocals[obj]; had {
					bad[obj] = true
				}
			}
			return true
		})
		// a name read through a helper that refuses the empty parameter: `name, je := required(d, "Name")`
		errOf := map[types.Object]types.Object{}
		ast.Inspect(f.Decl.Body, func(nd ast.Node) bool {
			as, ok := nd.(*ast.AssignStmt)
			if !ok || len(as.Lhs) != 2 || len(as.Rhs) != 1 {
				return true
			}
			id, ok := as.Lhs[0].(*ast.Ident)
			if !ok {
				return true
			}
			obj := pk.TypesInfo.ObjectOf(id)
			if obj == nil {
				return true
			}
			if e, call, kp := c.requiredBy(f, obj); e != nil && kp >= 0 && kp < len(call.Args) {
				if k, isK := constString(pk, call.Args[kp]); isK {
					nameLocals[obj] = k
					errOf[obj] = e
				}
			}
			return true
		})
		if len(nameLocals) == 0 {
			continue
		}
		fc := c.cfgOf(f)
		nonEmptyAt := func(obj types.Object, at ast.Node) bool {
			return fc.establishedAt(at, func(cond ast.Expr, trueEdge bool) bool {
				if successEdge(pk, cond, trueEdge, errOf[obj]) {
					return true
				}
				be, ok := ast.Unparen(cond).(*ast.BinaryExpr)
				if !ok {
					return false
				}
				x, y := be.X, be.Y
				if s, isS := constString(pk, x); isS && s == "" {
					x, y = y, x
				}
				s, isS := constString(pk, y)
				id, isId := ast.Unparen(x).(*ast.Ident)
				if !isS || s != "" || !isId || pk.TypesInfo.Uses[id] != obj {
					return false
				}
				return (be.Op == token.EQL && !trueEdge) || (be.Op == token.NEQ && trueEdge)
			}, nil)
		}
		ast.Inspect(f.Decl.Body, func(nd ast.Node) bool {
			var keyExpr ast.Expr
			var site ast.Node
			what := ""
			switch x := nd.(type) {
			case *ast.AssignStmt:
				for _, l := range x.Lhs {
					if ix, ok := ast.Unparen(l).(*ast.IndexExpr); ok {
						if _, isMap := pk.TypesInfo.TypeOf(ix.X).Underlying().(*types.Map); isMap {
							keyExpr, site, what = ix.Index, x, exprString(ix.X)+"[...] ="
						}
					}
				}
			case *ast.CallExpr:
				if cal := callee(pk, x); cal != nil && (cal.Name() == "Set" || cal.Name() == "SetToTop") && len(x.Args) == 2 && cal.Pkg() != nil && c.P.IsLibPkg(cal.Pkg()) {
					keyExpr, site, what = x.Args[0], x, exprString(x.Fun)
				}
			}
			if keyExpr == nil {
				return true
			}
			id, ok := ast.Unparen(keyExpr).(*ast.Ident)
			if !ok {
				return true
			}
			obj := pk.TypesInfo.Uses[id]
			k, isName := nameLocals[obj]
			if !isName || bad[obj] {
				return true
			}
			n++
			key := fmt.Sprintf("%s | %s keyed by parameter %s", f.Name(), what, k)
			if nonEmptyAt(obj, site) {
				r.Ok(rule, key, "the empty name is refused before", c.pos(site.Pos()))
			} else {
				r.Bad(rule, key, "a declaration is filed under the "+k+" parameter of its directive without asking whether there is one: a directive without a name is accepted and its declaration is filed under \"\" (the other declaring directives answer 'required parameter(s) not specified')", c.pos(site.Pos()))
			}
			return true
		})
	}
	if n < 3 {
		r.Undecided(rule, "sites", fmt.Sprintf("only %d stores keyed by a name parameter found in package core", n), "")
	}
}
