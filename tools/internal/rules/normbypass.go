package rules

import (
	"go/ast"
	"go/importer"
	"go/parser"
	"go/token"
	"go/types"
)

// A normaliser that is applied only to the inputs that "need" it is a second, weaker normaliser: the test that decides
// who needs it knows fewer cases than the normaliser does (a fast path that looks for '\n' misses CR-only texts).
// normaliserBypasses finds, in one function, the parameters that are returned normalised on one path and as they came
// on another.
func normaliserBypasses(info *types.Info, fd *ast.FuncDecl, isNormaliser func(*ast.CallExpr) bool) []string {
	if fd.Body == nil || fd.Type.Params == nil {
		return nil
	}
	params := map[types.Object]string{}
	for _, fl := range fd.Type.Params.List {
		for _, n := range fl.Names {
			if o := info.Defs[n]; o != nil {
				params[o] = n.Name
			}
		}
	}
	normalised := map[types.Object]bool{}
	raw := map[types.Object]bool{}
	ast.Inspect(fd.Body, func(n ast.Node) bool {
		if _, isLit := n.(*ast.FuncLit); isLit {
			return false
		}
		ret, ok := n.(*ast.ReturnStmt)
		if !ok {
			return true
		}
		for _, e := range ret.Results {
			e = ast.Unparen(e)
			if call, ok := e.(*ast.CallExpr); ok && isNormaliser(call) && len(call.Args) == 1 {
				if id, ok := ast.Unparen(call.Args[0]).(*ast.Ident); ok {
					if _, isParam := params[info.Uses[id]]; isParam {
						normalised[info.Uses[id]] = true
					}
				}
			}
			if id, ok := e.(*ast.Ident); ok {
				if _, isParam := params[info.Uses[id]]; isParam {
					raw[info.Uses[id]] = true
				}
			}
		}
		return true
	})
	var out []string
	for o := range normalised {
		if raw[o] {
			out = append(out, params[o])
		}
	}
	return out
}

func normaliserBypassSelfTest() string {
	src := `package catalog
func Annotation(s string) string { return s }
func bad(s string) string { if len(s) < 3 { return s }; return Annotation(s) }
func good(s string) string { if len(s) == 0 { return "" }; return Annotation(s) }
`
	fset := token.NewFileSet()
	f, err := parser.ParseFile(fset, "selftest.go", src, 0)
	if err != nil {
		return "self-test does not parse"
	}
	info := &types.Info{Types: map[ast.Expr]types.TypeAndValue{}, Uses: map[*ast.Ident]types.Object{}, Defs: map[*ast.Ident]types.Object{}}
	conf := types.Config{Importer: importer.Default()}
	if _, err := conf.Check("catalog", fset, []*ast.File{f}, info); err != nil {
		return "self-test does not type-check: " + err.Error()
	}
	isN := func(call *ast.CallExpr) bool {
		id, ok := call.Fun.(*ast.Ident)
		return ok && id.Name == "Annotation"
	}
	got := map[string]int{}
	for _, d := range f.Decls {
		if fd, ok := d.(*ast.FuncDecl); ok {
			got[fd.Name.Name] = len(normaliserBypasses(info, fd, isN))
		}
	}
	if got["bad"] != 1 || got["good"] != 0 {
		return "the matcher no longer tells a bypass from an unconditional wrapper"
	}
	return ""
}
