package rules

import (
	"go/ast"
	"go/token"
	"go/types"
)

// ruleEmptySentinel: some "only once" setters of the catalog have no flag of their own: `if c.Info.Title != "" {
// return NotUnique }; c.Info.Title = name` takes the empty string for "not set yet". That is a uniqueness test only
// as long as the value stored is never empty - a first directive that stores "" is forgotten, and a second one is
// accepted. The handlers of core refuse an empty parameter before they call the setter; the rule ties the two
// together: at every call of such a setter the argument is a variable (or field path) that a test on every path has
// shown to differ from "" - the very expression that is handed over, not something computed from it.
func (c *Ctx) ruleEmptySentinel(rule string) {
	r := c.R
	r.Rule(rule, "for every setter of package catalog that tells 'already set' by comparing a string field of the catalog with \"\" and then stores its string parameter there: at each call site in the library the argument is an expression e for which `e != \"\"` is established on every path to the call (edge facts over the CFG of the caller), so the stored value cannot be the sentinel and a second directive is always refused", 2)
	pk := c.P.Pkg("catalog")
	if pk == nil {
		r.Undecided(rule, "anchor", "package catalog not loaded", "")
		return
	}
	n := 0
	for _, f := range c.libFns() {
		if f.Pkg != pk || f.Decl.Recv == nil {
			continue
		}
		sig, _ := f.Obj.Type().(*types.Signature)
		if sig == nil || sig.Params().Len() < 1 {
			continue
		}
		// find: if <path> != "" { return <non-nil> }  ...  <path> = <param>
		for _, st := range f.Decl.Body.List {
			ifs, ok := st.(*ast.IfStmt)
			if !ok || ifs.Init != nil {
				continue
			}
			be, ok := ast.Unparen(ifs.Cond).(*ast.BinaryExpr)
			if !ok || be.Op != token.NEQ || !isEmptyStringLit(be.Y) {
				continue
			}
			path := accessPath(pk, be.X)
			if path == "" {
				continue
			}
			if _, ok := ast.Unparen(be.X).(*ast.SelectorExpr); !ok {
				continue
			}
			pidx := -1
			ast.Inspect(f.Decl.Body, func(nd ast.Node) bool {
				if as, ok := nd.(*ast.AssignStmt); ok && len(as.Lhs) == 1 && len(as.Rhs) == 1 && as.Tok == token.ASSIGN && accessPath(pk, as.Lhs[0]) == path {
					if i := paramIndexOf(f, as.Rhs[0]); i >= 0 && !paramAssigned(f, as.Rhs[0]) {
						pidx = i
					}
				}
				return true
			})
			if pidx < 0 {
				continue
			}
			sites, _ := c.callersOf(f)
			for _, cs := range sites {
				arg := argFor(cs, pidx)
				if arg == nil {
					continue
				}
				n++
				key := f.Name() + " <- " + cs.g.Name()
				ap := accessPath(cs.g.Pkg, arg)
				if ap == "" {
					r.Bad(rule, key, "the value handed to the setter ("+exprString(arg)+") is computed at the call: the test for the empty parameter, if any, was made on something else, and an empty result is stored as 'not set' - a second directive is then accepted", c.pos(cs.call.Pos()))
					continue
				}
				cf := buildCFG(cs.g.Decl.Body)
				okk := cf.establishedAt(cs.call, func(cond ast.Expr, trueEdge bool) bool {
					for _, a := range impliedAtoms(cond, trueEdge) {
						if b, ok := a.e.(*ast.BinaryExpr); ok && isEmptyStringLit(b.Y) && accessPath(cs.g.Pkg, b.X) == ap {
							if (b.Op == token.NEQ && a.holds) || (b.Op == token.EQL && !a.holds) {
								return true
							}
						}
					}
					return false
				}, func(nd ast.Node) bool {
					if as, ok := nd.(*ast.AssignStmt); ok {
						for _, l := range as.Lhs {
							if accessPath(cs.g.Pkg, l) == ap && as.Tok != token.DEFINE {
								return true
							}
						}
					}
					return false
				})
				if okk {
					r.Ok(rule, key, exprString(arg)+` != "" holds on every path to the call: the sentinel is never stored`, c.pos(cs.call.Pos()))
				} else {
					r.Bad(rule, key, "nothing establishes "+exprString(arg)+` != "" on every path to the call: an empty value is stored as 'not set' and a second directive is accepted`, c.pos(cs.call.Pos()))
				}
			}
		}
	}
	if n == 0 {
		r.Undecided(rule, "sites", "no setter with an empty-string sentinel found (Catalog.AddTitle and AddVersion used to match)", "")
	}
}

func isEmptyStringLit(e ast.Expr) bool {
	bl, ok := ast.Unparen(e).(*ast.BasicLit)
	return ok && bl.Kind == token.STRING && (bl.Value == `""` || bl.Value == "``")
}
