package rules

import (
	"go/ast"
	"go/token"
	"go/types"

	"golang.org/x/tools/go/packages"
)

// ruleEmptySentinel: some "only once" setters of the catalog have no flag of their own: `if c.Info.Title != "" {
// return NotUnique }; c.Info.Title = name` takes the empty string for "not set yet". That is a uniqueness test only
// as long as the value stored is never empty - a first directive that stores "" is forgotten, and a second one is
// accepted. The handlers of core refuse an empty parameter before they call the setter; the rule ties the two
// together: at every call of such a setter the argument is a variable (or field path) that a test on every path has
// shown to differ from "" - the very expression that is handed over, not something computed from it.
func (c *Ctx) ruleEmptySentinel(rule string) {
	r := c.R
	r.Rule(rule, "for every setter of package catalog that tells 'already set' by comparing a string field of the catalog with \"\" and then stores its string parameter there: at each call site in the library the argument is an expression e for which `e != \"\"` is established on every path to the call (edge facts over the CFG of the caller), so the stored value cannot be the sentinel and a second directive is always refused", 2)
	pk := c.P.Pkg("catalog")
	if pk == nil {
		r.Undecided(rule, "anchor", "package catalog not loaded", "")
		return
	}
	n := 0
	for _, f := range c.libFns() {
		if f.Pkg != pk || f.Decl.Recv == nil {
			continue
		}
		sig, _ := f.Obj.Type().(*types.Signature)
		if sig == nil || sig.Params().Len() < 1 {
			continue
		}
		// find: if <path> != "" { return <non-nil> }  ...  <path> = <param>
		for _, st := range f.Decl.Body.List {
			ifs, ok := st.(*ast.IfStmt)
			if !ok || ifs.Init != nil {
				continue
			}
			be, ok := ast.Unparen(ifs.Cond).(*ast.BinaryExpr)
			if !ok || (be.Op != token.NEQ && be.Op != token.EQL) || !isEmptyStringLit(be.Y) {
				continue
			}
			path := accessPath(pk, be.X)
			if path == "" {
				continue
			}
			if _, ok := ast.Unparen(be.X).(*ast.SelectorExpr); !ok {
				continue
			}
			pidx := -1
			ast.Inspect(f.Decl.Body, func(nd ast.Node) bool {
				if as, ok := nd.(*ast.AssignStmt); ok && len(as.Lhs) == 1 && len(as.Rhs) == 1 && as.Tok == token.ASSIGN && accessPath(pk, as.Lhs[0]) == path {
					if i := paramIndexOf(f, as.Rhs[0]); i >= 0 && !paramAssigned(f, as.Rhs[0]) {
						pidx = i
					}
				}
				return true
			})
			if pidx < 0 {
				continue
			}
			sites, _ := c.callersOf(f)
			for _, cs := range sites {
				arg := argFor(cs, pidx)
				if arg == nil {
					continue
				}
				n++
				key := f.Name() + " <- " + cs.g.Name()
				ap := accessPath(cs.g.Pkg, arg)
				if ap == "" {
					r.Bad(rule, key, "the value handed to the setter ("+exprString(arg)+") is computed at the call: the test for the empty parameter, if any, was made on something else, and an empty result is stored as 'not set' - a second directive is then accepted", c.pos(cs.call.Pos()))
					continue
				}
				cf := buildCFG(cs.g.Decl.Body)
				// the value may come from a helper that reads a required parameter: `v, je := required(d, "K")`
				var errObj types.Object
				if id, isId := ast.Unparen(arg).(*ast.Ident); isId {
					errObj, _, _ = c.requiredBy(cs.g, cs.g.Pkg.TypesInfo.Uses[id])
				}
				okk := cf.establishedAt(cs.call, func(cond ast.Expr, trueEdge bool) bool {
					if successEdge(cs.g.Pkg, cond, trueEdge, errObj) {
						return true
					}
					for _, a := range impliedAtoms(cond, trueEdge) {
						if b, ok := a.e.(*ast.BinaryExpr); ok && isEmptyStringLit(b.Y) && accessPath(cs.g.Pkg, b.X) == ap {
							if (b.Op == token.NEQ && a.holds) || (b.Op == token.EQL && !a.holds) {
								return true
							}
						}
					}
					return false
				}, func(nd ast.Node) bool {
					if as, ok := nd.(*ast.AssignStmt); ok {
						for _, l := range as.Lhs {
							if accessPath(cs.g.Pkg, l) == ap && as.Tok != token.DEFINE {
								return true
							}
						}
					}
					return false
				})
				if okk {
					r.Ok(rule, key, exprString(arg)+` != "" holds on every path to the call: the sentinel is never stored`, c.pos(cs.call.Pos()))
				} else {
					r.Bad(rule, key, "nothing establishes "+exprString(arg)+` != "" on every path to the call: an empty value is stored as 'not set' and a second directive is accepted`, c.pos(cs.call.Pos()))
				}
			}
		}
	}
	if n == 0 {
		r.Undecided(rule, "sites", "no setter with an empty-string sentinel found (Catalog.AddTitle and AddVersion used to match)", "")
	}
}

func isEmptyStringLit(e ast.Expr) bool {
	bl, ok := ast.Unparen(e).(*ast.BasicLit)
	return ok && bl.Kind == token.STRING && (bl.Value == `""` || bl.Value == "``")
}

// nonEmptyOnSuccess: h returns (string, error-like); on every return whose second result is the nil literal the first
// result is an expression for which `!= ""` is established at that return (a helper that reads a required
// parameter and refuses the empty one). Returns the index of the parameter that is handed to NamedParameter as key
// (-1 if the value does not come from NamedParameter of a parameter key).
func (c *Ctx) nonEmptyOnSuccess(h *Fn) (ok bool, keyParam int) {
	keyParam = -1
	sig, _ := h.Obj.Type().(*types.Signature)
	if sig == nil || sig.Results().Len() != 2 {
		return false, -1
	}
	if b, isB := sig.Results().At(0).Type().Underlying().(*types.Basic); !isB || b.Kind() != types.String {
		return false, -1
	}
	cf := buildCFG(h.Decl.Body)
	n := 0
	good := true
	ast.Inspect(h.Decl.Body, func(nd ast.Node) bool {
		if _, isLit := nd.(*ast.FuncLit); isLit {
			return false
		}
		ret, isRet := nd.(*ast.ReturnStmt)
		if !isRet {
			return true
		}
		if len(ret.Results) != 2 {
			good = false
			return true
		}
		if !isNil(h.Pkg, ret.Results[1]) {
			return true
		}
		n++
		ap := accessPath(h.Pkg, ret.Results[0])
		if ap == "" {
			good = false
			return true
		}
		if !cf.establishedAt(ret, func(cond ast.Expr, trueEdge bool) bool {
			for _, a := range impliedAtoms(cond, trueEdge) {
				if b, isB := a.e.(*ast.BinaryExpr); isB && isEmptyStringLit(b.Y) && accessPath(h.Pkg, b.X) == ap {
					if (b.Op == token.NEQ && a.holds) || (b.Op == token.EQL && !a.holds) {
						return true
					}
				}
			}
			return false
		}, nil) {
			good = false
		}
		// where the value comes from
		if id, isId := ast.Unparen(ret.Results[0]).(*ast.Ident); isId {
			obj := h.Pkg.TypesInfo.Uses[id]
			ast.Inspect(h.Decl.Body, func(m ast.Node) bool {
				if as, isAs := m.(*ast.AssignStmt); isAs && len(as.Lhs) == 1 && len(as.Rhs) == 1 {
					if lid, isL := as.Lhs[0].(*ast.Ident); isL && h.Pkg.TypesInfo.ObjectOf(lid) == obj {
						if call, isCall := ast.Unparen(as.Rhs[0]).(*ast.CallExpr); isCall && len(call.Args) == 1 {
							if cal := callee(h.Pkg, call); cal != nil && cal.Name() == "NamedParameter" {
								keyParam = paramIndexOf(h, call.Args[0])
							}
						}
					}
				}
				return true
			})
		}
		return true
	})
	return good && n > 0, keyParam
}

// requiredBy: the local `obj` of g is defined by `obj, e := h(...)` with a helper that is non-empty on success;
// returns the error variable that tells success and the call.
func (c *Ctx) requiredBy(g *Fn, obj types.Object) (errObj types.Object, call *ast.CallExpr, keyParam int) {
	keyParam = -1
	ast.Inspect(g.Decl.Body, func(nd ast.Node) bool {
		as, ok := nd.(*ast.AssignStmt)
		if !ok || len(as.Lhs) != 2 || len(as.Rhs) != 1 || errObj != nil {
			return true
		}
		l0, ok0 := as.Lhs[0].(*ast.Ident)
		l1, ok1 := as.Lhs[1].(*ast.Ident)
		if !ok0 || !ok1 || g.Pkg.TypesInfo.ObjectOf(l0) != obj {
			return true
		}
		cl, isCall := ast.Unparen(as.Rhs[0]).(*ast.CallExpr)
		if !isCall {
			return true
		}
		h := c.fnOf(callee(g.Pkg, cl))
		if h == nil {
			return true
		}
		if ok, kp := c.nonEmptyOnSuccess(h); ok {
			errObj, call, keyParam = g.Pkg.TypesInfo.ObjectOf(l1), cl, kp
		}
		return true
	})
	return
}

// successEdge: the condition edge says that `e` is nil.
func successEdge(pk *packages.Package, cond ast.Expr, trueEdge bool, e types.Object) bool {
	if e == nil {
		return false
	}
	for _, a := range impliedAtoms(cond, trueEdge) {
		if b, isB := a.e.(*ast.BinaryExpr); isB && isNil(pk, b.Y) {
			if id, isId := ast.Unparen(b.X).(*ast.Ident); isId && pk.TypesInfo.Uses[id] == e {
				if (b.Op == token.EQL && a.holds) || (b.Op == token.NEQ && !a.holds) {
					return true
				}
			}
		}
	}
	return false
}
