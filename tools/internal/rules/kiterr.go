package rules

import (
	"fmt"
	"go/ast"
	"go/token"
	"go/types"
	"strings"

	"golang.org/x/tools/go/cfg"
	"golang.org/x/tools/go/packages"
)

// ---------- the message of a schema-library error, not its rendering ----------
//
// The schema library reports a fault as a kit.Error: Message() is the message of the class ("Type "@x" not found"),
// Error() is a rendering for a terminal - "ERROR (code 1302): ...\n\tin line 1 on file \n\t> @x\n\t--^" - with a
// line, a file name and a quote of the library's own, which are not the project's. The handlers of the module turn
// such an error into a located error of the module through errors.As(err, &e) and e.Message(). A handler that hands
// err.Error() to the constructor instead puts the rendering, foreign location included, into Msg: the same fault has
// another message at that site than everywhere else.
//
// Decided here by a may-analysis on the CFG of every function: a variable of type error "may hold a schema-library
// error" after an assignment from a call that may return one (summaries, fixpoint over the module; every
// error-returning function of the schema library is taken to return one), and no longer on the false edge of
// errors.As(v, &<kit.Error>) or the nil edges of a comparison with nil.

type kitErrAnalysis struct {
	c       *Ctx
	summary map[*types.Func]bool
	depth   int
}

func (c *Ctx) kitErr() *kitErrAnalysis {
	if c.kitErrMemo != nil {
		return c.kitErrMemo
	}
	k := &kitErrAnalysis{c: c, summary: map[*types.Func]bool{}}
	fns := c.libFns()
	for changed := true; changed; {
		changed = false
		for _, f := range fns {
			if k.summary[f.Obj] {
				continue
			}
			if k.returnsKit(f.Pkg, f.Decl.Type, f.Decl.Body) {
				k.summary[f.Obj] = true
				changed = true
			}
		}
	}
	c.kitErrMemo = k
	return k
}

func isPlainError(t types.Type) bool {
	if t == nil {
		return false
	}
	n, ok := t.(*types.Named)
	return ok && n.Obj().Pkg() == nil && n.Obj().Name() == "error"
}

func isKitErrorType(t types.Type) bool {
	if t == nil {
		return false
	}
	if p, ok := t.(*types.Pointer); ok {
		t = p.Elem()
	}
	s := namedType(t)
	return strings.HasSuffix(s, "jsight-schema-core/kit.Error") || strings.HasSuffix(s, "jsight-schema-core/kit.JSchemaError")
}

// errResultIndex: the index of the last result when it is of type error (-1 otherwise).
func errResultIndex(sig *types.Signature) int {
	if sig == nil || sig.Results().Len() == 0 {
		return -1
	}
	i := sig.Results().Len() - 1
	if isPlainError(sig.Results().At(i).Type()) {
		return i
	}
	return -1
}

// callMayKit: may the error result of this call be an error of the schema library?
func (k *kitErrAnalysis) callMayKit(pk *packages.Package, call *ast.CallExpr) bool {
	// a conversion or a call whose result is not an error
	tv := pk.TypesInfo.TypeOf(call)
	if tv == nil {
		return false
	}
	hasErr := false
	switch t := tv.(type) {
	case *types.Tuple:
		hasErr = t.Len() > 0 && isPlainError(t.At(t.Len()-1).Type())
	default:
		hasErr = isPlainError(t)
	}
	if !hasErr {
		return false
	}
	res := false
	// the function literals handed to the call return through it (Each(func(...) error { ... }))
	for _, a := range call.Args {
		if lit, ok := ast.Unparen(a).(*ast.FuncLit); ok {
			if k.returnsKit(pk, lit.Type, lit.Body) {
				res = true
			}
		}
	}
	cal := callee(pk, call)
	if cal == nil {
		return res // a call through a function value: what it returns is judged where the value is made
	}
	if cal.Pkg() == nil {
		return res
	}
	path := cal.Pkg().Path()
	switch {
	case strings.Contains(path, "jsight-schema-core"):
		return true
	case strings.HasPrefix(path, "github.com/jsightapi/jsight-api-core"):
		return res || k.summary[cal.Origin()]
	}
	return res
}

// returnsKit: may a return statement of this body hand out a schema-library error as its error result?
func (k *kitErrAnalysis) returnsKit(pk *packages.Package, ft *ast.FuncType, body *ast.BlockStmt) bool {
	if body == nil || ft.Results == nil || len(ft.Results.List) == 0 {
		return false
	}
	last := ft.Results.List[len(ft.Results.List)-1]
	if !isPlainError(pk.TypesInfo.TypeOf(last.Type)) {
		return false
	}
	var named types.Object
	if len(last.Names) > 0 {
		named = pk.TypesInfo.Defs[last.Names[len(last.Names)-1]]
	}
	fc := buildCFG(body)
	res := false
	ast.Inspect(body, func(nd ast.Node) bool {
		if res {
			return false
		}
		if _, isLit := nd.(*ast.FuncLit); isLit {
			return false
		}
		ret, ok := nd.(*ast.ReturnStmt)
		if !ok {
			return true
		}
		if len(ret.Results) == 0 {
			if named != nil && k.mayKitAt(pk, fc, body, named, ret) {
				res = true
			}
			return true
		}
		e := ast.Unparen(ret.Results[len(ret.Results)-1])
		if len(ret.Results) == 1 && ft.Results.NumFields() > 1 {
			// return f(): the tuple of another call
			if call, ok := e.(*ast.CallExpr); ok && k.callMayKit(pk, call) {
				res = true
			}
			return true
		}
		if k.exprMayKit(pk, fc, body, e, ret) {
			res = true
		}
		return true
	})
	return res
}

func (k *kitErrAnalysis) exprMayKit(pk *packages.Package, fc *funcCFG, body *ast.BlockStmt, e ast.Expr, at ast.Node) bool {
	switch x := ast.Unparen(e).(type) {
	case *ast.CallExpr:
		return k.callMayKit(pk, x)
	case *ast.Ident:
		obj := pk.TypesInfo.Uses[x]
		if obj == nil {
			return false
		}
		if v, ok := obj.(*types.Var); ok && !v.IsField() && isPlainError(v.Type()) && body.Pos() <= at.Pos() {
			return k.mayKitAt(pk, fc, body, obj, at)
		}
	}
	return false
}

// mayKitAt: may the variable hold a schema-library error when control reaches `at`?
func (k *kitErrAnalysis) mayKitAt(pk *packages.Package, fc *funcCFG, body *ast.BlockStmt, v types.Object, at ast.Node) bool {
	tb, ti := fc.blockOf(at)
	if tb == nil {
		return true
	}
	// a parameter of type error may be anything: judged as "may" only for the module's own conversion helpers,
	// whose callers pass schema-library errors on purpose
	entry := false
	if v.Pos() < body.Pos() { // parameter or named result
		if vv, ok := v.(*types.Var); ok && vv.Parent() != nil && vv.Pos() < body.Pos() && k.isParam(pk, body, vv) {
			entry = k.paramMayKit(body, vv)
		}
	}
	blocks := fc.g.Blocks
	in := map[*cfg.Block]bool{}
	if len(blocks) == 0 {
		return entry
	}
	in[blocks[0]] = entry
	through := func(b *cfg.Block, upto int, val bool) bool {
		for i := 0; i < upto && i < len(b.Nodes); i++ {
			val = k.transfer(pk, b.Nodes[i], v, val)
		}
		return val
	}
	outOf := func(b *cfg.Block, edge int) bool {
		val := through(b, len(b.Nodes), in[b])
		if len(b.Succs) == 2 && len(b.Nodes) > 0 {
			if cond, ok := b.Nodes[len(b.Nodes)-1].(ast.Expr); ok {
				for _, a := range impliedAtoms(cond, edge == 0) {
					if k.clears(pk, a, v) {
						val = false
					}
				}
			}
		}
		return val
	}
	for changed := true; changed; {
		changed = false
		for _, b := range blocks {
			for i, s := range b.Succs {
				if outOf(b, i) && !in[s] {
					in[s] = true
					changed = true
				}
			}
		}
	}
	return through(tb, ti, in[tb])
}

// paramMayKit: may some caller hand a schema-library error to this parameter? Decided at the call sites when the
// function is a declared, unexported function of the library all of whose uses are calls (two levels); "may" otherwise.
func (k *kitErrAnalysis) paramMayKit(body *ast.BlockStmt, v *types.Var) bool {
	if k.depth > 2 {
		return true
	}
	var f *Fn
	for _, g := range k.c.libFns() {
		if g.Decl.Body == body {
			f = g
		}
	}
	if f == nil {
		return true // a function literal
	}
	idx := -1
	sig := f.Obj.Type().(*types.Signature)
	for i := 0; i < sig.Params().Len(); i++ {
		if sig.Params().At(i) == v {
			idx = i
		}
	}
	if idx < 0 {
		return true
	}
	sites, all := k.c.callersOf(f)
	if !all || len(sites) == 0 {
		return true
	}
	k.depth++
	defer func() { k.depth-- }()
	for _, cs := range sites {
		arg := argFor(cs, idx)
		if arg == nil {
			return true
		}
		// the innermost body (function or literal) that holds the call
		gb := cs.g.Decl.Body
		ast.Inspect(cs.g.Decl.Body, func(nd ast.Node) bool {
			if lit, ok := nd.(*ast.FuncLit); ok && lit.Body.Pos() <= cs.call.Pos() && cs.call.End() <= lit.Body.End() {
				gb = lit.Body
			}
			return true
		})
		if k.exprMayKit(cs.g.Pkg, buildCFG(gb), gb, arg, cs.call) {
			return true
		}
	}
	return false
}

func (k *kitErrAnalysis) isParam(pk *packages.Package, body *ast.BlockStmt, v *types.Var) bool {
	// parameters and named results are declared in the function scope that encloses the body scope
	sc := pk.TypesInfo.Scopes
	for n, s := range sc {
		if ft, ok := n.(*ast.FuncType); ok && s == v.Parent() {
			if ft.Params != nil {
				for _, f := range ft.Params.List {
					for _, nm := range f.Names {
						if pk.TypesInfo.Defs[nm] == types.Object(v) {
							return true
						}
					}
				}
			}
		}
	}
	return false
}

// transfer: the effect of one CFG node on "v may hold a schema-library error".
func (k *kitErrAnalysis) transfer(pk *packages.Package, n ast.Node, v types.Object, val bool) bool {
	set := func(lhs ast.Expr) bool {
		id, ok := ast.Unparen(lhs).(*ast.Ident)
		if !ok {
			return false
		}
		return pk.TypesInfo.ObjectOf(id) == v
	}
	switch x := n.(type) {
	case *ast.AssignStmt:
		if len(x.Rhs) == 1 && len(x.Lhs) > 1 {
			// tuple assignment from one call
			if set(x.Lhs[len(x.Lhs)-1]) {
				if call, ok := ast.Unparen(x.Rhs[0]).(*ast.CallExpr); ok {
					return k.callMayKit(pk, call)
				}
				return false
			}
			return val
		}
		for i, l := range x.Lhs {
			if i < len(x.Rhs) && set(l) {
				switch r := ast.Unparen(x.Rhs[i]).(type) {
				case *ast.CallExpr:
					val = k.callMayKit(pk, r)
				case *ast.Ident:
					// err = err2: not followed (none in the module); a copy keeps what it had
					if pk.TypesInfo.Uses[r] != v {
						val = true
						if isNil(pk, r) {
							val = false
						}
					}
				default:
					val = false
				}
			}
		}
	case *ast.DeclStmt:
		if gd, ok := x.Decl.(*ast.GenDecl); ok {
			for _, sp := range gd.Specs {
				if vs, ok := sp.(*ast.ValueSpec); ok {
					for i, nm := range vs.Names {
						if pk.TypesInfo.Defs[nm] == v {
							val = false
							if i < len(vs.Values) {
								if call, ok := ast.Unparen(vs.Values[i]).(*ast.CallExpr); ok {
									val = k.callMayKit(pk, call)
								}
							}
						}
					}
				}
			}
		}
	}
	return val
}

// clears: the condition atom, on this edge, says that v holds no schema-library error.
func (k *kitErrAnalysis) clears(pk *packages.Package, a condAtom, v types.Object) bool {
	switch x := a.e.(type) {
	case *ast.CallExpr:
		// errors.As(v, &e) is false, e a kit.Error
		cal := callee(pk, x)
		if cal == nil || cal.Pkg() == nil || cal.Pkg().Path() != "errors" || cal.Name() != "As" || len(x.Args) != 2 || a.holds {
			return false
		}
		id, ok := ast.Unparen(x.Args[0]).(*ast.Ident)
		if !ok || pk.TypesInfo.Uses[id] != v {
			return false
		}
		return isKitErrorType(pk.TypesInfo.TypeOf(x.Args[1]))
	case *ast.BinaryExpr:
		id, ok := ast.Unparen(x.X).(*ast.Ident)
		if !ok || pk.TypesInfo.Uses[id] != v || !isNil(pk, x.Y) {
			return false
		}
		return (x.Op == token.EQL && a.holds) || (x.Op == token.NEQ && !a.holds)
	}
	return false
}

// schemaErrorMessageExceptions: one site, confirmed by reading; the premise is checked on every run
// (enumCheckedByCallers), the exception lapses when it no longer holds.
var schemaErrorMessageExceptions = map[string]string{
	"catalog.(*Catalog).AddEnum | d.KeywordError(err.Error())": "latent: the error comes from (*enum.Enum).Values(), which re-reads the memoised result of the enum's one compilation (compileOnce); every call of AddEnum in the library hands over an enum whose Check() - the same compilation - has just succeeded (the failing case is returned through jschemaToJAPIError before), so the error is nil here",
}

// enumCheckedByCallers: every call of f in the library passes, for each parameter of type *enum.Enum, a value whose
// Check() result was tested on the way (a failing Check returns before the call).
func (c *Ctx) enumCheckedByCallers(f *Fn) bool {
	sites, _ := c.callersOf(f)
	if len(sites) == 0 {
		return false
	}
	sig := f.Obj.Type().(*types.Signature)
	for _, cs := range sites {
		gfc := c.cfgOf(cs.g)
		for i := 0; i < sig.Params().Len(); i++ {
			if !strings.HasSuffix(namedType(derefType(sig.Params().At(i).Type())), "rules/enum.Enum") {
				continue
			}
			arg := argFor(cs, i)
			if arg == nil {
				return false
			}
			want := exprString(ast.Unparen(arg))
			checked := false
			ast.Inspect(cs.g.Decl.Body, func(nd ast.Node) bool {
				ifs, ok := nd.(*ast.IfStmt)
				if !ok || !returnsNonNilError(cs.g.Pkg, ifs.Body.List) {
					return true
				}
				// if err := <arg>.Check(); err != nil { return ... }
				as, ok := ifs.Init.(*ast.AssignStmt)
				if !ok || len(as.Rhs) != 1 {
					return true
				}
				call, ok := ast.Unparen(as.Rhs[0]).(*ast.CallExpr)
				if !ok {
					return true
				}
				sel, ok := ast.Unparen(call.Fun).(*ast.SelectorExpr)
				if !ok || sel.Sel.Name != "Check" || exprString(ast.Unparen(sel.X)) != want {
					return true
				}
				be, ok := ast.Unparen(ifs.Cond).(*ast.BinaryExpr)
				if !ok || be.Op != token.NEQ || !isNil(cs.g.Pkg, be.Y) {
					return true
				}
				if gfc.dominatedBy(cs.call, ifs.Cond) && ifs.End() <= cs.call.Pos() {
					checked = true
				}
				return true
			})
			if !checked {
				return false
			}
		}
	}
	return true
}

func derefType(t types.Type) types.Type {
	if p, ok := t.(*types.Pointer); ok {
		return p.Elem()
	}
	return t
}

// ruleSchemaErrorMessage: no constructor of a located error is given <err>.Error() of an error that may be a
// schema-library error.
func (c *Ctx) ruleSchemaErrorMessage(rule string) {
	r := c.R
	r.Rule(rule, "the text handed to a constructor of a located error (*jerr.JApiError) is never <err>.Error() of an error that may be a schema-library error (kit.Error): its Error() is a rendering with a line, a file name and a quote of the library's own; the message of the class is Message(), reached through errors.As. Decided by a may-analysis over the CFG (assignments from calls that may return such an error - every error-returning function of the schema library, and the module's functions that hand one on, by fixpoint; cleared on the false edge of errors.As(err, &<kit.Error>) and on the nil edges)", 20)
	k := c.kitErr()
	n := 0
	for _, f := range c.libFns() {
		pk := f.Pkg
		// function literals have their own CFG
		type scope struct {
			body *ast.BlockStmt
			fc   *funcCFG
		}
		scopes := []scope{{f.Decl.Body, nil}}
		ast.Inspect(f.Decl.Body, func(nd ast.Node) bool {
			if lit, ok := nd.(*ast.FuncLit); ok {
				scopes = append(scopes, scope{lit.Body, nil})
			}
			return true
		})
		innermost := func(nd ast.Node) *scope {
			var best *scope
			for i := range scopes {
				b := scopes[i].body
				if b.Pos() <= nd.Pos() && nd.End() <= b.End() && (best == nil || b.End()-b.Pos() < best.body.End()-best.body.Pos()) {
					best = &scopes[i]
				}
			}
			return best
		}
		ast.Inspect(f.Decl.Body, func(nd ast.Node) bool {
			call, ok := nd.(*ast.CallExpr)
			if !ok {
				return true
			}
			t := pk.TypesInfo.TypeOf(call)
			if t == nil || !isJApiErrorPtr(t) {
				return true
			}
			for _, a := range call.Args {
				ac, ok := ast.Unparen(a).(*ast.CallExpr)
				if !ok || len(ac.Args) != 0 {
					continue
				}
				sel, ok := ast.Unparen(ac.Fun).(*ast.SelectorExpr)
				if !ok || sel.Sel.Name != "Error" {
					continue
				}
				id, ok := ast.Unparen(sel.X).(*ast.Ident)
				if !ok || !isPlainError(pk.TypesInfo.TypeOf(id)) {
					continue
				}
				obj := pk.TypesInfo.Uses[id]
				if obj == nil {
					continue
				}
				n++
				sc := innermost(call)
				if sc.fc == nil {
					sc.fc = buildCFG(sc.body)
				}
				key := fmt.Sprintf("%s | %s(%s)", f.Name(), exprString(call.Fun), exprString(a))
				if why, isExc := schemaErrorMessageExceptions[key]; isExc && c.enumCheckedByCallers(f) {
					r.Except(key, why)
					r.Ok(rule, key, "named exception: "+why, c.pos(call.Pos()))
					continue
				}
				if k.mayKitAt(pk, sc.fc, sc.body, obj, call) {
					r.Bad(rule, key, "the rendering of a schema-library error (\"ERROR (code N): ...\\n\\tin line 1 on file ...\") can become the message of the located error: the same fault has another message here than at the sites that go through errors.As and Message(), and the message carries a line and a file name that are not the project's", c.pos(call.Pos()))
				} else {
					r.Ok(rule, key, "the error cannot be a schema-library error here (made by the module, or tested with errors.As before)", c.pos(call.Pos()))
				}
			}
			return true
		})
	}
	if n < 20 {
		r.Undecided(rule, "sites", fmt.Sprintf("only %d constructors given <err>.Error() found", n), "")
	}
}

// ---------- an error of a user type's schema is located in the type the library blames ----------

// ruleBlamedType: Check() of the schema of a user type also checks the types it uses; when the fault sits in one of
// those, the schema library says which (IncorrectUserType()) and its index points into the body of THAT type. A
// conversion that adds the index to the body of the type being checked yields an index in another directive - or
// behind the end of the file, where building the location has no line to quote.
func (c *Ctx) ruleBlamedType(rule string) {
	r := c.R
	r.Rule(rule, "in package core, every function that turns the error of Check() on the schema of a user type (a receiver whose static type is the schema interface of the library or one of its two notations - not an exchange schema of the catalog; directly, through a function that returns such an error, or as an error parameter that some caller fills with one) into an error located by an index into a body (jschemaToJAPIError / BodyErrorIndex) asks the error which type it blames (IncorrectUserType() on the kit.Error unwrapped from that error) before it chooses the directive: the index of the schema library counts from the body of the blamed type", 2)
	pkc := c.P.Pkg("core")
	if pkc == nil {
		r.Undecided(rule, "anchor", "package core not loaded", "")
		return
	}
	isSchemaCheck := func(pk *packages.Package, call *ast.CallExpr) bool {
		cal := callee(pk, call)
		if cal == nil || cal.Name() != "Check" || cal.Pkg() == nil || !strings.Contains(cal.Pkg().Path(), "jsight-schema-core") {
			return false
		}
		sel, ok := ast.Unparen(call.Fun).(*ast.SelectorExpr)
		if !ok {
			return false
		}
		// by the static type of the receiver expression: the schema interface of the library and its two notations are
		// what the table of user types holds; the exchange schemas of the catalog (a body, checked against types that
		// have been checked before) and the enum rule are something else
		rt := namedType(derefType(pk.TypesInfo.TypeOf(sel.X)))
		return strings.HasSuffix(rt, "jsight-schema-core.Schema") || strings.HasSuffix(rt, "jschema.JSchema") || strings.HasSuffix(rt, "regex.RSchema")
	}
	// functions of core that return the error of such a Check unchanged
	returnsCheck := map[*types.Func]bool{}
	var coreFns []*Fn
	for _, f := range c.libFns() {
		if f.Pkg == pkc {
			coreFns = append(coreFns, f)
		}
	}
	for _, f := range coreFns {
		if errResultIndex(f.Obj.Type().(*types.Signature)) < 0 {
			continue
		}
		ast.Inspect(f.Decl.Body, func(nd ast.Node) bool {
			ret, ok := nd.(*ast.ReturnStmt)
			if !ok || len(ret.Results) == 0 {
				return true
			}
			if call, ok := ast.Unparen(ret.Results[len(ret.Results)-1]).(*ast.CallExpr); ok && isSchemaCheck(f.Pkg, call) {
				returnsCheck[f.Obj] = true
			}
			return true
		})
	}
	fromCheck := func(f *Fn, call *ast.CallExpr) bool {
		if isSchemaCheck(f.Pkg, call) {
			return true
		}
		cal := callee(f.Pkg, call)
		return cal != nil && returnsCheck[cal.Origin()]
	}
	// errVarsFromCheck: the error variables of f that are assigned from such a call
	errVarsFromCheck := func(f *Fn) map[types.Object]ast.Node {
		out := map[types.Object]ast.Node{}
		ast.Inspect(f.Decl.Body, func(nd ast.Node) bool {
			as, ok := nd.(*ast.AssignStmt)
			if !ok || len(as.Rhs) != 1 {
				return true
			}
			call, ok := ast.Unparen(as.Rhs[0]).(*ast.CallExpr)
			if !ok || !fromCheck(f, call) {
				return true
			}
			if id, ok := as.Lhs[len(as.Lhs)-1].(*ast.Ident); ok {
				if obj := f.Pkg.TypesInfo.ObjectOf(id); obj != nil {
					out[obj] = call
				}
			}
			return true
		})
		return out
	}
	conv := c.P.LookupFunc("core", "jschemaToJAPIError")
	bei := c.P.LookupFunc("directive", "Directive.BodyErrorIndex")
	// the error parameters of helper functions that some caller fills with a Check error (one level, to a fixpoint)
	paramFromCheck := map[types.Object]bool{}
	for changed := true; changed; {
		changed = false
		for _, g := range coreFns {
			vars := errVarsFromCheck(g)
			ast.Inspect(g.Decl.Body, func(nd ast.Node) bool {
				call, ok := nd.(*ast.CallExpr)
				if !ok {
					return true
				}
				cal := callee(g.Pkg, call)
				if cal == nil || (conv != nil && cal == conv) {
					return true
				}
				h := c.fnOf(cal)
				if h == nil || h.Pkg != pkc || h.Decl == nil {
					return true
				}
				for i, a := range call.Args {
					id, ok := ast.Unparen(a).(*ast.Ident)
					if !ok {
						continue
					}
					obj := g.Pkg.TypesInfo.Uses[id]
					if obj == nil || (vars[obj] == nil && !paramFromCheck[obj]) {
						continue
					}
					if po := paramObjAt(h, i); po != nil && !paramFromCheck[po] {
						paramFromCheck[po] = true
						changed = true
					}
				}
				return true
			})
		}
	}
	n := 0
	perFn := map[string]int{}
	for _, f := range coreFns {
		if conv != nil && f.Obj == conv {
			continue
		}
		pk := f.Pkg
		vars := errVarsFromCheck(f)
		tainted := func(obj types.Object) bool { return obj != nil && (vars[obj] != nil || paramFromCheck[obj]) }
		// kit.Error variables unwrapped from a tainted error: errors.As(err, &e)
		unwrapped := map[types.Object]bool{}
		ast.Inspect(f.Decl.Body, func(nd ast.Node) bool {
			call, ok := nd.(*ast.CallExpr)
			if !ok || len(call.Args) != 2 {
				return true
			}
			cal := callee(pk, call)
			if cal == nil || cal.Pkg() == nil || cal.Pkg().Path() != "errors" || cal.Name() != "As" {
				return true
			}
			id, ok := ast.Unparen(call.Args[0]).(*ast.Ident)
			if !ok || !tainted(pk.TypesInfo.Uses[id]) {
				return true
			}
			if u, ok := ast.Unparen(call.Args[1]).(*ast.UnaryExpr); ok && u.Op == token.AND {
				if eid, ok := ast.Unparen(u.X).(*ast.Ident); ok {
					unwrapped[pk.TypesInfo.Uses[eid]] = true
				}
			}
			return true
		})
		asks := false
		ast.Inspect(f.Decl.Body, func(nd ast.Node) bool {
			call, ok := nd.(*ast.CallExpr)
			if !ok {
				return true
			}
			sel, ok := ast.Unparen(call.Fun).(*ast.SelectorExpr)
			if !ok || sel.Sel.Name != "IncorrectUserType" {
				return true
			}
			if id, ok := ast.Unparen(sel.X).(*ast.Ident); ok && unwrapped[pk.TypesInfo.Uses[id]] {
				asks = true
			}
			return true
		})
		ast.Inspect(f.Decl.Body, func(nd ast.Node) bool {
			call, ok := nd.(*ast.CallExpr)
			if !ok {
				return true
			}
			cal := callee(pk, call)
			site := ""
			switch {
			case cal != nil && conv != nil && cal == conv && len(call.Args) == 2:
				if id, ok := ast.Unparen(call.Args[0]).(*ast.Ident); ok && tainted(pk.TypesInfo.Uses[id]) {
					site = "jschemaToJAPIError(" + id.Name + ", ...)"
				}
			case cal != nil && bei != nil && cal == bei && len(call.Args) == 2:
				// BodyErrorIndex(e.Message(), e.Index()) with e unwrapped from a tainted error
				ast.Inspect(call.Args[1], func(m ast.Node) bool {
					if id, ok := m.(*ast.Ident); ok && unwrapped[pk.TypesInfo.Uses[id]] {
						site = "BodyErrorIndex(..., " + exprString(call.Args[1]) + ")"
					}
					return true
				})
			}
			if site == "" {
				return true
			}
			n++
			perFn[f.Name()+site]++
			key := fmt.Sprintf("%s | %s #%d", f.Name(), site, perFn[f.Name()+site])
			if why := c.redirectGatedBy(f, call); asks && why != "" {
				r.Bad(rule, key, "the error is located in the type the library blames only when "+why+" holds as well: in the other case the index that counts from the blamed type's body is added to the body of the type being checked", c.pos(call.Pos()))
				return true
			}
			if asks {
				r.Ok(rule, key, "the function asks the error which user type it blames (IncorrectUserType()) before it chooses the directive", c.pos(call.Pos()))
			} else {
				r.Bad(rule, key, "the error of a user type's Check() is located in the body of the type that was being checked although the fault may sit in a type it uses: the schema library's index counts from the body of the type it blames (IncorrectUserType()), so the location lands in another directive or behind the end of the file (Line 0, empty quote)", c.pos(call.Pos()))
			}
			return true
		})
	}
	if n < 2 {
		r.Undecided(rule, "sites", fmt.Sprintf("only %d conversions of a user type's Check() error found", n), "")
	}
}

// redirectGatedBy: the conversion `call` sits under conditions; when its directive argument is the one looked up by the
// blamed type's name (GetValue(<e>.IncorrectUserType())), every atom of those conditions must be about the blame itself
// (errors.As, a comparison of IncorrectUserType(), the nil test of the directive found). Returns the text of an atom
// that is about something else ("" when there is none, or when the call is not such a redirect).
func (c *Ctx) redirectGatedBy(f *Fn, call *ast.CallExpr) string {
	pk := f.Pkg
	if len(call.Args) != 2 {
		return ""
	}
	isBlameLookup := func(e ast.Expr) bool {
		found := false
		ast.Inspect(e, func(m ast.Node) bool {
			if sel, ok := m.(*ast.SelectorExpr); ok && sel.Sel.Name == "IncorrectUserType" {
				found = true
			}
			return !found
		})
		return found
	}
	dArg := ast.Unparen(call.Args[1])
	var dObj types.Object
	redirect := false
	if id, ok := dArg.(*ast.Ident); ok {
		dObj = pk.TypesInfo.Uses[id]
		ast.Inspect(f.Decl.Body, func(m ast.Node) bool {
			as, ok := m.(*ast.AssignStmt)
			if !ok {
				return true
			}
			for i, l := range as.Lhs {
				if lid, ok := l.(*ast.Ident); ok && pk.TypesInfo.ObjectOf(lid) == dObj && i < len(as.Rhs) && isBlameLookup(as.Rhs[i]) {
					redirect = true
				}
			}
			return true
		})
	} else if isBlameLookup(dArg) {
		redirect = true
	}
	if !redirect {
		return ""
	}
	stack := c.stackOf(f, call)
	for i := len(stack) - 1; i >= 0; i-- {
		ifs, ok := stack[i].(*ast.IfStmt)
		if !ok || !(ifs.Body.Pos() <= call.Pos() && call.End() <= ifs.Body.End()) {
			continue
		}
		for _, a := range impliedAtoms(ifs.Cond, true) {
			okAtom := false
			ast.Inspect(a.e, func(m ast.Node) bool {
				switch x := m.(type) {
				case *ast.CallExpr:
					if cal := callee(pk, x); cal != nil && cal.Pkg() != nil && cal.Pkg().Path() == "errors" && cal.Name() == "As" {
						okAtom = true
					}
				case *ast.SelectorExpr:
					if x.Sel.Name == "IncorrectUserType" {
						okAtom = true
					}
				case *ast.Ident:
					if dObj != nil && pk.TypesInfo.Uses[x] == dObj {
						okAtom = true
					}
				}
				return true
			})
			// a predicate helper of the library about the blame (blamesAnotherUserType(e, name))
			if call2, isCall := ast.Unparen(a.e).(*ast.CallExpr); isCall && !okAtom {
				if cal := callee(pk, call2); cal != nil {
					if g := c.fnOf(cal); g != nil && g.Decl != nil && g.Decl.Body != nil {
						ast.Inspect(g.Decl.Body, func(m ast.Node) bool {
							if sel, ok := m.(*ast.SelectorExpr); ok && sel.Sel.Name == "IncorrectUserType" {
								okAtom = true
							}
							return true
						})
					}
				}
			}
			if !okAtom {
				return "`" + exprString(a.e) + "`"
			}
		}
	}
	return ""
}
