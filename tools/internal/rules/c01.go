package rules

import (
	"fmt"
	"go/ast"
	"go/constant"
	"go/token"
	"go/types"
	"sort"
	"strings"

	"golang.org/x/tools/go/packages"
	"golang.org/x/tools/go/ssa"

	"jsverif/internal/prog"
	"jsverif/internal/ssaeval"
)

func init() { register("C01", propC01, false, false) }

func propC01(c *Ctx) {
	c.R.Explanation = "Decides, for every input, the absence of the crash and hang mechanisms that are visible in the shape of the module's code: (a) no explicit panic, unchecked type assertion, nil-able field/result dereference or constant index on a possibly empty value is reachable unguarded from the build entry points (each site is an obligation with a named discharge rule); recover() blocks assign named results; (b) the scanner automaton never pops an empty stack and every cycle consumes input; (c) every recursive component of the call graph and every non-range loop has a verified termination witness (macro recursion check included); (d) no closure run under a map lock re-enters the same map; include cycles are refused. Not decided: running time proportional to the input; panics, loops or stack use inside jsight-schema-core (trusted behind its own recover wrappers); arithmetic overflow."
	thorough := c.R.Tier == "thorough"
	if m := c.E1Base(); m != nil {
		c.ruleC01Scanner(m, thorough)
	}
	reach := c.reachableLib(c.ssaRoots(buildRoots...), nil)
	c.R.Stats["build_reachable_functions"] = len(reach)
	c.rulePanicInventory("C01-PANIC-INVENTORY", reach, "build entry points (kit.NewJapi, kit.NewJApiFromFile, core.NewJApiCore, BuildCatalog)")
	c.ruleRecoverDiscipline()
	c.ruleNilable("C01-NILABLE-DEREF", reach)
	c.ruleEmbeddedNil("C01-EMBEDDED-NIL", reach)
	c.ruleGetValue("C01-GETVALUE-NIL", reach)
	c.ruleErrBranchValue("C01-ERR-BRANCH-VALUE", reach)
	c.ruleConstIndex("C01-CONST-INDEX", reach)
	c.ruleLineBounds("C01-LINE-BOUNDS")
	c.ruleDepRawPanic("C01-DEP-RAW-PANIC", reach)
	c.ruleC10Cycle()
	c.ruleRecursion(reach)
	c.ruleLoops(reach)
	c.ruleLockReentry()
	c.ruleC14CycleGuard()
	c.ruleCursorReadBounds()
	c.ruleRegexExampleProbed("C01-REGEX-EXAMPLE-PROBED")
	// a deferred recover covers the goroutine it runs in and no other
	c.ruleSequentialAs("C01-NO-GOROUTINES")
	c.ruleBuildRecoverBoundary()
	c.ruleSelfFormat("C01-SELF-FORMAT")
}

// ---------- helpers: which functions are (inside) reachable declared functions ----------

func reachDecls(reach map[*ssa.Function]bool) map[*types.Func]bool {
	out := map[*types.Func]bool{}
	for f := range reach {
		if o := declOf(f); o != nil {
			out[o.Origin()] = true
		}
	}
	return out
}

// recoverScoped: functions whose body has `defer func(){ ... recover() ... }()`.
func hasDeferredRecover(f *Fn) (*ast.FuncLit, bool) {
	for _, s := range f.Decl.Body.List {
		d, ok := s.(*ast.DeferStmt)
		if !ok {
			continue
		}
		fl, ok := d.Call.Fun.(*ast.FuncLit)
		if !ok {
			continue
		}
		found := false
		ast.Inspect(fl.Body, func(n ast.Node) bool {
			if call, ok := n.(*ast.CallExpr); ok {
				if id, ok := call.Fun.(*ast.Ident); ok && id.Name == "recover" {
					found = true
				}
			}
			return true
		})
		if found {
			return fl, true
		}
	}
	return nil, false
}

// recoverSetsNamedError: f has a deferred recover whose handler stores into one of f's named error results - as a
// function literal (`defer func() { if r := recover(); r != nil { err = ... } }()`), or as a declared function of the
// library that is handed the address of the result (`defer h(&err)`) and itself calls recover() and stores through that
// pointer. found: there is a deferred recover at all; sets: it stores into a named error result; at: its position.
func (c *Ctx) recoverSetsNamedError(f *Fn) (found, sets bool, at token.Pos) {
	named := map[types.Object]bool{}
	if f.Decl.Type.Results != nil {
		for _, fld := range f.Decl.Type.Results.List {
			for _, nm := range fld.Names {
				if o := f.Pkg.TypesInfo.Defs[nm]; o != nil && isErrorLike(o.Type()) {
					named[o] = true
				}
			}
		}
	}
	if fl, ok := hasDeferredRecover(f); ok {
		found, at = true, fl.Pos()
		ast.Inspect(fl.Body, func(n ast.Node) bool {
			if as, ok := n.(*ast.AssignStmt); ok {
				for _, l := range as.Lhs {
					if id, ok := l.(*ast.Ident); ok && named[f.Pkg.TypesInfo.Uses[id]] {
						sets = true
					}
				}
			}
			return true
		})
		if sets {
			return
		}
	}
	for _, st := range f.Decl.Body.List {
		d, ok := st.(*ast.DeferStmt)
		if !ok {
			continue
		}
		if _, isLit := d.Call.Fun.(*ast.FuncLit); isLit {
			continue
		}
		cal := callee(f.Pkg, d.Call)
		if cal == nil || !c.directRecoverFns()[cal] {
			continue
		}
		found = true
		if at == token.NoPos {
			at = d.Pos()
		}
		h := c.fnOf(cal)
		if h == nil || h.Decl == nil {
			continue
		}
		for i, a := range d.Call.Args {
			u, ok := ast.Unparen(a).(*ast.UnaryExpr)
			if !ok || u.Op != token.AND {
				continue
			}
			id, ok := ast.Unparen(u.X).(*ast.Ident)
			if !ok || !named[f.Pkg.TypesInfo.Uses[id]] {
				continue
			}
			po := paramObjAt(h, i)
			if po == nil {
				continue
			}
			ast.Inspect(h.Decl.Body, func(n ast.Node) bool {
				if as, ok := n.(*ast.AssignStmt); ok {
					for _, l := range as.Lhs {
						if star, ok := ast.Unparen(l).(*ast.StarExpr); ok {
							if pid, ok := ast.Unparen(star.X).(*ast.Ident); ok && h.Pkg.TypesInfo.Uses[pid] == po {
								sets, at = true, d.Pos()
							}
						}
					}
				}
				return true
			})
		}
	}
	return
}

// ---------- panic inventory ----------

// panicExceptions: sites the discharge rules cannot handle although reading shows they are safe.
var panicExceptions = map[string]string{
	"core.adoptError | panic":                 "reached only if an error that is not a *jerr.JApiError flows in; every caller passes the result of an Each/closure over handlers that return *jerr.JApiError or nil (checked by the closure-result discharge of the same rule at the call sites is not possible through errors.As, kept as a reasoned exception)",
	"catalog.(ObjectBuilder).AddType | panic": "jschema.FromRSchema fails only if the regex schema does not compile; regex user types were Check()ed by compileUserTypes before any path variable is built (phase order verified by C01-RECURSION dependency pre-pass)",
}

// panicOfDeadError: panic(err) where err is the error of strconv.ParseBool applied to the ScalarValue of the rule
// obtained by Get("optional") from a rule collection of a compiled schema. jsight-schema-core accepts only the literals
// true and false as the value of the rule `optional` when it compiles the schema (the AST exists, so it compiled):
// ParseBool cannot fail there. The discharge names the operation, not the function it happens to stand in.
func (c *Ctx) panicOfDeadError(f *Fn, call *ast.CallExpr) string {
	if len(call.Args) != 1 {
		return ""
	}
	pk := f.Pkg
	pc, k := definingCall(f, call.Args[0])
	if pc == nil {
		// err declared first (`var err error`) and assigned once by the call: isOptional, err = strconv.ParseBool(..)
		id := identOf(call.Args[0])
		if id == nil {
			return ""
		}
		obj := pk.TypesInfo.Uses[id]
		n := 0
		ast.Inspect(f.Decl.Body, func(nd ast.Node) bool {
			if as, ok := nd.(*ast.AssignStmt); ok && len(as.Rhs) == 1 {
				for i, l := range as.Lhs {
					if lid := identOf(l); lid != nil && objOf(pk, lid) == obj {
						n++
						if cl, ok := ast.Unparen(as.Rhs[0]).(*ast.CallExpr); ok {
							pc, k = cl, i
						}
					}
				}
			}
			return true
		})
		if n != 1 {
			return ""
		}
	}
	cal := callee(pk, pc)
	if cal == nil || cal.Pkg() == nil || cal.Pkg().Path()+"."+cal.Name() != "strconv.ParseBool" || k != 1 || len(pc.Args) != 1 {
		return ""
	}
	sel, ok := ast.Unparen(pc.Args[0]).(*ast.SelectorExpr)
	if !ok || sel.Sel.Name != "ScalarValue" {
		return ""
	}
	gc, gk := definingCall(f, sel.X)
	if gc == nil || gk != 0 || len(gc.Args) != 1 {
		return ""
	}
	if g := callee(pk, gc); g == nil || g.Name() != "Get" {
		return ""
	}
	if key, isStr := constString(pk, gc.Args[0]); !isStr || key != "optional" {
		return ""
	}
	return "the error of strconv.ParseBool on the value of the schema rule `optional`: jsight-schema-core accepts only true/false for this rule when it compiles the schema (the AST in hand exists, so it compiled); the branch is dead"
}

func (c *Ctx) rulePanicInventory(rule string, reach map[*ssa.Function]bool, rootsDesc string) {
	r := c.R
	r.Rule(rule, "every explicit panic(...) and every single-result type assertion in library functions reachable from the "+rootsDesc+" is discharged by: default of an exhaustive switch over a module enum; scanner-automaton proof (empty-stack panics); keyed-pair agreement + Has-before-GetValue (interaction map); closure-result type flow; dominating comma-ok; a function-level recover that assigns a named result; or a named exception", 10)
	decls := reachDecls(reach)
	for _, f := range c.libFns() {
		if !decls[f.Obj] {
			continue
		}
		pk := f.Pkg
		_, recovers := hasDeferredRecover(f)
		inspectWithStack(f.Decl.Body, func(n ast.Node, stack []ast.Node) bool {
			switch x := n.(type) {
			case *ast.CallExpr:
				id, ok := x.Fun.(*ast.Ident)
				if !ok || id.Name != "panic" {
					return true
				}
				if _, isB := pk.TypesInfo.Uses[id].(*types.Builtin); !isB {
					return true
				}
				key := f.Name() + " | panic"
				where := c.pos(x.Pos())
				switch {
				case recovers:
					r.Ok(rule, key, "inside a function with a deferred recover", where)
				case c.exhaustiveDefault(pk, x, stack) != "":
					r.Ok(rule, key, c.exhaustiveDefault(pk, x, stack), where)
				case c.enumRangeGuard(pk, stack) != "":
					r.Ok(rule, key, c.enumRangeGuard(pk, stack), where)
				case f.Pkg.PkgPath == prog.ModulePath+"/scanner" && c.emptyQueueGuard(f, stack):
					r.Ok(rule, key+" ("+recvName(f.Obj)+")", "unreachable: the automaton analysis shows no pop of an empty step stack, no unmatched End event and no read of an empty event queue (C01-PDS-UNDERFLOW)", where)
				case c.panicOfDeadError(f, x) != "":
					r.Ok(rule, key, c.panicOfDeadError(f, x), where)
				default:
					if why, ok := panicExceptions[key]; ok {
						r.Ok(rule, key, "named exception: "+why, where)
						r.Except(key, why)
					} else {
						r.Bad(rule, key, "an explicit panic is reachable from the "+rootsDesc+" and no discharge rule applies", where)
					}
				}
			case *ast.TypeAssertExpr:
				if x.Type == nil {
					return true // type switch
				}
				// comma-ok?
				if len(stack) > 0 {
					switch p := stack[len(stack)-1].(type) {
					case *ast.AssignStmt:
						if len(p.Lhs) == 2 && len(p.Rhs) == 1 && p.Rhs[0] == ast.Expr(x) {
							return true
						}
					case *ast.ValueSpec:
						if len(p.Names) == 2 {
							return true
						}
					}
				}
				key := fmt.Sprintf("%s | %s.(%s)", f.Name(), assertOperandKey(pk, x.X), exprString(x.Type))
				where := c.pos(x.Pos())
				if recovers {
					r.Ok(rule, key, "inside a function with a deferred recover", where)
					return true
				}
				if why := c.dischargeAssertion(f, x, stack); why != "" {
					r.Ok(rule, key, why, where)
				} else {
					r.Bad(rule, key, "an unchecked type assertion is reachable from the "+rootsDesc+": it panics if the dynamic type differs (or the interface is nil)", where)
				}
			}
			return true
		})
	}
}

func recvName(f *types.Func) string {
	if sig, ok := f.Type().(*types.Signature); ok && sig.Recv() != nil {
		return namedType(sig.Recv().Type())[strings.LastIndex(namedType(sig.Recv().Type()), ".")+1:]
	}
	return ""
}

func assertOperandKey(pk *packages.Package, e ast.Expr) string {
	s := exprString(e)
	if len(s) > 60 {
		s = s[:60]
	}
	return s
}

// exhaustiveDefault: the panic is the default of a switch whose tag has a module enum type and every constant of that type has a case.
func (c *Ctx) exhaustiveDefault(pk *packages.Package, call *ast.CallExpr, stack []ast.Node) string {
	for i := len(stack) - 1; i >= 0; i-- {
		cc, ok := stack[i].(*ast.CaseClause)
		if !ok {
			continue
		}
		if cc.List != nil || i < 2 {
			return ""
		}
		sw, ok := stack[i-2].(*ast.SwitchStmt)
		if !ok || sw.Tag == nil {
			return ""
		}
		return c.switchExhaustive(pk, sw)
	}
	return ""
}

// emptyQueueGuard: a method of the scanner's event stack or of the Scanner itself panics under `if len(<its slice>) == 0`
// (directly or through a local that holds the length): the "reading from empty stack / queue" guards, whose
// unreachability is decided on the automaton (C01-PDS-UNDERFLOW) - whatever the method is called today.
func (c *Ctx) emptyQueueGuard(f *Fn, stack []ast.Node) bool {
	if f.Decl.Recv == nil {
		return false
	}
	rt := namedType(derefType(f.Obj.Type().(*types.Signature).Recv().Type()))
	if !strings.HasSuffix(rt, "scanner.eventStack") && !strings.HasSuffix(rt, "scanner.stepFuncStack") && !strings.HasSuffix(rt, "scanner.Scanner") {
		return false
	}
	pk := f.Pkg
	for i := len(stack) - 1; i >= 0; i-- {
		ifs, ok := stack[i].(*ast.IfStmt)
		if !ok {
			continue
		}
		be, ok := ast.Unparen(ifs.Cond).(*ast.BinaryExpr)
		if !ok {
			return false
		}
		k, isK := constInt(pk, be.Y)
		if !isK {
			return false
		}
		base, off, ok := affineOf(f, be.X)
		if !ok || base == nil {
			return false
		}
		call, ok := ast.Unparen(base).(*ast.CallExpr)
		if !ok || len(call.Args) != 1 || exprString(call.Fun) != "len" {
			return false
		}
		if _, isSl := pk.TypesInfo.TypeOf(call.Args[0]).Underlying().(*types.Slice); !isSl {
			return false
		}
		// len+off <op> k means len == 0 ?
		switch be.Op {
		case token.EQL:
			return k-off == 0
		case token.LSS:
			return k-off == 1 // len < 1
		case token.LEQ:
			return k-off == 0
		}
		return false
	}
	return false
}

// enumRangeGuard: the panic is the body of `if int(e) >= N` (N a constant, e.g. the length of an array) where e has a
// module enum type all of whose constants are below N: the same argument as the exhaustive switch (values of the type
// are its declared constants), for the table form of a String method.
func (c *Ctx) enumRangeGuard(pk *packages.Package, stack []ast.Node) string {
	for i := len(stack) - 1; i >= 0; i-- {
		if _, isLit := stack[i].(*ast.FuncLit); isLit {
			return ""
		}
		ifs, ok := stack[i].(*ast.IfStmt)
		if !ok {
			continue
		}
		be, ok := ast.Unparen(ifs.Cond).(*ast.BinaryExpr)
		if !ok || (be.Op != token.GEQ && be.Op != token.GTR) {
			return ""
		}
		tv := pk.TypesInfo.Types[be.Y]
		if tv.Value == nil {
			return ""
		}
		n, ok := constant.Int64Val(constant.ToInt(tv.Value))
		if !ok {
			return ""
		}
		if be.Op == token.GTR {
			n++
		}
		x := ast.Unparen(be.X)
		if call, isCall := x.(*ast.CallExpr); isCall && len(call.Args) == 1 && pk.TypesInfo.Types[call.Fun].IsType() {
			x = ast.Unparen(call.Args[0])
		}
		named, ok := pk.TypesInfo.TypeOf(x).(*types.Named)
		if !ok || named.Obj().Pkg() == nil || !c.P.IsLibPkg(named.Obj().Pkg()) {
			return ""
		}
		if b, isBasic := named.Underlying().(*types.Basic); !isBasic || b.Info()&types.IsUnsigned == 0 {
			return "" // a signed value could also be negative
		}
		cnt := 0
		scope := named.Obj().Pkg().Scope()
		for _, nm := range scope.Names() {
			if k, isConst := scope.Lookup(nm).(*types.Const); isConst && types.Identical(k.Type(), named) {
				v, exact := constant.Int64Val(constant.ToInt(k.Val()))
				if !exact || v < 0 || v >= n {
					return ""
				}
				cnt++
			}
		}
		if cnt == 0 {
			return ""
		}
		return fmt.Sprintf("guard of a table: each of the %d constants of %s is below the bound %d", cnt, named.Obj().Name(), n)
	}
	return ""
}

// switchExhaustive returns a description if every constant of the tag's named type has a case.
func (c *Ctx) switchExhaustive(pk *packages.Package, sw *ast.SwitchStmt) string {
	t := pk.TypesInfo.TypeOf(sw.Tag)
	named, ok := t.(*types.Named)
	if !ok || named.Obj().Pkg() == nil || !c.P.IsLibPkg(named.Obj().Pkg()) {
		return ""
	}
	consts := map[string]bool{}
	scope := named.Obj().Pkg().Scope()
	for _, n := range scope.Names() {
		if k, ok := scope.Lookup(n).(*types.Const); ok && types.Identical(k.Type(), named) {
			consts[k.Val().ExactString()] = false
		}
	}
	if len(consts) == 0 {
		return ""
	}
	for _, cs := range sw.Body.List {
		for _, e := range cs.(*ast.CaseClause).List {
			if tv := pk.TypesInfo.Types[e]; tv.Value != nil {
				if _, ok := consts[tv.Value.ExactString()]; ok {
					consts[tv.Value.ExactString()] = true
				}
			}
		}
	}
	for _, covered := range consts {
		if !covered {
			return ""
		}
	}
	return fmt.Sprintf("default of a switch that has a case for each of the %d constants of %s", len(consts), named.Obj().Name())
}

// dischargeAssertion implements the assertion discharge rules.
func (c *Ctx) dischargeAssertion(f *Fn, ta *ast.TypeAssertExpr, stack []ast.Node) string {
	pk := f.Pkg
	asserted := pk.TypesInfo.TypeOf(ta.Type)
	// (1) interaction map pairing
	if why := c.interactionPairing(f, ta, stack, asserted); why != "" {
		return why
	}
	// (2) closure-result type flow: operand is a variable assigned from X.Each/Map(closure) whose error results are nil or of the asserted type
	if id, ok := ast.Unparen(ta.X).(*ast.Ident); ok {
		obj := pk.TypesInfo.Uses[id]
		var src *ast.CallExpr
		ast.Inspect(f.Decl.Body, func(n ast.Node) bool {
			if as, ok := n.(*ast.AssignStmt); ok && len(as.Rhs) == 1 {
				for _, l := range as.Lhs {
					if lid, ok := l.(*ast.Ident); ok && (pk.TypesInfo.Defs[lid] == obj || pk.TypesInfo.Uses[lid] == obj) {
						if call, ok := ast.Unparen(as.Rhs[0]).(*ast.CallExpr); ok {
							src = call
						}
					}
				}
			}
			return true
		})
		if src != nil && len(src.Args) == 1 {
			if fl, ok := src.Args[0].(*ast.FuncLit); ok {
				okAll, n := true, 0
				ast.Inspect(fl.Body, func(nd ast.Node) bool {
					if inner, ok := nd.(*ast.FuncLit); ok && inner != fl {
						return false
					}
					if ret, ok := nd.(*ast.ReturnStmt); ok && len(ret.Results) > 0 {
						e := ret.Results[len(ret.Results)-1]
						n++
						if !isNil(pk, e) && !types.Identical(pk.TypesInfo.TypeOf(e), asserted) {
							okAll = false
						}
					}
					return true
				})
				if okAll && n > 0 {
					return fmt.Sprintf("type flow: the value comes from %s(closure) and all %d returns of the closure yield nil or %s", exprString(src.Fun), n, exprString(ta.Type))
				}
			}
		}
	}
	// (3) dominating comma-ok/type test on the same operand returning on mismatch
	path := accessPath(pk, ta.X)
	if path != "" {
		cf := buildCFG(f.Decl.Body)
		found := ""
		ast.Inspect(f.Decl.Body, func(n ast.Node) bool {
			ifs, ok := n.(*ast.IfStmt)
			if !ok || ifs.Init == nil || found != "" {
				return true
			}
			as, ok := ifs.Init.(*ast.AssignStmt)
			if !ok || len(as.Lhs) != 2 || len(as.Rhs) != 1 {
				return true
			}
			ta2, ok := ast.Unparen(as.Rhs[0]).(*ast.TypeAssertExpr)
			if !ok || accessPath(pk, ta2.X) != path || !types.Identical(pk.TypesInfo.TypeOf(ta2.Type), asserted) {
				return true
			}
			if u, ok := ast.Unparen(ifs.Cond).(*ast.UnaryExpr); ok && u.Op == token.NOT && len(ifs.Body.List) > 0 {
				if _, isRet := ifs.Body.List[len(ifs.Body.List)-1].(*ast.ReturnStmt); isRet && cf.dominatedBy(ta, ifs.Init) {
					found = "dominated by a comma-ok assertion of the same operand that returns on mismatch"
				}
			}
			return true
		})
		if found != "" {
			return found
		}
	}
	return ""
}

// interactionPairing: assertions on values of the interaction map.
//   - X.GetValue(k).(T): static type of k pairs with T, and `if !X.Has(k) { return }` dominates;
//   - inside X.Update(k, func(v I) I { ... v.(T) ... }): k pairs with T (Update only calls the closure for existing keys);
//   - every X.Set(k, v) in the library pairs the static types of k and v.
func (c *Ctx) interactionPairing(f *Fn, ta *ast.TypeAssertExpr, stack []ast.Node, asserted types.Type) string {
	pk := f.Pkg
	pairs := c.interactionPairs()
	if pairs == nil {
		return ""
	}
	keyTypeFor := func(valueT types.Type) string {
		for k, v := range pairs {
			if v == types.TypeString(valueT, nil) {
				return k
			}
		}
		return ""
	}
	wantKey := keyTypeFor(asserted)
	if wantKey == "" {
		return ""
	}
	// GetValue(k).(T)
	if call, ok := ast.Unparen(ta.X).(*ast.CallExpr); ok {
		if cal := callee(pk, call); cal != nil && cal.Name() == "GetValue" && len(call.Args) == 1 && isInteractionsRecv(cal) {
			kt := types.TypeString(pk.TypesInfo.TypeOf(call.Args[0]), nil)
			if kt != wantKey {
				return ""
			}
			recvPath := accessPath(pk, call.Fun.(*ast.SelectorExpr).X)
			kPath := accessPath(pk, call.Args[0])
			cf := buildCFG(f.Decl.Body)
			ok := false
			ast.Inspect(f.Decl.Body, func(n ast.Node) bool {
				ifs, isIf := n.(*ast.IfStmt)
				if !isIf {
					return true
				}
				u, isNot := ast.Unparen(ifs.Cond).(*ast.UnaryExpr)
				if !isNot || u.Op != token.NOT {
					return true
				}
				hc, isCall := ast.Unparen(u.X).(*ast.CallExpr)
				if !isCall {
					return true
				}
				if hcal := callee(pk, hc); hcal != nil && hcal.Name() == "Has" && len(hc.Args) == 1 &&
					accessPath(pk, hc.Fun.(*ast.SelectorExpr).X) == recvPath && accessPath(pk, hc.Args[0]) == kPath &&
					len(ifs.Body.List) > 0 {
					if _, isRet := ifs.Body.List[len(ifs.Body.List)-1].(*ast.ReturnStmt); isRet && cf.dominatedBy(ta, ifs.Cond) {
						ok = true
					}
				}
				return true
			})
			if ok {
				return fmt.Sprintf("keyed pair (%s -> %s) and `if !Has(k) { return }` dominates the GetValue", shortType(wantKey), exprString(ta.Type))
			}
			return ""
		}
	}
	// inside Update(k, closure): operand is the closure parameter
	if id, ok := ast.Unparen(ta.X).(*ast.Ident); ok {
		obj := pk.TypesInfo.Uses[id]
		for i := len(stack) - 1; i >= 1; i-- {
			fl, ok := stack[i].(*ast.FuncLit)
			if !ok {
				continue
			}
			isParam := false
			for _, p := range fl.Type.Params.List {
				for _, n := range p.Names {
					if pk.TypesInfo.Defs[n] == obj {
						isParam = true
					}
				}
			}
			call, ok := stack[i-1].(*ast.CallExpr)
			if !isParam || !ok {
				return ""
			}
			cal := callee(pk, call)
			if cal == nil || cal.Name() != "Update" || !isInteractionsRecv(cal) || len(call.Args) != 2 {
				return ""
			}
			kt := types.TypeString(pk.TypesInfo.TypeOf(call.Args[0]), nil)
			if kt == wantKey {
				return fmt.Sprintf("keyed pair (%s -> %s): Update runs the closure only for an existing key", shortType(wantKey), exprString(ta.Type))
			}
			return ""
		}
	}
	return ""
}

func shortType(s string) string {
	if i := strings.LastIndex(s, "/"); i >= 0 {
		return s[i+1:]
	}
	return s
}

func isInteractionsRecv(f *types.Func) bool {
	sig, ok := f.Type().(*types.Signature)
	return ok && sig.Recv() != nil && namedType(sig.Recv().Type()) == prog.ModulePath+"/catalog.Interactions"
}

// interactionPairs: key type -> value type, from every Interactions.Set call; nil if some call does not pair consistently.
func (c *Ctx) interactionPairs() map[string]string {
	pairs := map[string]string{}
	consistent := true
	n := 0
	// record one (key type, value type) pair; when the stored value has an interface type and key and value are
	// parameters of a helper, the pair is taken from every call site of the helper instead
	var record func(kT, vT types.Type, f *Fn, kE, vE ast.Expr, depth int)
	record = func(kT, vT types.Type, f *Fn, kE, vE ast.Expr, depth int) {
		if _, isIface := vT.Underlying().(*types.Interface); isIface {
			ki, vi := paramIndexOf(f, kE), paramIndexOf(f, vE)
			sites, closed := c.callersOf(f)
			if depth > 2 || vi < 0 || paramAssigned(f, vE) || !closed || len(sites) == 0 {
				consistent = false
				return
			}
			for _, cs := range sites {
				va := argFor(cs, vi)
				if va == nil {
					consistent = false
					return
				}
				kT2, kE2 := kT, kE
				if ki >= 0 && !paramAssigned(f, kE) {
					if ka := argFor(cs, ki); ka != nil {
						kT2, kE2 = cs.g.Pkg.TypesInfo.TypeOf(ka), ka
					}
				}
				record(kT2, cs.g.Pkg.TypesInfo.TypeOf(va), cs.g, kE2, va, depth+1)
			}
			return
		}
		kt, vt := types.TypeString(kT, nil), types.TypeString(vT, nil)
		if _, isIface := kT.Underlying().(*types.Interface); isIface {
			consistent = false
		}
		if old, ok := pairs[kt]; ok && old != vt {
			consistent = false
		}
		for k2, v2 := range pairs {
			if v2 == vt && k2 != kt {
				consistent = false
			}
		}
		pairs[kt] = vt
	}
	for _, f := range c.libFns() {
		ast.Inspect(f.Decl.Body, func(nd ast.Node) bool {
			call, ok := nd.(*ast.CallExpr)
			if !ok {
				return true
			}
			cal := callee(f.Pkg, call)
			if cal == nil || !isInteractionsRecv(cal) || (cal.Name() != "Set" && cal.Name() != "SetToTop") || len(call.Args) != 2 {
				return true
			}
			if strings.HasSuffix(f.Pkg.Fset.Position(call.Pos()).Filename, "_gen.go") {
				return true
			}
			n++
			record(f.Pkg.TypesInfo.TypeOf(call.Args[0]), f.Pkg.TypesInfo.TypeOf(call.Args[1]), f, call.Args[0], call.Args[1], 0)
			return true
		})
	}
	// Map(closure) must return the value it was given (pairing preserved)
	if !consistent || n == 0 {
		return nil
	}
	return pairs
}

// guardedInCallers: the dereference sits in an unexported helper and the pointer is reached from the helper's receiver
// or a parameter: every call site of the helper must be guarded by a nil test of the same path, as seen by the caller.
func (c *Ctx) guardedInCallers(f *Fn, base ast.Expr, site ast.Node, cfgs map[*Fn]*funcCFG) string {
	sites, closed := c.callersOf(f)
	if !closed || len(sites) == 0 {
		return ""
	}
	// the path must not be assigned in the helper on a path that leads to the use
	path := accessPath(f.Pkg, base)
	assigned := false
	hcf := cfgs[f]
	if hcf == nil {
		hcf = buildCFG(f.Decl.Body)
		cfgs[f] = hcf
	}
	ast.Inspect(f.Decl.Body, func(n ast.Node) bool {
		if as, ok := n.(*ast.AssignStmt); ok {
			for _, l := range as.Lhs {
				if lp := accessPath(f.Pkg, l); lp != "" && (lp == path || strings.HasPrefix(path, lp+".")) {
					if hcf.reachesWithout(as, site, nil) {
						assigned = true
					}
				}
			}
		}
		return true
	})
	if assigned {
		return ""
	}
	for _, cs := range sites {
		p := rebase(f, base, cs)
		if p == "" {
			return ""
		}
		cf := cfgs[cs.g]
		if cf == nil {
			cf = buildCFG(cs.g.Decl.Body)
			cfgs[cs.g] = cf
		}
		if guardedNonNil(cs.g.Pkg, cf, cs.g.Decl.Body, cs.call, c.stackOf(cs.g, cs.call), p) == "" {
			return ""
		}
	}
	return fmt.Sprintf("the helper is only called where the pointer was tested: each of its %d call sites is guarded by a nil test of the same path", len(sites))
}

// ---------- recover discipline ----------

func (c *Ctx) ruleRecoverDiscipline() {
	r := c.R
	r.Rule("C01-RECOVER-RESULT", "a deferred recover() converts the panic into the function's error only if it assigns NAMED results of the enclosing function: every assignment inside `if r := recover(); r != nil {...}` targets a named result, and an error-like result is among them; and every call of recover() in the library stands directly in the body of a function literal that is deferred (as the argument of a deferred call it runs when the defer statement is executed, before anything can panic)", 2)
	// placement of every recover()
	for _, f := range c.libFns() {
		nrec := 0
		inspectWithStack(f.Decl.Body, func(n ast.Node, stack []ast.Node) bool {
			call, ok := n.(*ast.CallExpr)
			if !ok || len(call.Args) != 0 {
				return true
			}
			id, ok := call.Fun.(*ast.Ident)
			if !ok || id.Name != "recover" {
				return true
			}
			if _, isB := f.Pkg.TypesInfo.Uses[id].(*types.Builtin); !isB {
				return true
			}
			nrec++
			placed := false
			for i := len(stack) - 1; i >= 0; i-- {
				if fl, isLit := stack[i].(*ast.FuncLit); isLit {
					if i >= 2 {
						if oc, isCall := stack[i-1].(*ast.CallExpr); isCall && oc.Fun == ast.Expr(fl) {
							if _, isDefer := stack[i-2].(*ast.DeferStmt); isDefer {
								placed = true
							}
						}
					}
					break
				}
			}
			if !placed {
				// directly in the body of a declared function that is itself deferred somewhere
				inLit := false
				for _, a := range stack {
					if _, isLit := a.(*ast.FuncLit); isLit {
						inLit = true
					}
				}
				if !inLit && c.deferredSomewhere(f.Obj) {
					placed = true
				}
			}
			if !placed {
				r.Bad("C01-RECOVER-RESULT", fmt.Sprintf("%s | recover() #%d placement", f.Name(), nrec), "recover() is not called by the deferred function itself (it is an argument of the deferred call, or sits in a nested or plain function): it returns nil at once and the panic it was meant to stop goes through", c.pos(call.Pos()))
			}
			return true
		})
	}
	for _, f := range c.libFns() {
		fl, ok := hasDeferredRecover(f)
		if !ok {
			continue
		}
		pk := f.Pkg
		named := map[types.Object]bool{}
		errNamed := false
		if f.Decl.Type.Results != nil {
			for _, fld := range f.Decl.Type.Results.List {
				for _, n := range fld.Names {
					named[pk.TypesInfo.Defs[n]] = true
				}
			}
		}
		assignsErr, bad := false, ""
		ast.Inspect(fl.Body, func(n ast.Node) bool {
			as, ok := n.(*ast.AssignStmt)
			if !ok {
				return true
			}
			for _, l := range as.Lhs {
				id, ok := ast.Unparen(l).(*ast.Ident)
				if !ok || id.Name == "_" {
					continue
				}
				obj := pk.TypesInfo.Uses[id]
				if obj == nil {
					continue // := of a local inside the handler (e.g. r := recover())
				}
				if named[obj] {
					if isErrorLike(obj.Type()) {
						assignsErr = true
					}
				} else if obj.Pos() < fl.Pos() {
					bad = id.Name
				}
			}
			return true
		})
		_ = errNamed
		key := f.Name()
		// a function without results cannot report through them: a handler that stores an error into a field
		// (of the receiver, of a captured object) keeps the failure where the callers of the object read it
		storesErrField := false
		if f.Decl.Type.Results == nil || len(f.Decl.Type.Results.List) == 0 {
			ast.Inspect(fl.Body, func(n ast.Node) bool {
				if as, ok := n.(*ast.AssignStmt); ok {
					for _, l := range as.Lhs {
						if sel, ok := ast.Unparen(l).(*ast.SelectorExpr); ok {
							if t := pk.TypesInfo.TypeOf(sel); t != nil && isErrorLike(t) {
								storesErrField = true
							}
						}
					}
				}
				return true
			})
		}
		switch {
		case storesErrField && bad == "":
			r.Ok("C01-RECOVER-RESULT", key, "the function has no results; the handler stores the failure into an error field of the object", c.pos(fl.Pos()))
		case bad != "":
			r.Bad("C01-RECOVER-RESULT", key, "the recover handler assigns the local variable `"+bad+"`, not a named result: after a panic the function returns the zero values of its results (nil, nil) and the caller goes on with a nil value", c.pos(fl.Pos()))
		case !assignsErr:
			r.Bad("C01-RECOVER-RESULT", key, "the recover handler does not assign a named error result: a recovered panic is reported as success", c.pos(fl.Pos()))
		default:
			r.Ok("C01-RECOVER-RESULT", key, "the handler assigns the named error result", c.pos(fl.Pos()))
		}
	}
}

// ---------- nil-able dereferences ----------

// nilExceptions: dereferences the discharge rules cannot prove, each with the invariant that makes them safe.
var nilExceptions = map[string]string{}

func (c *Ctx) ruleNilable(rule string, reach map[*ssa.Function]bool) {
	r := c.R
	r.Rule(rule, "every dereference of a pointer/interface field that is assigned nil or left unset by some literal, in functions reachable from the build entry points, is protected: local nil test (dominating, enclosing or short-circuit, also through a boolean guard variable), PARENT-BY-TABLE (d.Parent in a handler only invoked for kinds that the extracted tables never place at the root), INFO-BY-TABLE, UPDATE-CLOSURE (value tested right before Interactions.Update of the same key), FIELD-SET-EXHAUSTIVELY, or a named exception", 15)
	decls := reachDecls(reach)
	nf := c.nilableFields()
	t := c.Tables()
	kinds := c.handlerKinds()
	cfgs := map[*Fn]*funcCFG{}
	schemaSet := c.userTypeSchemaAlwaysSet()
	infoOK := c.infoInvariant(t)
	n := 0
	seenKey := map[string]int{}
	for _, s := range c.derefSites(nf) {
		if !decls[s.f.Obj] {
			continue
		}
		n++
		cf := cfgs[s.f]
		if cf == nil {
			cf = buildCFG(s.f.Decl.Body)
			cfgs[s.f] = cf
		}
		pk := s.f.Pkg
		fieldName := c.structOfField(s.field) + "." + s.field.Name()
		key := fmt.Sprintf("%s | %s", s.f.Name(), fieldName)
		seenKey[key]++
		if seenKey[key] > 1 {
			key = fmt.Sprintf("%s #%d", key, seenKey[key])
		}
		where := c.pos(s.node.Pos())
		stack := c.stackOf(s.f, s.node)
		if g := guardedNonNil(pk, cf, s.f.Decl.Body, s.node, stack, s.path); g != "" {
			r.Ok(rule, key, g, where)
			continue
		}
		if g := guardVariable(pk, s.f.Decl.Body, s.node, stack, s.path); g != "" {
			r.Ok(rule, key, g, where)
			continue
		}
		if g := c.guardedInCallers(s.f, s.base, s.node, cfgs); g != "" {
			r.Ok(rule, key, g, where)
			continue
		}
		if g := c.localLiteralSets(s); g != "" {
			r.Ok(rule, key, g, where)
			continue
		}
		if g := c.setAfterConstruct(s.field); g != "" {
			r.Ok(rule, key, g, where)
			continue
		}
		switch fieldName {
		case "directive.Directive.Parent":
			ks := kinds[s.f.Obj]
			// the base must be the function's own directive parameter
			if ks != nil && len(ks) > 0 && len(t.Problems) == 0 {
				bad := ""
				for k := range ks {
					if t.Root[k] || t.HTTPMethod[k] {
						bad = k
					}
				}
				if bad == "" {
					r.Ok(rule, key, fmt.Sprintf("PARENT-BY-TABLE: %s is only invoked for kinds %v, none of which the extracted tables allow at the root (root append is restricted to root-allowed kinds and methods with a Path: C11-WALK-UP)", s.f.Obj.Name(), keysOf(ks)), where)
					continue
				}
				r.Bad(rule, key, fmt.Sprintf("d.Parent is dereferenced in a function that is invoked for kind %s, which can stand at the root (Parent == nil)", bad), where)
				continue
			}
		case "catalog.Catalog.Info":
			if infoOK != "" && (s.f.Obj.Name() == "AddTitle" || s.f.Obj.Name() == "AddVersion" || s.f.Obj.Name() == "AddDescriptionToInfo") {
				r.Ok(rule, key, infoOK, where)
				continue
			}
		case "catalog.UserType.Schema":
			if schemaSet != "" {
				r.Ok(rule, key, schemaSet, where)
				continue
			}
		case "catalog.HTTPInteraction.Request":
			if g := c.updateClosureGuard(s, stack); g != "" {
				r.Ok(rule, key, g, where)
				continue
			}
		}
		if why, ok := nilExceptions[key]; ok {
			r.Ok(rule, key, "named exception: "+why, where)
			r.Except(key, why)
			continue
		}
		r.Bad(rule, key, fmt.Sprintf("%s (%s) is dereferenced through %s without a nil test that dominates the use", fieldName, s.what, exprString(s.base)), where)
	}
	r.Stats["nilable_fields"] = len(nf)
	r.Stats["nilable_deref_sites_reachable"] = n
}

// localLiteralSets: the dereferenced field belongs to a local variable that was defined in this function by a
// composite literal which sets the field (positionally or by key) to a non-nil-literal value.
func (c *Ctx) localLiteralSets(s derefSite) string {
	pk := s.f.Pkg
	sel, ok := ast.Unparen(s.base).(*ast.SelectorExpr)
	if !ok {
		return ""
	}
	id, ok := ast.Unparen(sel.X).(*ast.Ident)
	if !ok {
		return ""
	}
	obj := pk.TypesInfo.Uses[id]
	res := ""
	nAssign := 0
	ast.Inspect(s.f.Decl.Body, func(n ast.Node) bool {
		as, ok := n.(*ast.AssignStmt)
		if !ok {
			return true
		}
		for i, l := range as.Lhs {
			lid, ok := l.(*ast.Ident)
			if !ok || (pk.TypesInfo.Defs[lid] != obj && pk.TypesInfo.Uses[lid] != obj) {
				continue
			}
			nAssign++
			if i >= len(as.Rhs) {
				continue
			}
			var cl *ast.CompositeLit
			switch r := ast.Unparen(as.Rhs[i]).(type) {
			case *ast.CompositeLit:
				cl = r
			case *ast.UnaryExpr:
				cl, _ = r.X.(*ast.CompositeLit)
			}
			if cl == nil {
				continue
			}
			st, _ := pk.TypesInfo.TypeOf(cl).Underlying().(*types.Struct)
			if st == nil {
				continue
			}
			for j, el := range cl.Elts {
				if kv, ok := el.(*ast.KeyValueExpr); ok {
					if kid, ok := kv.Key.(*ast.Ident); ok && kid.Name == s.field.Name() && !isNil(pk, kv.Value) {
						res = "LOCAL-LITERAL: the variable is a local built by a literal that sets " + s.field.Name()
					}
				} else if j < st.NumFields() && st.Field(j).Name() == s.field.Name() && !isNil(pk, el) {
					res = "LOCAL-LITERAL: the variable is a local built by a positional literal that sets " + s.field.Name()
				}
			}
		}
		return true
	})
	if nAssign != 1 {
		return ""
	}
	return res
}

// setAfterConstruct: the field is left nil only by the literal inside one unexported constructor, it is never assigned
// nil, and every call of that constructor in the library is followed, in the same function, by an assignment of the
// field on the constructed value.
func (c *Ctx) setAfterConstruct(field *types.Var) string {
	var ctor *Fn
	multiple := false
	for _, f := range c.libFns() {
		pk := f.Pkg
		ast.Inspect(f.Decl.Body, func(n ast.Node) bool {
			switch x := n.(type) {
			case *ast.AssignStmt:
				for i, l := range x.Lhs {
					if fld := fieldSel(pk, l); fld != nil && fld.Origin() == field && i < len(x.Rhs) && isNil(pk, x.Rhs[i]) {
						multiple = true
					}
				}
			case *ast.CompositeLit:
				t := pk.TypesInfo.TypeOf(x)
				if p, ok := t.(*types.Pointer); ok {
					t = p.Elem()
				}
				st, ok := t.Underlying().(*types.Struct)
				if !ok {
					return true
				}
				owns := false
				for i := 0; i < st.NumFields(); i++ {
					if st.Field(i).Origin() == field {
						owns = true
					}
				}
				if !owns {
					return true
				}
				set := false
				for j, el := range x.Elts {
					if kv, ok := el.(*ast.KeyValueExpr); ok {
						if kid, ok := kv.Key.(*ast.Ident); ok && kid.Name == field.Name() && !isNil(pk, kv.Value) {
							set = true
						}
					} else if j < st.NumFields() && st.Field(j).Origin() == field && !isNil(pk, el) {
						set = true
					}
				}
				if !set {
					if ctor != nil && ctor.Obj != f.Obj {
						multiple = true
					}
					ctor = f
				}
			}
			return true
		})
	}
	if ctor == nil || multiple || ctor.Obj.Exported() {
		return ""
	}
	nCalls := 0
	for _, f := range c.libFns() {
		pk := f.Pkg
		bad := false
		ast.Inspect(f.Decl.Body, func(n ast.Node) bool {
			as, ok := n.(*ast.AssignStmt)
			if !ok || len(as.Lhs) != 1 || len(as.Rhs) != 1 {
				return true
			}
			call, ok := ast.Unparen(as.Rhs[0]).(*ast.CallExpr)
			if !ok || callee(pk, call) != ctor.Obj {
				return true
			}
			nCalls++
			v := accessPath(pk, as.Lhs[0])
			set := false
			ast.Inspect(f.Decl.Body, func(m ast.Node) bool {
				if a2, ok := m.(*ast.AssignStmt); ok && a2.Pos() > as.End() {
					for i, l := range a2.Lhs {
						if fld := fieldSel(pk, l); fld != nil && fld.Origin() == field && accessPath(pk, l.(*ast.SelectorExpr).X) == v && i < len(a2.Rhs) && !isNil(pk, a2.Rhs[i]) {
							set = true
						}
					}
				}
				return true
			})
			if !set {
				bad = true
			}
			return true
		})
		// calls of the constructor that are not simple assignments (returned directly, passed on) cannot be followed
		for _, call := range callsIn(pk, f.Decl.Body, ctor.Obj) {
			_ = call
		}
		if bad {
			return ""
		}
	}
	total := 0
	for _, f := range c.libFns() {
		total += len(callsIn(f.Pkg, f.Decl.Body, ctor.Obj))
	}
	if nCalls == 0 || nCalls != total {
		return ""
	}
	return fmt.Sprintf("SET-AFTER-CONSTRUCT: only %s leaves the field unset, and each of its %d callers assigns the field on the new value right away", ctor.Obj.Name(), nCalls)
}

// guardVariable: `g := ... path != nil && ...; if g { site }`
func guardVariable(pk *packages.Package, body *ast.BlockStmt, site ast.Node, stack []ast.Node, path string) string {
	for i := len(stack) - 1; i >= 0; i-- {
		ifs, ok := stack[i].(*ast.IfStmt)
		if !ok || !(ifs.Body.Pos() <= site.Pos() && site.End() <= ifs.Body.End()) {
			continue
		}
		id, ok := ast.Unparen(ifs.Cond).(*ast.Ident)
		if !ok {
			continue
		}
		obj := pk.TypesInfo.Uses[id]
		var def ast.Expr
		nAssign := 0
		ast.Inspect(body, func(n ast.Node) bool {
			if as, ok := n.(*ast.AssignStmt); ok {
				for j, l := range as.Lhs {
					if lid, ok := l.(*ast.Ident); ok && (pk.TypesInfo.Defs[lid] == obj || pk.TypesInfo.Uses[lid] == obj) {
						nAssign++
						if j < len(as.Rhs) {
							def = as.Rhs[j]
						}
					}
				}
			}
			return true
		})
		if nAssign != 1 || def == nil {
			continue
		}
		found := false
		var conj func(e ast.Expr)
		conj = func(e ast.Expr) {
			be, ok := ast.Unparen(e).(*ast.BinaryExpr)
			if !ok {
				return
			}
			if be.Op == token.LAND {
				conj(be.X)
				conj(be.Y)
			}
			if be.Op == token.NEQ && isNil(pk, be.Y) && accessPath(pk, be.X) == path {
				found = true
			}
		}
		conj(def)
		if found {
			return "guard variable `" + id.Name + "` is a conjunction containing `" + prettyPath(path) + " != nil`"
		}
	}
	return ""
}

// handlerKinds: for each function of package core with a *directive.Directive parameter, the directive kinds it can be invoked with:
// keys of the directiveFunctions literal, propagated along calls that pass the caller's own directive parameter on.
func (c *Ctx) handlerKinds() map[*types.Func]map[string]bool {
	out := map[*types.Func]map[string]bool{}
	corePk := c.P.Pkg("core")
	if corePk == nil {
		return out
	}
	pk := corePk
	for kind, m := range c.dispatchTable() {
		if out[m] == nil {
			out[m] = map[string]bool{}
		}
		out[m][kind] = true
	}
	// propagate: g(d) called from f with f's own directive parameter (possibly guarded by a switch on d.Parent.Type(): ignored, kinds are f's)
	changed := true
	for changed {
		changed = false
		for _, f := range c.libFns() {
			ks := out[f.Obj]
			if len(ks) == 0 || f.Pkg != pk {
				continue
			}
			dparam := directiveParam(f)
			if dparam == nil {
				continue
			}
			ast.Inspect(f.Decl.Body, func(n ast.Node) bool {
				call, ok := n.(*ast.CallExpr)
				if !ok {
					return true
				}
				cal := callee(pk, call)
				if cal == nil || cal.Pkg() != pk.Types {
					return true
				}
				for _, a := range call.Args {
					if id, ok := ast.Unparen(a).(*ast.Ident); ok && pk.TypesInfo.Uses[id] == dparam {
						if out[cal] == nil {
							out[cal] = map[string]bool{}
						}
						for k := range ks {
							if !out[cal][k] {
								out[cal][k] = true
								changed = true
							}
						}
					}
				}
				return true
			})
		}
	}
	return out
}

func directiveParam(f *Fn) types.Object {
	for _, fl := range f.Decl.Type.Params.List {
		for _, n := range fl.Names {
			if obj := f.Pkg.TypesInfo.Defs[n]; obj != nil && namedType(obj.Type()) == prog.ModulePath+"/directive.Directive" {
				return obj
			}
		}
	}
	return nil
}

// infoInvariant: Title and Version can only be children of Info (or of a MACRO definition, which never reaches the
// catalog), AddInfo sets c.Info on success, and addDirectiveBranch handles a node before its children.
func (c *Ctx) infoInvariant(t *Tables) string {
	if len(t.Problems) > 0 {
		return ""
	}
	for _, kind := range []string{"Title", "Version"} {
		for parent, kids := range t.Children {
			if kids[kind] && parent != "Info" && parent != "Macro" {
				return ""
			}
		}
		if t.Root[kind] {
			return ""
		}
	}
	ai := c.fn("catalog", "Catalog.AddInfo")
	if ai == nil {
		return ""
	}
	sets := false
	ast.Inspect(ai.Decl.Body, func(n ast.Node) bool {
		if as, ok := n.(*ast.AssignStmt); ok && len(as.Lhs) == 1 && len(as.Rhs) == 1 {
			if fld := fieldSel(ai.Pkg, as.Lhs[0]); fld != nil && fld.Name() == "Info" {
				if u, ok := ast.Unparen(as.Rhs[0]).(*ast.UnaryExpr); ok && u.Op == token.AND {
					sets = true
				}
			}
		}
		return true
	})
	br := c.fn("core", "JApiCore.addDirectiveBranch")
	if !sets || br == nil {
		return ""
	}
	ad := c.P.LookupFunc("core", "JApiCore.addDirective")
	calls := callsIn(br.Pkg, br.Decl.Body, ad)
	var loop *ast.RangeStmt
	ast.Inspect(br.Decl.Body, func(n ast.Node) bool {
		if rs, ok := n.(*ast.RangeStmt); ok {
			loop = rs
		}
		return true
	})
	if len(calls) != 1 || loop == nil || calls[0].Pos() > loop.Pos() {
		return ""
	}
	// addDescription reaches AddDescriptionToInfo only under `case directive.Info` of the switch on d.Parent.Type()
	return "INFO-BY-TABLE: the extracted context table allows Title/Version only under Info (or inside a MACRO definition, which is removed), AddInfo stores a non-nil Info on success, and addDirectiveBranch handles a directive before its children and stops on error"
}

// userTypeSchemaAlwaysSet: AddType assigns userType.Schema in every case of a switch that covers all SchemaNotation constants.
func (c *Ctx) userTypeSchemaAlwaysSet() string {
	// Decided on the abstract evaluation of catalog.AddType: (1) NewSchemaNotation returns one of its constants or
	// an error; (2) for each of these constants, on every path of AddType that stores the user type in the catalog
	// (UserTypes.Set) the Schema field of the stored value is non-nil; (3) AddType is the only constructor of UserType.
	f := c.fn("catalog", "Catalog.AddType")
	nsn := c.P.LookupFunc("notation", "NewSchemaNotation")
	ut := c.P.LookupType("catalog", "UserType")
	if f == nil || nsn == nil || ut == nil {
		return ""
	}
	st, _ := ut.Type().Underlying().(*types.Struct)
	schemaIdx := -1
	for i := 0; st != nil && i < st.NumFields(); i++ {
		if st.Field(i).Name() == "Schema" {
			schemaIdx = i
		}
	}
	sf, nf := c.P.SSAFunc(f.Obj), c.P.SSAFunc(nsn)
	if schemaIdx < 0 || sf == nil || nf == nil {
		return ""
	}
	// (1)
	kinds := map[string]ssaeval.Value{}
	for _, o := range c.newEval().Run(nf, []ssaeval.Value{ssaeval.U("sn")}) {
		if o.Incomplete != "" || o.Panics || len(o.Rets) != 2 {
			return ""
		}
		isNil, known := o.Rets[1].IsNilKnown()
		switch {
		case known && !isNil:
		case known && isNil && o.Rets[0].K == ssaeval.Const:
			kinds[o.Rets[0].Term()] = o.Rets[0]
		default:
			return ""
		}
	}
	if len(kinds) == 0 {
		return ""
	}
	// (2)
	nSet := 0
	for _, k := range kinds {
		ev := c.newEval()
		base := ev.Oracle
		kk := k
		ev.Oracle = func(fn *ssa.Function, args []ssaeval.Value) (ssaeval.Value, bool) {
			if fn == nf {
				return ssaeval.Value{K: ssaeval.Tuple, Elems: []ssaeval.Value{kk, {K: ssaeval.Nil}}}, true
			}
			return base(fn, args)
		}
		ev.WantCall = func(fn *ssa.Function) bool {
			return (fn.Name() == "Set" || fn.Name() == "SetToTop") && fn.Signature.Recv() != nil && strings.HasSuffix(namedType(fn.Signature.Recv().Type()), "catalog.UserTypes")
		}
		for _, o := range ev.Run(sf, []ssaeval.Value{ssaeval.Obj("c"), ssaeval.U("d"), ssaeval.Obj("coreUserTypes")}) {
			if o.Incomplete != "" || o.Panics {
				return ""
			}
			for _, e := range o.Events {
				if e.Kind != "call" || len(e.Deref) < 3 {
					continue
				}
				nSet++
				v := e.Deref[2]
				if v.K != ssaeval.Struct {
					return ""
				}
				isNil, known := v.Fields[schemaIdx].IsNilKnown()
				if !known || isNil {
					return ""
				}
			}
		}
	}
	if nSet == 0 {
		return ""
	}
	res := fmt.Sprintf("FIELD-SET-EXHAUSTIVELY: for each of the %d notations NewSchemaNotation can return, every path of catalog.AddType that stores the user type has set its Schema to a non-nil value (abstract evaluation)", len(kinds))
	// AddType must be the only place constructing a UserType
	for _, g := range c.libFns() {
		ok := true
		ast.Inspect(g.Decl.Body, func(n ast.Node) bool {
			if cl, isCl := n.(*ast.CompositeLit); isCl && namedType(g.Pkg.TypesInfo.TypeOf(cl)) == prog.ModulePath+"/catalog.UserType" && g.Obj != f.Obj {
				ok = false
			}
			return true
		})
		if !ok {
			return ""
		}
	}
	return res
}

// updateClosureGuard: `<closure param>.(T).F.G = ...` inside X.Update(k, closure) where the enclosing function
// tested `w.F == nil` (return) on w := X.GetValue(k).(T) before the Update call.
func (c *Ctx) updateClosureGuard(s derefSite, stack []ast.Node) string {
	pk := s.f.Pkg
	var upd *ast.CallExpr
	for i := len(stack) - 1; i >= 1; i-- {
		if _, ok := stack[i].(*ast.FuncLit); ok {
			if call, ok := stack[i-1].(*ast.CallExpr); ok {
				if cal := callee(pk, call); cal != nil && cal.Name() == "Update" && len(call.Args) == 2 {
					upd = call
				}
			}
			break
		}
	}
	if upd == nil {
		return ""
	}
	recv := accessPath(pk, upd.Fun.(*ast.SelectorExpr).X)
	kPath := accessPath(pk, upd.Args[0])
	// find w := recv.GetValue(k).(T)
	var wObj types.Object
	ast.Inspect(s.f.Decl.Body, func(n ast.Node) bool {
		as, ok := n.(*ast.AssignStmt)
		if !ok || len(as.Lhs) != 1 || len(as.Rhs) != 1 {
			return true
		}
		ta, ok := ast.Unparen(as.Rhs[0]).(*ast.TypeAssertExpr)
		if !ok {
			return true
		}
		call, ok := ast.Unparen(ta.X).(*ast.CallExpr)
		if !ok || len(call.Args) != 1 {
			return true
		}
		if cal := callee(pk, call); cal != nil && cal.Name() == "GetValue" && accessPath(pk, call.Fun.(*ast.SelectorExpr).X) == recv && accessPath(pk, call.Args[0]) == kPath {
			if id, ok := as.Lhs[0].(*ast.Ident); ok {
				wObj = pk.TypesInfo.Defs[id]
			}
		}
		return true
	})
	if wObj == nil {
		return ""
	}
	cf := buildCFG(s.f.Decl.Body)
	ok := false
	ast.Inspect(s.f.Decl.Body, func(n ast.Node) bool {
		ifs, isIf := n.(*ast.IfStmt)
		if !isIf || len(ifs.Body.List) == 0 {
			return true
		}
		be, isBe := ast.Unparen(ifs.Cond).(*ast.BinaryExpr)
		if !isBe || be.Op != token.EQL || !isNil(pk, be.Y) {
			return true
		}
		fld := fieldSel(pk, be.X)
		if fld == nil || fld.Origin() != s.field {
			return true
		}
		if id, isId := ast.Unparen(be.X.(*ast.SelectorExpr).X).(*ast.Ident); isId && pk.TypesInfo.Uses[id] == wObj {
			if _, isRet := ifs.Body.List[len(ifs.Body.List)-1].(*ast.ReturnStmt); isRet && cf.dominatedBy(upd, ifs.Cond) {
				ok = true
			}
		}
		return true
	})
	if ok {
		return "UPDATE-CLOSURE: the same field of the value obtained by GetValue(k) of the same map was tested for nil (return) right before Update(k, closure); Update runs the closure synchronously on that value"
	}
	return ""
}

// ---------- methods promoted through an embedded interface that is never set ----------

func (c *Ctx) ruleEmbeddedNil(rule string, reach map[*ssa.Function]bool) {
	r := c.R
	r.Rule(rule, "a struct that embeds an interface and is built by a literal that leaves the embedded field nil promotes methods that panic when called; every call of such a method on an interface value that may hold this struct must be dominated by a test on one of the struct's OWN methods that returns (e.g. Notation().IsAnyOrEmpty()), or be made on a value narrowed by a type switch/assertion", 1)
	decls := reachDecls(reach)
	type victim struct {
		t        *types.Named
		promoted map[string]bool
		own      map[string]bool
	}
	var victims []victim
	for _, pk := range c.P.Lib {
		scope := pk.Types.Scope()
		for _, n := range scope.Names() {
			tn, ok := scope.Lookup(n).(*types.TypeName)
			if !ok {
				continue
			}
			named, _ := tn.Type().(*types.Named)
			st, ok := tn.Type().Underlying().(*types.Struct)
			if !ok || named == nil {
				continue
			}
			for i := 0; i < st.NumFields(); i++ {
				fld := st.Field(i)
				iface, isIface := fld.Type().Underlying().(*types.Interface)
				if !fld.Embedded() || !isIface {
					continue
				}
				// is the field ever set?
				set := false
				for _, f := range c.libFns() {
					ast.Inspect(f.Decl.Body, func(nd ast.Node) bool {
						switch x := nd.(type) {
						case *ast.AssignStmt:
							for _, l := range x.Lhs {
								if fs := fieldSel(f.Pkg, l); fs != nil && fs.Origin() == fld {
									set = true
								}
							}
						case *ast.CompositeLit:
							if namedType(f.Pkg.TypesInfo.TypeOf(x)) == namedType(named) {
								for j, el := range x.Elts {
									if kv, ok := el.(*ast.KeyValueExpr); ok {
										if kid, ok := kv.Key.(*ast.Ident); ok && kid.Name == fld.Name() {
											set = true
										}
									} else if j == i {
										set = true
									}
								}
							}
						}
						return true
					})
				}
				if set {
					continue
				}
				v := victim{t: named, promoted: map[string]bool{}, own: map[string]bool{}}
				for j := 0; j < named.NumMethods(); j++ {
					v.own[named.Method(j).Name()] = true
				}
				for j := 0; j < iface.NumMethods(); j++ {
					if !v.own[iface.Method(j).Name()] {
						v.promoted[iface.Method(j).Name()] = true
					}
				}
				victims = append(victims, v)
			}
		}
	}
	if len(victims) == 0 {
		r.OkTrivial(rule, "none", "no struct embeds an interface that is left nil", "")
		return
	}
	for _, v := range victims {
		r.Observe(rule, "type "+v.t.Obj().Name(), fmt.Sprintf("embeds an interface that no constructor sets: %d promoted methods panic on this type", len(v.promoted)), c.pos(v.t.Obj().Pos()))
	}
	// call sites (interface invokes) whose VTA callees include a promoted wrapper of a victim type
	cg := c.P.CallGraph()
	hit := map[token.Pos]string{} // Lparen of the call -> victim type name
	for fn := range reach {
		node := cg.Nodes[fn]
		if node == nil {
			continue
		}
		for _, e := range node.Out {
			if e.Site == nil || !e.Site.Common().IsInvoke() || e.Callee.Func == nil {
				continue
			}
			sig := e.Callee.Func.Signature
			if sig.Recv() == nil {
				continue
			}
			for _, v := range victims {
				if namedType(sig.Recv().Type()) == namedType(v.t) && v.promoted[e.Callee.Func.Name()] {
					hit[e.Site.Pos()] = v.t.Obj().Name()
				}
			}
		}
	}
	n := 0
	for _, f := range c.libFns() {
		if !decls[f.Obj] {
			continue
		}
		pk := f.Pkg
		cf := buildCFG(f.Decl.Body)
		ast.Inspect(f.Decl.Body, func(nd ast.Node) bool {
			call, ok := nd.(*ast.CallExpr)
			if !ok {
				return true
			}
			vname, ok := hit[call.Lparen]
			if !ok {
				return true
			}
			sel, ok := ast.Unparen(call.Fun).(*ast.SelectorExpr)
			if !ok {
				return true
			}
			var v victim
			for _, vv := range victims {
				if vv.t.Obj().Name() == vname {
					v = vv
				}
			}
			n++
			key := fmt.Sprintf("%s | %s.%s() may hit %s", f.Name(), exprString(sel.X), sel.Sel.Name, vname)
			path := accessPath(pk, sel.X)
			guard := ""
			ast.Inspect(f.Decl.Body, func(m ast.Node) bool {
				ifs, ok := m.(*ast.IfStmt)
				if !ok || guard != "" || ifs.End() > call.Pos() || len(ifs.Body.List) == 0 {
					return guard == ""
				}
				if _, isRet := ifs.Body.List[len(ifs.Body.List)-1].(*ast.ReturnStmt); !isRet {
					return true
				}
				usesOwn := false
				ast.Inspect(ifs.Cond, func(q ast.Node) bool {
					if c2, ok := q.(*ast.CallExpr); ok {
						if s2, ok := ast.Unparen(c2.Fun).(*ast.SelectorExpr); ok && accessPath(pk, s2.X) == path && path != "" && v.own[s2.Sel.Name] {
							usesOwn = true
						}
					}
					return true
				})
				if usesOwn && cf.dominatedBy(call, ifs.Cond) {
					guard = exprString(ifs.Cond)
				}
				return true
			})
			// the struct tells its kinds apart by a method that returns a field of an enumeration type (Notation()):
			// the call must be reached only with every kind the struct is ever built with excluded, whatever form the
			// test has (the condition is evaluated with <receiver>.<method>() bound to each such kind)
			if tagM, kinds, why := c.victimKinds(v.t); tagM != nil {
				var missing []string
				fcf := c.cfgOf(f)
				for _, k := range kinds {
					env := &constEnv{c: c}
					env.leaf = func(g *Fn, e ast.Expr) (constant.Value, bool) {
						if c2, ok := e.(*ast.CallExpr); ok && g == f {
							if s2, ok := ast.Unparen(c2.Fun).(*ast.SelectorExpr); ok && s2.Sel.Name == tagM.Name() && accessPath(pk, s2.X) == path && path != "" {
								return k.Val(), true
							}
						}
						return nil, false
					}
					if !fcf.establishedAt(call, func(cond ast.Expr, holds bool) bool { return env.refutes(f, cond, holds) }, nil) {
						missing = append(missing, k.Name())
					}
				}
				if len(missing) == 0 {
					r.Ok(rule, key, fmt.Sprintf("reached only when %s() is none of the kinds the struct is built with (%s)", tagM.Name(), why), c.pos(call.Pos()))
				} else {
					r.Bad(rule, key, fmt.Sprintf("%s is promoted by %s from an embedded interface that is nil; the call is reached with %s() == %s, a kind %s is built with (%s): the call panics", sel.Sel.Name, vname, tagM.Name(), strings.Join(missing, ", "), vname, why), c.pos(call.Pos()))
				}
				return true
			}
			if guard != "" {
				r.Ok(rule, key, "dominated by `if "+guard+" { return }`, a test on a method the struct implements itself", c.pos(call.Pos()))
			} else {
				r.Bad(rule, key, fmt.Sprintf("%s is promoted by %s from an embedded interface that is nil, and a value of that type can flow here (VTA): the call panics", sel.Sel.Name, vname), c.pos(call.Pos()))
			}
			return true
		})
	}
	if n == 0 {
		r.OkTrivial(rule, "calls", "no reachable interface call can dispatch to a promoted method of such a struct (VTA type flow)", "")
	}
}

// victimKinds: for a struct with a method that returns one of its fields of an enumeration type, the enumeration
// constants the field can hold: the values given in composite literals of the struct, followed through the parameters
// of the constructing function to its call sites in the module, where a constant is taken as it is and a variable
// stands for every constant that the tests on the way to the call do not exclude.
func (c *Ctx) victimKinds(t *types.Named) (tag *types.Func, kinds []*types.Const, why string) {
	st, ok := t.Underlying().(*types.Struct)
	if !ok {
		return nil, nil, ""
	}
	var fld *types.Var
	for i := 0; i < t.NumMethods() && tag == nil; i++ {
		m := t.Method(i)
		g := c.fnOf(m)
		if g == nil || g.Decl.Body == nil || len(g.Decl.Body.List) != 1 {
			continue
		}
		ret, ok := g.Decl.Body.List[0].(*ast.ReturnStmt)
		if !ok || len(ret.Results) != 1 {
			continue
		}
		fs := fieldSel(g.Pkg, ret.Results[0])
		if fs == nil || len(enumConstants(fs.Type())) == 0 {
			continue
		}
		for j := 0; j < st.NumFields(); j++ {
			if st.Field(j) == fs.Origin() {
				tag, fld = m, st.Field(j)
			}
		}
	}
	if tag == nil {
		return nil, nil, ""
	}
	all := enumConstants(fld.Type())
	possible := map[*types.Const]bool{}
	addAll := func() {
		for _, k := range all {
			possible[k] = true
		}
	}
	sites := 0
	for _, f := range c.libFns() {
		pk := f.Pkg
		ast.Inspect(f.Decl.Body, func(nd ast.Node) bool {
			cl, ok := nd.(*ast.CompositeLit)
			if !ok || namedType(pk.TypesInfo.TypeOf(cl)) != namedType(t) {
				return true
			}
			var val ast.Expr
			for _, el := range cl.Elts {
				if kv, ok := el.(*ast.KeyValueExpr); ok {
					if kid, ok := kv.Key.(*ast.Ident); ok && kid.Name == fld.Name() {
						val = kv.Value
					}
				}
			}
			if val == nil {
				return true // zero value: no enumeration constant
			}
			sites++
			if k := constObj(pk, val); k != nil {
				possible[k] = true
				return true
			}
			pi := paramIndexOf(f, val)
			if pi < 0 || paramAssigned(f, val) {
				addAll()
				return true
			}
			callers, _ := c.callersOf(f)
			for _, cs := range callers {
				arg := argFor(cs, pi)
				if arg == nil {
					addAll()
					continue
				}
				if k := constObj(cs.g.Pkg, arg); k != nil {
					possible[k] = true
					continue
				}
				aid := identOf(arg)
				if aid == nil || cs.g.Pkg.TypesInfo.Uses[aid] == nil {
					addAll()
					continue
				}
				obj := cs.g.Pkg.TypesInfo.Uses[aid]
				gcf := c.cfgOf(cs.g)
				var open []*types.Const
				for _, k := range all {
					env := &constEnv{c: c, vars: map[types.Object]constant.Value{obj: k.Val()}}
					g := cs.g
					if !gcf.establishedAt(cs.call, func(cond ast.Expr, holds bool) bool { return env.refutes(g, cond, holds) }, nil) {
						open = append(open, k)
					}
				}
				// a call site where no test restricts the argument tells nothing about it (the restriction lies with
				// its callers, e.g. a format derived from the notation): only restricted sites contribute
				if len(open) < len(all) {
					for _, k := range open {
						possible[k] = true
					}
				}
			}
			return true
		})
	}
	// the kinds no other implementer of the struct's interfaces reports: only this struct can stand for them
	others := map[*types.Const]bool{}
	determinate := true
	for _, pk := range c.P.Lib {
		scope := pk.Types.Scope()
		for _, n := range scope.Names() {
			tn, ok := scope.Lookup(n).(*types.TypeName)
			if !ok || tn.Type() == types.Type(t) {
				continue
			}
			on, ok := tn.Type().(*types.Named)
			if !ok {
				continue
			}
			if _, isIface := on.Underlying().(*types.Interface); isIface {
				continue
			}
			var m *types.Func
			for _, recv := range []types.Type{on, types.NewPointer(on)} {
				if obj, _, _ := types.LookupFieldOrMethod(recv, true, pk.Types, tag.Name()); obj != nil {
					if mf, ok := obj.(*types.Func); ok && types.Identical(mf.Type().(*types.Signature).Results(), tag.Type().(*types.Signature).Results()) {
						m = mf
					}
				}
			}
			if m == nil {
				continue
			}
			g := c.fnOf(m)
			if g == nil || g.Decl.Body == nil || len(g.Decl.Body.List) != 1 {
				determinate = false
				continue
			}
			ret, ok := g.Decl.Body.List[0].(*ast.ReturnStmt)
			if !ok || len(ret.Results) != 1 || constObj(g.Pkg, ret.Results[0]) == nil {
				determinate = false
				continue
			}
			others[constObj(g.Pkg, ret.Results[0])] = true
		}
	}
	if determinate && len(others) > 0 {
		for _, k := range all {
			if !others[k] {
				possible[k] = true
			}
		}
	}
	for _, k := range all {
		if possible[k] {
			kinds = append(kinds, k)
		}
	}
	if len(kinds) == 0 {
		return nil, nil, ""
	}
	var names []string
	for _, k := range kinds {
		names = append(names, k.Name())
	}
	return tag, kinds, fmt.Sprintf("%d construction site(s) in the module: %s", sites, strings.Join(names, ", "))
}

// depRawPanicExceptions: calls of panicking dependency functions that are not under a recover although reading shows
// the panic cannot happen there. One line of reason each.
var depRawPanicExceptions = map[string]string{
	"catalog.(ObjectBuilder).AddProperty | b.rootNode.AddChild": "AddChild panics on a key the object already has; the keys are the parameter names of ONE path, and a path that names a parameter twice is rejected by PathParameters (duplicatedPathParameters) when the paths are collected, before any path-variable schema is built",
}

// ruleDepRawPanic: jsight-schema-core reports the faults of a schema by panicking and recovers at its public entry
// points. Where the module calls below those entry points (it builds the path-variable schema itself), the recover is
// the module's job: a schema that is wrong in a way only the compile step notices would otherwise kill the build.
func (c *Ctx) ruleDepRawPanic(rule string, buildReach map[*ssa.Function]bool) {
	r := c.R
	buildDecls := reachDecls(buildReach)
	r.Rule(rule, "every call of a function of jsight-schema-core from which an explicit panic is reachable without passing a recovering function (reference/dep_panics.json, computed on the dependency's call graph for the version go.mod requires; recomputed in the thorough tier) lies in a function or closure with a deferred recover, or in a function all of whose call sites do (four levels)", 3)
	reach, why := c.depPanics()
	if reach == nil {
		r.Undecided(rule, "reference", why, "")
		return
	}
	if c.Deep {
		now := c.computeDepPanics()
		var diff []string
		for _, k := range sortedStrKeys(now) {
			if _, ok := reach[k]; !ok {
				diff = append(diff, "+"+k)
			}
		}
		for _, k := range sortedStrKeys(reach) {
			if _, ok := now[k]; !ok {
				diff = append(diff, "-"+k)
			}
		}
		if len(diff) > 0 {
			r.Undecided(rule, "reference (recomputed)", "reference/dep_panics.json differs from the call graph of the dependency: "+strings.Join(diff, " "), "")
		} else {
			r.Ok(rule, "reference (recomputed)", "equal to what the deep load gives today", "")
		}
	}
	recovers := func(body *ast.BlockStmt) bool {
		for _, s := range body.List {
			d, ok := s.(*ast.DeferStmt)
			if !ok {
				continue
			}
			// recover() has an effect only when the deferred function itself calls it: in the body of the function
			// literal that is deferred (an argument of the deferred call is evaluated when the defer statement runs)
			fl, isLit := d.Call.Fun.(*ast.FuncLit)
			if !isLit {
				if c.directRecoverFns()[deferCallee(c, d)] {
					return true
				}
				continue
			}
			found := false
			ast.Inspect(fl.Body, func(n ast.Node) bool {
				if _, nested := n.(*ast.FuncLit); nested {
					return false
				}
				if call, ok := n.(*ast.CallExpr); ok {
					if id, ok := call.Fun.(*ast.Ident); ok && id.Name == "recover" && len(call.Args) == 0 {
						found = true
					}
				}
				return true
			})
			if found {
				return true
			}
		}
		return false
	}
	var covered func(f *Fn, depth int, seen map[*types.Func]bool) bool
	covered = func(f *Fn, depth int, seen map[*types.Func]bool) bool {
		if f == nil || f.Decl.Body == nil {
			return false
		}
		if recovers(f.Decl.Body) {
			return true
		}
		if depth >= 4 || seen[f.Obj] {
			return false
		}
		seen[f.Obj] = true
		sites, closed := c.callersOf(f)
		if !closed || len(sites) == 0 {
			return false
		}
		for _, cs := range sites {
			if !siteCovered(cs.g, cs.call, recovers) && !covered(cs.g, depth+1, seen) {
				return false
			}
		}
		return true
	}
	n := 0
	for _, f := range c.libFns() {
		if !buildDecls[f.Obj] {
			continue // the export has its own recover boundary (C17-PANIC-COVER)
		}
		pk := f.Pkg
		inspectWithStack(f.Decl.Body, func(nd ast.Node, stack []ast.Node) bool {
			call, ok := nd.(*ast.CallExpr)
			if !ok {
				return true
			}
			cal := callee(pk, call)
			if cal == nil {
				return true
			}
			class, ok := reach[cal.FullName()]
			if !ok {
				return true
			}
			n++
			key := fmt.Sprintf("%s | %s", f.Name(), exprString(call.Fun))
			where := c.pos(call.Pos())
			// nearest enclosing closure or the function itself
			inner := f.Decl.Body
			for i := len(stack) - 1; i >= 0; i-- {
				if fl, ok := stack[i].(*ast.FuncLit); ok {
					inner = fl.Body
					break
				}
			}
			switch {
			case recovers(inner) || recovers(f.Decl.Body):
				r.Ok(rule, key, "under a deferred recover of the enclosing function or closure", where)
			case covered(f, 0, map[*types.Func]bool{}):
				r.Ok(rule, key, "every call site of the enclosing function is under a deferred recover", where)
			default:
				if why, ok := depRawPanicExceptions[key]; ok {
					r.Ok(rule, key, "named exception: "+why, where)
					r.Except(key, why)
				} else {
					r.Bad(rule, key, "the dependency function "+class+" and is called outside any recover: a document that makes it panic kills the build instead of being rejected", where)
				}
			}
			return true
		})
	}
	if n == 0 {
		r.Undecided(rule, "sites", "no call of a listed dependency function found", "")
	}
}

// siteCovered: the call site lies in a closure of g that has a deferred recover, or g has one itself.
func siteCovered(g *Fn, call *ast.CallExpr, recovers func(*ast.BlockStmt) bool) bool {
	if recovers(g.Decl.Body) {
		return true
	}
	ok := false
	inspectWithStack(g.Decl.Body, func(n ast.Node, stack []ast.Node) bool {
		if n != ast.Node(call) {
			return true
		}
		for i := len(stack) - 1; i >= 0; i-- {
			if fl, isLit := stack[i].(*ast.FuncLit); isLit && recovers(fl.Body) {
				ok = true
			}
		}
		return false
	})
	return ok
}

// ruleLineBounds: bytes.Bytes.BeginningOfLine(i) and EndOfLine(i) of jsight-schema-core index their data without a
// check of their own: BeginningOfLine reads data[min(i, len-1)] (data[-1 as an unsigned index] for empty content),
// EndOfLine reads data[i-1] for i beyond the end. Every error location is built through them (jerr.quote), also for
// an empty file and for a position past the end (EOF errors use index == len): the caller has to exclude both.
func (c *Ctx) ruleLineBounds(rule string) {
	r := c.R
	r.Rule(rule, "every call of bytes.Bytes.BeginningOfLine(i) / EndOfLine(i) in the library is reached only with the content known to be non-empty (a test of <content>.Len() that 0 fails) and i known not to exceed <content>.LenIndex(): the two functions of the dependency index without checking (read in the dependency)", 2)
	n := 0
	for _, f := range c.libFns() {
		pk := f.Pkg
		var cf *funcCFG
		ast.Inspect(f.Decl.Body, func(nd ast.Node) bool {
			call, ok := nd.(*ast.CallExpr)
			if !ok || len(call.Args) != 1 {
				return true
			}
			cal := callee(pk, call)
			if cal == nil || cal.Pkg() == nil || !strings.HasSuffix(cal.Pkg().Path(), "jsight-schema-core/bytes") || (cal.Name() != "BeginningOfLine" && cal.Name() != "EndOfLine") {
				return true
			}
			sel, ok := ast.Unparen(call.Fun).(*ast.SelectorExpr)
			if !ok {
				return true
			}
			n++
			if cf == nil {
				cf = c.cfgOf(f)
			}
			recv, pos := exprString(sel.X), exprString(call.Args[0])
			nonEmpty := func(cond ast.Expr, holds bool) bool {
				env := &constEnv{c: c}
				seen := false
				env.leaf = func(g *Fn, e ast.Expr) (constant.Value, bool) {
					if c2, ok := e.(*ast.CallExpr); ok && g == f && len(c2.Args) == 0 {
						if s2, ok := ast.Unparen(c2.Fun).(*ast.SelectorExpr); ok && s2.Sel.Name == "Len" && exprString(s2.X) == recv {
							seen = true
							return constant.MakeInt64(0), true
						}
					}
					return nil, false
				}
				return env.refutes(f, cond, holds) && seen
			}
			inRange := func(cond ast.Expr, holds bool) bool {
				be, ok := ast.Unparen(cond).(*ast.BinaryExpr)
				if !ok {
					return false
				}
				isLI := func(e ast.Expr) bool {
					c2, ok := ast.Unparen(e).(*ast.CallExpr)
					if !ok || len(c2.Args) != 0 {
						return false
					}
					s2, ok := ast.Unparen(c2.Fun).(*ast.SelectorExpr)
					return ok && s2.Sel.Name == "LenIndex" && exprString(s2.X) == recv
				}
				x, y, op := be.X, be.Y, be.Op
				if isLI(x) {
					x, y = y, x
					switch op {
					case token.LSS:
						op = token.GTR
					case token.GTR:
						op = token.LSS
					case token.LEQ:
						op = token.GEQ
					case token.GEQ:
						op = token.LEQ
					}
				}
				if !isLI(y) || exprString(x) != pos {
					return false
				}
				return (op == token.GTR && !holds) || (op == token.LEQ && holds)
			}
			key := fmt.Sprintf("%s | %s.%s(%s)", f.Name(), recv, cal.Name(), pos)
			switch {
			case !cf.establishedAt(call, nonEmpty, nil):
				r.Bad(rule, key, "reached with possibly empty content: the dependency function indexes data[len-1] (an unsigned -1) and panics; an error in an empty file cannot be reported", c.pos(call.Pos()))
			case !cf.establishedAt(call, inRange, nil):
				r.Bad(rule, key, "reached with a position that may lie beyond the end of the content: the dependency function indexes past the data and panics", c.pos(call.Pos()))
			default:
				r.Ok(rule, key, "content known to be non-empty and the position known to be within it", c.pos(call.Pos()))
			}
			return true
		})
	}
	if n == 0 {
		r.Undecided(rule, "sites", "no call of BeginningOfLine / EndOfLine found: the quoting of the offending line is no longer recognised", "")
	}
}

// ---------- GetValue results ----------

// getValueExceptions: key-domain arguments that are not mechanised. The origin of the key is part of the construct key,
// so the same text with a key from another collection is a different construct.
var getValueExceptions = map[string]string{
	"core.(*JApiCore).checkUserType | recv.userTypes.GetValue(param#0) [parameter]":                                                       "called for the keys of userTypes.Each, or for the type that Check() of such a type names as incorrect, which the dependency found in the set of added types = userTypes",
	"core.(*JApiCore).checkUserType | recv.rawUserTypes.GetValue(param#0) [parameter]":                                                    "userTypes is a subset of rawUserTypes: userTypes.Set is only called with a key of rawUserTypes.Each, or re-sets an existing key",
	"core.(*JApiCore).compileUserTypeWithAllDependencies | recv.rawUserTypes.GetValue(param#0) [parameter]":                               "name is a key of userTypes (checked non-nil a few lines above) or the name of the existing user type whose UsedUserTypes() failed; userTypes is a subset of rawUserTypes",
	"core.(*JApiCore).userTypeSchemaError | recv.rawUserTypes.GetValue(param#1) [parameter]":                                              "both call sites (compileUserTypeWithAllDependencies) hand over the name of a type whose userTypes.GetValue was found non-nil before (currUT, or the loop's ut); userTypes is a subset of rawUserTypes",
	"core.(*JApiCore).compileUserTypeWithAllDependencies | recv.rawUserTypes.GetValue(elem) [ranges over result#0 of fetchUsedUserTypes]": "the loop skips every n whose userTypes.GetValue(n) is nil, and userTypes is a subset of rawUserTypes",
}

func (c *Ctx) ruleGetValue(rule string, reach map[*ssa.Function]bool) {
	r := c.R
	r.Rule(rule, "GetValue of a generated ordered map returns nil for a missing key: its result must be nil-tested before use, be guarded by a dominating Has(k) of the same map and key, be handed to a parameter that the callee tests against nil first, be covered by the interaction-map pairing rule, or its key must come from a documented key domain (named exception including the origin of the key)", 8)
	decls := reachDecls(reach)
	seen := map[string]int{}
	for _, s := range c.getValueSites() {
		if !decls[s.f.Obj] {
			continue
		}
		pk := s.f.Pkg
		key := fmt.Sprintf("%s | %s.GetValue(%s) [%s]", s.f.Name(), s.recv, s.keyStr, s.origin)
		seen[key]++
		if seen[key] > 1 {
			// same construct several times: one obligation each, same discharge
			key = fmt.Sprintf("%s #%d", key, seen[key])
		}
		baseKey := strings.TrimSuffix(key, fmt.Sprintf(" #%d", seen[strings.TrimSuffix(key, fmt.Sprintf(" #%d", seen[key]))]))
		_ = baseKey
		where := c.pos(s.call.Pos())
		parent := s.stack[len(s.stack)-1]
		cf := buildCFG(s.f.Decl.Body)
		// Has guard
		hasGuard := false
		recvPath := accessPath(pk, s.call.Fun.(*ast.SelectorExpr).X)
		kPath := accessPath(pk, s.call.Args[0])
		ast.Inspect(s.f.Decl.Body, func(n ast.Node) bool {
			ifs, ok := n.(*ast.IfStmt)
			if !ok || len(ifs.Body.List) == 0 {
				return true
			}
			u, ok := ast.Unparen(ifs.Cond).(*ast.UnaryExpr)
			if !ok || u.Op != token.NOT {
				return true
			}
			hc, ok := ast.Unparen(u.X).(*ast.CallExpr)
			if !ok || len(hc.Args) != 1 {
				return true
			}
			if cal := callee(pk, hc); cal != nil && cal.Name() == "Has" && accessPath(pk, hc.Fun.(*ast.SelectorExpr).X) == recvPath && accessPath(pk, hc.Args[0]) == kPath && kPath != "" {
				if _, isRet := ifs.Body.List[len(ifs.Body.List)-1].(*ast.ReturnStmt); isRet && cf.dominatedBy(s.call, ifs.Cond) {
					hasGuard = true
				}
			}
			return true
		})
		if hasGuard {
			r.Ok(rule, key, "dominated by `if !Has(k) { return }` on the same map and key", where)
			continue
		}
		switch p := parent.(type) {
		case *ast.AssignStmt:
			// v := X.GetValue(k): every dereference of v must be nil-guarded
			if len(p.Lhs) == 1 {
				if id, ok := p.Lhs[0].(*ast.Ident); ok {
					obj := pk.TypesInfo.Defs[id]
					if obj == nil {
						obj = pk.TypesInfo.Uses[id]
					}
					path := accessPath(pk, id)
					bad := ""
					inspectWithStack(s.f.Decl.Body, func(n ast.Node, st []ast.Node) bool {
						uid, ok := n.(*ast.Ident)
						if !ok || pk.TypesInfo.Uses[uid] != obj || uid.Pos() < p.End() {
							return true
						}
						par := st[len(st)-1]
						switch pp := par.(type) {
						case *ast.BinaryExpr:
							if isNil(pk, pp.X) || isNil(pk, pp.Y) {
								return true
							}
						}
						if guardedNonNil(pk, cf, s.f.Decl.Body, uid, st, path) == "" {
							// passing it on to a nil-safe parameter is fine
							if call, ok := par.(*ast.CallExpr); ok {
								for i, a := range call.Args {
									if a == ast.Expr(uid) {
										if cal := callee(pk, call); cal != nil && (c.nilSafeParam(cal, i) || !c.P.IsLibPkg(cal.Pkg())) {
											return true
										}
									}
								}
							}
							bad = c.pos(uid.Pos())
						}
						return true
					})
					if bad == "" {
						r.Ok(rule, key, "the result is assigned to a variable that is nil-tested before every use", where)
						continue
					}
				}
			}
		case *ast.CallExpr:
			for i, a := range p.Args {
				if a == ast.Expr(s.call) {
					if cal := callee(pk, p); cal != nil && c.nilSafeParam(cal, i) {
						r.Ok(rule, key, "handed to parameter #"+fmt.Sprint(i)+" of "+cal.Name()+", which tests it against nil first", where)
						goto next
					}
				}
			}
		case *ast.TypeAssertExpr:
			// interaction map: covered by the pairing rule of the panic inventory (Has guard is part of it)
		}
		if why, ok := getValueExceptions[strings.SplitN(key, " #", 2)[0]]; ok {
			r.Ok(rule, key, "named exception (key domain): "+why, where)
			r.Except(key, why)
			continue
		}
		r.Bad(rule, key, "the result of GetValue (nil when the key is missing) is used without a nil test, a Has guard or a documented key domain", where)
	next:
	}
}

// ---------- value paired with an error, used on the error branch ----------

func (c *Ctx) ruleErrBranchValue(rule string, reach map[*ssa.Function]bool) {
	r := c.R
	r.Rule(rule, "after `v, err := f()` with a pointer/interface v, v is not used inside the `if err != nil { ... }` branch (by convention it is nil there) except in nil comparisons", 5)
	decls := reachDecls(reach)
	for _, f := range c.libFns() {
		if !decls[f.Obj] {
			continue
		}
		pk := f.Pkg
		idx := 0
		ast.Inspect(f.Decl.Body, func(n ast.Node) bool {
			blk, ok := n.(*ast.BlockStmt)
			if !ok {
				return true
			}
			for i, st := range blk.List {
				as, ok := st.(*ast.AssignStmt)
				if !ok || len(as.Lhs) != 2 || len(as.Rhs) != 1 {
					continue
				}
				if _, isCall := ast.Unparen(as.Rhs[0]).(*ast.CallExpr); !isCall {
					continue
				}
				vid, ok1 := as.Lhs[0].(*ast.Ident)
				eid, ok2 := as.Lhs[1].(*ast.Ident)
				if !ok1 || !ok2 || vid.Name == "_" || eid.Name == "_" {
					continue
				}
				vobj, eobj := objOf(pk, vid), objOf(pk, eid)
				if vobj == nil || eobj == nil || !isErrorLike(eobj.Type()) {
					continue
				}
				switch vobj.Type().Underlying().(type) {
				case *types.Pointer, *types.Interface:
				default:
					continue
				}
				if i+1 >= len(blk.List) {
					continue
				}
				ifs, ok := blk.List[i+1].(*ast.IfStmt)
				if !ok {
					continue
				}
				be, ok := ast.Unparen(ifs.Cond).(*ast.BinaryExpr)
				if !ok || be.Op != token.NEQ || !isNil(pk, be.Y) {
					continue
				}
				if cid, ok := ast.Unparen(be.X).(*ast.Ident); !ok || pk.TypesInfo.Uses[cid] != eobj {
					continue
				}
				idx++
				key := fmt.Sprintf("%s | %s, %s := %s", f.Name(), vid.Name, eid.Name, exprString(as.Rhs[0].(*ast.CallExpr).Fun))
				bad := ""
				inspectWithStack(ifs.Body, func(m ast.Node, stk []ast.Node) bool {
					uid, ok := m.(*ast.Ident)
					if !ok || pk.TypesInfo.Uses[uid] != vobj {
						return true
					}
					if len(stk) > 0 {
						if pb, ok := stk[len(stk)-1].(*ast.BinaryExpr); ok && (isNil(pk, pb.X) || isNil(pk, pb.Y)) {
							return true
						}
					}
					bad = c.pos(uid.Pos())
					return true
				})
				if bad == "" {
					r.OkTrivial(rule, key, "the value is not used on the error branch", c.pos(as.Pos()))
				} else {
					r.Bad(rule, key, "the value returned together with a non-nil error is used on the error branch (at "+bad+"): by the (nil, err) convention it is nil there", c.pos(as.Pos()))
				}
			}
			return true
		})
	}
}

func objOf(pk *packages.Package, id *ast.Ident) types.Object {
	if o := pk.TypesInfo.Defs[id]; o != nil {
		return o
	}
	return pk.TypesInfo.Uses[id]
}

// ---------- constant index ----------

var constIndexExceptions = map[string]string{
	"core.pathParameters | segment[0]":                  "the segments come from splitPath, which drops empty strings",
	"core.pathParameters | segment[1:len(segment) - 1]": "the segments come from splitPath, which drops empty strings; the slice is taken only when the segment starts with '{' and ends with '}'",
	"directive.IsHTTPResponseCode | s[0]":               "strconv.Atoi(s) succeeded, so s is not empty",
	"catalog.typeNameToSchemaName | typeName[1:]":       "user type names start with '@' followed by at least one character (scanner/schema-core naming rule)",
}

func (c *Ctx) ruleConstIndex(rule string, reach map[*ssa.Function]bool) {
	r := c.R
	r.Rule(rule, "x[k] / x[k:] with a constant k on a string or slice that is a parameter, field or call result needs dominating evidence that len(x) > k: a len()/emptiness test that returns, an enclosing len condition, a range element, or a named exception", 1)
	decls := reachDecls(reach)
	n := 0
	for _, f := range c.libFns() {
		if !decls[f.Obj] {
			continue
		}
		pk := f.Pkg
		cf := buildCFG(f.Decl.Body)
		inspectWithStack(f.Decl.Body, func(nd ast.Node, stack []ast.Node) bool {
			var base, idx ast.Expr
			slice := false
			switch x := nd.(type) {
			case *ast.IndexExpr:
				base, idx = x.X, x.Index
			case *ast.SliceExpr:
				if x.Low != nil {
					base, idx, slice = x.X, x.Low, true
				}
			}
			if base == nil {
				return true
			}
			t := pk.TypesInfo.TypeOf(base)
			if t == nil {
				return true
			}
			switch u := t.Underlying().(type) {
			case *types.Slice:
			case *types.Basic:
				if u.Info()&types.IsString == 0 {
					return true
				}
			default:
				return true
			}
			k, ok := constInt(pk, idx)
			if !ok {
				return true
			}
			if slice && k == 0 {
				return true
			}
			// skip LHS of assignments into freshly made slices? keep simple: only reads
			path := accessPath(pk, base)
			n++
			key := fmt.Sprintf("%s | %s", f.Name(), exprString(nd.(ast.Expr)))
			where := c.pos(nd.Pos())
			if why := lenEvidence(pk, cf, f.Decl.Body, nd, stack, base, path, k, slice); why != "" {
				r.Ok(rule, key, why, where)
				return true
			}
			if why, ok := constIndexExceptions[key]; ok {
				r.Ok(rule, key, "named exception: "+why, where)
				r.Except(key, why)
				return true
			}
			r.Bad(rule, key, fmt.Sprintf("constant index %d on a value that may be shorter: no dominating length or emptiness test", k), where)
			return true
		})
	}
	if n == 0 {
		r.OkTrivial(rule, "none", "no constant index on a string/slice in reachable functions", "")
	}
}

// lenEvidence looks for evidence that len(base) > k (or >= k for slicing).
func lenEvidence(pk *packages.Package, cf *funcCFG, body *ast.BlockStmt, site ast.Node, stack []ast.Node, base ast.Expr, path string, k int64, slice bool) string {
	need := k + 1
	if slice {
		need = k
	}
	// literal or freshly built value
	switch b := ast.Unparen(base).(type) {
	case *ast.CompositeLit:
		if int64(len(b.Elts)) >= need {
			return "literal of sufficient length"
		}
	case *ast.BasicLit:
		return "literal"
	}
	if path == "" {
		return ""
	}
	// lenAtLeast(e): e implies len(path) >= v ?
	var impliesAt func(e ast.Expr, truth bool, path string, depth int) int64
	implies := func(e ast.Expr, truth bool) int64 { return impliesAt(e, truth, path, 0) }
	impliesAt = func(e ast.Expr, truth bool, path string, depth int) int64 {
		// a predicate helper of the package whose body is one returned conjunction: when it holds, every conjunct
		// holds of the argument that stands for the helper's parameter
		if call, isCall := ast.Unparen(e).(*ast.CallExpr); isCall && truth && depth < 3 {
			if cal := callee(pk, call); cal != nil && cal.Pkg() == pk.Types {
				var decl *ast.FuncDecl
				for _, file := range pk.Syntax {
					for _, d := range file.Decls {
						if fd, ok := d.(*ast.FuncDecl); ok && pk.TypesInfo.Defs[fd.Name] == types.Object(cal) {
							decl = fd
						}
					}
				}
				if decl != nil && decl.Body != nil && len(decl.Body.List) == 1 {
					if ret, ok := decl.Body.List[0].(*ast.ReturnStmt); ok && len(ret.Results) == 1 {
						k, best := 0, int64(-1)
						for _, fl := range decl.Type.Params.List {
							for _, nm := range fl.Names {
								if k < len(call.Args) && accessPath(pk, call.Args[k]) == path {
									var cj func(x ast.Expr) []ast.Expr
									cj = func(x ast.Expr) []ast.Expr {
										if b2, ok := ast.Unparen(x).(*ast.BinaryExpr); ok && b2.Op == token.LAND {
											return append(cj(b2.X), cj(b2.Y)...)
										}
										return []ast.Expr{x}
									}
									for _, one := range cj(ret.Results[0]) {
										if v := impliesAt(one, true, accessPath(pk, nm), depth+1); v > best {
											best = v
										}
									}
								}
								k++
							}
						}
						if best >= 0 {
							return best
						}
					}
				}
			}
		}
		be, ok := ast.Unparen(e).(*ast.BinaryExpr)
		if !ok {
			return -1
		}
		var lenOf func(x ast.Expr) bool
		lenOf = func(x ast.Expr) bool {
			if vid, ok := ast.Unparen(x).(*ast.Ident); ok {
				// a local defined once as len(path)
				obj := pk.TypesInfo.Uses[vid]
				var def ast.Expr
				n := 0
				ast.Inspect(body, func(nd ast.Node) bool {
					if as, ok := nd.(*ast.AssignStmt); ok {
						for j, l := range as.Lhs {
							if lid, ok := l.(*ast.Ident); ok && (pk.TypesInfo.Defs[lid] == obj || pk.TypesInfo.Uses[lid] == obj) && obj != nil {
								n++
								if j < len(as.Rhs) {
									def = as.Rhs[j]
								}
							}
						}
					}
					return true
				})
				if n == 1 && def != nil {
					if _, isId := ast.Unparen(def).(*ast.Ident); !isId {
						return lenOf(def)
					}
				}
				return false
			}
			call, ok := ast.Unparen(x).(*ast.CallExpr)
			if !ok || len(call.Args) != 1 {
				return false
			}
			id, ok := call.Fun.(*ast.Ident)
			return ok && id.Name == "len" && accessPath(pk, call.Args[0]) == path
		}
		if str, ok := constString(pk, be.Y); ok && accessPath(pk, be.X) == path {
			// s == "" false / s != "" true -> len >= 1
			if str == "" && ((be.Op == token.EQL && !truth) || (be.Op == token.NEQ && truth)) {
				return 1
			}
			return -1
		}
		if !lenOf(be.X) {
			return -1
		}
		v, ok := constInt(pk, be.Y)
		if !ok {
			return -1
		}
		op := be.Op
		if !truth {
			switch op {
			case token.EQL:
				op = token.NEQ
			case token.NEQ:
				op = token.EQL
			case token.LSS:
				op = token.GEQ
			case token.LEQ:
				op = token.GTR
			case token.GTR:
				op = token.LEQ
			case token.GEQ:
				op = token.LSS
			}
		}
		switch op {
		case token.GTR:
			return v + 1
		case token.GEQ:
			return v
		case token.NEQ:
			if v == 0 {
				return 1
			}
		case token.EQL:
			return v
		}
		return -1
	}
	var disj func(e ast.Expr) []ast.Expr
	disj = func(e ast.Expr) []ast.Expr {
		if be, ok := ast.Unparen(e).(*ast.BinaryExpr); ok && be.Op == token.LOR {
			return append(disj(be.X), disj(be.Y)...)
		}
		return []ast.Expr{e}
	}
	var conjs func(e ast.Expr) []ast.Expr
	conjs = func(e ast.Expr) []ast.Expr {
		if be, ok := ast.Unparen(e).(*ast.BinaryExpr); ok && be.Op == token.LAND {
			return append(conjs(be.X), conjs(be.Y)...)
		}
		return []ast.Expr{e}
	}
	// enclosing conditions
	for i := len(stack) - 1; i >= 0; i-- {
		switch p := stack[i].(type) {
		case *ast.IfStmt:
			if p.Body.Pos() <= site.Pos() && site.End() <= p.Body.End() {
				for _, cj := range conjs(p.Cond) {
					if implies(cj, true) >= need {
						return "enclosing condition implies a sufficient length"
					}
				}
			}
		case *ast.BinaryExpr:
			if p.Op == token.LAND && p.Y.Pos() <= site.Pos() && site.End() <= p.Y.End() {
				for _, cj := range conjs(p.X) {
					if implies(cj, true) >= need {
						return "short-circuit length test"
					}
				}
			}
			if p.Op == token.LOR && p.Y.Pos() <= site.Pos() && site.End() <= p.Y.End() {
				for _, dj := range disj(p.X) {
					if implies(dj, false) >= need {
						return "short-circuit length test"
					}
				}
			}
		case *ast.ForStmt:
			if p.Cond != nil && p.Body.Pos() <= site.Pos() && site.End() <= p.Body.End() {
				for _, cj := range conjs(p.Cond) {
					if implies(cj, true) >= need {
						return "loop condition implies a sufficient length"
					}
				}
			}
		}
	}
	// edge facts: every path to the site crosses an edge of a test that implies the length (own if, operand of ||,
	// earlier case of a tagless switch), with no assignment to the value in between
	if cf != nil {
		kills := func(n ast.Node) bool {
			k := false
			ast.Inspect(n, func(m ast.Node) bool {
				if as, ok := m.(*ast.AssignStmt); ok {
					for _, l := range as.Lhs {
						if lp := accessPath(pk, l); lp != "" && (lp == path || strings.HasPrefix(path, lp+".")) {
							k = true
						}
					}
				}
				return true
			})
			return k
		}
		if cf.establishedAt(site, func(cond ast.Expr, trueEdge bool) bool { return implies(cond, trueEdge) >= need }, kills) {
			return "every path crosses an edge of a length/emptiness test that implies a sufficient length"
		}
	}
	// dominating `if <cond> { return }` where !cond implies the length
	res := ""
	ast.Inspect(body, func(n ast.Node) bool {
		ifs, ok := n.(*ast.IfStmt)
		if !ok || res != "" || ifs.End() > site.Pos() || len(ifs.Body.List) == 0 {
			return res == ""
		}
		switch last := ifs.Body.List[len(ifs.Body.List)-1].(type) {
		case *ast.ReturnStmt, *ast.BranchStmt:
		case *ast.ExprStmt:
			if call, ok := last.X.(*ast.CallExpr); !ok || exprString(call.Fun) != "panic" {
				return true
			}
		default:
			return true
		}
		for _, dj := range disj(ifs.Cond) {
			if implies(dj, false) >= need && cf.dominatedBy(site, ifs.Cond) {
				res = "dominated by a length/emptiness test that returns"
			}
		}
		return true
	})
	return res
}

// ---------- recursion ----------

type recWitness struct {
	kind string // structural | visited | macro | dependency
	why  string
	// dependency witnesses: what is assumed about jsight-schema-core, and the part that is visible in this code
	assume           string
	guarded, guardBy string // "pkg:Func": every call of guarded is dominated by a successful call of guardBy
	noSelfCall       bool   // no member calls itself directly
}

// recursionWitnesses: witnesses that rest on another rule (macro) or on a named assumption about the dependency.
// A component is matched when it shares a member with the key. Every other component must verify structurally or by a
// visited set. (Until the fix 5d5142d CastToObject, checkPathSchemaRoot and checkPathSchemaProperty* were listed here
// with the assumption "Check() rejects every reference cycle": it does not, a cycle through `nullable` is accepted,
// and the build died with a stack overflow on  TYPE @a  @a // {nullable: true}. They now carry visited sets.)
var recursionWitnesses = map[string]recWitness{
	"catalog.(*ExchangeContent).collectJSightContentArrayItems+catalog.(*ExchangeContent).collectJSightContentObjectProperties+catalog.astNodeToJsightContent": {kind: "structural", why: "; descends into node.Children of the schema AST"},
	"catalog.(*ExchangeContent).processAllOf":                {kind: "structural", why: "; descends into c.Children of the exchange content tree"},
	"catalog.astNodeToSchemaRule":                            {kind: "structural", why: "; descends into the Properties/Items of a rule AST node"},
	"core.(*JApiCore).addDirectiveBranch":                    {kind: "structural", why: "; descends into d.Children"},
	"core.(*JApiCore).collectPaths":                          {kind: "structural", why: "; descends into dd[i].Children"},
	"directive.(Directive).HTTPMethod":                       {kind: "structural", why: "; walks d.Parent"},
	"directive.(Directive).JsonRpcMethodName":                {kind: "structural", why: "; walks d.Parent"},
	"directive.(Directive).Path":                             {kind: "structural", why: "; walks d.Parent"},
	"core.(userTypeError).Error":                             {kind: "structural", why: "; unwraps e.err"},
	"core.(*JApiCore).compileUserTypeWithAllDependencies":    {kind: "visited", why: "processedUserTypes"},
	"core.(*usedUserTypeFetcher).fetch":                      {kind: "visited", why: "alreadyProcessed"},
	"core.(*JApiCore).checkMacro+core.(*JApiCore).findPaste": {kind: "macro", why: "three-colour visited state verified by C10-CYCLE-REJECTED"},
	"core.(*JApiCore).processDirective+core.(*JApiCore).processPasteDirective+core.(*JApiCore).processPasteDirectiveList": {kind: "macro", why: "follows the macro table; terminates because checkMacroForRecursion rejected every cycle before (C10-CYCLE-REJECTED R4) and otherwise descends into Children"},
	// (until the fix 545fa26 this component was listed with a dependency witness - "only run on a Path schema that
	// checkPathSchema accepted, whose root chain of references was followed with a visited set" - and that was wrong a
	// second time, after F25: checkPathSchemaRoot follows the chain of SHORTCUT roots only; an object root with a `type`
	// rule naming a self-referring type is accepted, and the two functions called each other until the stack was gone,
	// F40. It carries a visited set now, and the checker verifies it.)
	"catalog.(*JSchemaObject).appendPropertiesFromShortcut+catalog.(*JSchemaObject).objectFirstLevelProperties": {kind: "visited", why: "visited"},
	"core.(*JApiCore).checkPathSchema+core.(*JApiCore).checkPathSchemaPropertyInAllOf+core.(*JApiCore).checkPathSchemaRoot": {kind: "dependency",
		why: "follows allOf references by name", noSelfCall: true,
		assume: "jsight-schema-core's Check() rejects every cycle of allOf references (\"The unacceptable recursion in the `allOf` rule\"; observed for cycles of length 1, 2 and 3)"},
	"core.(*JApiCore).checkUserType": {kind: "dependency",
		why:    "moves to the user type that the dependency's Check() names as incorrect",
		assume: "Check() of the type it named as incorrect reports that type itself (or no other type): the move happens at most once"},
}

func (c *Ctx) ruleRecursion(reach map[*ssa.Function]bool) {
	r := c.R
	r.Rule("C01-RECURSION", "every strongly connected component of the library call graph (VTA) reachable from the build and serialise entry points has a termination witness that is verified in the code: structural (each recursive call passes something strictly below a parameter: a field/element/Parent), visited (a map lookup on the key with early exit and an insertion dominate the recursive call), macro (C10-CYCLE-REJECTED), dependency pre-pass (the recursion follows user-type references by name; jsight-schema-core's Check() on every user type, which rejects reference and allOf cycles, runs in compileCore before these functions can run), scanner (delegation depth bounded by E1). A component without a verified witness is a violation.", 15)
	roots := append(c.ssaRoots(buildRoots...), c.ssaRoots(serialiseRoots...)...)
	roots = append(roots, c.marshalRoots(nil)...)
	all := c.reachableLib(roots, nil)
	depOK := c.dependencyPrepass()
	for _, comp := range c.libSCCs(all) {
		var names []string
		scannerOnly := true
		for _, f := range comp {
			names = append(names, prog.SSAName(f))
			if !strings.HasPrefix(prog.SSAName(f), "scanner.") {
				scannerOnly = false
			}
		}
		key := strings.Join(names, "+")
		where := c.pos(comp[0].Pos())
		if scannerOnly && len(comp) > 3 {
			m := c.Machine()
			if m != nil && len(m.Unsupported) == 0 {
				r.Ok("C01-RECURSION", "scanner delegation component", fmt.Sprintf("%d step functions that call each other through s.step(s,c): E1 inlined every delegation for every byte with maximal depth %d (a cycle would exceed the bound and fail the extraction)", len(comp), m.MaxDepth), where)
			} else {
				r.Undecided("C01-RECURSION", "scanner delegation component", "E1 extraction not available", where)
			}
			continue
		}
		// a component that shares a member with a confirmed entry keeps that entry's kind (a split or renamed helper
		// keeps its witness); any other component must verify by the strict forms of the structural or visited witness
		w, known := recursionWitnessFor(names)
		whyS := c.verifyStructural(comp, known && w.kind == "structural")
		if whyS == "" && (!known || w.kind == "structural") {
			r.Ok("C01-RECURSION", key, "structural: every cycle of calls passes a value strictly below a parameter (field, element, Parent)"+w.why, where)
			continue
		}
		whyV := c.verifyVisitedComp(comp)
		if whyV != "" && len(comp) == 1 && c.verifyVisited(comp) == "" {
			whyV = ""
		}
		if whyV == "" && (!known || w.kind == "visited") {
			r.Ok("C01-RECURSION", key, "visited set: every cycle of calls passes a member whose calls into the component are dominated by the miss edge of a lookup and by the insertion of the same key into a map that is handed down", where)
			continue
		}
		if !known {
			r.Bad("C01-RECURSION", key, "a recursive component without a termination witness (not structural: "+whyS+"; no visited set: "+whyV+"): unbounded recursion kills the process with a stack overflow that recover() cannot catch", where)
			continue
		}
		switch w.kind {
		case "macro":
			r.Ok("C01-RECURSION", key, "macro table: "+w.why, where)
		case "dependency":
			if depOK != "" {
				r.Bad("C01-RECURSION", key, "the dependency pre-pass witness no longer verifies: "+depOK, where)
			} else if g := c.verifyNoSelfCall(w, comp); g != "" {
				r.Bad("C01-RECURSION", key, "the dependency witness no longer verifies: "+g, where)
			} else if g := c.verifyDependencyGuard(w); g != "" {
				r.Bad("C01-RECURSION", key, "the dependency witness no longer verifies: "+g, where)
			} else {
				r.Ok("C01-RECURSION", key, "dependency pre-pass: "+w.why+"; compileUserTypes (Check() of every user type) precedes in the pipeline", where)
				r.Assumptions = append(r.Assumptions, "C01-RECURSION "+key+": "+w.assume)
			}
		default:
			r.Bad("C01-RECURSION", key, "the "+w.kind+" witness recorded for this component no longer verifies (not structural: "+whyS+"; no visited set: "+whyV+")", where)
		}
	}
}

// recursionWitnessFor finds the table entry that shares a member with the component.
func recursionWitnessFor(names []string) (recWitness, bool) {
	var keys []string
	for k := range recursionWitnesses {
		keys = append(keys, k)
	}
	sort.Strings(keys)
	for _, k := range keys {
		for _, m := range strings.Split(k, "+") {
			for _, n := range names {
				if m == n {
					return recursionWitnesses[k], true
				}
			}
		}
	}
	return recWitness{}, false
}

// verifyNoSelfCall: a witness that speaks of one kind of reference only (allOf) does not cover a member that calls
// itself directly (that was the shape of the reference-chain recursion repaired in 5d5142d).
func (c *Ctx) verifyNoSelfCall(w recWitness, comp []*ssa.Function) string {
	if !w.noSelfCall {
		return ""
	}
	for _, sf := range comp {
		m := declOf(sf)
		f := c.fnOf(m)
		if f == nil {
			continue
		}
		if len(callsIn(f.Pkg, f.Decl.Body, m.Origin())) > 0 {
			return m.Name() + " calls itself directly: that recursion is not the one the witness describes"
		}
	}
	return ""
}

// verifyDependencyGuard checks the part of a dependency witness that is visible in the code: when the witness names
// a guard function and a guarded function, every library call of the guarded function must be dominated by the nil
// edge of the error of a call of the guard.
func (c *Ctx) verifyDependencyGuard(w recWitness) string {
	if w.guarded == "" {
		return ""
	}
	gp := strings.SplitN(w.guarded, ":", 2)
	bp := strings.SplitN(w.guardBy, ":", 2)
	guarded := c.P.LookupFunc(gp[0], gp[1])
	by := c.P.LookupFunc(bp[0], bp[1])
	if guarded == nil || by == nil {
		return "guard " + w.guardBy + " or guarded function " + w.guarded + " not found"
	}
	n := 0
	for _, f := range c.libFns() {
		if f.Obj == guarded {
			continue
		}
		calls := callsIn(f.Pkg, f.Decl.Body, guarded)
		if len(calls) == 0 {
			continue
		}
		cf := buildCFG(f.Decl.Body)
		for _, call := range calls {
			n++
			ok := false
			for _, g := range callsIn(f.Pkg, f.Decl.Body, by) {
				// the guard's error is tested: `if err := guard(..); err != nil { return .. }`
				var errVar types.Object
				inspectWithStack(f.Decl.Body, func(nd ast.Node, st []ast.Node) bool {
					if as, isAs := nd.(*ast.AssignStmt); isAs && len(as.Rhs) == 1 && ast.Unparen(as.Rhs[0]) == ast.Expr(g) && len(as.Lhs) >= 1 {
						if id, isId := as.Lhs[len(as.Lhs)-1].(*ast.Ident); isId {
							if o := f.Pkg.TypesInfo.Defs[id]; o != nil {
								errVar = o
							} else {
								errVar = f.Pkg.TypesInfo.Uses[id]
							}
						}
					}
					return true
				})
				if errVar == nil {
					continue
				}
				est := func(cond ast.Expr, trueEdge bool) bool {
					be, isBe := ast.Unparen(cond).(*ast.BinaryExpr)
					if !isBe || !isNil(f.Pkg, be.Y) {
						return false
					}
					id, isId := ast.Unparen(be.X).(*ast.Ident)
					if !isId || f.Pkg.TypesInfo.Uses[id] != errVar {
						return false
					}
					return (be.Op == token.EQL && trueEdge) || (be.Op == token.NEQ && !trueEdge)
				}
				if cf.dominatedBy(call, g) && cf.establishedAt(call, est, nil) {
					ok = true
				}
			}
			if !ok {
				return fmt.Sprintf("%s is called in %s without a preceding successful %s", gp[1], f.Name(), bp[1])
			}
		}
	}
	if n == 0 {
		return "no call of " + gp[1] + " found"
	}
	return ""
}

// verifyVisitedComp: the component has members ("guarded") in which every call into the component is reached only
// over the miss edge of a map lookup M[k] and after the insertion M[k] = ..., the map M being a parameter or a field
// (not created per call), and every cycle of the component passes a guarded member.
func (c *Ctx) verifyVisitedComp(comp []*ssa.Function) string {
	members := map[*types.Func]bool{}
	for _, f := range comp {
		if o := declOf(f); o != nil {
			members[o.Origin()] = true
		}
	}
	guarded := map[*types.Func]bool{}
	edges := map[*types.Func][]*types.Func{}
	for m := range members {
		f := c.fnOf(m)
		if f == nil {
			return "no syntax for " + m.Name()
		}
		pk := f.Pkg
		var calls []*ast.CallExpr
		ast.Inspect(f.Decl.Body, func(n ast.Node) bool {
			if call, ok := n.(*ast.CallExpr); ok {
				if cal := callee(pk, call); cal != nil && members[cal.Origin()] {
					calls = append(calls, call)
					edges[m] = append(edges[m], cal.Origin())
				}
			}
			return true
		})
		if len(calls) == 0 {
			continue
		}
		// candidate (map, key) pairs: insertions M[k] = v where M is rooted at a parameter or the receiver
		params := map[types.Object]bool{}
		if f.Decl.Recv != nil {
			for _, fl := range f.Decl.Recv.List {
				for _, n := range fl.Names {
					params[pk.TypesInfo.Defs[n]] = true
				}
			}
		}
		for _, fl := range f.Decl.Type.Params.List {
			for _, n := range fl.Names {
				params[pk.TypesInfo.Defs[n]] = true
			}
		}
		rootIsParam := func(e ast.Expr) bool {
			for {
				switch x := ast.Unparen(e).(type) {
				case *ast.Ident:
					return params[pk.TypesInfo.Uses[x]]
				case *ast.SelectorExpr:
					e = x.X
				case *ast.StarExpr:
					e = x.X
				default:
					return false
				}
			}
		}
		type cand struct {
			ins    *ast.AssignStmt
			m, key string
		}
		var cands []cand
		ast.Inspect(f.Decl.Body, func(n ast.Node) bool {
			if as, ok := n.(*ast.AssignStmt); ok && len(as.Lhs) == 1 {
				if b, k, isIdx := indexOn(pk, as.Lhs[0]); isIdx && rootIsParam(b) {
					cands = append(cands, cand{as, accessPath(pk, b), keyString(pk, k)})
				}
			}
			return true
		})
		cf := buildCFG(f.Decl.Body)
		for _, cd := range cands {
			if cd.m == "" || cd.key == "" {
				continue
			}
			keyIds := map[types.Object]bool{}
			if as := cd.ins; len(as.Lhs) == 1 {
				if _, k, isIdx := indexOn(pk, as.Lhs[0]); isIdx {
					ast.Inspect(k, func(x ast.Node) bool {
						if id, ok := x.(*ast.Ident); ok {
							if o := pk.TypesInfo.Uses[id]; o != nil {
								keyIds[o] = true
							}
						}
						return true
					})
				}
			}
			miss, kills := missFact(pk, f.Decl.Body, cd.m, cd.key, keyIds)
			all := true
			for _, call := range calls {
				if !(cf.dominatedBy(call, cd.ins) && cf.establishedAt(call, miss, kills)) {
					all = false
				}
				// the map handed down must be the same map (a parameter or field), not a fresh one
				for _, a := range call.Args {
					if t := pk.TypesInfo.TypeOf(a); t != nil {
						if _, isMap := t.Underlying().(*types.Map); isMap && !rootIsParam(a) {
							all = false
						}
					}
				}
			}
			if all {
				guarded[m] = true
			}
		}
	}
	// every cycle passes a guarded member: the graph without the guarded members is acyclic
	color := map[*types.Func]int{}
	var cyc func(x *types.Func) bool
	cyc = func(x *types.Func) bool {
		color[x] = 1
		for _, y := range edges[x] {
			if guarded[y] {
				continue
			}
			if color[y] == 1 || (color[y] == 0 && cyc(y)) {
				return true
			}
		}
		color[x] = 2
		return false
	}
	for m := range members {
		if !guarded[m] && color[m] == 0 && cyc(m) {
			return "there is a cycle of calls that passes no member guarded by a visited set"
		}
	}
	if len(guarded) == 0 {
		return "no member is guarded by a visited set"
	}
	return ""
}

// keyString names a map key expression by object identity where possible.
func keyString(pk *packages.Package, e ast.Expr) string {
	if p := accessPath(pk, e); p != "" {
		return p
	}
	return exprString(e)
}

// verifyStructural: every call between members passes, as receiver or argument, an expression that is strictly below
// a parameter/receiver of the caller (field selection, index, range element, or local assigned from such).
func (c *Ctx) verifyStructural(comp []*ssa.Function, lenient bool) string {
	members := map[*types.Func]bool{}
	for _, f := range comp {
		if o := declOf(f); o != nil {
			members[o.Origin()] = true
		}
	}
	nonStrict := map[*types.Func][]*types.Func{}
	var nonStrictDesc []string
	for m := range members {
		f := c.fnOf(m)
		if f == nil {
			return "no syntax for " + m.Name()
		}
		pk := f.Pkg
		params := map[types.Object]bool{}
		if f.Decl.Recv != nil {
			for _, fl := range f.Decl.Recv.List {
				for _, n := range fl.Names {
					params[pk.TypesInfo.Defs[n]] = true
				}
			}
		}
		for _, fl := range f.Decl.Type.Params.List {
			for _, n := range fl.Names {
				params[pk.TypesInfo.Defs[n]] = true
			}
		}
		// derived locals: range vars over below-param expressions, locals assigned from below-param expressions
		below := map[types.Object]bool{}
		var isBelow func(e ast.Expr, strict bool) bool
		isBelow = func(e ast.Expr, strict bool) bool {
			switch x := ast.Unparen(e).(type) {
			case *ast.Ident:
				obj := pk.TypesInfo.Uses[x]
				if below[obj] {
					return true
				}
				return !strict && params[obj]
			case *ast.SelectorExpr:
				if fieldSel(pk, x) != nil {
					return isBelow(x.X, false)
				}
			case *ast.IndexExpr:
				return isBelow(x.X, false)
			case *ast.StarExpr:
				return isBelow(x.X, strict)
			case *ast.UnaryExpr:
				if x.Op == token.AND {
					return isBelow(x.X, strict)
				}
			case *ast.CallExpr:
				// accessor on a below/param value that returns a component (e.g. rules.Get(...), ut.Schema.(*T)):
				// only for components confirmed by hand (a lookup in a table by name is not a descent)
				if sel, ok := ast.Unparen(x.Fun).(*ast.SelectorExpr); ok && lenient {
					return isBelow(sel.X, false)
				}
			case *ast.TypeAssertExpr:
				return isBelow(x.X, strict)
			}
			return false
		}
		for i := 0; i < 3; i++ {
			ast.Inspect(f.Decl.Body, func(n ast.Node) bool {
				switch x := n.(type) {
				case *ast.CallExpr:
					// closure handed to an iterator method of a value at/below a parameter: its parameters are elements
					if sel, ok := ast.Unparen(x.Fun).(*ast.SelectorExpr); ok && isBelow(sel.X, false) {
						for _, a := range x.Args {
							if fl, ok := a.(*ast.FuncLit); ok {
								for _, p := range fl.Type.Params.List {
									for _, nm := range p.Names {
										if o := pk.TypesInfo.Defs[nm]; o != nil {
											below[o] = true
										}
									}
								}
							}
						}
					}
				case *ast.RangeStmt:
					if isBelow(x.X, false) {
						for _, v := range []ast.Expr{x.Key, x.Value} {
							if id, ok := v.(*ast.Ident); ok && id.Name != "_" {
								if o := pk.TypesInfo.Defs[id]; o != nil {
									if v == x.Value {
										below[o] = true
									}
								}
							}
						}
					}
				case *ast.AssignStmt:
					for j, l := range x.Lhs {
						if id, ok := l.(*ast.Ident); ok && j < len(x.Rhs) && isBelow(x.Rhs[j], true) {
							if o := pk.TypesInfo.Defs[id]; o != nil {
								below[o] = true
							} else if o := pk.TypesInfo.Uses[id]; o != nil && !params[o] {
								below[o] = true
							}
						}
						if len(x.Rhs) == 1 && len(x.Lhs) == 2 && j == 0 {
							if id, ok := l.(*ast.Ident); ok && isBelow(x.Rhs[0], true) {
								if o := pk.TypesInfo.Defs[id]; o != nil {
									below[o] = true
								}
							}
						}
					}
				}
				return true
			})
		}
		ast.Inspect(f.Decl.Body, func(n ast.Node) bool {
			call, ok := n.(*ast.CallExpr)
			if !ok {
				return true
			}
			cal := callee(pk, call)
			if cal == nil || !members[cal] {
				return true
			}
			strict := false
			if sel, isSel := ast.Unparen(call.Fun).(*ast.SelectorExpr); isSel {
				if pk.TypesInfo.Selections[sel] != nil && isBelow(sel.X, true) {
					strict = true
				}
			}
			for _, a := range call.Args {
				// a name or a number taken from a component is not a component
				if t := pk.TypesInfo.TypeOf(a); t != nil {
					if _, basic := t.Underlying().(*types.Basic); basic {
						continue
					}
				}
				if isBelow(a, true) {
					strict = true
				}
			}
			if !strict {
				nonStrict[m] = append(nonStrict[m], cal)
				nonStrictDesc = append(nonStrictDesc, fmt.Sprintf("%s in %s", exprString(call), m.Name()))
			}
			return true
		})
	}
	// every cycle needs a strictly descending call: the non-strict edges must be acyclic
	color := map[*types.Func]int{}
	var cyc func(x *types.Func) bool
	cyc = func(x *types.Func) bool {
		color[x] = 1
		for _, y := range nonStrict[x] {
			if color[y] == 1 || (color[y] == 0 && cyc(y)) {
				return true
			}
		}
		color[x] = 2
		return false
	}
	for m := range members {
		if color[m] == 0 && cyc(m) {
			return "there is a cycle of calls none of which passes a value strictly below a parameter: " + strings.Join(nonStrictDesc, "; ")
		}
	}
	return ""
}

// verifyVisited: in the (single) member there is a map lookup keyed by something that leads to an early exit, and an
// insertion into the same map that dominates every recursive call.
func (c *Ctx) verifyVisited(comp []*ssa.Function) string {
	if len(comp) != 1 {
		return "component has more than one member"
	}
	m := declOf(comp[0])
	f := c.fnOf(m)
	if f == nil {
		return "no syntax"
	}
	pk := f.Pkg
	cf := buildCFG(f.Decl.Body)
	type ins struct {
		stmt *ast.AssignStmt
		m    string
	}
	var inserts []ins
	lookups := map[string]bool{}
	ast.Inspect(f.Decl.Body, func(n ast.Node) bool {
		switch x := n.(type) {
		case *ast.AssignStmt:
			if len(x.Lhs) == 1 {
				if b, _, ok := indexOn(pk, x.Lhs[0]); ok {
					inserts = append(inserts, ins{x, accessPath(pk, b)})
				}
			}
		case *ast.IfStmt:
			if as, ok := x.Init.(*ast.AssignStmt); ok && len(as.Lhs) == 2 && len(as.Rhs) == 1 {
				if b, _, ok := indexOn(pk, as.Rhs[0]); ok && len(x.Body.List) > 0 {
					switch x.Body.List[len(x.Body.List)-1].(type) {
					case *ast.ReturnStmt, *ast.BranchStmt:
						lookups[accessPath(pk, b)] = true
					}
				}
			}
		}
		return true
	})
	bad := ""
	nrec := 0
	ast.Inspect(f.Decl.Body, func(n ast.Node) bool {
		call, ok := n.(*ast.CallExpr)
		if !ok || callee(pk, call) != m.Origin() {
			return true
		}
		nrec++
		ok2 := false
		for _, in := range inserts {
			if lookups[in.m] && cf.dominatedBy(call, in.stmt) {
				ok2 = true
			}
		}
		if !ok2 {
			bad = "a recursive call is not dominated by an insertion into the visited map that is also looked up with early exit"
		}
		return true
	})
	if nrec == 0 {
		return "no direct recursive call found"
	}
	return bad
}

// dependencyPrepass: in compileCore the call that compiles+checks all user types dominates collectPaths, and
// compileCore dominates buildCatalog/compileCatalog/validateCatalog in processJApiProject, each with its error returned.
func (c *Ctx) dependencyPrepass() string {
	cc := c.fn("core", "JApiCore.compileCore")
	pj := c.fn("core", "JApiCore.processJApiProject")
	if cc == nil || pj == nil {
		return "compileCore / processJApiProject not found"
	}
	order := func(f *Fn, names ...string) string {
		cf := buildCFG(f.Decl.Body)
		var prev *ast.CallExpr
		for _, n := range names {
			obj := c.P.LookupFunc("core", "JApiCore."+n)
			calls := callsIn(f.Pkg, f.Decl.Body, obj)
			if len(calls) != 1 {
				return fmt.Sprintf("%s is called %d times in %s", n, len(calls), f.Obj.Name())
			}
			if prev != nil && !cf.dominatedBy(calls[0], prev) {
				return fmt.Sprintf("%s does not run after its predecessor in %s", n, f.Obj.Name())
			}
			// error returned: the call is the init of `if je := ...; je != nil { return je }` or the returned expression
			guarded := false
			ast.Inspect(f.Decl.Body, func(nd ast.Node) bool {
				switch x := nd.(type) {
				case *ast.IfStmt:
					if x.Init != nil && len(callsIn(f.Pkg, x.Init, obj)) == 1 && returnsNonNilError(f.Pkg, x.Body.List) {
						guarded = true
					}
				case *ast.ReturnStmt:
					if len(x.Results) == 1 && len(callsIn(f.Pkg, x.Results[0], obj)) == 1 {
						guarded = true
					}
				}
				return true
			})
			if !guarded {
				return fmt.Sprintf("the error of %s is not returned by %s", n, f.Obj.Name())
			}
			prev = calls[0]
		}
		return ""
	}
	if s := order(cc, "collectUserTypes", "collectPaths"); s != "" {
		return s
	}
	if s := order(pj, "scanProject", "compileCore", "buildCatalog", "compileCatalog", "validateCatalog"); s != "" {
		return s
	}
	// collectUserTypes -> compileUserTypes -> userTypes.Each(checkUserType)
	cu := c.fn("core", "JApiCore.compileUserTypes")
	if cu == nil {
		return "compileUserTypes not found"
	}
	if len(callsIn(cu.Pkg, cu.Decl.Body, c.P.LookupFunc("core", "JApiCore.checkUserType"))) == 0 {
		return "compileUserTypes no longer checks every user type"
	}
	return ""
}

// ---------- loops ----------

var loopWitnesses = map[string]string{
	"core.(*JApiCore).scanProject":              "stack-pop: each iteration drains the current scanner and either returns or pops one scanner; scanners are pushed only by processInclude, bounded by the include-cycle guard (C14-CYCLE-GUARD) and the finite set of files",
	"core.(*JApiCore).drainCurrentScanner":      "scanner-driven: leaves on a nil lexeme or an error; every Next() consumes input (C01-FSM-PROGRESS)",
	"scanner.(*Scanner).Next":                   "scanner-driven: `for s.curIndex <= s.dataSize` with curIndex++ per iteration; rewinds cannot form a zero-weight cycle (C01-FSM-PROGRESS)",
	"core.(*JApiCore).processContext":           "parent walk: each iteration returns or moves the context cursor to its Parent",
	"core.(*JApiCore).closeLastExplicitContext": "parent walk: each iteration returns or moves the context cursor to its Parent",
}

func (c *Ctx) ruleLoops(reach map[*ssa.Function]bool) {
	r := c.R
	r.Rule("C01-LOOPS", "every `for` that is not a range: canonical counted loop (one induction variable with constant step compared with a bound that the body does not assign; `i--` corrections only paired with a removal), parent walk (the tested variable is reassigned to its own .Parent on every back edge), shrinking slice, or a named witness; anything else is a violation", 10)
	roots := append(c.ssaRoots(buildRoots...), c.ssaRoots(serialiseRoots...)...)
	roots = append(roots, c.marshalRoots(nil)...)
	decls := reachDecls(c.reachableLib(roots, nil))
	for _, f := range c.libFns() {
		if !decls[f.Obj] {
			continue
		}
		pk := f.Pkg
		idx := 0
		ast.Inspect(f.Decl.Body, func(n ast.Node) bool {
			fs, ok := n.(*ast.ForStmt)
			if !ok {
				return true
			}
			idx++
			key := fmt.Sprintf("%s | for #%d", f.Name(), idx)
			where := c.pos(fs.Pos())
			if why := canonicalLoop(pk, fs); why != "" {
				r.Ok("C01-LOOPS", key, why, where)
				return true
			}
			if why := parentWalkLoop(pk, fs); why != "" {
				r.Ok("C01-LOOPS", key, why, where)
				return true
			}
			if why := shrinkingLoop(pk, fs); why != "" {
				r.Ok("C01-LOOPS", key, why, where)
				return true
			}
			if why := measuredLoop(pk, buildCFG(f.Decl.Body), f.Decl.Body, fs); why != "" {
				r.Ok("C01-LOOPS", key, why, where)
				return true
			}
			if lb := balanceOfLoop(pk, f.Decl.Body, fs); lb != nil && lb.balanced() == "" {
				r.Ok("C01-LOOPS", key, "index loop with removal: on every way round the loop the index goes up by one, or one element is removed at the index and the index stays, so len-index falls by one per round", where)
				return true
			}
			if why, ok := loopWitnesses[f.Name()]; ok {
				// structural sanity for the witness: an infinite `for {}` must contain a return
				hasExit := false
				ast.Inspect(fs.Body, func(m ast.Node) bool {
					switch x := m.(type) {
					case *ast.ReturnStmt:
						hasExit = true
					case *ast.BranchStmt:
						if x.Tok == token.BREAK {
							hasExit = true
						}
					}
					return true
				})
				if hasExit || fs.Cond != nil {
					r.Ok("C01-LOOPS", key, "named witness: "+why, where)
					r.Except(key, why)
					return true
				}
			}
			r.Bad("C01-LOOPS", key, "a loop that is neither a range, a canonical counted loop nor a recognised walk has no termination witness", where)
			return true
		})
	}
}

// canonicalLoop: for i := a; i <op> bound; i++/--/+=c { body does not assign the bound; assignments to i only as `i--`/`i++` corrections }
func canonicalLoop(pk *packages.Package, fs *ast.ForStmt) string {
	if fs.Cond == nil || fs.Post == nil {
		return ""
	}
	var iv types.Object
	switch p := fs.Post.(type) {
	case *ast.IncDecStmt:
		if id, ok := p.X.(*ast.Ident); ok {
			iv = pk.TypesInfo.Uses[id]
		}
	case *ast.AssignStmt:
		if len(p.Lhs) == 1 && (p.Tok == token.ADD_ASSIGN || p.Tok == token.SUB_ASSIGN) {
			if id, ok := p.Lhs[0].(*ast.Ident); ok {
				if _, isConst := constInt(pk, p.Rhs[0]); isConst {
					iv = pk.TypesInfo.Uses[id]
				}
			}
		}
	}
	if iv == nil {
		return ""
	}
	be, ok := ast.Unparen(fs.Cond).(*ast.BinaryExpr)
	if !ok {
		return ""
	}
	var bound ast.Expr
	if id, ok := ast.Unparen(be.X).(*ast.Ident); ok && pk.TypesInfo.Uses[id] == iv {
		bound = be.Y
	} else if id, ok := ast.Unparen(be.Y).(*ast.Ident); ok && pk.TypesInfo.Uses[id] == iv {
		bound = be.X
	}
	if bound == nil {
		return ""
	}
	// the body may re-assign the induction variable only through a single `i--` that accompanies a removal
	// (`x = append(x[:i], x[i+1:]...)`), and must not assign variables mentioned in the bound other than such a shrink.
	decs, removals, otherWrites := 0, 0, 0
	ast.Inspect(fs.Body, func(n ast.Node) bool {
		switch x := n.(type) {
		case *ast.IncDecStmt:
			if id, ok := x.X.(*ast.Ident); ok && pk.TypesInfo.Uses[id] == iv {
				if x.Tok == token.DEC {
					decs++
				} else {
					otherWrites++
				}
			}
		case *ast.AssignStmt:
			for i, l := range x.Lhs {
				if id, ok := l.(*ast.Ident); ok && pk.TypesInfo.Uses[id] == iv {
					otherWrites++
				}
				if i < len(x.Rhs) {
					if call, ok := ast.Unparen(x.Rhs[i]).(*ast.CallExpr); ok {
						if id, ok := call.Fun.(*ast.Ident); ok && id.Name == "append" && call.Ellipsis.IsValid() && len(call.Args) == 2 {
							if _, s1 := ast.Unparen(call.Args[0]).(*ast.SliceExpr); s1 {
								removals++
							}
						}
					}
				}
			}
		}
		return true
	})
	if otherWrites > 0 || decs > removals {
		return ""
	}
	if decs > 0 {
		return fmt.Sprintf("counted loop; the %d `i--` correction(s) each accompany a removal that shortens the bound", decs)
	}
	return "canonical counted loop"
}

// shrinkingLoop: the body unconditionally shortens a slice (x = x[1:] / x = x[:len(x)-1]) and the loop is left when
// the slice is empty (loop condition or a top-level `if len(x) == 0 { return/break }` after the shortening).
func shrinkingLoop(pk *packages.Package, fs *ast.ForStmt) string {
	if fs.Post != nil || fs.Init != nil {
		return ""
	}
	var shrunk string
	shrinkAt := -1
	for i, st := range fs.Body.List {
		as, ok := st.(*ast.AssignStmt)
		if !ok || len(as.Lhs) != 1 || len(as.Rhs) != 1 || as.Tok != token.ASSIGN {
			continue
		}
		se, ok := ast.Unparen(as.Rhs[0]).(*ast.SliceExpr)
		if !ok || accessPath(pk, se.X) != accessPath(pk, as.Lhs[0]) || accessPath(pk, se.X) == "" {
			continue
		}
		if se.Low != nil && se.High == nil {
			if k, ok := constInt(pk, se.Low); ok && k >= 1 {
				shrunk, shrinkAt = accessPath(pk, se.X), i
			}
		}
		if se.Low == nil && se.High != nil {
			if be, ok := ast.Unparen(se.High).(*ast.BinaryExpr); ok && be.Op == token.SUB {
				if k, ok := constInt(pk, be.Y); ok && k >= 1 {
					shrunk, shrinkAt = accessPath(pk, se.X), i
				}
			}
		}
	}
	if shrunk == "" {
		return ""
	}
	emptyTest := func(e ast.Expr, wantEmpty bool) bool {
		be, ok := ast.Unparen(e).(*ast.BinaryExpr)
		if !ok {
			return false
		}
		call, ok := ast.Unparen(be.X).(*ast.CallExpr)
		if !ok || len(call.Args) != 1 || exprString(call.Fun) != "len" || accessPath(pk, call.Args[0]) != shrunk {
			return false
		}
		k, ok := constInt(pk, be.Y)
		if !ok || k != 0 {
			return false
		}
		if wantEmpty {
			return be.Op == token.EQL
		}
		return be.Op == token.NEQ || be.Op == token.GTR
	}
	// every statement before the shrink must not `continue`
	for _, st := range fs.Body.List[:shrinkAt] {
		cont := false
		ast.Inspect(st, func(n ast.Node) bool {
			if b, ok := n.(*ast.BranchStmt); ok && b.Tok == token.CONTINUE {
				cont = true
			}
			return true
		})
		if cont {
			return ""
		}
	}
	if fs.Cond != nil && emptyTest(fs.Cond, false) {
		return "shrinking slice: every iteration cuts an element off and the loop ends when the slice is empty"
	}
	for _, st := range fs.Body.List[shrinkAt+1:] {
		if ifs, ok := st.(*ast.IfStmt); ok && emptyTest(ifs.Cond, true) && len(ifs.Body.List) > 0 {
			switch ifs.Body.List[len(ifs.Body.List)-1].(type) {
			case *ast.ReturnStmt, *ast.BranchStmt:
				return "shrinking slice: every iteration cuts an element off and returns when the slice is empty"
			}
		}
	}
	return ""
}

// measuredLoop finds a measure that strictly decreases on every path round the loop, whatever the statement form:
// the length of a slice (every iteration passes `x = x[k:]` or `x = x[:len(x)-k]`, k >= 1, and nothing else assigns x),
// the depth of a node in the directive tree (every iteration passes `v = v.Parent`, possibly through a local alias of
// v, and nothing else assigns v), or the number of keys not yet in a visited map that lives outside the loop (every
// iteration passes an insertion M[k] = .. that is reached only over the miss edge of a lookup of M[k]).
func measuredLoop(pk *packages.Package, cf *funcCFG, fnBody *ast.BlockStmt, fs *ast.ForStmt) string {
	inLoop := func(n ast.Node) bool { return fs.Pos() <= n.Pos() && n.End() <= fs.End() }
	assignsTo := func(path string, except func(as *ast.AssignStmt) bool) bool {
		bad := false
		ast.Inspect(fs, func(n ast.Node) bool {
			switch x := n.(type) {
			case *ast.AssignStmt:
				for _, l := range x.Lhs {
					if accessPath(pk, l) == path && !(except != nil && except(x)) {
						bad = true
					}
				}
			case *ast.IncDecStmt:
				if accessPath(pk, x.X) == path {
					bad = true
				}
			case *ast.UnaryExpr:
				if x.Op == token.AND && accessPath(pk, x.X) == path {
					bad = true // address taken: may be written elsewhere
				}
			}
			return true
		})
		return bad
	}
	isShrinkOf := func(as *ast.AssignStmt) string {
		if len(as.Lhs) != 1 || len(as.Rhs) != 1 || as.Tok != token.ASSIGN {
			return ""
		}
		se, ok := ast.Unparen(as.Rhs[0]).(*ast.SliceExpr)
		if !ok || accessPath(pk, se.X) == "" || accessPath(pk, se.X) != accessPath(pk, as.Lhs[0]) {
			return ""
		}
		if se.Low != nil && se.High == nil {
			if k, ok := constInt(pk, se.Low); ok && k >= 1 {
				return accessPath(pk, se.X)
			}
		}
		if se.Low == nil && se.High != nil {
			if be, ok := ast.Unparen(se.High).(*ast.BinaryExpr); ok && be.Op == token.SUB {
				if call, ok := ast.Unparen(be.X).(*ast.CallExpr); ok && len(call.Args) == 1 && exprString(call.Fun) == "len" && accessPath(pk, call.Args[0]) == accessPath(pk, se.X) {
					if k, ok := constInt(pk, be.Y); ok && k >= 1 {
						return accessPath(pk, se.X)
					}
				}
			}
		}
		return ""
	}
	// local aliases defined in the loop: w := v
	alias := map[types.Object]string{}
	ast.Inspect(fs, func(n ast.Node) bool {
		if as, ok := n.(*ast.AssignStmt); ok && as.Tok == token.DEFINE && len(as.Lhs) == 1 && len(as.Rhs) == 1 {
			if id, ok := as.Lhs[0].(*ast.Ident); ok {
				if o := pk.TypesInfo.Defs[id]; o != nil {
					if p := accessPath(pk, as.Rhs[0]); p != "" {
						alias[o] = p
					}
				}
			}
		}
		return true
	})
	isParentStepOf := func(as *ast.AssignStmt) string {
		if len(as.Lhs) != 1 || len(as.Rhs) != 1 || as.Tok != token.ASSIGN {
			return ""
		}
		sel, ok := ast.Unparen(as.Rhs[0]).(*ast.SelectorExpr)
		if !ok {
			return ""
		}
		fld := fieldSel(pk, sel)
		if fld == nil || fld.Name() != "Parent" {
			return ""
		}
		lp := accessPath(pk, as.Lhs[0])
		if lp == "" {
			return ""
		}
		if accessPath(pk, sel.X) == lp {
			return lp
		}
		if id, ok := ast.Unparen(sel.X).(*ast.Ident); ok && alias[pk.TypesInfo.Uses[id]] == lp {
			// the alias must be taken before the step on every path: it is defined in the loop and v is assigned nowhere else
			return lp
		}
		return ""
	}
	var shrinks, steps []string
	type insertion struct {
		as     *ast.AssignStmt
		m, key string
		keyIds map[types.Object]bool
	}
	var inserts []insertion
	ast.Inspect(fs, func(n ast.Node) bool {
		if as, ok := n.(*ast.AssignStmt); ok && inLoop(as) {
			if p := isShrinkOf(as); p != "" {
				shrinks = append(shrinks, p)
			}
			if p := isParentStepOf(as); p != "" {
				steps = append(steps, p)
			}
			if len(as.Lhs) == 1 {
				if b, k, isIdx := indexOn(pk, as.Lhs[0]); isIdx {
					ids := map[types.Object]bool{}
					ast.Inspect(k, func(m ast.Node) bool {
						if id, ok := m.(*ast.Ident); ok {
							if o := pk.TypesInfo.Uses[id]; o != nil {
								ids[o] = true
							}
						}
						return true
					})
					inserts = append(inserts, insertion{as, accessPath(pk, b), keyString(pk, k), ids})
				}
			}
		}
		return true
	})
	for _, x := range shrinks {
		if assignsTo(x, func(as *ast.AssignStmt) bool { return isShrinkOf(as) == x }) {
			continue
		}
		if cf.everyIterationPasses(fs, func(n ast.Node) bool {
			as, ok := n.(*ast.AssignStmt)
			return ok && isShrinkOf(as) == x
		}) {
			return "measure: every path round the loop cuts at least one element off " + prettyPath(x) + ", which nothing else in the loop assigns"
		}
	}
	for _, v := range steps {
		if assignsTo(v, func(as *ast.AssignStmt) bool { return isParentStepOf(as) == v }) {
			continue
		}
		if cf.everyIterationPasses(fs, func(n ast.Node) bool {
			as, ok := n.(*ast.AssignStmt)
			return ok && isParentStepOf(as) == v
		}) {
			return "measure: every path round the loop moves " + prettyPath(v) + " to its Parent (finite, acyclic chain), and nothing else in the loop assigns it"
		}
	}
	for _, in := range inserts {
		if in.m == "" || in.key == "" {
			continue
		}
		// the map is declared outside the loop and not assigned in it
		if assignsTo(in.m, nil) {
			continue
		}
		declaredInside := false
		ast.Inspect(fs, func(n ast.Node) bool {
			if id, ok := n.(*ast.Ident); ok {
				if o := pk.TypesInfo.Defs[id]; o != nil && strings.HasPrefix(in.m, fmt.Sprintf("%s#%d", id.Name, o.Pos())) {
					declaredInside = true
				}
			}
			return true
		})
		if declaredInside {
			continue
		}
		est, kills := missFact(pk, fnBody, in.m, in.key, in.keyIds)
		if !cf.establishedAt(in.as, est, kills) {
			continue
		}
		if cf.everyIterationPasses(fs, func(n ast.Node) bool { return n == ast.Node(in.as) }) {
			return "measure: every path round the loop inserts a key into the visited map " + prettyPath(in.m) + " that the lookup before it missed (the keys are names of a finite table)"
		}
	}
	return ""
}

// missFact: the dataflow fact "the lookup M[k] missed": established on the miss edge of a test of the lookup's
// comma-ok variable (or of the map element itself when it is boolean), killed by an assignment to a variable of the key.
func missFact(pk *packages.Package, body ast.Node, m, key string, keyIds map[types.Object]bool) (func(ast.Expr, bool) bool, func(ast.Node) bool) {
	okVars := map[types.Object]bool{}
	ast.Inspect(body, func(n ast.Node) bool {
		if as, isAs := n.(*ast.AssignStmt); isAs && len(as.Lhs) == 2 && len(as.Rhs) == 1 {
			if b, k, isIdx := indexOn(pk, as.Rhs[0]); isIdx && accessPath(pk, b) == m && keyString(pk, k) == key {
				if id, isId := as.Lhs[1].(*ast.Ident); isId {
					if o := pk.TypesInfo.Defs[id]; o != nil {
						okVars[o] = true
					} else if o := pk.TypesInfo.Uses[id]; o != nil {
						okVars[o] = true
					}
				}
			}
		}
		return true
	})
	// a comma-ok variable that is also assigned by something else is not a witness of the lookup
	ast.Inspect(body, func(n ast.Node) bool {
		if as, isAs := n.(*ast.AssignStmt); isAs {
			isLookup := false
			if len(as.Lhs) == 2 && len(as.Rhs) == 1 {
				if b, k, isIdx := indexOn(pk, as.Rhs[0]); isIdx && accessPath(pk, b) == m && keyString(pk, k) == key {
					isLookup = true
				}
			}
			for i, l := range as.Lhs {
				if id, isId := l.(*ast.Ident); isId && !(isLookup && i == 1) {
					o := pk.TypesInfo.Defs[id]
					if o == nil {
						o = pk.TypesInfo.Uses[id]
					}
					delete(okVars, o)
				}
			}
		}
		return true
	})
	est := func(cond ast.Expr, trueEdge bool) bool {
		if id, isId := ast.Unparen(cond).(*ast.Ident); isId && okVars[pk.TypesInfo.Uses[id]] {
			return !trueEdge
		}
		if b, k, isIdx := indexOn(pk, cond); isIdx && accessPath(pk, b) == m && keyString(pk, k) == key {
			return !trueEdge
		}
		return false
	}
	kills := func(n ast.Node) bool {
		killed := false
		ast.Inspect(n, func(x ast.Node) bool {
			switch a := x.(type) {
			case *ast.FuncLit:
				return false
			case *ast.AssignStmt:
				for _, l := range a.Lhs {
					if id, ok := l.(*ast.Ident); ok {
						o := pk.TypesInfo.Defs[id]
						if o == nil {
							o = pk.TypesInfo.Uses[id]
						}
						if keyIds[o] {
							killed = true
						}
					}
				}
			case *ast.IncDecStmt:
				if id, ok := a.X.(*ast.Ident); ok && keyIds[pk.TypesInfo.Uses[id]] {
					killed = true
				}
			}
			return true
		})
		return killed
	}
	return est, kills
}

// parentWalkLoop: `for d := x; d != nil; d = d.Parent` or `for { ...; v = v.Parent }` with a nil test that exits.
func parentWalkLoop(pk *packages.Package, fs *ast.ForStmt) string {
	step := func(s ast.Stmt) string {
		as, ok := s.(*ast.AssignStmt)
		if !ok || len(as.Lhs) != 1 || len(as.Rhs) != 1 {
			return ""
		}
		fld := fieldSel(pk, as.Rhs[0])
		if fld == nil || fld.Name() != "Parent" {
			return ""
		}
		if accessPath(pk, as.Lhs[0]) == accessPath(pk, as.Rhs[0].(*ast.SelectorExpr).X) {
			return accessPath(pk, as.Lhs[0])
		}
		return ""
	}
	if fs.Post != nil && fs.Cond != nil {
		if p := step(fs.Post); p != "" {
			if be, ok := ast.Unparen(fs.Cond).(*ast.BinaryExpr); ok && be.Op == token.NEQ && isNil(pk, be.Y) && accessPath(pk, be.X) == p {
				return "parent walk: `for v != nil; v = v.Parent` over the finite, acyclic parent chain"
			}
		}
	}
	return ""
}

// ---------- lock re-entry ----------

func (c *Ctx) ruleLockReentry() {
	r := c.R
	r.Rule("C01-LOCK-REENTRY", "for every closure passed to a method of a mutex-guarded map type that runs it under the lock (Each, EachReverse, EachSafe, Map, Find, Update), nothing reachable from the closure calls a locking method of the same map type (a re-entrant Lock, or an RLock under a held Lock, deadlocks)", 10)
	cg := c.P.CallGraph()
	// locking methods per receiver type
	locks := map[string]map[*types.Func]bool{}
	runsUnderLock := map[*types.Func]bool{}
	for _, f := range c.libFns() {
		sig := f.Obj.Type().(*types.Signature)
		if sig.Recv() == nil {
			continue
		}
		rt := namedType(sig.Recv().Type())
		takes := false
		ast.Inspect(f.Decl.Body, func(n ast.Node) bool {
			if call, ok := n.(*ast.CallExpr); ok {
				if cal := callee(f.Pkg, call); cal != nil && cal.Pkg() != nil && cal.Pkg().Path() == "sync" && (cal.Name() == "Lock" || cal.Name() == "RLock") {
					takes = true
				}
			}
			return true
		})
		if !takes {
			continue
		}
		if locks[rt] == nil {
			locks[rt] = map[*types.Func]bool{}
		}
		locks[rt][f.Obj] = true
		// does it call a func-typed parameter?
		for _, fl := range f.Decl.Type.Params.List {
			for _, n := range fl.Names {
				if _, isSig := f.Pkg.TypesInfo.Defs[n].Type().Underlying().(*types.Signature); isSig {
					runsUnderLock[f.Obj] = true
				}
			}
		}
	}
	n := 0
	for _, f := range c.libFns() {
		pk := f.Pkg
		litIdx := 0
		ast.Inspect(f.Decl.Body, func(nd ast.Node) bool {
			call, ok := nd.(*ast.CallExpr)
			if !ok {
				return true
			}
			cal := callee(pk, call)
			if cal == nil || !runsUnderLock[cal] {
				return true
			}
			rt := namedType(cal.Type().(*types.Signature).Recv().Type())
			for _, a := range call.Args {
				fl, ok := a.(*ast.FuncLit)
				if !ok {
					if _, isSig := pk.TypesInfo.TypeOf(a).Underlying().(*types.Signature); isSig {
						n++
						// a method value / named function: resolve statically if possible
						var target *types.Func
						switch x := ast.Unparen(a).(type) {
						case *ast.SelectorExpr:
							target, _ = pk.TypesInfo.Uses[x.Sel].(*types.Func)
						case *ast.Ident:
							target, _ = pk.TypesInfo.Uses[x].(*types.Func)
						}
						key := fmt.Sprintf("%s | %s(%s)", f.Name(), shortType(rt)+"."+cal.Name(), exprString(a))
						if target == nil {
							r.Undecided("C01-LOCK-REENTRY", key, "a function value that cannot be resolved is run under the map lock", c.pos(call.Pos()))
							continue
						}
						if bad := c.reachesLock(cg, c.P.SSAFunc(target), locks[rt]); bad != "" {
							r.Bad("C01-LOCK-REENTRY", key, "runs under the lock of "+shortType(rt)+" and reaches "+bad+" of the same map type: self-deadlock", c.pos(call.Pos()))
						} else {
							r.Ok("C01-LOCK-REENTRY", key, "nothing reachable takes a lock of "+shortType(rt), c.pos(call.Pos()))
						}
					}
					continue
				}
				n++
				litIdx++
				key := fmt.Sprintf("%s | closure #%d under %s.%s", f.Name(), litIdx, shortType(rt), cal.Name())
				// find the SSA closure by position
				var sf *ssa.Function
				if parent := c.P.SSAFunc(f.Obj); parent != nil {
					var find func(p *ssa.Function)
					find = func(p *ssa.Function) {
						for _, an := range p.AnonFuncs {
							if an.Pos() == fl.Type.Func || (an.Syntax() != nil && an.Syntax().Pos() == fl.Pos()) {
								sf = an
							}
							find(an)
						}
					}
					find(parent)
				}
				if sf == nil {
					r.Undecided("C01-LOCK-REENTRY", key, "cannot find the SSA function of the closure", c.pos(fl.Pos()))
					continue
				}
				if bad := c.reachesLock(cg, sf, locks[rt]); bad != "" {
					r.Bad("C01-LOCK-REENTRY", key, "the closure runs under the lock of "+shortType(rt)+" and reaches "+bad+" of the same map type: self-deadlock", c.pos(fl.Pos()))
				} else {
					r.Ok("C01-LOCK-REENTRY", key, "nothing reachable from the closure takes a lock of "+shortType(rt), c.pos(fl.Pos()))
				}
			}
			return true
		})
	}
	if n == 0 {
		r.Undecided("C01-LOCK-REENTRY", "sites", "no closure run under a map lock was found", "")
	}
}

func (c *Ctx) reachesLock(cg interface{}, start *ssa.Function, locking map[*types.Func]bool) string {
	if start == nil {
		return ""
	}
	reach := c.reachableLib([]*ssa.Function{start}, nil)
	var names []string
	for f := range reach {
		if f == start {
			continue
		}
		if obj, ok := f.Object().(*types.Func); ok && locking[obj.Origin()] {
			names = append(names, prog.FuncName(obj))
		}
	}
	sort.Strings(names)
	if len(names) > 0 {
		return names[0]
	}
	return ""
}

// ---------- the scanner never reads ahead of the byte it was given without knowing the byte exists ----------

// ruleCursorReadBounds: a step function is called for the byte at the cursor (or for the end of the input, at
// cursor == size). Whatever it reads beyond that byte - data.Byte(cursor+k), k > 0 - may lie past the end: the read
// has to be guarded, on every path, by a comparison that puts cursor+k below the size.
func (c *Ctx) ruleCursorReadBounds() {
	r := c.R
	r.Rule("C01-CURSOR-READ-BOUNDS", "in package scanner every indexed read of the input ahead of the cursor (Byte(i) on the data of the scanner with i = cursor + k, k > 0) is dominated by the true edge of a comparison that bounds cursor + k by the size of the input (cursor+k < size, cursor+k <= size-1, and the mirrored and negated forms): the step function is handed the byte at the cursor, nothing says that a next one exists", 1)
	pk := c.P.Pkg("scanner")
	if pk == nil {
		r.Undecided("C01-CURSOR-READ-BOUNDS", "anchor", "package scanner not found", "")
		return
	}
	isBytes := func(t types.Type) bool { return strings.HasSuffix(namedType(t), "jsight-schema-core/bytes.Bytes") }
	n, ahead := 0, 0
	for _, f := range c.libFns() {
		if f.Pkg != pk {
			continue
		}
		var fc *funcCFG
		inspectWithStack(f.Decl.Body, func(nd ast.Node, stack []ast.Node) bool {
			call, ok := nd.(*ast.CallExpr)
			if !ok || len(call.Args) != 1 {
				return true
			}
			cal := callee(pk, call)
			sel, isSel := ast.Unparen(call.Fun).(*ast.SelectorExpr)
			if cal == nil || !isSel || cal.Name() != "Byte" || !isBytes(pk.TypesInfo.TypeOf(sel.X)) || fieldSel(pk, sel.X) == nil {
				return true
			}
			n++
			base, off, ok := affineOf(f, call.Args[0])
			if !ok || base == nil || fieldSel(pk, base) == nil || off <= 0 {
				return true
			}
			ahead++
			baseStr := exprString(base)
			if fc == nil {
				fc = c.cfgOf(f)
			}
			key := fmt.Sprintf("%s | %s", f.Name(), exprString(call))
			// size expressions: an integer field of the scanner (dataSize) or a Len/LenIndex call on the data
			isSize := func(e ast.Expr) (int64, bool) {
				b, o, ok := affineOf(f, e)
				if !ok || b == nil {
					return 0, false
				}
				if cl, isCall := ast.Unparen(b).(*ast.CallExpr); isCall {
					if g := callee(pk, cl); g != nil && (g.Name() == "Len" || g.Name() == "LenIndex") {
						return o, true
					}
					if id, ok := cl.Fun.(*ast.Ident); ok && id.Name == "len" {
						return o, true
					}
				}
				if fv := fieldSel(pk, b); fv != nil && exprString(b) != baseStr {
					if bt, ok := fv.Type().Underlying().(*types.Basic); ok && bt.Info()&types.IsInteger != 0 {
						return o, true
					}
				}
				return 0, false
			}
			bounds := func(cond ast.Expr, trueEdge bool) bool {
				be, ok := ast.Unparen(cond).(*ast.BinaryExpr)
				if !ok {
					return false
				}
				op, l, rr := be.Op, be.X, be.Y
				if _, isS := isSize(l); isS { // mirror: size OP cursor
					l, rr = rr, l
					switch op {
					case token.LSS:
						op = token.GTR
					case token.GTR:
						op = token.LSS
					case token.LEQ:
						op = token.GEQ
					case token.GEQ:
						op = token.LEQ
					}
				}
				if !trueEdge { // negate
					switch op {
					case token.LSS:
						op = token.GEQ
					case token.GEQ:
						op = token.LSS
					case token.LEQ:
						op = token.GTR
					case token.GTR:
						op = token.LEQ
					default:
						return false
					}
				}
				lb, lo, ok1 := affineOf(f, l)
				so, ok2 := isSize(rr)
				if !ok1 || !ok2 || lb == nil || exprString(lb) != baseStr {
					return false
				}
				// cursor + lo  <  size + so   =>  cursor + off < size  iff  off <= lo - so
				switch op {
				case token.LSS:
					return off <= lo-so
				case token.LEQ:
					return off <= lo-so-1
				}
				return false
			}
			// the guard may stand in the same expression: <bound> && Byte(cursor+k), !<bound> || Byte(cursor+k)
			inExpr := false
			var child ast.Node = call
			for i := len(stack) - 1; i >= 0 && !inExpr; i-- {
				if be, ok := stack[i].(*ast.BinaryExpr); ok && (be.Op == token.LAND || be.Op == token.LOR) && be.Y == child {
					for _, a := range impliedAtoms(be.X, be.Op == token.LAND) {
						if bounds(a.e, a.holds) {
							inExpr = true
						}
					}
				}
				if _, isExpr := stack[i].(ast.Expr); !isExpr {
					break
				}
				child = stack[i]
			}
			bounded := inExpr || fc.establishedAt(call, bounds, func(nd ast.Node) bool {
				// the cursor moves
				moved := false
				ast.Inspect(nd, func(m ast.Node) bool {
					switch x := m.(type) {
					case *ast.AssignStmt:
						for _, l := range x.Lhs {
							if exprString(ast.Unparen(l)) == baseStr {
								moved = true
							}
						}
					case *ast.IncDecStmt:
						if exprString(ast.Unparen(x.X)) == baseStr {
							moved = true
						}
					}
					return true
				})
				return moved
			})
			if bounded {
				r.Ok("C01-CURSOR-READ-BOUNDS", key, "the read ahead is bounded by the size of the input on every path", c.pos(call.Pos()))
			} else {
				r.Bad("C01-CURSOR-READ-BOUNDS", key, fmt.Sprintf("the input is read %d byte(s) ahead of the cursor with nothing that says the byte exists: when the byte at the cursor is the last one of a file, the index is out of range and the scan panics", off), c.pos(call.Pos()))
			}
			return true
		})
	}
	if n == 0 {
		r.Undecided("C01-CURSOR-READ-BOUNDS", "sites", "no Byte() read of the scanner's data found (the read of the current byte in Next on the pinned tree)", "")
		return
	}
	if ahead == 0 {
		r.Ok("C01-CURSOR-READ-BOUNDS", "package scanner", fmt.Sprintf("%d indexed reads of the input, none ahead of the cursor", n), "")
	}
}

// directRecoverFns: the declared library functions whose own body (outside function literals) calls recover().
func (c *Ctx) directRecoverFns() map[*types.Func]bool {
	if c.recoverFns != nil {
		return c.recoverFns
	}
	c.recoverFns = map[*types.Func]bool{}
	for _, f := range c.libFns() {
		ast.Inspect(f.Decl.Body, func(n ast.Node) bool {
			if _, isLit := n.(*ast.FuncLit); isLit {
				return false
			}
			if call, ok := n.(*ast.CallExpr); ok && len(call.Args) == 0 {
				if id, ok := call.Fun.(*ast.Ident); ok && id.Name == "recover" {
					if _, isB := f.Pkg.TypesInfo.Uses[id].(*types.Builtin); isB {
						c.recoverFns[f.Obj] = true
					}
				}
			}
			return true
		})
	}
	return c.recoverFns
}

// deferCallee: the declared function a defer statement calls (nil for a function literal or a value).
func deferCallee(c *Ctx, d *ast.DeferStmt) *types.Func {
	for _, f := range c.libFns() {
		if f.Decl.Pos() <= d.Pos() && d.End() <= f.Decl.End() {
			return callee(f.Pkg, d.Call)
		}
	}
	return nil
}

// deferredSomewhere: some defer statement of the library calls g.
func (c *Ctx) deferredSomewhere(g *types.Func) bool {
	found := false
	for _, f := range c.libFns() {
		ast.Inspect(f.Decl.Body, func(n ast.Node) bool {
			if d, ok := n.(*ast.DeferStmt); ok {
				if cal := callee(f.Pkg, d.Call); cal != nil && cal.Origin() == g.Origin() {
					found = true
				}
			}
			return true
		})
	}
	return found
}

// ---------- the build entry stops every panic ----------

// ruleBuildRecoverBoundary: the rules above look for the panics the module can see (explicit panic statements, unchecked
// assertions, nil-able dereferences, explicit panics reachable in the dependency). A runtime panic inside the schema
// library - an index past the end of an unfinished annotation in its enum reader, the first byte of an empty type name
// - is visible to none of them. The build entry of the core therefore stops whatever is left: a deferred recover that
// turns the panic into the error result (F39; the export has the same boundary, C17-PANIC-COVER).
func (c *Ctx) ruleBuildRecoverBoundary() {
	r := c.R
	r.Rule("C01-BUILD-RECOVER-BOUNDARY", "core.(*JApiCore).BuildCatalog, through which kit.NewJapi and kit.NewJApiFromFile build every project, has a deferred recover - a function literal, or a declared function handed the address of the result - that assigns the function's NAMED *jerr.JApiError result, and the call of the build pipeline lies in that function: a runtime panic of the schema library on a faulty document (index out of range in its readers) becomes an error of the project instead of killing the process", 2)
	bc := c.fn("core", "JApiCore.BuildCatalog")
	if bc == nil {
		r.Undecided("C01-BUILD-RECOVER-BOUNDARY", "anchor", "core.(*JApiCore).BuildCatalog not found", "")
		return
	}
	where := c.pos(bc.Decl.Pos())
	found, assigns, at := c.recoverSetsNamedError(bc)
	if !found {
		r.Bad("C01-BUILD-RECOVER-BOUNDARY", "BuildCatalog | recover", "the build entry has no deferred recover: a runtime panic inside jsight-schema-core (its enum reader on '[ /* abc *' at the end of a file, CollectUserTypes on the rule {type: \"\"} of a Path schema) goes through kit.NewJApiFromFile and kills the caller", where)
		return
	}
	if !assigns {
		r.Bad("C01-BUILD-RECOVER-BOUNDARY", "BuildCatalog | recover", "the deferred recover of the build entry does not assign the named error result: a recovered panic is reported as success", c.pos(at))
	} else {
		r.Ok("C01-BUILD-RECOVER-BOUNDARY", "BuildCatalog | recover", "deferred recover assigns the named *jerr.JApiError result", c.pos(at))
	}
	// the pipeline runs inside, and the kit entry points build through BuildCatalog only
	pj := c.P.LookupFunc("core", "JApiCore.processJApiProject")
	if pj != nil && len(callsIn(bc.Pkg, bc.Decl.Body, pj)) >= 1 {
		r.Ok("C01-BUILD-RECOVER-BOUNDARY", "BuildCatalog | pipeline", "processJApiProject is called inside the recovering function", where)
	} else {
		r.Bad("C01-BUILD-RECOVER-BOUNDARY", "BuildCatalog | pipeline", "the build pipeline is not called inside the recovering function", where)
	}
	if pj != nil {
		for _, f := range c.libFns() {
			if f.Obj == bc.Obj {
				continue
			}
			if len(callsIn(f.Pkg, f.Decl.Body, pj)) > 0 {
				r.Bad("C01-BUILD-RECOVER-BOUNDARY", f.Name()+" | pipeline", "the build pipeline is started outside the recovering entry", c.pos(f.Decl.Pos()))
			}
		}
	}
}

// ---------- an Error() that formats its own receiver ----------

// ruleSelfFormat: fmt calls the Error() (or String()) method of an operand to format it with %v, %s, %q or without a
// verb. A method Error() that hands its own receiver to such a function calls itself through fmt without end: the
// goroutine's stack grows until the runtime kills the process - no recover boundary stops a stack overflow.
func (c *Ctx) ruleSelfFormat(rule string) {
	r := c.R
	r.Rule(rule, "no method named Error, String or GoString of a library type passes its own receiver (x, *x or &x) as an operand to a formatting function of package fmt (Sprintf, Sprint, Sprintln, Errorf, Fprintf, Fprint, Fprintln, Printf, Print, Println, Appendf...) - except under a verb that does not call the method (%T, %p) or with the receiver converted to another type: fmt would call the method again, without end (expected count 0; counted: the methods looked at)", 1)
	n, bad := 0, 0
	for _, f := range c.libFns() {
		if f.Decl.Recv == nil || len(f.Decl.Recv.List) != 1 || len(f.Decl.Recv.List[0].Names) != 1 {
			continue
		}
		switch f.Obj.Name() {
		case "Error", "String", "GoString":
		default:
			continue
		}
		n++
		pk := f.Pkg
		recv := pk.TypesInfo.Defs[f.Decl.Recv.List[0].Names[0]]
		if recv == nil {
			continue
		}
		isRecv := func(e ast.Expr) bool {
			e = ast.Unparen(e)
			if u, ok := e.(*ast.UnaryExpr); ok && u.Op == token.AND {
				e = ast.Unparen(u.X)
			}
			if st, ok := e.(*ast.StarExpr); ok {
				e = ast.Unparen(st.X)
			}
			id, ok := e.(*ast.Ident)
			return ok && pk.TypesInfo.Uses[id] == recv
		}
		ast.Inspect(f.Decl.Body, func(nd ast.Node) bool {
			call, ok := nd.(*ast.CallExpr)
			if !ok {
				return true
			}
			cal := callee(pk, call)
			if cal == nil || cal.Pkg() == nil || cal.Pkg().Path() != "fmt" {
				return true
			}
			name := cal.Name()
			fmtIdx := -1
			switch {
			case strings.HasSuffix(name, "f"): // Sprintf, Errorf, Printf, Fprintf, Appendf
				fmtIdx = 0
				if strings.HasPrefix(name, "F") || strings.HasPrefix(name, "Append") {
					fmtIdx = 1
				}
			}
			first := fmtIdx + 1
			if fmtIdx < 0 {
				first = 0
				if strings.HasPrefix(name, "F") || strings.HasPrefix(name, "Append") {
					first = 1
				}
			}
			var verbs []byte
			if fmtIdx >= 0 && fmtIdx < len(call.Args) {
				if s, isS := constString(pk, call.Args[fmtIdx]); isS {
					verbs = fmtVerbs(s)
				}
			}
			for i := first; i < len(call.Args); i++ {
				if !isRecv(call.Args[i]) {
					continue
				}
				if fmtIdx >= 0 && i-first < len(verbs) {
					if v := verbs[i-first]; v == 'T' || v == 'p' {
						continue
					}
				}
				bad++
				r.Bad(rule, fmt.Sprintf("%s | %s(%s)", f.Name(), exprString(call.Fun), exprString(call.Args[i])), "the method formats its own receiver: fmt calls the method again to format it, and so on until the stack overflows - a fatal error that no recover stops", c.pos(call.Pos()))
			}
			return true
		})
	}
	if n < 3 {
		r.Undecided(rule, "sites", fmt.Sprintf("only %d Error/String methods found in the library", n), "")
		return
	}
	if bad == 0 {
		r.Ok(rule, "library", fmt.Sprintf("%d Error/String/GoString methods: none hands its receiver to a formatting function", n), "")
	}
}
