package rules

import (
	"fmt"
	"go/ast"
	"go/token"
	"go/types"

	"golang.org/x/tools/go/cfg"
	"golang.org/x/tools/go/packages"
)

// An index loop over a list that removes elements on the way (for i ... { if drop(x[i]) { x = append(x[:i], x[i+1:]...);
// i-- } }, or its while form without the i--) is right when, on every way round the loop, either the index goes up by
// one and nothing is removed, or one element is removed at the index and the index stays. Then len(x)-i falls by one
// per round (termination) and no element is skipped or visited twice. The ways round are enumerated on the CFG, so
// the form (for with post statement, bare for with i++ and continue, if/else, early continue) does not matter.

type loopRound struct {
	delta   int  // net change of the index
	removed bool // x = append(x[:i], x[i+1:]...) on the way
	exits   bool // the path leaves the loop (return/break): no obligation
	odd     string
}

type loopBalance struct {
	index  types.Object
	list   string // access path of the list
	rounds []loopRound
}

// balanceOfLoop analyses `for [init]; i <op> len(list); [post] { ... }`: nil when the loop is not of that family.
func balanceOfLoop(pk *packages.Package, fnBody *ast.BlockStmt, fs *ast.ForStmt) *loopBalance {
	if fs.Cond == nil {
		return nil
	}
	be, ok := ast.Unparen(fs.Cond).(*ast.BinaryExpr)
	if !ok || (be.Op != token.LSS && be.Op != token.NEQ) {
		return nil
	}
	iid := identOf(be.X)
	lc, isCall := ast.Unparen(be.Y).(*ast.CallExpr)
	if iid == nil || !isCall || exprString(lc.Fun) != "len" || len(lc.Args) != 1 {
		return nil
	}
	lb := &loopBalance{index: pk.TypesInfo.Uses[iid], list: accessPath(pk, lc.Args[0])}
	if lb.index == nil || lb.list == "" {
		return nil
	}
	g := cfg.New(fnBody, func(*ast.CallExpr) bool { return true })
	var head, body, post *cfg.Block
	for _, b := range g.Blocks {
		if b.Stmt == ast.Stmt(fs) {
			switch b.Kind {
			case cfg.KindForLoop:
				head = b
			case cfg.KindForBody:
				body = b
			case cfg.KindForPost:
				post = b
			}
		}
	}
	if head == nil || body == nil {
		return nil
	}
	_ = post
	effect := func(n ast.Node, r *loopRound) {
		ast.Inspect(n, func(m ast.Node) bool {
			switch x := m.(type) {
			case *ast.FuncLit:
				return false
			case *ast.IncDecStmt:
				if id := identOf(x.X); id != nil && pk.TypesInfo.Uses[id] == lb.index {
					if x.Tok == token.INC {
						r.delta++
					} else {
						r.delta--
					}
				}
			case *ast.AssignStmt:
				for i, l := range x.Lhs {
					if id := identOf(l); id != nil && objOf(pk, id) == lb.index {
						k, isK := int64(0), false
						if i < len(x.Rhs) {
							k, isK = constInt(pk, x.Rhs[i])
						}
						switch {
						case x.Tok == token.ADD_ASSIGN && isK:
							r.delta += int(k)
						case x.Tok == token.SUB_ASSIGN && isK:
							r.delta -= int(k)
						default:
							r.odd = "the index is assigned in a way that is not a constant step"
						}
					}
					if accessPath(pk, l) == lb.list && i < len(x.Rhs) {
						if isRemovalAt(pk, x.Rhs[i], lb.list, lb.index) {
							if r.removed {
								r.odd = "two removals in one round"
							}
							r.removed = true
						} else {
							r.odd = "the list is assigned " + exprString(x.Rhs[i])
						}
					}
				}
			}
			return true
		})
	}
	var walk func(b *cfg.Block, r loopRound, depth int, seen map[*cfg.Block]int)
	walk = func(b *cfg.Block, r loopRound, depth int, seen map[*cfg.Block]int) {
		if len(lb.rounds) > 256 || depth > 200 {
			lb.rounds = append(lb.rounds, loopRound{odd: "too many ways round the loop"})
			return
		}
		if b == head {
			lb.rounds = append(lb.rounds, r)
			return
		}
		if seen[b] > 1 {
			return // an inner loop: its own business
		}
		seen[b]++
		for _, n := range b.Nodes {
			effect(n, &r)
		}
		if len(b.Succs) == 0 || (b.Kind == cfg.KindForDone && b.Stmt == ast.Stmt(fs)) {
			r.exits = true
			lb.rounds = append(lb.rounds, r)
			seen[b]--
			return
		}
		for _, s := range b.Succs {
			walk(s, r, depth+1, seen)
		}
		seen[b]--
	}
	walk(body, loopRound{}, 0, map[*cfg.Block]int{})
	return lb
}

// isRemovalAt: append(list[:i], list[i+1:]...)
func isRemovalAt(pk *packages.Package, e ast.Expr, list string, index types.Object) bool {
	call, ok := ast.Unparen(e).(*ast.CallExpr)
	if !ok || exprString(call.Fun) != "append" || len(call.Args) != 2 || !call.Ellipsis.IsValid() {
		return false
	}
	a, okA := ast.Unparen(call.Args[0]).(*ast.SliceExpr)
	b, okB := ast.Unparen(call.Args[1]).(*ast.SliceExpr)
	if !okA || !okB || accessPath(pk, a.X) != list || accessPath(pk, b.X) != list || a.Low != nil || b.High != nil {
		return false
	}
	hid := identOf(a.High)
	if hid == nil || pk.TypesInfo.Uses[hid] != index {
		return false
	}
	lo, ok := ast.Unparen(b.Low).(*ast.BinaryExpr)
	if !ok || lo.Op != token.ADD {
		return false
	}
	lid := identOf(lo.X)
	k, isK := constInt(pk, lo.Y)
	return lid != nil && pk.TypesInfo.Uses[lid] == index && isK && k == 1
}

// balanced: "" when every way round either advances by one without removing or removes one element and stays.
func (lb *loopBalance) balanced() string {
	n := 0
	for _, r := range lb.rounds {
		if r.odd != "" {
			return r.odd
		}
		if r.exits {
			continue
		}
		n++
		switch {
		case r.removed && r.delta == 0:
		case !r.removed && r.delta == 1:
		case r.removed:
			return fmt.Sprintf("a round removes the element at the index and moves the index by %+d: the element that took its place is skipped (or the round repeats)", r.delta)
		default:
			return fmt.Sprintf("a round moves the index by %+d without removing anything", r.delta)
		}
	}
	if n == 0 {
		return "no way round the loop found"
	}
	return ""
}
