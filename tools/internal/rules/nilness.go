package rules

// Nil-ability of pointer fields and of results of functions that can return nil,
// with dominance-based discharge. AST + go/cfg; access paths instead of SSA values.

import (
	"fmt"
	"go/ast"
	"go/token"
	"go/types"
	"strings"

	"golang.org/x/tools/go/packages"
)

type derefSite struct {
	f     *Fn
	node  ast.Node // the dereferencing expression
	base  ast.Expr // the nil-able expression being dereferenced
	path  string
	what  string // description of the nil-able thing
	field *types.Var
}

// nilableFields: pointer/interface/map/func-typed fields of library structs that are assigned nil
// somewhere, or left unset by some composite literal of the struct, in library code.
func (c *Ctx) nilableFields() map[*types.Var]string {
	out := map[*types.Var]string{}
	nilableType := func(t types.Type) bool {
		switch t.Underlying().(type) {
		case *types.Pointer, *types.Interface, *types.Signature:
			return true
		}
		return false
	}
	for _, f := range c.libFns() {
		pk := f.Pkg
		ast.Inspect(f.Decl.Body, func(n ast.Node) bool {
			switch x := n.(type) {
			case *ast.AssignStmt:
				for i, l := range x.Lhs {
					if fld := fieldSel(pk, l); fld != nil && i < len(x.Rhs) && isNil(pk, x.Rhs[i]) && nilableType(fld.Type()) && c.P.IsLibPkg(fld.Pkg()) {
						out[fld.Origin()] = "assigned nil in " + f.Name()
					}
				}
			case *ast.CompositeLit:
				t := pk.TypesInfo.TypeOf(x)
				if t == nil {
					return true
				}
				if p, ok := t.(*types.Pointer); ok {
					t = p.Elem()
				}
				named, _ := t.(*types.Named)
				st, ok := t.Underlying().(*types.Struct)
				if !ok || named == nil || !c.P.IsLibPkg(named.Obj().Pkg()) {
					return true
				}
				set := map[string]bool{}
				keyed := false
				for _, el := range x.Elts {
					if kv, ok := el.(*ast.KeyValueExpr); ok {
						keyed = true
						if id, ok := kv.Key.(*ast.Ident); ok && !isNil(pk, kv.Value) {
							set[id.Name] = true
						}
					}
				}
				if !keyed && len(x.Elts) > 0 {
					return true // positional literal sets everything
				}
				for i := 0; i < st.NumFields(); i++ {
					fld := st.Field(i)
					if nilableType(fld.Type()) && !set[fld.Name()] {
						if _, seen := out[fld.Origin()]; !seen {
							out[fld.Origin()] = "left nil by a literal in " + f.Name()
						}
					}
				}
			}
			return true
		})
	}
	return out
}

// guardedNonNil: is the use at `site` of access path `path` protected by a nil test?
func guardedNonNil(pk *packages.Package, cf *funcCFG, fnBody *ast.BlockStmt, site ast.Node, stack []ast.Node, path string) string {
	isPathNilCmp := func(e ast.Expr, op token.Token) bool {
		be, ok := ast.Unparen(e).(*ast.BinaryExpr)
		if !ok || be.Op != op {
			return false
		}
		if isNil(pk, be.Y) && accessPath(pk, be.X) == path {
			return true
		}
		if isNil(pk, be.X) && accessPath(pk, be.Y) == path {
			return true
		}
		return false
	}
	// conjuncts of a condition that are `path != nil`
	var hasNonNilConj func(e ast.Expr) bool
	hasNonNilConj = func(e ast.Expr) bool {
		if isPathNilCmp(e, token.NEQ) {
			return true
		}
		if be, ok := ast.Unparen(e).(*ast.BinaryExpr); ok && be.Op == token.LAND {
			return hasNonNilConj(be.X) || hasNonNilConj(be.Y)
		}
		return false
	}
	var hasNilDisj func(e ast.Expr) bool
	hasNilDisj = func(e ast.Expr) bool {
		if isPathNilCmp(e, token.EQL) {
			return true
		}
		if be, ok := ast.Unparen(e).(*ast.BinaryExpr); ok && be.Op == token.LOR {
			return hasNilDisj(be.X) || hasNilDisj(be.Y)
		}
		return false
	}
	// 1. short circuit / enclosing if
	for i := len(stack) - 1; i >= 0; i-- {
		switch p := stack[i].(type) {
		case *ast.BinaryExpr:
			if p.Op == token.LAND && p.Y.Pos() <= site.Pos() && site.End() <= p.Y.End() && hasNonNilConj(p.X) {
				return "short-circuit `" + prettyPath(path) + " != nil &&`"
			}
			if p.Op == token.LOR && p.Y.Pos() <= site.Pos() && site.End() <= p.Y.End() && hasNilDisj(p.X) {
				return "short-circuit `" + prettyPath(path) + " == nil ||`"
			}
		case *ast.IfStmt:
			if p.Body.Pos() <= site.Pos() && site.End() <= p.Body.End() && hasNonNilConj(p.Cond) {
				return "inside `if " + prettyPath(path) + " != nil`"
			}
			if p.Else != nil && p.Else.Pos() <= site.Pos() && site.End() <= p.Else.End() && hasNilDisj(p.Cond) {
				return "else branch of a nil test"
			}
		case *ast.ForStmt:
			if p.Cond != nil && p.Body.Pos() <= site.Pos() && site.End() <= p.Body.End() && hasNonNilConj(p.Cond) {
				return "loop condition `" + prettyPath(path) + " != nil`"
			}
		case *ast.FuncLit:
			// do not look outside the closure for dominance, but an enclosing guard in the parent still holds lexically
		}
	}
	// 2. edge facts of the CFG: every path to the site crosses the non-nil edge of a comparison of the path with nil
	//    (whatever statement form the comparison has), with no assignment to the path or a prefix of it in between
	if cf != nil {
		insideLit := false
		for _, p := range stack {
			if _, ok := p.(*ast.FuncLit); ok {
				insideLit = true
			}
		}
		if !insideLit {
			storesPath := func(n ast.Node) bool {
				killed := false
				ast.Inspect(n, func(m ast.Node) bool {
					switch x := m.(type) {
					case *ast.FuncLit:
						return false
					case *ast.AssignStmt:
						for _, l := range x.Lhs {
							if lp := accessPath(pk, l); lp != "" && (lp == path || strings.HasPrefix(path, lp+".")) {
								killed = true
							}
						}
					}
					return true
				})
				return killed
			}
			// a nil test of a local that was just loaded from the path (`x := path; if x == nil {...}`) is a nil test of
			// the path, as long as the path is not stored to between the load and the test
			aliasNilCmp := func(cond ast.Expr, op token.Token) bool {
				be, ok := ast.Unparen(cond).(*ast.BinaryExpr)
				if !ok || be.Op != op {
					return false
				}
				var side ast.Expr
				switch {
				case isNil(pk, be.Y):
					side = be.X
				case isNil(pk, be.X):
					side = be.Y
				default:
					return false
				}
				id, ok := ast.Unparen(side).(*ast.Ident)
				if !ok {
					return false
				}
				obj, _ := pk.TypesInfo.Uses[id].(*types.Var)
				if obj == nil || obj.IsField() || obj.Pos() < fnBody.Pos() || obj.Pos() > fnBody.End() {
					return false
				}
				var def *ast.AssignStmt
				nDefs := 0
				ast.Inspect(fnBody, func(m ast.Node) bool {
					switch x := m.(type) {
					case *ast.AssignStmt:
						for _, l := range x.Lhs {
							if lid, ok := l.(*ast.Ident); ok && pk.TypesInfo.ObjectOf(lid) == types.Object(obj) {
								nDefs++
								def = x
							}
						}
					case *ast.UnaryExpr:
						if x.Op == token.AND {
							if lid, ok := ast.Unparen(x.X).(*ast.Ident); ok && pk.TypesInfo.Uses[lid] == types.Object(obj) {
								nDefs += 2 // address taken: not a plain local
							}
						}
					}
					return true
				})
				if nDefs != 1 || def == nil || len(def.Lhs) != 1 || len(def.Rhs) != 1 || accessPath(pk, def.Rhs[0]) != path {
					return false
				}
				// no store to the path on the way from the load to the test (a way that passes the load again has
				// refreshed the local)
				stale := false
				for _, b := range cf.g.Blocks {
					for _, n := range b.Nodes {
						if n == ast.Node(def) || !storesPath(n) {
							continue
						}
						if cf.reachesAvoiding(def, n, nil) && cf.reachesAvoiding(n, cond, []ast.Node{def}) {
							stale = true
						}
					}
				}
				return !stale
			}
			est := func(cond ast.Expr, trueEdge bool) bool {
				if trueEdge {
					return isPathNilCmp(cond, token.NEQ) || aliasNilCmp(cond, token.NEQ)
				}
				return isPathNilCmp(cond, token.EQL) || aliasNilCmp(cond, token.EQL)
			}
			kills := func(n ast.Node) bool {
				killed := false
				ast.Inspect(n, func(m ast.Node) bool {
					switch x := m.(type) {
					case *ast.FuncLit:
						return false
					case *ast.AssignStmt:
						for _, l := range x.Lhs {
							if lp := accessPath(pk, l); lp != "" && (lp == path || strings.HasPrefix(path, lp+".")) {
								killed = true
							}
						}
					case *ast.IncDecStmt:
						if lp := accessPath(pk, x.X); lp != "" && (lp == path || strings.HasPrefix(path, lp+".")) {
							killed = true
						}
					}
					return true
				})
				return killed
			}
			if cf.establishedAt(site, est, kills) {
				return "every path crosses the non-nil edge of a nil test of " + prettyPath(path)
			}
		}
	}
	// 3. dominating `if path == nil { return/continue/panic }`
	res := ""
	ast.Inspect(fnBody, func(n ast.Node) bool {
		ifs, ok := n.(*ast.IfStmt)
		if !ok || res != "" || ifs.End() > site.Pos() {
			return res == ""
		}
		if !hasNilDisj(ifs.Cond) || len(ifs.Body.List) == 0 {
			return true
		}
		switch last := ifs.Body.List[len(ifs.Body.List)-1].(type) {
		case *ast.ReturnStmt:
		case *ast.BranchStmt:
			if last.Tok != token.CONTINUE && last.Tok != token.BREAK {
				return true
			}
		case *ast.ExprStmt:
			if call, ok := last.X.(*ast.CallExpr); !ok || exprString(call.Fun) != "panic" {
				return true
			}
		default:
			return true
		}
		if cf.dominatedBy(site, ifs.Cond) {
			res = "dominated by `if " + prettyPath(path) + " == nil { return }`"
		}
		return true
	})
	return res
}

// derefsOf lists dereferences of expressions whose access path ends in one of the given fields.
func (c *Ctx) derefSites(nilable map[*types.Var]string) []derefSite {
	var out []derefSite
	for _, f := range c.libFns() {
		pk := f.Pkg
		ast.Inspect(f.Decl.Body, func(n ast.Node) bool {
			var base ast.Expr
			switch x := n.(type) {
			case *ast.SelectorExpr:
				// x.X is dereferenced if it is a pointer (field access or method call) or an interface (method call)
				if sel := pk.TypesInfo.Selections[x]; sel != nil {
					bt := pk.TypesInfo.TypeOf(x.X)
					if bt == nil {
						return true
					}
					switch bt.Underlying().(type) {
					case *types.Pointer:
						if sel.Kind() == types.MethodVal {
							// a method with a pointer receiver dereferences it in its body unless it tests the receiver for nil
							if m, ok := sel.Obj().(*types.Func); ok {
								if rs := m.Type().(*types.Signature).Recv(); rs != nil {
									if _, isPtr := rs.Type().(*types.Pointer); isPtr && c.nilSafeReceiver(m) {
										return true
									}
								}
							}
						}
						base = x.X
					case *types.Interface:
						if sel.Kind() == types.MethodVal {
							base = x.X
						}
					}
				}
			case *ast.StarExpr:
				if _, isPtr := pk.TypesInfo.TypeOf(x.X).Underlying().(*types.Pointer); isPtr {
					base = x.X
				}
			case *ast.CallExpr:
				if t := pk.TypesInfo.TypeOf(x.Fun); t != nil {
					if _, isSig := t.Underlying().(*types.Signature); isSig {
						if fld := fieldSel(pk, x.Fun); fld != nil {
							base = x.Fun // calling a func-typed field
						}
					}
				}
			}
			if base == nil {
				return true
			}
			fld := fieldSel(pk, base)
			if fld == nil {
				return true
			}
			why, ok := nilable[fld.Origin()]
			if !ok {
				return true
			}
			out = append(out, derefSite{f: f, node: n, base: base, path: accessPath(pk, base), what: why, field: fld.Origin()})
			return true
		})
	}
	return out
}

func fieldKey(v *types.Var, pkgOf func(*types.Var) string) string {
	return pkgOf(v) + "." + v.Name()
}

// structOfField finds the named struct type that declares the field.
func (c *Ctx) structOfField(v *types.Var) string {
	for _, pk := range c.P.Lib {
		scope := pk.Types.Scope()
		for _, n := range scope.Names() {
			if tn, ok := scope.Lookup(n).(*types.TypeName); ok {
				if st, ok := tn.Type().Underlying().(*types.Struct); ok {
					for i := 0; i < st.NumFields(); i++ {
						if st.Field(i) == v {
							return strings.TrimPrefix(pk.PkgPath, "github.com/jsightapi/jsight-api-core/") + "." + tn.Name()
						}
					}
				}
			}
		}
	}
	return "?"
}

func (c *Ctx) stackOf(f *Fn, target ast.Node) []ast.Node {
	var res []ast.Node
	inspectWithStack(f.Decl.Body, func(n ast.Node, stack []ast.Node) bool {
		if n == target && res == nil {
			res = append([]ast.Node(nil), stack...)
		}
		return res == nil
	})
	return res
}

var _ = fmt.Sprint

// ---------- results of GetValue on the generated maps (nil for a missing key) ----------

type getValueSite struct {
	f      *Fn
	call   *ast.CallExpr
	recv   string // receiver access path (pretty)
	keyStr string
	origin string // where the key comes from (range collection / parameter / other)
	stack  []ast.Node
}

func (c *Ctx) getValueSites() []getValueSite {
	var out []getValueSite
	for _, f := range c.libFns() {
		pk := f.Pkg
		if strings.HasSuffix(pk.Fset.Position(f.Decl.Pos()).Filename, "_gen.go") {
			continue
		}
		inspectWithStack(f.Decl.Body, func(n ast.Node, stack []ast.Node) bool {
			call, ok := n.(*ast.CallExpr)
			if !ok || len(call.Args) != 1 {
				return true
			}
			cal := callee(pk, call)
			if cal == nil || cal.Name() != "GetValue" || !c.P.IsLibPkg(cal.Pkg()) {
				return true
			}
			sel := call.Fun.(*ast.SelectorExpr)
			// the construct is named by where the map and the key come from (receiver field, i-th parameter, element of
			// a collection, result of a call), not by the names the function happens to give its locals
			keyStr := c.stableExpr(f, call.Args[0], stack)
			origin := "expression"
			switch {
			case strings.HasPrefix(keyStr, "param#"):
				origin = "parameter"
			case strings.HasPrefix(keyStr, "elem of "):
				origin = "ranges over " + strings.TrimPrefix(keyStr, "elem of ")
				keyStr = "elem"
			default:
				if _, ok := ast.Unparen(call.Args[0]).(*ast.Ident); ok {
					origin = "variable"
				}
			}
			out = append(out, getValueSite{f: f, call: call, recv: c.stableExpr(f, sel.X, stack), keyStr: keyStr, origin: origin, stack: append([]ast.Node(nil), stack...)})
			return true
		})
	}
	return out
}

// nilSafeParam: the callee tests its i-th parameter against nil before anything else uses it.
func (c *Ctx) nilSafeParam(callee *types.Func, i int) bool {
	f := c.fnOf(callee)
	if f == nil {
		return false
	}
	idx := 0
	var obj types.Object
	for _, fl := range f.Decl.Type.Params.List {
		for _, n := range fl.Names {
			if idx == i {
				obj = f.Pkg.TypesInfo.Defs[n]
			}
			idx++
		}
	}
	if obj == nil || len(f.Decl.Body.List) == 0 {
		return false
	}
	ifs, ok := f.Decl.Body.List[0].(*ast.IfStmt)
	if !ok {
		return false
	}
	be, ok := ast.Unparen(ifs.Cond).(*ast.BinaryExpr)
	if !ok || be.Op != token.EQL || !isNil(f.Pkg, be.Y) {
		return false
	}
	id, ok := ast.Unparen(be.X).(*ast.Ident)
	if !ok || f.Pkg.TypesInfo.Uses[id] != obj || len(ifs.Body.List) == 0 {
		return false
	}
	_, isRet := ifs.Body.List[len(ifs.Body.List)-1].(*ast.ReturnStmt)
	return isRet
}

// nilSafeReceiver: a pointer-receiver method whose body compares the receiver with nil, or never uses it,
// or is declared outside the library (dependency: its own business).
func (c *Ctx) nilSafeReceiver(m *types.Func) bool {
	f := c.fnOf(m.Origin())
	if f == nil {
		return !c.P.IsLibPkg(m.Pkg())
	}
	if f.Decl.Recv == nil || len(f.Decl.Recv.List) != 1 || len(f.Decl.Recv.List[0].Names) != 1 {
		return true // receiver unnamed: unused
	}
	recv := f.Pkg.TypesInfo.Defs[f.Decl.Recv.List[0].Names[0]]
	used, tested := false, false
	ast.Inspect(f.Decl.Body, func(n ast.Node) bool {
		switch x := n.(type) {
		case *ast.Ident:
			if f.Pkg.TypesInfo.Uses[x] == recv {
				used = true
			}
		case *ast.BinaryExpr:
			if (x.Op == token.EQL || x.Op == token.NEQ) && isNil(f.Pkg, x.Y) {
				if id, ok := ast.Unparen(x.X).(*ast.Ident); ok && f.Pkg.TypesInfo.Uses[id] == recv {
					tested = true
				}
			}
		}
		return true
	})
	return !used || tested
}
