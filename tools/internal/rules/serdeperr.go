package rules

import (
	"fmt"
	"go/ast"
	"go/types"
	"sort"
	"strings"
)

// ---------- what can fail when the catalog is serialised has been tried when it was built ----------

// ruleSerialiseDepErrors: "whenever building succeeds, ToJson succeeds too". The serialisers call into the schema
// library (the example of a schema, its AST, its used types); those calls can fail on what the document says. Each
// such call must have had its chance to fail while the catalog was built: the build calls the same function on the
// same kind of object (or a function named here as covering it), or a probe does. A call that is made for the first
// time by the serialiser accepts documents whose catalog cannot be written.
var serialiseCoveredBy = map[string][]string{
	// GetAST = Compile + a walk of the compiled schema that cannot fail (ASTNode builders return no error)
	"(*jsight-schema-core/notations/jschema.JSchema).GetAST":        {"(*jsight-schema-core/notations/jschema.JSchema).Compile", "(*jsight-schema-core/notations/jschema.JSchema).Check", "jsight-schema-core.(Schema).Check"},
	"jsight-schema-core.(Schema).GetAST":                            {"jsight-schema-core.(Schema).Check", "(*jsight-schema-core/notations/jschema.JSchema).Compile"},
	"(*jsight-schema-core/notations/jschema.JSchema).UsedUserTypes": {"(*jsight-schema-core/notations/jschema.JSchema).Compile", "jsight-schema-core.(Schema).Check"},
	"(*jsight-schema-core/notations/jschema.JSchema).Compile":       {"jsight-schema-core.(Schema).Check"},
	// (the example of a regular expression is tried by catalog.CheckRegexExample on a scratch schema - the first
	// example only; the generator is stateful, so the probe does not cover the serialiser's call: see below, F60)
	"(*jsight-schema-core/notations/regex.RSchema).Pattern": {"(*jsight-schema-core/notations/regex.RSchema).Check", "jsight-schema-core.(Schema).Check"},
	"(*jsight-schema-core/notations/regex.RSchema).GetAST":  {"(*jsight-schema-core/notations/regex.RSchema).Check", "jsight-schema-core.(Schema).Check"},
}

func (c *Ctx) ruleSerialiseDepErrors(rule string) {
	r := c.R
	r.Rule(rule, "every error-returning function of jsight-schema-core that a function reachable from the serialisers of package catalog calls (Once closures included: the first serialisation runs them) is also called by a function reachable from the build - the same function, or one listed as covering it (GetAST and UsedUserTypes by Compile/Check; the example of a regular expression by the probe): an error that only the serialiser can meet is a document that builds and cannot be written", 3)
	roots := append(c.ssaRoots(serialiseRoots...), c.marshalRoots(func(p string) bool { return strings.HasSuffix(p, "/catalog") })...)
	ser := reachDecls(c.reachableLibOpts(roots, nil, false))
	broots := c.ssaRoots("core:JApiCore.BuildCatalog")
	for _, h := range c.dispatchTable() {
		if sf := c.P.SSAFunc(h); sf != nil {
			broots = append(broots, sf)
		}
	}
	build := reachDecls(c.reachableLibOpts(broots, nil, false))
	depErrCalls := func(set map[*types.Func]bool) map[string]string {
		out := map[string]string{}
		for _, f := range c.libFns() {
			if !set[f.Obj] {
				continue
			}
			ast.Inspect(f.Decl.Body, func(nd ast.Node) bool {
				call, ok := nd.(*ast.CallExpr)
				if !ok {
					return true
				}
				cal := callee(f.Pkg, call)
				if cal == nil || cal.Pkg() == nil || !strings.HasPrefix(cal.Pkg().Path(), depModule) {
					return true
				}
				sig, _ := cal.Type().(*types.Signature)
				if errResultIndex(sig) < 0 {
					return true
				}
				name := shortName(cal.FullName())
				if _, had := out[name]; !had {
					out[name] = f.Name() + " at " + c.pos(call.Pos())
				}
				return true
			})
		}
		return out
	}
	atSer := depErrCalls(ser)
	atBuild := depErrCalls(build)
	// the serialisers are not part of the build: what only they reach must not count as "called at build"
	probe := c.P.LookupFunc("catalog", "CheckRegexExample")
	var names []string
	for n := range atSer {
		names = append(names, n)
	}
	sort.Strings(names)
	n := 0
	for _, name := range names {
		n++
		key := "serialiser calls " + name
		// a function that advances internal state gives the serialiser another result than the one the build (or a
		// probe on a scratch copy) saw: a trial of the first example says nothing about the n-th
		stateful := ""
		for full, class := range depAPI {
			if strings.HasPrefix(class, "stateful") && strings.Replace(full, "github.com/jsightapi/", "", 1) == name {
				stateful = class
			}
		}
		if stateful != "" {
			r.Bad(rule, key, "the function is "+stateful+"; the call the serialiser makes ("+atSer[name]+") takes another draw than any call or probe of the build, and can fail where those did not: a document builds without an error and ToJson returns the error", "")
			continue
		}
		if where, ok := atBuild[name]; ok {
			r.Ok(rule, key, "the build calls it too ("+where+")", "")
			continue
		}
		covered := ""
		for _, cov := range serialiseCoveredBy[name] {
			if strings.HasPrefix(cov, "probe:") {
				if probe != nil && build[probe] {
					covered = "the probe " + strings.TrimPrefix(cov, "probe:") + " runs at build time"
				}
				continue
			}
			if where, ok := atBuild[cov]; ok {
				covered = "covered by " + cov + ", which the build calls (" + where + ")"
				break
			}
		}
		if covered != "" {
			r.Ok(rule, key, covered, "")
			continue
		}
		r.Bad(rule, key, "the function can fail on what the document says and is called for the first time when the catalog is serialised ("+atSer[name]+"): a document on which it fails builds without an error and ToJson returns the error", "")
	}
	if n < 3 {
		r.Undecided(rule, "sites", fmt.Sprintf("only %d error-returning calls into the schema library found under the serialisers", n), "")
	}
}

// ruleSerialiseStatefulRecovered: the example generator of a regular expression panics on some expressions, and on
// some only from the second example on (F60): a probe of the first example does not rule it out. Where a serialiser
// of package catalog takes such an example, the call stands in a function with a deferred recover in front of it,
// so the failure is an error of ToJson and not a panic out of encoding/json.
func (c *Ctx) ruleSerialiseStatefulRecovered(rule string) {
	r := c.R
	r.Rule(rule, "every call, in package catalog outside the build-time probe, of a dependency function classified stateful (the example generator of a regular expression, which panics on some draws) stands in a function or function literal that has a deferred function literal calling recover() before the call: the failure of a later draw is an error value, not a panic out of the serialisation", 1)
	pk := c.P.Pkg("catalog")
	if pk == nil {
		r.Undecided(rule, "anchor", "package catalog not loaded", "")
		return
	}
	n := 0
	for _, f := range c.libFns() {
		if f.Pkg != pk {
			continue
		}
		var stack []ast.Node
		ast.Inspect(f.Decl, func(nd ast.Node) bool {
			if nd == nil {
				stack = stack[:len(stack)-1]
				return true
			}
			stack = append(stack, nd)
			call, ok := nd.(*ast.CallExpr)
			if !ok {
				return true
			}
			cal := callee(pk, call)
			if cal == nil {
				return true
			}
			class, ok := depAPI[cal.FullName()]
			if !ok || !strings.HasPrefix(class, "stateful") {
				return true
			}
			// the receiver of the probe is a scratch schema made on the spot: not the catalog's generator
			if sel, ok := call.Fun.(*ast.SelectorExpr); ok {
				if _, isCall := ast.Unparen(sel.X).(*ast.CallExpr); isCall {
					return true
				}
			}
			n++
			var body *ast.BlockStmt
			for i := len(stack) - 1; i >= 0 && body == nil; i-- {
				switch x := stack[i].(type) {
				case *ast.FuncLit:
					body = x.Body
				case *ast.FuncDecl:
					body = x.Body
				}
			}
			key := f.Name() + " | " + cal.Name()
			rec := false
			if body != nil {
				for _, st := range body.List {
					if st.Pos() > call.Pos() {
						break
					}
					if ds, ok := st.(*ast.DeferStmt); ok {
						if lit, ok := ds.Call.Fun.(*ast.FuncLit); ok {
							ast.Inspect(lit.Body, func(m ast.Node) bool {
								if cc, ok := m.(*ast.CallExpr); ok {
									if id, ok := cc.Fun.(*ast.Ident); ok && id.Name == "recover" && pk.TypesInfo.Uses[id] == types.Universe.Lookup("recover") {
										rec = true
									}
								}
								return true
							})
						}
					}
				}
			}
			if rec {
				r.Ok(rule, key, "the call stands behind a deferred recover of the same function", c.pos(call.Pos()))
			} else {
				r.Bad(rule, key, "the example generator can panic on a later draw than the one the build tried, and nothing recovers here: ToJson panics instead of returning", c.pos(call.Pos()))
			}
			return true
		})
	}
	if n == 0 {
		r.Undecided(rule, "sites", "no call of a stateful dependency function found in package catalog ((*ExchangeRegexSchema).Example used to match)", "")
	}
}
