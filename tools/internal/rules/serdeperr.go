package rules

import (
	"fmt"
	"go/ast"
	"go/types"
	"sort"
	"strings"
)

// ---------- what can fail when the catalog is serialised has been tried when it was built ----------

// ruleSerialiseDepErrors: "whenever building succeeds, ToJson succeeds too". The serialisers call into the schema
// library (the example of a schema, its AST, its used types); those calls can fail on what the document says. Each
// such call must have had its chance to fail while the catalog was built: the build calls the same function on the
// same kind of object (or a function named here as covering it), or a probe does. A call that is made for the first
// time by the serialiser accepts documents whose catalog cannot be written.
var serialiseCoveredBy = map[string][]string{
	// GetAST = Compile + a walk of the compiled schema that cannot fail (ASTNode builders return no error)
	"(*jsight-schema-core/notations/jschema.JSchema).GetAST":        {"(*jsight-schema-core/notations/jschema.JSchema).Compile", "(*jsight-schema-core/notations/jschema.JSchema).Check", "jsight-schema-core.(Schema).Check"},
	"jsight-schema-core.(Schema).GetAST":                            {"jsight-schema-core.(Schema).Check", "(*jsight-schema-core/notations/jschema.JSchema).Compile"},
	"(*jsight-schema-core/notations/jschema.JSchema).UsedUserTypes": {"(*jsight-schema-core/notations/jschema.JSchema).Compile", "jsight-schema-core.(Schema).Check"},
	"(*jsight-schema-core/notations/jschema.JSchema).Compile":       {"jsight-schema-core.(Schema).Check"},
	// the example of a regular expression is tried by catalog.CheckRegexExample on a scratch schema (C04-REGEX-EXAMPLE-PROBED)
	"(*jsight-schema-core/notations/regex.RSchema).Example": {"probe:catalog.CheckRegexExample"},
	"(*jsight-schema-core/notations/regex.RSchema).Pattern": {"(*jsight-schema-core/notations/regex.RSchema).Check", "jsight-schema-core.(Schema).Check"},
	"(*jsight-schema-core/notations/regex.RSchema).GetAST":  {"(*jsight-schema-core/notations/regex.RSchema).Check", "jsight-schema-core.(Schema).Check"},
}

func (c *Ctx) ruleSerialiseDepErrors(rule string) {
	r := c.R
	r.Rule(rule, "every error-returning function of jsight-schema-core that a function reachable from the serialisers of package catalog calls (Once closures included: the first serialisation runs them) is also called by a function reachable from the build - the same function, or one listed as covering it (GetAST and UsedUserTypes by Compile/Check; the example of a regular expression by the probe): an error that only the serialiser can meet is a document that builds and cannot be written", 3)
	roots := append(c.ssaRoots(serialiseRoots...), c.marshalRoots(func(p string) bool { return strings.HasSuffix(p, "/catalog") })...)
	ser := reachDecls(c.reachableLibOpts(roots, nil, false))
	broots := c.ssaRoots("core:JApiCore.BuildCatalog")
	for _, h := range c.dispatchTable() {
		if sf := c.P.SSAFunc(h); sf != nil {
			broots = append(broots, sf)
		}
	}
	build := reachDecls(c.reachableLibOpts(broots, nil, false))
	depErrCalls := func(set map[*types.Func]bool) map[string]string {
		out := map[string]string{}
		for _, f := range c.libFns() {
			if !set[f.Obj] {
				continue
			}
			ast.Inspect(f.Decl.Body, func(nd ast.Node) bool {
				call, ok := nd.(*ast.CallExpr)
				if !ok {
					return true
				}
				cal := callee(f.Pkg, call)
				if cal == nil || cal.Pkg() == nil || !strings.HasPrefix(cal.Pkg().Path(), depModule) {
					return true
				}
				sig, _ := cal.Type().(*types.Signature)
				if errResultIndex(sig) < 0 {
					return true
				}
				name := shortName(cal.FullName())
				if _, had := out[name]; !had {
					out[name] = f.Name() + " at " + c.pos(call.Pos())
				}
				return true
			})
		}
		return out
	}
	atSer := depErrCalls(ser)
	atBuild := depErrCalls(build)
	// the serialisers are not part of the build: what only they reach must not count as "called at build"
	probe := c.P.LookupFunc("catalog", "CheckRegexExample")
	var names []string
	for n := range atSer {
		names = append(names, n)
	}
	sort.Strings(names)
	n := 0
	for _, name := range names {
		n++
		key := "serialiser calls " + name
		if where, ok := atBuild[name]; ok {
			r.Ok(rule, key, "the build calls it too ("+where+")", "")
			continue
		}
		covered := ""
		for _, cov := range serialiseCoveredBy[name] {
			if strings.HasPrefix(cov, "probe:") {
				if probe != nil && build[probe] {
					covered = "the probe " + strings.TrimPrefix(cov, "probe:") + " runs at build time"
				}
				continue
			}
			if where, ok := atBuild[cov]; ok {
				covered = "covered by " + cov + ", which the build calls (" + where + ")"
				break
			}
		}
		if covered != "" {
			r.Ok(rule, key, covered, "")
			continue
		}
		r.Bad(rule, key, "the function can fail on what the document says and is called for the first time when the catalog is serialised ("+atSer[name]+"): a document on which it fails builds without an error and ToJson returns the error", "")
	}
	if n < 3 {
		r.Undecided(rule, "sites", fmt.Sprintf("only %d error-returning calls into the schema library found under the serialisers", n), "")
	}
}
