package rules

import (
	"fmt"
	"go/ast"
	"regexp"
	"strconv"
	"strings"

	"golang.org/x/tools/go/ssa"

	"jsverif/internal/ssaeval"
)

// Catalog setters on E8. A setter of package catalog is evaluated abstractly with its helpers of the same package
// inlined (functions of setters.go and of the generated ordered maps, closures handed to Update included; the id
// constructor, the schema constructors and everything outside stay opaque calls). What the setter does is then read off
// the outcomes: which location a store lands in (a term over the arguments), under which decided conditions. The form
// of the code -- a block written twice or moved into a helper with three results, an early return or an else branch,
// a counter named i or n -- does not show in the terms.

var epochRe = regexp.MustCompile(`@\d+`)

func stripEpochs(s string) string { return epochRe.ReplaceAllString(s, "") }

type setterEval struct {
	outs   []ssaeval.Outcome
	params []string
}

func (c *Ctx) setterOutcomes(f *Fn) *setterEval {
	if c.setterMemo == nil {
		c.setterMemo = map[*ssa.Function]*setterEval{}
	}
	sf := c.P.SSAFunc(f.Obj)
	if sf == nil {
		return nil
	}
	if se, ok := c.setterMemo[sf]; ok {
		return se
	}
	var args []ssaeval.Value
	se := &setterEval{}
	for _, p := range sf.Params {
		args = append(args, ssaeval.Obj(p.Name()))
		se.params = append(se.params, p.Name())
	}
	ev := &ssaeval.Eval{MaxDepth: 5, MaxPaths: 300}
	ev.Follow = func(fn *ssa.Function) bool {
		if !inModule(fn) {
			return false
		}
		o := fn
		if fn.Origin() != nil {
			o = fn.Origin()
		}
		for o.Parent() != nil {
			o = o.Parent()
		}
		if o.Pkg == nil || o.Pkg.Pkg != f.Pkg.Types {
			return false
		}
		if strings.HasPrefix(o.Name(), "new") || strings.HasPrefix(o.Name(), "New") {
			return false // constructors (ids, schemas, bodies): opaque values
		}
		file := c.P.SSA.Fset.Position(o.Pos()).Filename
		return strings.HasSuffix(file, "_gen.go") || file == f.Pkg.Fset.Position(f.Decl.Pos()).Filename
	}
	se.outs = ev.Run(sf, args)
	c.setterMemo[sf] = se
	return se
}

// succeeded: the outcome returns a nil error (last result).
func succeeded(o ssaeval.Outcome) bool {
	if o.Incomplete != "" || o.Panics || len(o.Rets) == 0 {
		return false
	}
	isNil, known := o.Rets[len(o.Rets)-1].IsNilKnown()
	return known && isNil
}

var lenCondRe = regexp.MustCompile(`^(==|!=|<|<=|>|>=)\((len\(.*\))(\{([+-]?\d+)\})?,(-?\d+)\)$`)

// excludesEmpty: the decided condition rules out len(base) == 0.
func excludesEmpty(cd ssaeval.Cond, base string) bool {
	m := lenCondRe.FindStringSubmatch(stripEpochs(cd.Term))
	if m == nil || m[2] != "len("+base+")" {
		return false
	}
	k, _ := strconv.ParseInt(m[4], 10, 64)
	cst, _ := strconv.ParseInt(m[5], 10, 64)
	var at0 bool
	switch m[1] {
	case "==":
		at0 = k == cst
	case "!=":
		at0 = k != cst
	case "<":
		at0 = k < cst
	case "<=":
		at0 = k <= cst
	case ">":
		at0 = k > cst
	case ">=":
		at0 = k >= cst
	}
	return at0 != cd.Taken
}

var respBaseRe = regexp.MustCompile(`^L\(assert\((.*?)\[(iface\([^\[\]]*newHTTPInteractionID\(([A-Za-z_0-9]+)\)\.0\))\]\)\.Responses\)`)

// lastResponseE8 decides C02-LAST-RESPONSE for one setter: "" when it holds, else what is wrong.
func (c *Ctx) lastResponseE8(f *Fn) (string, string) {
	se := c.setterOutcomes(f)
	if se == nil || len(se.outs) == 0 {
		return "", "no abstract evaluation"
	}
	dName := ""
	if d := directiveParam(f); d != nil {
		dName = d.Name()
	}
	stores := 0
	for _, o := range se.outs {
		if o.Incomplete != "" {
			return "", "evaluation incomplete: " + o.Incomplete
		}
		if !succeeded(o) {
			continue
		}
		for _, e := range o.Events {
			if e.Kind != "store" {
				continue
			}
			loc := stripEpochs(e.Loc)
			if !strings.Contains(loc, ".Responses)") {
				continue
			}
			m := respBaseRe.FindStringSubmatch(loc)
			if m == nil {
				return "a store into a response (" + trunc(loc, 160) + ") does not go through the interaction looked up under the id made from the directive", ""
			}
			base := m[0]
			if m[3] != dName {
				return "the interaction id is not derived from the function's own directive", ""
			}
			if !strings.Contains(m[1], "Interactions") {
				return "the response is not reached through the catalog's interactions", ""
			}
			rest := strings.TrimPrefix(loc, base)
			want := "[len(" + base + "){-1}]."
			if !strings.HasPrefix(rest, want) {
				return "the response written is " + trunc(rest, 120) + " of the list, not its last element [len-1]: Body/Headers attach to the wrong response (or to the response of another interaction)", ""
			}
			stores++
			nonEmpty := false
			for _, cd := range o.Conds {
				if excludesEmpty(cd, base) {
					nonEmpty = true
				}
			}
			if !nonEmpty {
				return "the store is reached without the response list being known to be non-empty", ""
			}
		}
	}
	if stores == 0 {
		return "no successful path stores into the last response", ""
	}
	return "", ""
}

func trunc(s string, n int) string {
	if len(s) > n {
		return s[:n] + "..."
	}
	return s
}

// slotGuardedE8: on every successful path of the setter that stores into a location ending in .<field>, the path has
// decided that this very location was empty (nil / "") before. ok=false with a reason when the evaluation cannot tell.
func (c *Ctx) slotGuardedE8(f *Fn, field string) (guarded bool, reason string) {
	se := c.setterOutcomes(f)
	if se == nil || len(se.outs) == 0 {
		return false, "no abstract evaluation"
	}
	n := 0
	for _, o := range se.outs {
		if o.Incomplete != "" {
			return false, "evaluation incomplete: " + o.Incomplete
		}
		if !succeeded(o) {
			continue
		}
		for _, e := range o.Events {
			if e.Kind != "store" || !strings.HasSuffix(stripEpochs(e.Loc), "."+field) {
				continue
			}
			n++
			loc := stripEpochs(e.Loc)
			ok := false
			for _, cd := range o.Conds {
				t := stripEpochs(cd.Term)
				for _, zero := range []string{"nil", `""`} {
					if (t == fmt.Sprintf("!=(L(%s),%s)", loc, zero) && !cd.Taken) || (t == fmt.Sprintf("==(L(%s),%s)", loc, zero) && cd.Taken) {
						ok = true
					}
				}
			}
			if !ok {
				return false, "a successful path stores into " + trunc(loc, 140) + " without having found it empty"
			}
		}
	}
	if n == 0 {
		return false, "no store into the slot on a successful path"
	}
	return true, ""
}

var _ = ast.Inspect
