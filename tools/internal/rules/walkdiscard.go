package rules

import (
	"go/ast"
	"go/types"
)

// ruleWalkResultDiscarded: an iterator of the library's ordered containers (a method that is handed a function
// returning error and that itself returns error) stops at the first element for which the function returns an
// error. Where the caller throws the iterator's result away (`_ = x.Each(func...)`, or the call as a statement),
// a non-nil return of the callback ends the walk silently: the elements after it are never seen, and nobody is
// told. At such a site the callback must return nil on every path.
func (c *Ctx) ruleWalkResultDiscarded(rule string) {
	r := c.R
	r.Rule(rule, "where the error result of an iterator call (a method taking a `func(...) error` and returning error) is discarded, the function literal handed to it returns the nil literal on every path: a non-nil return would end the walk at that element without anybody being told, and everything after it would be missing from what the walk collects", 2)
	errT := types.Universe.Lookup("error").Type()
	n := 0
	for _, f := range c.libFns() {
		pk := f.Pkg
		check := func(call *ast.CallExpr, at ast.Node) {
			cal := callee(pk, call)
			if cal == nil {
				return
			}
			sig, _ := cal.Type().(*types.Signature)
			if sig == nil || sig.Results().Len() != 1 || !types.Identical(sig.Results().At(0).Type(), errT) {
				return
			}
			for i, a := range call.Args {
				lit, ok := ast.Unparen(a).(*ast.FuncLit)
				if !ok {
					continue
				}
				if i >= sig.Params().Len() {
					continue
				}
				ps, _ := sig.Params().At(i).Type().Underlying().(*types.Signature)
				if ps == nil || ps.Results().Len() != 1 || !types.Identical(ps.Results().At(0).Type(), errT) {
					continue
				}
				if ps.Params().Len() == 0 {
					continue // not a walk: nothing is handed to the function (a once-only initialiser and the like)
				}
				n++
				key := f.Name() + " | " + cal.Name() + " callback"
				bad := ast.Node(nil)
				ast.Inspect(lit.Body, func(nd ast.Node) bool {
					if _, ok := nd.(*ast.FuncLit); ok {
						return false
					}
					if ret, ok := nd.(*ast.ReturnStmt); ok && bad == nil {
						if len(ret.Results) != 1 || !isNil(pk, ret.Results[0]) {
							bad = ret
						}
					}
					return true
				})
				if bad != nil {
					r.Bad(rule, key, "the result of the walk is discarded, and the callback can return something else than nil: the walk ends at that element silently and the elements after it are skipped", c.pos(bad.Pos()))
				} else {
					r.Ok(rule, key, "the result of the walk is discarded and the callback returns nil on every path: every element is visited", c.pos(call.Pos()))
				}
			}
		}
		ast.Inspect(f.Decl.Body, func(nd ast.Node) bool {
			switch x := nd.(type) {
			case *ast.ExprStmt:
				if call, ok := ast.Unparen(x.X).(*ast.CallExpr); ok {
					check(call, x)
				}
			case *ast.AssignStmt:
				if len(x.Rhs) == 1 {
					allBlank := true
					for _, l := range x.Lhs {
						if id, ok := l.(*ast.Ident); !ok || id.Name != "_" {
							allBlank = false
						}
					}
					if call, ok := ast.Unparen(x.Rhs[0]).(*ast.CallExpr); ok && allBlank {
						check(call, x)
					}
				}
			}
			return true
		})
	}
	if n == 0 {
		r.Undecided(rule, "sites", "no iterator call with a discarded result found (core.UserTypesData, the OpenAPI server and schema lists used to match)", "")
	}
}
