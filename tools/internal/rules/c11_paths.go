package rules

import (
	"fmt"
	"strings"

	"golang.org/x/tools/go/ssa"

	"jsverif/internal/prog"
	"jsverif/internal/ssaeval"
)

// ruleC11PlacementPaths reads processContext off its abstract evaluation (three rounds of its loop; the predicates of
// package directive are uninterpreted functions of the directive kinds). On every path that returns success the
// incoming directive is placed exactly once, either as a child or in the root list, and the two ways of placing are
// never mixed; the cursor ends on the directive; a context is left only when it is implicit and does not admit the
// directive (or is the implicit URL that a method with a path of its own ends); the root list is appended to only
// in the root context. The facts are about terms, so the layout of the function does not matter.
func (c *Ctx) ruleC11PlacementPaths() {
	r := c.R
	r.Rule("C11-PLACEMENT-PATHS", "on every path of processContext that returns success: the directive is either appended to the root list or attached as a child (AppendChild on, and Parent set to, the same context: the cursor of that moment), never both and never a Parent without the attachment; a child is attached only after IsAllowedForDirectiveContext said yes for that context; a root append happens only with the cursor nil and IsAllowedForRootContext yes, or after IsAllowedForDirectiveContext yes together with the method-with-Path test; the cursor ends on the directive; every context that is left was found implicit and not admitting the directive; a path that returns an error places nothing", 3)
	f := c.fn("core", "JApiCore.processContext")
	cur := c.coreField("currentContextDirective")
	if f == nil || cur == nil {
		r.Undecided("C11-PLACEMENT-PATHS", "anchor", "processContext or the cursor field not found", "")
		return
	}
	where := c.pos(f.Decl.Pos())
	sf := c.P.SSAFunc(f.Obj)
	if sf == nil || len(sf.Params) != 3 {
		r.Undecided("C11-PLACEMENT-PATHS", "anchor", "unexpected signature of processContext", where)
		return
	}
	dirPkg := prog.ModulePath + "/directive"
	ev := c.newEval()
	ev.MaxPaths = 3000
	ev.Follow = func(fn *ssa.Function) bool {
		return inModule(fn) && fn.Pkg != nil && fn.Pkg.Pkg.Path() != dirPkg
	}
	base := ev.Oracle
	ev.WantCall = func(fn *ssa.Function) bool { return fn.Name() == "AppendChild" }
	ev.Oracle = func(fn *ssa.Function, args []ssaeval.Value) (ssaeval.Value, bool) {
		if fn.Name() == "AppendChild" && fn.Pkg != nil && fn.Pkg.Pkg.Path() == dirPkg {
			return ssaeval.Value{K: ssaeval.Tuple}, true
		}
		return base(fn, args)
	}
	outs := ev.Run(sf, []ssaeval.Value{ssaeval.Obj("core"), ssaeval.Obj("d"), ssaeval.Obj("root")})
	loc := "core." + cur.Name()
	nOK, nErr, nCut := 0, 0, 0
	bads := map[string]bool{}
	for _, o := range outs {
		if o.Panics {
			bads["a path panics"] = true
			continue
		}
		cursor := "L(" + loc + ")@0"
		rootAppend, attach, parentSet := 0, "", ""
		var left []string
		yes := map[string]bool{} // predicate terms decided true
		no := map[string]bool{}
		for _, e := range o.Events {
			switch e.Kind {
			case "cond":
				if e.Fn == "true" {
					yes[e.Args[0].Term()] = true
				} else {
					no[e.Args[0].Term()] = true
				}
			case "store":
				switch {
				case e.Loc == loc:
					v := e.Args[0].Term()
					if v != "d" {
						if !strings.HasPrefix(v, "L("+cursor+".Parent)@") {
							bads["the cursor is set to "+v+", neither the directive nor the Parent of the context it leaves"] = true
						}
						left = append(left, cursor)
					}
					cursor = v
				case e.Loc == "*(root)":
					rootAppend++
				case e.Loc == "d.Parent":
					parentSet = e.Args[0].Term()
					if parentSet != cursor {
						bads["d.Parent is set to "+parentSet+" while the cursor is "+cursor] = true
					}
				}
			case "call":
				if len(e.Args) == 2 {
					attach = e.Args[0].Term()
					if attach != cursor || e.Args[1].Term() != "d" {
						bads[fmt.Sprintf("AppendChild(%s, %s) while the cursor is %s", attach, e.Args[1].Term(), cursor)] = true
					}
				}
			}
		}
		hasPred := func(m map[string]bool, name, about string) bool {
			for t := range m {
				if strings.Contains(t, name+"(") && strings.Contains(t, about) {
					return true
				}
			}
			return false
		}
		// every context that was left: implicit, and not admitting the directive
		for _, l := range left {
			if !hasPred(no, "L("+l+".HasExplicitContext", "") && !no["L("+l+".HasExplicitContext)@0"] {
				found := false
				for t := range no {
					if strings.HasPrefix(t, "L("+l+".HasExplicitContext)@") {
						found = true
					}
				}
				if !found {
					bads["a context is left without having been found implicit"] = true
				}
			}
			if !hasPred(no, "IsAllowedForDirectiveContext", l) {
				// one more way to leave a context: an HTTP method that brings a path of its own ends the implicit URL
				// it follows (the URL admits methods, but this one starts a resource of its own)
				if !(hasPred(yes, "IsAllowedForDirectiveContext", l) && hasPred(yes, "IsHTTPRequestMethod", "d")) {
					bads["a context is left although it was not asked whether it admits the directive (or it does)"] = true
				}
			}
		}
		if o.Incomplete != "" {
			nCut++
			if rootAppend > 0 || attach != "" || parentSet != "" {
				bads["a path places the directive and goes on walking"] = true
			}
			continue
		}
		if len(o.Rets) != 1 {
			continue
		}
		isNil, known := o.Rets[0].IsNilKnown()
		if !known {
			bads["a path returns a value whose nil-ness is not known: "+o.Rets[0].String()] = true
			continue
		}
		if !isNil {
			nErr++
			if rootAppend > 0 || attach != "" || parentSet != "" {
				bads["a path that returns an error has placed the directive"] = true
			}
			continue
		}
		nOK++
		switch {
		case rootAppend == 1 && attach == "" && parentSet == "":
			rootNil := yes["==("+placeCursor(o, loc)+",nil)"] || no["!=("+placeCursor(o, loc)+",nil)"]
			if rootNil {
				if !hasPred(yes, "IsAllowedForRootContext", "d") {
					bads["the directive is appended to the root list in the root context although IsAllowedForRootContext did not say yes"] = true
				}
			} else {
				// (until the fix f871dcb a method with a path under an implicit URL was appended to the root list from
				// inside the URL, whatever held the URL: inside a MACRO the explicit context of the macro was left
				// silently, F34)
				bads["the directive is appended to the root list while a context is open: whatever encloses that context (the explicit context of a MACRO) is left silently; a new root starts only where the walk-up has reached the root"] = true
			}
		case rootAppend == 0 && attach != "" && parentSet == attach:
			if !hasPred(yes, "IsAllowedForDirectiveContext", attach) {
				bads["a child is attached to a context that was not asked (or said no) whether it admits the directive"] = true
			}
		default:
			bads[fmt.Sprintf("a successful path places the directive inconsistently: %d root appends, AppendChild on %q, Parent set to %q (a directive in the root list must not get a Parent; a child needs both)", rootAppend, attach, parentSet)] = true
		}
		if cursor != "d" {
			bads["after a successful placement the cursor is "+cursor+", not the directive"] = true
		}
	}
	switch {
	case len(bads) > 0:
		for b := range bads {
			r.Bad("C11-PLACEMENT-PATHS", "processContext | "+b, b, where)
		}
	case nOK == 0 || nErr == 0:
		r.Undecided("C11-PLACEMENT-PATHS", "processContext", fmt.Sprintf("%d successful and %d failing paths found (%d cut): the evaluation does not see the function", nOK, nErr, nCut), where)
	default:
		r.Ok("C11-PLACEMENT-PATHS", "processContext | placed once", fmt.Sprintf("%d successful paths: each places the directive exactly once, as a child of the cursor or in the root list, never both", nOK), where)
		r.Ok("C11-PLACEMENT-PATHS", "processContext | under the tests", "each placement follows the yes of the matching table predicate; each context left was implicit and said no", where)
		r.Ok("C11-PLACEMENT-PATHS", "processContext | errors place nothing", fmt.Sprintf("%d failing paths, none of which places the directive (%d paths cut at the loop bound)", nErr, nCut), where)
	}
}

// placeCursor: the value of the cursor when the directive was placed = the cursor before its last store (which sets
// it to the directive).
func placeCursor(o ssaeval.Outcome, loc string) string {
	cursor := "L(" + loc + ")@0"
	for _, e := range o.Events {
		if e.Kind == "store" && e.Loc == loc && e.Args[0].Term() != "d" {
			cursor = e.Args[0].Term()
		}
	}
	return cursor
}
