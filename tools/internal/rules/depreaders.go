package rules

import (
	"encoding/json"
	"fmt"
	"go/ast"
	"os"
	"path/filepath"
	"sort"
	"strings"

	"golang.org/x/tools/go/ssa"
)

// ---------- the readers of the schema library are called under a recover ----------
//
// The scanner hands the bytes of a body to a reader of jsight-schema-core to learn where the body ends (JSchema.Len,
// Enum.Len). Those readers index into the text; on unfinished input one of them runs over the end (F55: an
// unterminated /* behind the closing bracket of an ENUM) and panics with a runtime error - no explicit panic, so the
// inventory of explicit panics (C01-DEP-RAW-PANIC) does not see it. A reader that recovers by itself turns that into
// an error; for the others the recover is the scanner's job, or Scanner.Next panics on a document.
//
// reference/dep_recovering.json lists, for the pinned version, the functions of the dependency that package scanner
// calls directly, with "recovers" when the function itself, or a function it reaches within three static calls
// (closures handed to a Once included), has a deferred recover that does not re-panic. Generated with the deep load:
//     JSVERIF_DEEP=1 jsverif dump deprecovering > tools/reference/dep_recovering.json

func (c *Ctx) computeDepRecovering() map[string]string {
	cg := c.P.CallGraph()
	out := map[string]string{}
	var recovers func(f *ssa.Function, depth int, seen map[*ssa.Function]bool) bool
	recovers = func(f *ssa.Function, depth int, seen map[*ssa.Function]bool) bool {
		if f == nil || seen[f] || depth > 3 {
			return false
		}
		seen[f] = true
		if ssaRecovers(f) {
			return true
		}
		for _, an := range f.AnonFuncs {
			if recovers(an, depth+1, seen) {
				return true
			}
		}
		if n := cg.Nodes[f]; n != nil {
			for _, e := range n.Out {
				g := e.Callee.Func
				if g == nil || g.Pkg == nil || g.Pkg.Pkg == nil || !strings.HasPrefix(g.Pkg.Pkg.Path(), depModule) {
					continue
				}
				if recovers(g, depth+1, seen) {
					return true
				}
			}
		}
		return false
	}
	for f, n := range cg.Nodes {
		if f == nil || f.Pkg == nil || f.Pkg.Pkg == nil || !strings.HasSuffix(f.Pkg.Pkg.Path(), "/jsight-api-core/scanner") {
			continue
		}
		for _, e := range n.Out {
			g := e.Callee.Func
			if g == nil || g.Pkg == nil || g.Pkg.Pkg == nil || !strings.HasPrefix(g.Pkg.Pkg.Path(), depModule) || e.Site == nil || e.Site.Common().StaticCallee() == nil {
				continue
			}
			if recovers(g, 0, map[*ssa.Function]bool{}) {
				out[shortName(g.String())] = "recovers"
			} else {
				out[shortName(g.String())] = "does not recover"
			}
		}
	}
	return out
}

func init() {
	dumpers["deprecovering"] = func(c *Ctx) {
		ref := depStateRef{Module: depModule, Version: c.depModuleVersion(), Reach: c.computeDepRecovering()}
		b, _ := json.MarshalIndent(ref, "", " ")
		os.Stdout.Write(b)
		fmt.Println()
	}
}

func (c *Ctx) depRecovering() (map[string]string, string) {
	dir := os.Getenv("VERIF_DIR")
	if dir == "" {
		dir = "/verif"
	}
	b, err := os.ReadFile(filepath.Join(dir, "tools", "reference", "dep_recovering.json"))
	if err != nil {
		return nil, "reference/dep_recovering.json not readable"
	}
	var ref depStateRef
	if json.Unmarshal(b, &ref) != nil {
		return nil, "reference/dep_recovering.json is not valid"
	}
	if v := c.depModuleVersion(); v != ref.Version {
		return nil, fmt.Sprintf("the tree requires %s %s, the reference was made for %s: regenerate it (JSVERIF_DEEP=1 jsverif dump deprecovering)", depModule, v, ref.Version)
	}
	return ref.Reach, ""
}

// ruleReadersRecovered: see the comment at the top of the file.
func (c *Ctx) ruleReadersRecovered(rule string) {
	r := c.R
	r.Rule(rule, "every call from package scanner to a reader of jsight-schema-core - a method named Len or Length, the functions that scan the bytes of a body to find its end - either goes to a function that recovers by itself (reference/dep_recovering.json, from the dependency's SSA and call graph for the version go.mod requires; recomputed in the thorough tier) or lies in a function of the module with a deferred recover that stores into its named error result: a runtime panic of the reader on unfinished input becomes an error of the document, not a panic of Scanner.Next", 2)
	ref, why := c.depRecovering()
	if ref == nil {
		r.Undecided(rule, "reference", why, "")
		return
	}
	if c.Deep {
		now := c.computeDepRecovering()
		var diff []string
		for _, k := range sortedStrKeys(now) {
			if ref[k] != now[k] {
				diff = append(diff, k+": "+ref[k]+" -> "+now[k])
			}
		}
		for _, k := range sortedStrKeys(ref) {
			if _, ok := now[k]; !ok {
				diff = append(diff, "-"+k)
			}
		}
		if len(diff) > 0 {
			r.Undecided(rule, "reference (recomputed)", "reference/dep_recovering.json differs from the dependency as loaded today: "+strings.Join(diff, "; "), "")
		} else {
			r.Ok(rule, "reference (recomputed)", "equal to what the deep load gives today", "")
		}
	}
	pk := c.P.Pkg("scanner")
	if pk == nil {
		r.Undecided(rule, "anchor", "package scanner not loaded", "")
		return
	}
	n := 0
	var fns []*Fn
	for _, f := range c.libFns() {
		if f.Pkg == pk {
			fns = append(fns, f)
		}
	}
	sort.Slice(fns, func(i, j int) bool { return fns[i].Name() < fns[j].Name() })
	for _, f := range fns {
		ast.Inspect(f.Decl.Body, func(nd ast.Node) bool {
			call, ok := nd.(*ast.CallExpr)
			if !ok {
				return true
			}
			cal := callee(pk, call)
			if cal == nil || cal.Pkg() == nil || !strings.HasPrefix(cal.Pkg().Path(), depModule) || (cal.Name() != "Len" && cal.Name() != "Length") {
				return true
			}
			n++
			name := shortName(cal.FullName())
			key := f.Name() + " | " + name
			switch {
			case ref[name] == "recovers":
				r.Ok(rule, key, "the reader recovers by itself", c.pos(call.Pos()))
			default:
				if found, sets, _ := c.recoverSetsNamedError(f); found && sets {
					r.Ok(rule, key, "the reader does not recover, the calling function does (deferred recover that sets its named error)", c.pos(call.Pos()))
				} else {
					verdict := ref[name]
					if verdict == "" {
						verdict = "is not in the reference"
					}
					r.Bad(rule, key, "the reader "+verdict+" and the call stands in a function without a deferred recover: unfinished input on which the reader runs over the end of the text (an unterminated /* behind the closing bracket of an ENUM) makes Scanner.Next panic", c.pos(call.Pos()))
				}
			}
			return true
		})
	}
	if n < 2 {
		r.Undecided(rule, "sites", fmt.Sprintf("only %d calls of a reader of the schema library found in package scanner", n), "")
	}
}
