// Package rules holds the property-specific rules. Each rule enumerates
// constructs of the loaded program and records one obligation per construct.
package rules

import (
	"fmt"
	"go/types"
	"golang.org/x/tools/go/ssa"
	"sort"

	"jsverif/internal/obl"
	"jsverif/internal/prog"
	"jsverif/internal/scanfsm"
)

// Ctx is what a property check works with.
type Ctx struct {
	R                *obl.Report
	P                *prog.Program
	Deep             bool
	m                *scanfsm.Machine
	an               map[string]*scanfsm.Analysis
	stackF           *stackFacts
	includeValidator *types.Func
	pureNN           map[*ssa.Function]int
	nonNilMemo       map[*types.Func]int
	pasteE           *pasteEval
	fieldMemo        map[string]*types.Var
	setterMemo       map[*ssa.Function]*setterEval
	kitErrMemo       *kitErrAnalysis
	depRaisersMemo   map[*ssa.Function]string
	pureMemo         map[*types.Func]int
	nsOnlyFields     bool // ruleCollectBeforeUse: only the per-resource sets (map fields), not the cross-block name spaces
	dispatch         map[string]*types.Func
	pasteR           *pasteRoles
	recoverFns       map[*types.Func]bool
}

type propFunc func(c *Ctx)

type propSpec struct {
	f        propFunc
	deepTier map[string]bool // tiers that need dependency syntax
}

var props = map[string]propSpec{}

func register(id string, f propFunc, deepQuick, deepThorough bool) {
	props[id] = propSpec{f: f, deepTier: map[string]bool{"quick": deepQuick, "thorough": deepThorough}}
}

// Run loads the program as the property needs it and runs its rules.
func Run(r *obl.Report) error {
	spec, ok := props[r.Property]
	if !ok {
		var ids []string
		for k := range props {
			ids = append(ids, k)
		}
		sort.Strings(ids)
		return fmt.Errorf("no check registered for %s (have %v)", r.Property, ids)
	}
	deep := spec.deepTier[r.Tier]
	p, err := prog.Load(deep)
	if err != nil {
		return err
	}
	c := &Ctx{R: r, P: p, Deep: deep, an: map[string]*scanfsm.Analysis{}}
	c.installAnchorFallback()
	c.loaderAssertions()
	spec.f(c)
	return nil
}

func (c *Ctx) loaderAssertions() {
	r := c.R
	r.Rule("LOAD", "the whole library is loaded and type-checked from /repo's working tree; anchors resolve; one build configuration", 3)
	r.OkTrivial("LOAD", "packages", fmt.Sprintf("%d library packages, %d module packages", len(c.P.Lib), len(c.P.All)), "")
	if n := c.P.BuildTagLines(); n != 0 {
		r.Undecided("LOAD", "build-tags", fmt.Sprintf("%d build-constraint lines in library sources: other configurations are not analysed", n), "")
	} else {
		r.OkTrivial("LOAD", "build-tags", "no build constraints in library sources", "")
	}
	anchors := [][2]string{{"core", "JApiCore"}, {"scanner", "Scanner"}, {"scanner", "stepFunc"}, {"directive", "Enumeration"},
		{"catalog", "Catalog"}, {"jerr", "JApiError"}, {"directive", "Directive"}}
	missing := 0
	for _, a := range anchors {
		if c.P.LookupType(a[0], a[1]) == nil {
			r.Undecided("LOAD", "anchor type "+a[0]+"."+a[1], "anchor type does not resolve", "")
			missing++
		}
	}
	fanchors := [][2]string{{"kit", "NewJapi"}, {"kit", "NewJApiFromFile"}, {"core", "JApiCore.BuildCatalog"}, {"kit", "JApi.ToJson"},
		{"kit", "JApi.ToJsonIndent"}, {"kit", "JApi.ToOpenAPIJson"}, {"kit", "JApi.ToOpenAPIJsonIndent"}, {"kit", "JApi.Title"},
		{"catalog/ser/openapi", "NewOpenAPI"}, {"scanner", "Scanner.Next"}, {"core", "NewJApiCore"}}
	for _, a := range fanchors {
		if c.P.LookupFunc(a[0], a[1]) == nil {
			r.Undecided("LOAD", "anchor func "+a[0]+"."+a[1], "anchor function does not resolve", "")
			missing++
		}
	}
	if missing == 0 {
		r.OkTrivial("LOAD", "anchors", fmt.Sprintf("%d type and %d function anchors resolve", len(anchors), len(fanchors)), "")
	}
	r.Stats["packages_analysed"] = len(c.P.Lib)
	r.Stats["functions_analysed"] = len(c.P.LibFuncs())
	r.Trusted = append(r.Trusted, "Go front end (go/parser, go/types), golang.org/x/tools v0.29.0 (go/packages, go/ssa, callgraph/vta)",
		"jsight-schema-core@v0.2.0 behaves as read (recover wrappers, Len() <= remaining input, Check() rejects undefined references and type cycles)")
	r.Assumptions = append(r.Assumptions, "packages under internal/ and test/ are developer tools, loaded but outside rule scope",
		"verdicts concern the clause named in coverage.explanation, not the whole behavioural property")
}

// Machine extracts the scanner automaton once.
func (c *Ctx) Machine() *scanfsm.Machine {
	if c.m != nil {
		return c.m
	}
	sp := c.P.Pkg("scanner")
	jp := c.P.Pkg("jerr")
	if sp == nil || jp == nil {
		c.R.Undecided("E1-EXTRACT", "packages", "scanner or jerr package not loaded", "")
		return nil
	}
	m, err := scanfsm.Extract(sp, jp.Types)
	if err != nil {
		c.R.Undecided("E1-EXTRACT", "anchors", err.Error(), "")
		return nil
	}
	c.m = m
	return m
}

// E1Base records the extraction obligations shared by every property that uses the automaton.
func (c *Ctx) E1Base() *scanfsm.Machine {
	r := c.R
	r.Rule("E1-EXTRACT", "every function with the signature of scanner.stepFunc is partially evaluated for each byte 0..255; any construct outside the supported subset fails the check (UNDECIDED)", 2)
	m := c.Machine()
	if m == nil {
		return nil
	}
	for _, u := range m.Unsupported {
		r.Undecided("E1-EXTRACT", "unsupported construct", u, u)
	}
	n := 0
	for _, st := range m.Steps {
		row := m.Trans[st]
		for b := 0; b < 256; b++ {
			n += len(row[b])
		}
	}
	if len(m.Steps) < 100 {
		r.Undecided("E1-EXTRACT", "steps", fmt.Sprintf("only %d step functions found (>= 100 expected)", len(m.Steps)), "")
	} else {
		r.Ok("E1-EXTRACT", "steps", fmt.Sprintf("%d step functions x 256 bytes -> %d outcomes, 0 unsupported constructs, max delegation depth %d", len(m.Steps), n, m.MaxDepth), "")
	}
	if m.NulGuard {
		r.Ok("E1-EXTRACT", "nul-guard", "Next() rejects byte 0 inside the data before the step is evaluated: byte 0 is modelled as end of file only", "")
	} else {
		r.Observe("E1-EXTRACT", "nul-guard", "Next() has no guard against byte 0 inside the data: byte 0 is also explored as an ordinary byte", "")
	}
	r.Stats["e1_states"] = len(m.Steps)
	r.Stats["e1_outcomes"] = n
	r.Stats["e1_initial_state"] = m.InitStep
	return m
}

// Analysis runs (once per k/pessimism) the pushdown exploration.
func (c *Ctx) Analysis(k int, pessimistic bool) *scanfsm.Analysis {
	key := fmt.Sprintf("%d/%v", k, pessimistic)
	if a, ok := c.an[key]; ok {
		return a
	}
	a := c.m.Analyse(k, pessimistic)
	c.an[key] = a
	return a
}
