package rules

import (
	"fmt"
	"go/ast"
	"go/token"
	"go/types"
	"strings"

	"golang.org/x/tools/go/cfg"
)

// ---------- the end of the stream is said after the last lexeme ----------

// ruleNextDrains: (*Scanner).Next says "the file has ended" by returning (nil, nil). One byte can queue several lexeme
// events (the end of the input after `Description // note` queues three); a call of Next returns at the first finished
// lexeme and leaves the rest in the queue. If the next call looks at only ONE left-over event before it decides that
// the input is used up, it returns (nil, nil) with events still queued, and a lexeme comes out of the call AFTER the
// one that announced the end: a consumer that stops at the first nil - the core does - never sees it.
func (c *Ctx) ruleNextDrains(rule string) {
	r := c.R
	r.Rule(rule, "at every `return nil, nil` of scanner.(*Scanner).Next the queue of pending lexeme events is known to be empty: by forward must-analysis on go/cfg, the fact is established on the false edge of `len(queue) != 0` (true edge of `== 0`) and at the exit of a `range` loop over the queue whose every round shifts one event, and it is destroyed by every call that can queue events (a call of the current step function, found/foundAt): no lexeme is yielded after the end of the stream has been announced", 1)
	next := c.fn("scanner", "Scanner.Next")
	shift := c.P.LookupFunc("scanner", "Scanner.shiftFound")
	if next == nil || shift == nil {
		r.Undecided(rule, "anchor", "scanner.(*Scanner).Next / shiftFound not found", "")
		return
	}
	pk := next.Pkg
	// the queue: the field that shiftFound reads
	var queue *types.Var
	if sf := c.fnOf(shift); sf != nil {
		ast.Inspect(sf.Decl.Body, func(nd ast.Node) bool {
			if fld := fieldSelNode(sf.Pkg, nd); fld != nil && queue == nil {
				if _, isSl := fld.Type().Underlying().(*types.Slice); isSl {
					queue = fld
				}
			}
			return true
		})
	}
	if queue == nil {
		r.Undecided(rule, "anchor", "the event queue (the slice field that shiftFound reads) not found", "")
		return
	}
	isQueue := func(e ast.Expr) bool {
		fld := fieldSel(pk, e)
		return fld != nil && fld.Origin() == queue.Origin()
	}
	lenOfQueue := func(e ast.Expr) bool {
		call, ok := ast.Unparen(e).(*ast.CallExpr)
		return ok && len(call.Args) == 1 && exprString(call.Fun) == "len" && isQueue(call.Args[0])
	}
	fc := c.cfgOf(next)
	// calls that can queue events
	enqueues := func(n ast.Node) bool {
		res := false
		ast.Inspect(n, func(m ast.Node) bool {
			if _, isLit := m.(*ast.FuncLit); isLit {
				return false
			}
			call, ok := m.(*ast.CallExpr)
			if !ok {
				return true
			}
			cal := callee(pk, call)
			if cal == nil {
				// a call through a value: the current step function
				if _, isSig := pk.TypesInfo.TypeOf(call.Fun).Underlying().(*types.Signature); isSig {
					if tv, has := pk.TypesInfo.Types[call.Fun]; !has || !tv.IsType() {
						res = true
					}
				}
				return true
			}
			switch cal.Name() {
			case "found", "foundAt":
				res = true
			}
			return true
		})
		return res
	}
	blocks := fc.g.Blocks
	in := map[*cfg.Block]bool{}
	for _, b := range blocks {
		in[b] = true
	}
	if len(blocks) == 0 {
		r.Undecided(rule, "cfg", "no control flow graph", "")
		return
	}
	in[blocks[0]] = false
	type edge struct {
		from *cfg.Block
		i    int
	}
	preds := map[*cfg.Block][]edge{}
	for _, b := range blocks {
		for i, s := range b.Succs {
			preds[s] = append(preds[s], edge{b, i})
		}
	}
	through := func(b *cfg.Block, upto int, v bool) bool {
		for i := 0; i < upto && i < len(b.Nodes); i++ {
			if enqueues(b.Nodes[i]) {
				v = false
			}
		}
		return v
	}
	drains := func(rs *ast.RangeStmt) bool {
		if !isQueue(rs.X) {
			return false
		}
		return fc.everyRoundPasses(rs, func(m ast.Node) bool {
			call, ok := m.(*ast.CallExpr)
			return ok && callee(pk, call) == shift
		})
	}
	// for n := len(queue); n > 0; n-- { one shift per round }: as many rounds as there were events
	drainsFor := func(fs *ast.ForStmt) bool {
		init, ok := fs.Init.(*ast.AssignStmt)
		if !ok || len(init.Lhs) != 1 || len(init.Rhs) != 1 || !lenOfQueue(init.Rhs[0]) {
			return false
		}
		cnt, ok := init.Lhs[0].(*ast.Ident)
		if !ok {
			return false
		}
		obj := pk.TypesInfo.ObjectOf(cnt)
		be, ok := ast.Unparen(fs.Cond).(*ast.BinaryExpr)
		if !ok || (be.Op != token.GTR && be.Op != token.NEQ) {
			return false
		}
		if id, ok := ast.Unparen(be.X).(*ast.Ident); !ok || pk.TypesInfo.Uses[id] != obj {
			return false
		}
		if k, isK := constInt(pk, be.Y); !isK || k != 0 {
			return false
		}
		post, ok := fs.Post.(*ast.IncDecStmt)
		if !ok || post.Tok != token.DEC {
			return false
		}
		if id, ok := ast.Unparen(post.X).(*ast.Ident); !ok || pk.TypesInfo.Uses[id] != obj {
			return false
		}
		return fc.everyRoundPasses(fs, func(m ast.Node) bool {
			call, ok := m.(*ast.CallExpr)
			return ok && callee(pk, call) == shift
		})
	}
	outOf := func(b *cfg.Block, i int) bool {
		v := through(b, len(b.Nodes), in[b])
		if len(b.Succs) == 2 {
			if fs, ok := b.Stmt.(*ast.ForStmt); ok && b.Kind == cfg.KindForLoop && i == 1 && drainsFor(fs) {
				return true
			}
			if rs, ok := b.Stmt.(*ast.RangeStmt); ok && b.Kind == cfg.KindRangeLoop && i == 1 && drains(rs) {
				return true
			}
			if len(b.Nodes) > 0 {
				if cond, ok := b.Nodes[len(b.Nodes)-1].(ast.Expr); ok {
					for _, a := range impliedAtoms(cond, i == 0) {
						be, ok := a.e.(*ast.BinaryExpr)
						if !ok || !lenOfQueue(be.X) {
							continue
						}
						k, isK := constInt(pk, be.Y)
						if !isK || k != 0 {
							continue
						}
						if (be.Op == token.EQL && a.holds) || ((be.Op == token.NEQ || be.Op == token.GTR) && !a.holds) {
							v = true
						}
					}
				}
			}
		}
		return v
	}
	for changed := true; changed; {
		changed = false
		for _, b := range blocks {
			if b == blocks[0] {
				continue
			}
			v := true
			for _, p := range preds[b] {
				if !outOf(p.from, p.i) {
					v = false
					break
				}
			}
			if v != in[b] {
				in[b] = v
				changed = true
			}
		}
	}
	n := 0
	ast.Inspect(next.Decl.Body, func(nd ast.Node) bool {
		if _, isLit := nd.(*ast.FuncLit); isLit {
			return false
		}
		ret, ok := nd.(*ast.ReturnStmt)
		if !ok || len(ret.Results) != 2 || !isNil(pk, ret.Results[0]) || !isNil(pk, ret.Results[1]) {
			return true
		}
		n++
		key := fmt.Sprintf("%s | return nil, nil #%d", next.Name(), n)
		b, i := fc.blockOf(ret)
		if b == nil {
			r.Undecided(rule, key, "the return is not in the control flow graph", c.pos(ret.Pos()))
			return true
		}
		if through(b, i, in[b]) {
			r.Ok(rule, key, "the queue of pending events is empty on every path to this return", c.pos(ret.Pos()))
		} else {
			r.Bad(rule, key, "the end of the stream is announced on a path on which events may still be queued (a call that begins by handling ONE left-over event and then finds the input used up): the lexeme they make comes out of a later call, after the (nil, nil) that consumers take for the end", c.pos(ret.Pos()))
		}
		return true
	})
	if n == 0 {
		r.Undecided(rule, "sites", "Next has no `return nil, nil`", c.pos(next.Decl.Pos()))
	}
}

// ---------- the event primitive records the position it is given ----------

// ruleFoundAtVerbatim: every position that E1 computes for a lexeme event is the argument of foundAt at the call site
// (cursor, cursor-1, ...). That is the position of the event only if foundAt stores it unchanged: a primitive that
// moves the position (clamps it to the last byte, rounds it) puts every lexeme that ends at the end of the file
// somewhere else than the model says - overlapping its neighbour, or on top of the delimiter.
func (c *Ctx) ruleFoundAtVerbatim(rule string) {
	r := c.R
	r.Rule(rule, "scanner.(*Scanner).foundAt appends exactly one event made of its two parameters as they were handed in: neither parameter is assigned in the body, the only composite literal of the event type is built from the two parameter identifiers, and it is appended on every path (no return in front of the append): the positions of the extracted automaton are the positions the scanner reports", 1)
	f := c.fn("scanner", "Scanner.foundAt")
	if f == nil {
		r.Undecided(rule, "anchor", "scanner.(*Scanner).foundAt not found", "")
		return
	}
	pk := f.Pkg
	params := map[types.Object]bool{}
	if f.Decl.Type.Params != nil {
		for _, fld := range f.Decl.Type.Params.List {
			for _, nm := range fld.Names {
				if o := pk.TypesInfo.Defs[nm]; o != nil {
					params[o] = true
				}
			}
		}
	}
	key := f.Name() + " | event"
	bad := ""
	lits := 0
	var appendNode ast.Node
	ast.Inspect(f.Decl.Body, func(nd ast.Node) bool {
		switch x := nd.(type) {
		case *ast.AssignStmt:
			for _, l := range x.Lhs {
				if id, ok := ast.Unparen(l).(*ast.Ident); ok && params[pk.TypesInfo.ObjectOf(id)] {
					bad = "the parameter " + id.Name + " is assigned before it is stored"
				}
			}
			for _, rhs := range x.Rhs {
				if call, ok := ast.Unparen(rhs).(*ast.CallExpr); ok && exprString(call.Fun) == "append" {
					appendNode = x
				}
			}
		case *ast.IncDecStmt:
			if id, ok := ast.Unparen(x.X).(*ast.Ident); ok && params[pk.TypesInfo.ObjectOf(id)] {
				bad = "the parameter " + id.Name + " is changed before it is stored"
			}
		case *ast.CompositeLit:
			if strings.HasSuffix(namedType(pk.TypesInfo.TypeOf(x)), "LexemeEvent") {
				lits++
				for _, el := range x.Elts {
					v := el
					if kv, ok := el.(*ast.KeyValueExpr); ok {
						v = kv.Value
					}
					if id, ok := ast.Unparen(v).(*ast.Ident); !ok || !params[pk.TypesInfo.Uses[id]] {
						bad = "the event is built from " + exprString(v) + ", not from a parameter as handed in"
					}
				}
			}
		}
		return true
	})
	if bad == "" && lits != 1 {
		bad = fmt.Sprintf("%d event literals in the body (one expected)", lits)
	}
	if bad == "" && appendNode != nil {
		fc := c.cfgOf(f)
		ast.Inspect(f.Decl.Body, func(nd ast.Node) bool {
			if ret, ok := nd.(*ast.ReturnStmt); ok && fc.reachesFromEntryAvoiding(ret, []ast.Node{appendNode}) {
				bad = "a return is reached without appending the event"
			}
			return true
		})
	}
	if bad == "" && appendNode == nil {
		bad = "no append of the event found"
	}
	if bad == "" {
		r.Ok(rule, key, "stores the type and the position it is given, on every path", c.pos(f.Decl.Pos()))
	} else {
		r.Bad(rule, key, bad+": the position of a lexeme event is no longer the one the step function computed (E1 takes the argument of foundAt for the position of the event)", c.pos(f.Decl.Pos()))
	}
}
