package rules

import (
	"fmt"
	"go/ast"
	"go/constant"
	"go/token"
	"go/types"
	"sort"
	"strings"

	"golang.org/x/tools/go/ssa"

	"jsverif/internal/prog"
)

func propC17(c *Ctx) {
	c.R.Explanation = "Decides the 'never panics' clause for the module and everything the export calls: both OpenAPI accessors reduce to one helper whose deferred recover assigns its NAMED results and which contains both the conversion and the JSON encoding, so every explicit panic, unchecked assertion, nil-able dereference and dependency panic below it (each listed as a covered site) is turned into the error result; no other library function calls the converter. Also: assignOperation covers every method NewHTTPMethod can produce, path parameters are appended only after Required was set to true, response keys are response codes or \"default\", and every collector that feeds path variables reads the directive list AFTER macro expansion. Not decided: structural validity of the produced document ($ref resolution, schema shapes), which the dependency produces from data."
	c.rulePanicCover()
	// the recover of toOpenAPI covers its own goroutine only
	c.ruleSequentialAs("C17-NO-GOROUTINES")
	c.ruleMethodExhaustive()
	c.rulePathParamsRequired()
	c.rulePathParamsComplete()
	c.ruleTemplateExpressions("C17-TEMPLATE-EXPRESSIONS")
	c.rulePanicValue("C17-PANIC-VALUE")
	c.ruleIDDerivation() // the paths object is keyed by the path an interaction stores: it must be the path of its id
	c.ruleWalkResultDiscarded("C17-WALK-RESULT-DISCARDED")
	c.ruleTypedNilError("C17-TYPED-NIL-ERROR")
	c.ruleComponentsIffTypes()
	c.ruleResponseKeys()
	c.ruleExpandedTree()
	c.ruleEveryInteraction()
	c.ruleAssertForms("C17-ASSERT-FORMS")
	c.ruleLoopFlags("C17-LOOP-FLAG")
	c.ruleLoopsCoverAll("C17-LOOPS-COVER-ALL")
	c.ruleDeadErrorStores("C17-DEAD-ERROR-STORE")
	c.ruleDisallowedCalls("C17-DISALLOWED-CALLS")
	// a conversion error that is dropped leaves a hole in the document (a user type and every type after it)
	c.ruleNoDroppedErrorRoots("C17-NO-DROPPED-ERROR", false, append(c.ssaRoots("kit:JApi.ToOpenAPIJson", "kit:JApi.ToOpenAPIJsonIndent"), c.marshalRoots(func(p string) bool { return strings.Contains(p, "/ser/openapi") })...), 2)
}

func (c *Ctx) rulePanicCover() {
	r := c.R
	r.Rule("C17-PANIC-COVER", "ToOpenAPIJson and ToOpenAPIJsonIndent each consist of one call of a helper that (a) has a deferred recover assigning its named ([]byte, error) results (C01-RECOVER-RESULT), (b) calls openapi.NewOpenAPI and the marshal function inside that scope; no other function of the library calls NewOpenAPI; every panic/assertion site reachable below the helper is listed as covered", 5)
	c.ruleRecoverDiscipline()
	helper := c.fn("kit", "JApi.toOpenAPI")
	newOA := c.P.LookupFunc("catalog/ser/openapi", "NewOpenAPI")
	if helper == nil || newOA == nil {
		r.Bad("C17-PANIC-COVER", "helper", "kit.(*JApi).toOpenAPI (the recover boundary) or openapi.NewOpenAPI not found: the export is not wrapped in a converting recover", "")
		return
	}
	// a function literal, or a declared function handed the addresses of the named results
	found, sets, _ := c.recoverSetsNamedError(helper)
	recovers := found && sets
	callsConv := len(callsIn(helper.Pkg, helper.Decl.Body, newOA)) == 1
	// marshal is a parameter called inside the helper
	callsMarshal := false
	ast.Inspect(helper.Decl.Body, func(n ast.Node) bool {
		if call, ok := n.(*ast.CallExpr); ok {
			if id, ok := call.Fun.(*ast.Ident); ok {
				if v, ok := helper.Pkg.TypesInfo.Uses[id].(*types.Var); ok {
					if _, isSig := v.Type().Underlying().(*types.Signature); isSig {
						callsMarshal = true
					}
				}
			}
			if cal := callee(helper.Pkg, call); cal != nil && cal.Pkg() != nil && cal.Pkg().Path() == "encoding/json" {
				callsMarshal = true
			}
		}
		return true
	})
	if recovers && callsConv && callsMarshal {
		r.Ok("C17-PANIC-COVER", "helper", "toOpenAPI: deferred recover; NewOpenAPI and the encoder are called inside it", c.pos(helper.Decl.Pos()))
	} else {
		r.Bad("C17-PANIC-COVER", "helper", fmt.Sprintf("recover=%v conversion inside=%v encoding inside=%v", recovers, callsConv, callsMarshal), c.pos(helper.Decl.Pos()))
	}
	for _, name := range []string{"JApi.ToOpenAPIJson", "JApi.ToOpenAPIJsonIndent"} {
		f := c.fn("kit", name)
		if f == nil {
			r.Bad("C17-PANIC-COVER", name, "accessor not found", "")
			continue
		}
		ok := false
		if len(f.Decl.Body.List) == 1 {
			if ret, isRet := f.Decl.Body.List[0].(*ast.ReturnStmt); isRet && len(ret.Results) == 1 {
				if call, isCall := ret.Results[0].(*ast.CallExpr); isCall && callee(f.Pkg, call) == helper.Obj {
					ok = true
				}
			}
		}
		// nothing else in the accessor may run outside the helper except building the marshal closure
		if ok {
			r.Ok("C17-PANIC-COVER", name, "a single `return j.toOpenAPI(...)`", c.pos(f.Decl.Pos()))
		} else {
			r.Bad("C17-PANIC-COVER", name, "the accessor does work outside the recover boundary", c.pos(f.Decl.Pos()))
		}
	}
	for _, f := range c.libFns() {
		if f.Obj == helper.Obj || f.Pkg.PkgPath == prog.ModulePath+"/catalog/ser/openapi" {
			continue
		}
		if calls := callsIn(f.Pkg, f.Decl.Body, newOA); len(calls) > 0 {
			r.Bad("C17-PANIC-COVER", f.Name()+" calls NewOpenAPI", "the converter is entered outside the recover boundary", c.pos(calls[0].Pos()))
		}
	}
	// covered sites (observability: what the boundary protects)
	roots := []*ssa.Function{c.P.SSAFunc(helper.Obj)}
	oaMarshal := c.marshalRoots(func(p string) bool { return strings.HasSuffix(p, "/catalog/ser/openapi") })
	roots = append(roots, oaMarshal...)
	reach := reachDecls(c.reachableLib(roots, nil))
	var sites []string
	for _, f := range c.libFns() {
		if !reach[f.Obj] {
			continue
		}
		pk := f.Pkg
		inspectWithStack(f.Decl.Body, func(n ast.Node, stack []ast.Node) bool {
			switch x := n.(type) {
			case *ast.CallExpr:
				if id, ok := x.Fun.(*ast.Ident); ok && id.Name == "panic" {
					if _, isB := pk.TypesInfo.Uses[id].(*types.Builtin); isB {
						sites = append(sites, f.Name()+" | panic")
					}
				}
			case *ast.TypeAssertExpr:
				if x.Type == nil {
					return true
				}
				if len(stack) > 0 {
					if as, ok := stack[len(stack)-1].(*ast.AssignStmt); ok && len(as.Lhs) == 2 {
						return true
					}
				}
				sites = append(sites, fmt.Sprintf("%s | %s.(%s)", f.Name(), assertOperandKey(pk, x.X), exprString(x.Type)))
			}
			return true
		})
	}
	sort.Strings(sites)
	seen := map[string]int{}
	for _, s := range sites {
		seen[s]++
		key := s
		if seen[s] > 1 {
			key = fmt.Sprintf("%s #%d", s, seen[s])
		}
		r.Ok("C17-PANIC-COVER", "covered: "+key, "below the recover boundary of toOpenAPI", "")
	}
	// MarshalJSON methods of the openapi types run inside json.Marshal, which toOpenAPI calls inside the boundary
	r.Ok("C17-PANIC-COVER", "encode-time methods", fmt.Sprintf("%d MarshalJSON/MarshalText methods of package openapi run inside the marshal call of toOpenAPI", len(oaMarshal)), "")
	r.Stats["c17_covered_sites"] = len(sites)
}

func (c *Ctx) ruleMethodExhaustive() {
	r := c.R
	r.Rule("C17-METHOD-EXHAUSTIVE", "PathItem.assignOperation, run abstractly with its method parameter bound to each catalog.HTTPMethod constant that catalog.NewHTTPMethod can return, assigns exactly one slot of the path item (a different one per method) and does not reach its panic", 1)
	nm := c.fn("catalog", "NewHTTPMethod")
	ao := c.fn("catalog/ser/openapi", "PathItem.assignOperation")
	if nm == nil || ao == nil {
		r.Undecided("C17-METHOD-EXHAUSTIVE", "anchor", "NewHTTPMethod / assignOperation not found", "")
		return
	}
	produced := map[string]bool{}
	ast.Inspect(nm.Decl.Body, func(n ast.Node) bool {
		if ret, ok := n.(*ast.ReturnStmt); ok && len(ret.Results) == 2 && isNil(nm.Pkg, ret.Results[1]) {
			if k := constObj(nm.Pkg, ret.Results[0]); k != nil {
				produced[k.Name()] = true
			}
		}
		return true
	})
	// run assignOperation abstractly for each method NewHTTPMethod can return (whatever form the dispatch has): it must
	// not reach a panic and must assign exactly one slot, a different one for each method
	var mparam types.Object
	if ps := ao.Decl.Type.Params.List; len(ps) > 0 && len(ps[0].Names) > 0 {
		mparam = ao.Pkg.TypesInfo.Defs[ps[0].Names[0]]
	}
	var names []string
	for k := range produced {
		names = append(names, k)
	}
	sort.Strings(names)
	slotOf := map[string]string{}
	var missing []string
	for _, name := range names {
		k, _ := nm.Pkg.Types.Scope().Lookup(name).(*types.Const)
		if k == nil || mparam == nil {
			missing = append(missing, name+" (not evaluated)")
			continue
		}
		env := &constEnv{c: c, vars: map[types.Object]constant.Value{mparam: k.Val()}}
		var assigns []string
		panics := false
		env.trace = func(kind, what string) {
			if kind == "panic" {
				panics = true
			} else {
				assigns = append(assigns, what)
			}
		}
		outs := map[string]bool{}
		env.evalBody(ao, ao.Decl.Body.List, outs, 0)
		switch {
		case panics || outs["panic"]:
			missing = append(missing, name+" (reaches the panic)")
		case len(assigns) != 1:
			missing = append(missing, fmt.Sprintf("%s (assigns %d slots)", name, len(assigns)))
		default:
			for other, sl := range slotOf {
				if sl == assigns[0] {
					missing = append(missing, name+" (shares the slot "+sl+" with "+other+")")
				}
			}
			slotOf[name] = assigns[0]
		}
	}
	if len(produced) >= 5 && len(missing) == 0 {
		r.Ok("C17-METHOD-EXHAUSTIVE", "assignOperation", fmt.Sprintf("for each of the %d methods NewHTTPMethod can return, the abstract run assigns one slot of its own and does not reach the panic", len(produced)), c.pos(ao.Decl.Pos()))
	} else {
		r.Bad("C17-METHOD-EXHAUSTIVE", "assignOperation", fmt.Sprintf("not handled: %v: such an interaction ends in the 'Unsupported method' panic (an error at best) or in another method's slot, never in paths[path][method]", missing), c.pos(ao.Decl.Pos()))
	}
}

func (c *Ctx) rulePathParamsRequired() {
	r := c.R
	r.Rule("C17-PATH-PARAMS-REQUIRED", "in getPathParams every ParameterObject is appended to the result only after its Required field was set to the constant true in the same loop iteration", 1)
	f := c.fn("catalog/ser/openapi", "getPathParams")
	if f == nil {
		r.Undecided("C17-PATH-PARAMS-REQUIRED", "anchor", "getPathParams not found", "")
		return
	}
	pk := f.Pkg
	n, bad := 0, ""
	ast.Inspect(f.Decl.Body, func(nd ast.Node) bool {
		rs, ok := nd.(*ast.RangeStmt)
		if !ok {
			return true
		}
		val, _ := rs.Value.(*ast.Ident)
		if val == nil {
			return true
		}
		vobj := pk.TypesInfo.Defs[val]
		setAt, appendAt := -1, -1
		for i, st := range rs.Body.List {
			as, ok := st.(*ast.AssignStmt)
			if !ok || len(as.Lhs) != 1 || len(as.Rhs) != 1 {
				continue
			}
			if fld := fieldSel(pk, as.Lhs[0]); fld != nil && fld.Name() == "Required" {
				if id, ok := ast.Unparen(as.Lhs[0].(*ast.SelectorExpr).X).(*ast.Ident); ok && pk.TypesInfo.Uses[id] == vobj {
					if tv := pk.TypesInfo.Types[as.Rhs[0]]; tv.Value != nil && tv.Value.String() == "true" {
						setAt = i
					}
				}
			}
			if call, ok := ast.Unparen(as.Rhs[0]).(*ast.CallExpr); ok && exprString(call.Fun) == "append" && len(call.Args) == 2 {
				if id, ok := ast.Unparen(call.Args[1]).(*ast.Ident); ok && pk.TypesInfo.Uses[id] == vobj {
					appendAt = i
				}
			}
		}
		if appendAt >= 0 {
			n++
			if setAt < 0 || setAt > appendAt {
				bad = c.pos(rs.Pos())
			}
		}
		return true
	})
	switch {
	case n == 0:
		r.Bad("C17-PATH-PARAMS-REQUIRED", "getPathParams", "no loop appending path parameters found", c.pos(f.Decl.Pos()))
	case bad != "":
		r.Bad("C17-PATH-PARAMS-REQUIRED", "getPathParams", "a path parameter is appended without Required = true (OpenAPI requires it for `in: path`)", bad)
	default:
		r.Ok("C17-PATH-PARAMS-REQUIRED", "getPathParams", "Required = true precedes the append in the loop body", c.pos(f.Decl.Pos()))
	}
}

// rulePathParamsComplete: the parameters of a path item come from the path schema through two list-building loops
// (getPathParams over the result of the schema-to-parameters converter, and the converter's own loop over the
// properties of the schema). A `{parameter}` of the path is declared only if neither loop can skip an element.
func (c *Ctx) rulePathParamsComplete() {
	r := c.R
	r.Rule("C17-PATH-PARAMS-COMPLETE", "in getPathParams and in the list-returning functions of the exporter it gets its list from (four levels), every loop that builds the returned list appends on every iteration (no continue, no conditional append): no property of the path schema is left without a parameter object", 2)
	f := c.fn("catalog/ser/openapi", "getPathParams")
	if f == nil {
		r.Undecided("C17-PATH-PARAMS-COMPLETE", "anchor", "getPathParams not found", "")
		return
	}
	// the chain of providers: the functions of the exporter package that getPathParams gets its list from, directly or
	// through others (a ranged-over, returned or handed-on result of a call), four levels deep
	fns := []*Fn{f}
	seenFn := map[*types.Func]bool{f.Obj: true}
	for level, frontier := 0, []*Fn{f}; level < 4 && len(frontier) > 0; level++ {
		var next []*Fn
		for _, g := range frontier {
			ast.Inspect(g.Decl.Body, func(nd ast.Node) bool {
				call, ok := nd.(*ast.CallExpr)
				if !ok {
					return true
				}
				h := c.fnOf(callee(g.Pkg, call))
				if h == nil || h.Pkg != f.Pkg || seenFn[h.Obj] {
					return true
				}
				// only functions that hand back a list (first result a slice)
				res := h.Obj.Type().(*types.Signature).Results()
				if res.Len() == 0 {
					return true
				}
				if _, isSlice := res.At(0).Type().Underlying().(*types.Slice); !isSlice {
					return true
				}
				seenFn[h.Obj] = true
				fns = append(fns, h)
				next = append(next, h)
				return true
			})
		}
		frontier = next
	}
	n := 0
	for _, g := range fns {
		pk := g.Pkg
		cf := buildCFG(g.Decl.Body)
		// result variables: identifiers returned
		returned := map[types.Object]bool{}
		ast.Inspect(g.Decl.Body, func(nd ast.Node) bool {
			if ret, ok := nd.(*ast.ReturnStmt); ok {
				for _, e := range ret.Results {
					if id := identOf(e); id != nil {
						returned[pk.TypesInfo.Uses[id]] = true
					}
				}
			}
			return true
		})
		ast.Inspect(g.Decl.Body, func(nd ast.Node) bool {
			rs, ok := nd.(*ast.RangeStmt)
			if !ok {
				return true
			}
			isAppend := func(m ast.Node) bool {
				as, ok := m.(*ast.AssignStmt)
				if !ok || len(as.Lhs) != 1 || len(as.Rhs) != 1 {
					return false
				}
				call, ok := ast.Unparen(as.Rhs[0]).(*ast.CallExpr)
				if !ok || exprString(call.Fun) != "append" {
					return false
				}
				id := identOf(as.Lhs[0])
				return id != nil && returned[objOf(pk, id)]
			}
			has := false
			ast.Inspect(rs.Body, func(m ast.Node) bool {
				if isAppend(m) {
					has = true
				}
				return !has
			})
			if !has {
				return true
			}
			n++
			key := g.Name() + " | range " + exprString(rs.X)
			if cf.everyRoundPasses(rs, isAppend) {
				r.Ok("C17-PATH-PARAMS-COMPLETE", key, "every iteration appends to the returned list", c.pos(rs.Pos()))
			} else {
				r.Bad("C17-PATH-PARAMS-COMPLETE", key, "an iteration can end without appending: a property of the path schema gets no parameter object, so a {parameter} of the path is left undeclared", c.pos(rs.Pos()))
			}
			return true
		})
	}
	if n < 2 {
		r.Undecided("C17-PATH-PARAMS-COMPLETE", "loops", fmt.Sprintf("only %d list-building loop(s) recognised between the path schema and the path item", n), "")
	}
}

// ruleComponentsIffTypes: "every user type is a component": the components section may be left out only when there is
// no user type at all.
func (c *Ctx) ruleComponentsIffTypes() {
	r := c.R
	r.Rule("C17-COMPONENTS-IFF-TYPES", "the function that builds the components section returns nil only on a path on which UserTypes.Len() is known to be 0 (in whatever form the test is written; predicate helpers are opened): no other circumstance (kinds of interactions, servers, ...) may drop the user types", 1)
	f := c.fn("catalog/ser/openapi", "newComponents")
	if f == nil {
		r.Undecided("C17-COMPONENTS-IFF-TYPES", "anchor", "newComponents not found", "")
		return
	}
	pk := f.Pkg
	cf := c.cfgOf(f)
	n := 0
	ast.Inspect(f.Decl.Body, func(nd ast.Node) bool {
		ret, ok := nd.(*ast.ReturnStmt)
		if !ok || len(ret.Results) != 1 || !isNil(pk, ret.Results[0]) {
			return true
		}
		n++
		noTypes := func(cond ast.Expr, holds bool) bool {
			// a comparison of <..>.UserTypes.Len() with a constant that, having this truth value, leaves only 0
			be, ok := ast.Unparen(cond).(*ast.BinaryExpr)
			if !ok {
				return false
			}
			var lenCall ast.Expr
			for _, side := range []ast.Expr{be.X, be.Y} {
				if call, ok := ast.Unparen(side).(*ast.CallExpr); ok {
					if sel, ok := ast.Unparen(call.Fun).(*ast.SelectorExpr); ok && sel.Sel.Name == "Len" {
						if fld := fieldSelNode(pk, sel.X); fld != nil && fld.Name() == "UserTypes" {
							lenCall = side
						}
						// inside a helper of another receiver name the field is still UserTypes
						if s2, ok := ast.Unparen(sel.X).(*ast.SelectorExpr); ok && s2.Sel.Name == "UserTypes" {
							lenCall = side
						}
					}
				}
			}
			if lenCall == nil {
				return false
			}
			for _, v := range []int64{1, 2, 1 << 20} {
				env := &constEnv{c: c}
				vv := v
				env.leaf = func(g *Fn, e ast.Expr) (constant.Value, bool) {
					if e == ast.Unparen(lenCall) {
						return constant.MakeInt64(vv), true
					}
					return nil, false
				}
				if !env.refutes(f, cond, holds) {
					return false
				}
			}
			return true
		}
		if cf.establishedAt(ret, noTypes, nil) {
			r.Ok("C17-COMPONENTS-IFF-TYPES", "newComponents | return nil", "reached only when there is no user type", c.pos(ret.Pos()))
		} else {
			r.Bad("C17-COMPONENTS-IFF-TYPES", "newComponents | return nil", "the components section is left out on a path on which user types may exist: their $refs dangle and the types are not components", c.pos(ret.Pos()))
		}
		return true
	})
	if n == 0 {
		r.Ok("C17-COMPONENTS-IFF-TYPES", "newComponents", "never returns nil: the section is always present", c.pos(f.Decl.Pos()))
	}
}

func (c *Ctx) ruleResponseKeys() {
	r := c.R
	r.Rule("C17-RESPONSE-KEYS", "every key stored into an openapi.Responses map is responseCode(resp.Code) of a catalog response or the constant \"default\"", 2)
	n := 0
	for _, f := range c.libFns() {
		if f.Pkg.PkgPath != prog.ModulePath+"/catalog/ser/openapi" {
			continue
		}
		pk := f.Pkg
		codeVars := map[types.Object]bool{}
		ast.Inspect(f.Decl.Body, func(nd ast.Node) bool {
			switch x := nd.(type) {
			case *ast.AssignStmt:
				// rCode := responseCode(resp.Code); also range vars over a slice of such codes
				for i, l := range x.Lhs {
					if i < len(x.Rhs) {
						if call, ok := ast.Unparen(x.Rhs[i]).(*ast.CallExpr); ok && len(call.Args) == 1 {
							if tv, ok := pk.TypesInfo.Types[call.Fun]; ok && tv.IsType() && strings.HasSuffix(namedType(tv.Type), "openapi.responseCode") {
								if fld := fieldSel(pk, call.Args[0]); fld != nil && fld.Name() == "Code" {
									if id, ok := l.(*ast.Ident); ok {
										codeVars[objOf(pk, id)] = true
									}
								}
							}
						}
					}
				}
			case *ast.RangeStmt:
				// for _, rc := range codes  (codes built from code variables) / for rc := range map keyed by codes
				if t := pk.TypesInfo.TypeOf(x.X); t != nil {
					switch u := t.Underlying().(type) {
					case *types.Slice:
						if strings.HasSuffix(namedType(u.Elem()), "openapi.responseCode") {
							if id, ok := x.Value.(*ast.Ident); ok {
								codeVars[pk.TypesInfo.Defs[id]] = true
							}
						}
					case *types.Map:
						if strings.HasSuffix(namedType(u.Key()), "openapi.responseCode") {
							if id, ok := x.Key.(*ast.Ident); ok {
								codeVars[pk.TypesInfo.Defs[id]] = true
							}
						}
					}
				}
			}
			return true
		})
		ast.Inspect(f.Decl.Body, func(nd ast.Node) bool {
			as, ok := nd.(*ast.AssignStmt)
			if !ok || len(as.Lhs) != 1 {
				return true
			}
			ix, ok := ast.Unparen(as.Lhs[0]).(*ast.IndexExpr)
			if !ok {
				return true
			}
			if !strings.HasSuffix(namedType(pk.TypesInfo.TypeOf(ix.X)), "openapi.Responses") {
				return true
			}
			n++
			key := fmt.Sprintf("%s | Responses[%s]", f.Name(), exprString(ix.Index))
			if s, ok := constString(pk, ix.Index); ok && s == "default" {
				r.Ok("C17-RESPONSE-KEYS", key, "constant \"default\"", c.pos(as.Pos()))
			} else if id, ok := ast.Unparen(ix.Index).(*ast.Ident); ok && codeVars[pk.TypesInfo.Uses[id]] {
				r.Ok("C17-RESPONSE-KEYS", key, "a response code taken from resp.Code", c.pos(as.Pos()))
			} else {
				r.Bad("C17-RESPONSE-KEYS", key, "a response is stored under a key that is neither a response code of the catalog nor \"default\"", c.pos(as.Pos()))
			}
			return true
		})
	}
	if n == 0 {
		r.Undecided("C17-RESPONSE-KEYS", "sites", "no store into an openapi.Responses map found", "")
	}
}

// ruleExpandedTree: after processPaste, the phases read the expanded list.
var directivesFieldReaders = map[string]string{
	"core.(*JApiCore).processCurrentDirective": "scan phase: the tree is being built",
	"core.(*JApiCore).collectMacro":            "removes MACRO definitions from the list as written",
	"core.(*JApiCore).processPaste":            "input of the expansion",
	"core.(*JApiCore).collectRules":            "ENUMs at the root of the document as written; those inside macros are collected when the macro is pasted",
	"core.NewJApiCore":                         "constructor",
}

func (c *Ctx) ruleExpandedTree() {
	r := c.R
	r.Rule("C17-EXPANDED-TREE", "the directive list as written (core.directives) is read only by the scan phase, collectMacro, collectRules and as the input of processPaste; every later collector (tags, user types, paths, missed path variables, buildCatalog) works on core.directivesWithPastes, so resources that come out of a PASTE get their path variables, tags and types", 4)
	fld := c.coreField("directives")
	if fld == nil {
		r.Undecided("C17-EXPANDED-TREE", "anchor", "core.JApiCore.directives not found", "")
		return
	}
	for _, f := range c.libFns() {
		pk := f.Pkg
		n := 0
		var pos token.Pos
		ast.Inspect(f.Decl.Body, func(nd ast.Node) bool {
			if sel, ok := nd.(*ast.SelectorExpr); ok && fieldSel(pk, sel) == fld {
				n++
				pos = sel.Pos()
			}
			return true
		})
		if n == 0 {
			continue
		}
		if why, ok := directivesFieldReaders[f.Name()]; ok {
			r.Ok("C17-EXPANDED-TREE", f.Name(), "allowed reader of the list as written: "+why, c.pos(pos))
		} else if why := c.readsBeforeExpansion(f, fld); why != "" {
			r.Ok("C17-EXPANDED-TREE", f.Name(), why, c.pos(pos))
		} else {
			r.Bad("C17-EXPANDED-TREE", f.Name(), "a phase after macro expansion reads core.directives (the list BEFORE expansion): directives that come out of a PASTE are invisible to it (e.g. {parameters} of a pasted resource get no path variable and are not declared in OpenAPI)", c.pos(pos))
		}
	}
}

// readsBeforeExpansion: every read of the list as written in f happens before the expansion: f is the function that
// calls processPaste and none of its reads can be reached from that call; or every call of f sits in that function
// before the call of processPaste; or f belongs to the scan phase or to the expansion itself.
func (c *Ctx) readsBeforeExpansion(f *Fn, fld *types.Var) string {
	pp := c.pasteRoles().processPaste
	sp := c.fn("core", "JApiCore.scanProject")
	if pp == nil {
		return ""
	}
	for _, g := range c.reachableInPkg(pp) {
		if g.Obj == f.Obj {
			return "part of the expansion itself (reads its input)"
		}
	}
	if sp != nil {
		for _, g := range c.reachableInPkg(sp) {
			if g.Obj == f.Obj {
				return "part of the scan phase (fills the list)"
			}
		}
	}
	// the function that runs the expansion
	var cc *Fn
	var ppCall *ast.CallExpr
	for _, g := range c.libFns() {
		if calls := callsIn(g.Pkg, g.Decl.Body, pp.Obj); len(calls) == 1 && g.Obj != pp.Obj {
			cc, ppCall = g, calls[0]
		}
	}
	if cc == nil {
		return ""
	}
	ccf := buildCFG(cc.Decl.Body)
	// before: no path leads from the call of processPaste to the node
	before := func(n ast.Node) bool { return !ccf.reachesWithout(ppCall, n, nil) }
	if f.Obj == cc.Obj {
		ok := true
		ast.Inspect(f.Decl.Body, func(nd ast.Node) bool {
			if sel, isSel := nd.(*ast.SelectorExpr); isSel && fieldSel(f.Pkg, sel) == fld && !before(sel) {
				ok = false
			}
			return true
		})
		if ok {
			return "reads the list as written only before the expansion runs (no read can be reached from the call of processPaste)"
		}
		return ""
	}
	sites, closed := c.callersOf(f)
	if !closed || len(sites) == 0 {
		return ""
	}
	for _, cs := range sites {
		if cs.g.Obj != cc.Obj || !before(cs.call) {
			return ""
		}
	}
	return "only called before the expansion runs"
}

// ---------- every template expression of a path is a parameter ----------

// ruleTemplateExpressions: the export uses the path of an interaction as the key of `paths`; OpenAPI reads every
// `{name}` in that key as a template expression that must be declared. The module finds the parameters of a path in
// one function (core.pathParameters); whatever it does not recognise is exported as part of the key, undeclared.
func (c *Ctx) ruleTemplateExpressions(rule string) {
	r := c.R
	r.Rule(rule, "the function that finds the parameters of a path (core.pathParameters) either looks at every byte of a segment (a range over it, or a strings.Index/Contains/Count/Split call on it) or the builder refuses braces inside a segment: a recogniser that only compares the first and the last byte of a segment with '{' and '}' leaves `/files/{name}.json` and `/a/{x}-{y}` with template expressions that the OpenAPI document never declares", 1)
	f := c.fn("core", "pathParameters")
	if f == nil {
		r.Undecided(rule, "anchor", "core.pathParameters not found", "")
		return
	}
	pk := f.Pkg
	// the loop over the segments
	var seg types.Object
	ast.Inspect(f.Decl.Body, func(nd ast.Node) bool {
		rs, ok := nd.(*ast.RangeStmt)
		if !ok || rs.Value == nil {
			return true
		}
		if id, ok := rs.Value.(*ast.Ident); ok {
			if b, isB := pk.TypesInfo.TypeOf(id).Underlying().(*types.Basic); isB && b.Kind() == types.String {
				seg = pk.TypesInfo.Defs[id]
			}
		}
		return true
	})
	if seg == nil {
		r.Undecided(rule, "sites", "no loop over the segments of the path found in core.pathParameters", c.pos(f.Decl.Pos()))
		return
	}
	ends, scans := 0, false
	ast.Inspect(f.Decl.Body, func(nd ast.Node) bool {
		switch x := nd.(type) {
		case *ast.IndexExpr:
			if id, ok := ast.Unparen(x.X).(*ast.Ident); ok && pk.TypesInfo.Uses[id] == seg {
				ends++
			}
		case *ast.RangeStmt:
			if id, ok := ast.Unparen(x.X).(*ast.Ident); ok && pk.TypesInfo.Uses[id] == seg {
				scans = true
			}
		case *ast.CallExpr:
			cal := callee(pk, x)
			if cal == nil || cal.Pkg() == nil || (cal.Pkg().Path() != "strings" && cal.Pkg().Path() != "regexp") {
				return true
			}
			for _, a := range x.Args {
				if id, ok := ast.Unparen(a).(*ast.Ident); ok && pk.TypesInfo.Uses[id] == seg {
					switch {
					case strings.HasPrefix(cal.Name(), "Index"), strings.HasPrefix(cal.Name(), "Contains"), strings.HasPrefix(cal.Name(), "Count"), strings.HasPrefix(cal.Name(), "Split"), strings.HasPrefix(cal.Name(), "Find"), strings.HasPrefix(cal.Name(), "Match"), strings.HasPrefix(cal.Name(), "Cut"):
						scans = true
					}
				}
			}
		}
		return true
	})
	key := f.Name() + " | segment recogniser"
	if scans {
		r.Ok(rule, key, "the recogniser looks inside the segment", c.pos(f.Decl.Pos()))
		return
	}
	r.Bad(rule, key, fmt.Sprintf("a segment is a parameter only if its first byte is '{' and its last is '}' (%d index expressions on the segment, nothing looks inside): `GET /files/{name}.json` is exported under the key \"/files/{name}.json\" without a parameter, `GET /a/{x}-{y}` with one parameter named \"x}-{y\" - template expressions that are not declared", ends), c.pos(f.Decl.Pos()))
}

// ---------- a panic always carries something ----------

// rulePanicValue: the export turns the panics of the converter into an error value at one recover boundary
// (C17-PANIC-COVER). recover() returns the value the panic was raised with; the module is built for a Go version in
// which panic(nil) is recovered as nil, i.e. as "no panic": the boundary then returns neither an error nor a document.
// A panic raised with an interface value that can be nil (an error a helper made, the failed half of a type assertion)
// is such a panic.
func (c *Ctx) rulePanicValue(rule string) {
	r := c.R
	r.Rule(rule, "in the packages of the serialisers (catalog, catalog/ser/openapi) and of the facade (kit), the argument of every panic(x) is not a nil interface: x is a constant, a composite literal or its address, a value of a non-interface type, the result of a function that returns a non-nil value on every path (fmt.Errorf, errors.New, fmt.Sprintf, a constructor of the library judged the same way), or a variable that a dominating test found non-nil (the re-panic of a recovered value inside `if r != nil`): panic(nil) is recovered as no panic at all by a module built for go < 1.21", 3)
	n := 0
	for _, f := range c.libFns() {
		p := f.Pkg.PkgPath
		if !strings.HasSuffix(p, "/catalog") && !strings.HasSuffix(p, "/ser/openapi") && !strings.HasSuffix(p, "/kit") {
			continue
		}
		pk := f.Pkg
		fc := c.cfgOf(f)
		k := 0
		ast.Inspect(f.Decl.Body, func(nd ast.Node) bool {
			call, ok := nd.(*ast.CallExpr)
			if !ok || len(call.Args) != 1 {
				return true
			}
			id, ok := call.Fun.(*ast.Ident)
			if !ok || id.Name != "panic" {
				return true
			}
			if _, isB := pk.TypesInfo.Uses[id].(*types.Builtin); !isB {
				return true
			}
			n++
			k++
			key := fmt.Sprintf("%s | panic #%d", f.Name(), k)
			arg := ast.Unparen(call.Args[0])
			why := ""
			t := pk.TypesInfo.TypeOf(arg)
			_, isIface := t.Underlying().(*types.Interface)
			switch x := arg.(type) {
			case *ast.BasicLit, *ast.CompositeLit, *ast.UnaryExpr:
			case *ast.CallExpr:
				cal := callee(pk, x)
				switch {
				case !isIface:
				case cal != nil && cal.Pkg() != nil && (cal.Pkg().Path() == "fmt" || cal.Pkg().Path() == "errors"):
				case cal != nil && c.alwaysNonNil(cal):
				default:
					why = "the result of " + exprString(x.Fun) + ", an interface value that can be nil"
				}
			case *ast.Ident:
				if !isIface {
					break
				}
				if tv, has := pk.TypesInfo.Types[x]; has && tv.Value != nil {
					break
				}
				obj := pk.TypesInfo.Uses[x]
				if !fc.establishedAt(call, func(cond ast.Expr, trueEdge bool) bool {
					be, ok := ast.Unparen(cond).(*ast.BinaryExpr)
					if !ok || !isNil(pk, be.Y) {
						return false
					}
					cid, ok := ast.Unparen(be.X).(*ast.Ident)
					if !ok || pk.TypesInfo.Uses[cid] != obj && pk.TypesInfo.Defs[cid] != obj {
						return false
					}
					return (be.Op == token.NEQ && trueEdge) || (be.Op == token.EQL && !trueEdge)
				}, nil) {
					why = "the variable " + x.Name + ", which no dominating test has found non-nil"
				}
			default:
				if isIface {
					why = "the value of " + exprString(arg)
				}
			}
			if why == "" {
				r.Ok(rule, key, "the value of the panic is not a nil interface", c.pos(call.Pos()))
			} else {
				r.Bad(rule, key, "the panic is raised with "+why+": with nil the recover boundary of the export sees no panic and returns neither an error nor a document", c.pos(call.Pos()))
			}
			return true
		})
	}
	if n < 3 {
		r.Undecided(rule, "sites", fmt.Sprintf("only %d panic statements found in the serialiser packages", n), "")
	}
}
