package rules

import (
	"fmt"
	"go/ast"
	"go/token"
	"go/types"
	"sort"
	"strings"

	"golang.org/x/tools/go/packages"

	"jsverif/internal/prog"
)

func init() { register("C06", propC06, false, true) }

func propC06(c *Ctx) {
	c.R.Explanation = "Decides for the module's own code that no observable value depends on map iteration order, time, randomness, environment, process identity, addresses or scheduling: every `range` over a map is classified order-insensitive from its body (or is a named exception with a reason), ordered catalog maps iterate their order slice, no nondeterminism source is called, the code is sequential (no go/select), and there is no mutable package-level state through which a prior build could influence a later one. Not decided: determinism inside jsight-schema-core (trusted; thorough tier lists its nondeterminism sources reachable from the library as observations)."
	c.ruleMapRange("C06-MAPRANGE")
	c.ruleDepFirstFault("C06-DEP-FIRST-FAULT")
	c.ruleDocOrder("C06-DOC-ORDER")
	c.ruleNondetSources()
	c.ruleSequential()
	c.ruleGlobalState("C06-GLOBAL-STATE")
	// the input of a build is the file object the caller hands in: a build that rewrites its bytes in place makes
	// the next build of the same object start from other input
	c.ruleNormalisers()
	// ... and a build must not change what the caller will hand to the next one: an Option value applied to many cores
	c.ruleOptionAliasingAs("C06-OPTION-ALIASING")
	c.ruleDisallowedCalls("C06-DISALLOWED-CALLS") // the clock, the environment, a random source
}

// mapRangeExceptions: range-over-map loops that the classifier cannot discharge although reading shows
// that the observable result does not depend on the order. One named function each, with the reason.
var mapRangeExceptions = map[string]string{}

// keyedInsertCallees: methods of the dependency that store (name, value) into a map keyed by the name. A map-range
// loop whose body is only `<x>.M(key, value)` (the range key and value, possibly with `if err != nil { return .. }`)
// feeds the distinct keys of a Go map into another name-keyed map: which element comes first is not observable, and
// the error the call can return does not depend on what was inserted before (read in the dependency; one line each).
// Named by the callee, so it holds wherever the loop lives (a closure, a method, a helper).
var keyedInsertCallees = map[string]string{
	"jsight-schema-core/notations/jschema.(*JSchema).AddRule": "stores into the schema's rule map under the name; the errors (nil rule, a rule that fails Check) concern the single rule and were excluded when core.buildRule built it",
	// (*JSchema).AddType is NOT in this table: besides a duplicate name it fails on a name the library does not accept
	// and on a type that does not load - errors that name the element (F54: the witness "the only error is a duplicate
	// name" that stood here was wrong)
	"jsight-schema-core/notations/jschema/ischema.(*ISchema).AddType": "stores the type into the inner schema's map under its name; no error result",
	"jsight-schema-core.(Schema).AddRule":                             "the interface method: (*JSchema).AddRule as above, (*RSchema).AddRule does nothing and returns nil; the already-compiled error of (*JSchema).AddRule does not depend on the rules added before either",
}

// keyedInsertLoop: the loop body is one keyed insert into the dependency (see keyedInsertCallees); returns the callee.
func keyedInsertLoop(pk *packages.Package, rs *ast.RangeStmt) string {
	if len(rs.Body.List) != 1 {
		return ""
	}
	kv := func(e ast.Expr, v ast.Expr) bool {
		a, b := identOf(e), identOf(v)
		return a != nil && b != nil && pk.TypesInfo.Uses[a] != nil && pk.TypesInfo.Uses[a] == pk.TypesInfo.Defs[b]
	}
	var call *ast.CallExpr
	switch x := rs.Body.List[0].(type) {
	case *ast.ExprStmt:
		call, _ = ast.Unparen(x.X).(*ast.CallExpr)
	case *ast.IfStmt:
		as, ok := x.Init.(*ast.AssignStmt)
		if !ok || len(as.Rhs) != 1 || len(as.Lhs) != 1 || x.Else != nil || len(x.Body.List) != 1 {
			return ""
		}
		if _, isRet := x.Body.List[0].(*ast.ReturnStmt); !isRet {
			return ""
		}
		be, ok := ast.Unparen(x.Cond).(*ast.BinaryExpr)
		if !ok || be.Op != token.NEQ || !isNil(pk, be.Y) || exprString(be.X) != exprString(as.Lhs[0]) {
			return ""
		}
		call, _ = ast.Unparen(as.Rhs[0]).(*ast.CallExpr)
	}
	if call == nil || len(call.Args) != 2 || rs.Key == nil || rs.Value == nil || !kv(call.Args[0], rs.Key) || !kv(call.Args[1], rs.Value) {
		return ""
	}
	cal := callee(pk, call)
	if cal == nil {
		return ""
	}
	name := prog.FuncName(cal)
	if _, ok := keyedInsertCallees[name]; ok {
		return name
	}
	return ""
}

type mapRangeSite struct {
	f    *Fn
	rs   *ast.RangeStmt
	name string // enclosing function name incl. closure index
	desc string
}

func (c *Ctx) mapRanges() []mapRangeSite {
	var out []mapRangeSite
	for _, f := range c.libFns() {
		litIdx := map[*ast.FuncLit]int{}
		n := 0
		ast.Inspect(f.Decl.Body, func(nd ast.Node) bool {
			if fl, ok := nd.(*ast.FuncLit); ok {
				n++
				litIdx[fl] = n
			}
			return true
		})
		inspectWithStack(f.Decl.Body, func(nd ast.Node, stack []ast.Node) bool {
			rs, ok := nd.(*ast.RangeStmt)
			if !ok {
				return true
			}
			t := f.Pkg.TypesInfo.TypeOf(rs.X)
			if t == nil {
				return true
			}
			if _, isMap := t.Underlying().(*types.Map); !isMap {
				return true
			}
			name := f.Name()
			for i := len(stack) - 1; i >= 0; i-- {
				if fl, ok := stack[i].(*ast.FuncLit); ok {
					name = fmt.Sprintf("%s$%d", name, litIdx[fl])
					break
				}
			}
			out = append(out, mapRangeSite{f, rs, name, "range " + exprString(rs.X)})
			return true
		})
	}
	return out
}

// orderSensitivity returns "" if the loop body is order-insensitive, else the reason.
func orderSensitivity(pk *packages.Package, fnBody *ast.BlockStmt, rs *ast.RangeStmt) string {
	loopVars := map[types.Object]bool{}
	for _, e := range []ast.Expr{rs.Key, rs.Value} {
		if id, ok := e.(*ast.Ident); ok && id.Name != "_" {
			if o := pk.TypesInfo.Defs[id]; o != nil {
				loopVars[o] = true
			}
		}
	}
	// slices appended inside the loop that are sorted afterwards in the same function
	sortedAfter := func(obj types.Object) bool {
		found := false
		ast.Inspect(fnBody, func(n ast.Node) bool {
			call, ok := n.(*ast.CallExpr)
			if !ok || call.Pos() < rs.End() {
				return true
			}
			if f := callee(pk, call); f != nil && f.Pkg() != nil && (f.Pkg().Path() == "sort" || f.Pkg().Path() == "slices") && len(call.Args) >= 1 {
				if id, ok := ast.Unparen(call.Args[0]).(*ast.Ident); ok && pk.TypesInfo.Uses[id] == obj && totalOrderSort(pk, call, obj) {
					found = true
				}
			}
			return true
		})
		return found
	}
	var check func(list []ast.Stmt) string
	// elementDerived: every variable mentioned is a loop variable or defined inside the loop body.
	elementDerived := func(e ast.Expr) bool {
		ok := true
		ast.Inspect(e, func(n ast.Node) bool {
			if id, isId := n.(*ast.Ident); isId {
				if v, isVar := pk.TypesInfo.Uses[id].(*types.Var); isVar && !v.IsField() {
					if !(loopVars[v] || (v.Pos() >= rs.Body.Pos() && v.Pos() <= rs.Body.End())) {
						ok = false
					}
				}
			}
			return ok
		})
		return ok
	}
	// A call whose receiver and arguments are all derived from the element can only act on that element
	// (package-level state is excluded by the GLOBAL-STATE rule), so it cannot carry information between iterations.
	pureExpr := func(e ast.Expr) bool {
		ok := true
		ast.Inspect(e, func(n ast.Node) bool {
			if call, isCall := n.(*ast.CallExpr); isCall {
				if tv, isT := pk.TypesInfo.Types[call.Fun]; isT && tv.IsType() {
					return true
				}
				if id, isId := call.Fun.(*ast.Ident); isId {
					if _, isB := pk.TypesInfo.Uses[id].(*types.Builtin); isB && (id.Name == "len" || id.Name == "cap") {
						return true
					}
				}
				local := true
				if sel, isSel := ast.Unparen(call.Fun).(*ast.SelectorExpr); isSel {
					if _, isPkg := pk.TypesInfo.Uses[identOf(sel.X)].(*types.PkgName); !isPkg && !elementDerived(sel.X) {
						local = false
					}
				}
				for _, a := range call.Args {
					if !elementDerived(a) {
						local = false
					}
				}
				if !local {
					ok = false
				}
			}
			return ok
		})
		return ok
	}
	check = func(list []ast.Stmt) string {
		for _, s := range list {
			switch x := s.(type) {
			case *ast.AssignStmt:
				for i, l := range x.Lhs {
					switch lx := ast.Unparen(l).(type) {
					case *ast.IndexExpr:
						if _, isMap := pk.TypesInfo.TypeOf(lx.X).Underlying().(*types.Map); !isMap {
							return "store into a slice/array element"
						}
					case *ast.Ident:
						if lx.Name == "_" {
							continue
						}
						obj := pk.TypesInfo.Defs[lx]
						if obj == nil {
							obj = pk.TypesInfo.Uses[lx]
						}
						// append to a slice
						if i < len(x.Rhs) {
							if call, ok := ast.Unparen(x.Rhs[i]).(*ast.CallExpr); ok {
								if id, ok := call.Fun.(*ast.Ident); ok && id.Name == "append" {
									if sortedAfter(obj) {
										continue
									}
									return "appends to slice " + lx.Name + " which is not sorted before it is used"
								}
							}
						}
						if x.Tok == token.DEFINE {
							continue // fresh local per iteration
						}
						switch x.Tok {
						case token.ADD_ASSIGN, token.OR_ASSIGN, token.AND_ASSIGN, token.XOR_ASSIGN, token.MUL_ASSIGN:
							if b, ok := obj.Type().Underlying().(*types.Basic); ok && b.Info()&(types.IsInteger|types.IsBoolean) != 0 {
								continue
							}
							return "order-dependent accumulation into " + lx.Name
						}
						// plain assignment to an outer variable: last writer wins unless the value is constant
						if i < len(x.Rhs) {
							if tv := pk.TypesInfo.Types[x.Rhs[i]]; tv.Value != nil {
								continue
							}
						}
						return "assigns a per-element value to the outer variable " + lx.Name
					default:
						return "store through " + exprString(l)
					}
				}
				for _, rh := range x.Rhs {
					if !pureExprOrAppend(pk, rh, pureExpr) {
						return "calls " + exprString(rh) + " with effects that are not summarised"
					}
				}
			case *ast.IncDecStmt:
				continue
			case *ast.ExprStmt:
				call, ok := ast.Unparen(x.X).(*ast.CallExpr)
				if !ok {
					return "expression statement"
				}
				if id, ok := call.Fun.(*ast.Ident); ok && id.Name == "delete" {
					continue
				}
				return "calls " + exprString(call.Fun) + " per element (writer/encoder/unknown effect)"
			case *ast.IfStmt:
				if x.Init != nil {
					if r := check([]ast.Stmt{x.Init}); r != "" {
						return r
					}
				}
				if !pureExpr(x.Cond) {
					// comma-ok / error checks of a call made in Init are fine; a call in the condition is not summarised
					return "condition with a call: " + exprString(x.Cond)
				}
				if r := check(x.Body.List); r != "" {
					return r
				}
				if x.Else != nil {
					if blk, ok := x.Else.(*ast.BlockStmt); ok {
						if r := check(blk.List); r != "" {
							return r
						}
					} else if r := check([]ast.Stmt{x.Else}); r != "" {
						return r
					}
				}
			case *ast.BlockStmt:
				if r := check(x.List); r != "" {
					return r
				}
			case *ast.BranchStmt:
				if x.Tok == token.CONTINUE {
					continue
				}
				return "break: which element ends the loop depends on the order"
			case *ast.ReturnStmt:
				constant := true
				for _, e := range x.Results {
					if tv := pk.TypesInfo.Types[e]; tv.Value == nil && !isNil(pk, e) {
						constant = false
					}
				}
				if constant {
					// `return true/false/nil` on a membership-style test: the result does not depend on which element triggers it
					continue
				}
				return "returns a value computed from the element that happens to come first"
			case *ast.DeclStmt:
				continue
			case *ast.RangeStmt:
				if r := check(x.Body.List); r != "" {
					return r
				}
			case *ast.ForStmt:
				if r := check(x.Body.List); r != "" {
					return r
				}
			default:
				return fmt.Sprintf("statement %T", s)
			}
		}
		return ""
	}
	return check(rs.Body.List)
}

func identOf(e ast.Expr) *ast.Ident {
	id, _ := ast.Unparen(e).(*ast.Ident)
	return id
}

func pureExprOrAppend(pk *packages.Package, e ast.Expr, pure func(ast.Expr) bool) bool {
	if call, ok := ast.Unparen(e).(*ast.CallExpr); ok {
		if id, ok := call.Fun.(*ast.Ident); ok && id.Name == "append" {
			for _, a := range call.Args {
				if !pure(a) {
					return false
				}
			}
			return true
		}
		if tv, isT := pk.TypesInfo.Types[call.Fun]; isT && tv.IsType() {
			return true
		}
		// composite construction helpers without side effects cannot be told apart: treat struct{}{} etc. via pure()
	}
	return pure(e)
}

func (c *Ctx) ruleMapRange(rule string) {
	r := c.R
	r.Rule(rule, "every `range` over a Go map in library code is order-insensitive: its body only stores into maps, deletes, accumulates commutatively into integers/booleans, appends to a slice that is sorted before use, or returns constants; early returns of element-dependent values, break, writes to builders/encoders and unsummarised calls are order-sensitive. Named exceptions carry a reason.", 6)
	for _, s := range c.mapRanges() {
		key := s.name + " | " + s.desc
		reason := orderSensitivity(s.f.Pkg, s.f.Decl.Body, s.rs)
		if reason == "" {
			r.Ok(rule, key, "order-insensitive body", c.pos(s.rs.Pos()))
			continue
		}
		if cal := keyedInsertLoop(s.f.Pkg, s.rs); cal != "" {
			r.Ok(rule, key, "the body is one keyed insert into the dependency, "+cal+": "+keyedInsertCallees[cal], c.pos(s.rs.Pos()))
			r.Except(cal, keyedInsertCallees[cal])
			continue
		}
		if why, ok := mapRangeExceptions[key]; ok {
			r.Ok(rule, key, "named exception: "+why, c.pos(s.rs.Pos()))
			r.Except(key, why)
			continue
		}
		r.Bad(rule, key, "the result depends on the iteration order of a Go map: "+reason, c.pos(s.rs.Pos()))
	}
}

// ruleDocOrder: the generated ordered maps emit/iterate their order slice, never the data map.
func (c *Ctx) ruleDocOrder(rule string) {
	r := c.R
	r.Rule(rule, "types with an `order` slice next to a `data` map (the generated ordered maps): every method that iterates (MarshalJSON, Each*, Map, Find, Keys...) ranges over the order slice; the data map is only indexed", 20)
	for _, pk := range c.P.Lib {
		scope := pk.Types.Scope()
		for _, name := range scope.Names() {
			tn, ok := scope.Lookup(name).(*types.TypeName)
			if !ok {
				continue
			}
			st, ok := tn.Type().Underlying().(*types.Struct)
			if !ok {
				continue
			}
			var dataF, orderF *types.Var
			for i := 0; i < st.NumFields(); i++ {
				f := st.Field(i)
				if _, isMap := f.Type().Underlying().(*types.Map); isMap && f.Name() == "data" {
					dataF = f
				}
				if _, isSl := f.Type().Underlying().(*types.Slice); isSl && f.Name() == "order" {
					orderF = f
				}
			}
			if dataF == nil || orderF == nil {
				continue
			}
			named, _ := tn.Type().(*types.Named)
			if named == nil {
				continue
			}
			for i := 0; i < named.NumMethods(); i++ {
				m := named.Method(i)
				f := c.fnOf(m)
				if f == nil {
					continue
				}
				rangesData, rangesOrder := false, false
				ast.Inspect(f.Decl.Body, func(n ast.Node) bool {
					if rs, ok := n.(*ast.RangeStmt); ok {
						if fld := fieldSel(f.Pkg, rs.X); fld != nil {
							if fld == dataF || (fld.Name() == "data" && fld.Origin() == dataF.Origin()) {
								rangesData = true
							}
							if fld == orderF || (fld.Name() == "order" && fld.Origin() == orderF.Origin()) {
								rangesOrder = true
							}
						}
					}
					return true
				})
				key := fmt.Sprintf("%s.%s.%s", strings.TrimPrefix(pk.PkgPath, "github.com/jsightapi/jsight-api-core/"), tn.Name(), m.Name())
				switch {
				case rangesData:
					r.Bad(rule, key, "iterates the data map of an ordered map: entries are emitted in hash order instead of document order", c.pos(f.Decl.Pos()))
				case rangesOrder:
					r.Ok(rule, key, "iterates the order slice", c.pos(f.Decl.Pos()))
				default:
					r.OkTrivial(rule, key, "does not iterate", c.pos(f.Decl.Pos()))
				}
			}
		}
	}
}

func nondetSource(f *types.Func) string {
	if f == nil || f.Pkg() == nil {
		return ""
	}
	p, n := f.Pkg().Path(), f.Name()
	sig, _ := f.Type().(*types.Signature)
	isMethod := sig != nil && sig.Recv() != nil
	switch p {
	case "time":
		if !isMethod && (n == "Now" || n == "Since" || n == "Until" || n == "After" || n == "Tick" || n == "NewTimer" || n == "NewTicker" || n == "Sleep") {
			return "time." + n
		}
	case "math/rand", "math/rand/v2":
		if !isMethod && n != "New" && n != "NewSource" {
			return p + "." + n + " (package-level generator)"
		}
	case "crypto/rand":
		return "crypto/rand." + n
	case "hash/maphash":
		// every Hash starts from a seed drawn at random per process (the zero Hash too): a digest of nothing but the input
		// it is not
		return "hash/maphash." + n + " (randomly seeded)"
	case "os":
		switch n {
		case "Getenv", "LookupEnv", "Environ", "Getpid", "Getppid", "Hostname", "Getuid", "Getgid", "Getwd", "Executable", "UserHomeDir", "TempDir":
			if !isMethod {
				return "os." + n
			}
		}
	case "runtime":
		switch n {
		case "NumGoroutine", "Caller", "Callers", "Stack", "NumCPU", "GOMAXPROCS", "ReadMemStats":
			return "runtime." + n
		}
	case "unsafe":
		return "unsafe." + n
	case "reflect":
		if n == "Pointer" || n == "UnsafeAddr" || n == "UnsafePointer" || n == "MapRange" || n == "MapKeys" {
			return "reflect." + n
		}
	}
	return ""
}

func (c *Ctx) ruleNondetSources() {
	r := c.R
	r.Rule("C06-NONDET-SOURCES", "no library function calls time.Now/Since, package-level math/rand, crypto/rand, hash/maphash (randomly seeded), os.Getenv/Getpid/Hostname..., runtime introspection, unsafe, reflect map iteration/pointers, or formats a pointer/func/chan with %p or %v", 1)
	n := 0
	for _, f := range c.libFns() {
		ast.Inspect(f.Decl.Body, func(nd ast.Node) bool {
			call, ok := nd.(*ast.CallExpr)
			if !ok {
				return true
			}
			cal := callee(f.Pkg, call)
			if src := nondetSource(cal); src != "" {
				n++
				r.Bad("C06-NONDET-SOURCES", f.Name()+" -> "+src, "a nondeterminism source is called from library code", c.pos(call.Pos()))
			}
			// %p / %v of pointer-like operands
			if cal != nil && cal.Pkg() != nil && cal.Pkg().Path() == "fmt" && len(call.Args) >= 1 {
				fi := 0
				if strings.HasPrefix(cal.Name(), "F") {
					fi = 1
				}
				if fi < len(call.Args) {
					if format, ok := constString(f.Pkg, call.Args[fi]); ok && strings.Contains(cal.Name(), "f") {
						if strings.Contains(format, "%p") {
							r.Bad("C06-NONDET-SOURCES", f.Name()+" -> fmt %p", "an address is formatted into a string", c.pos(call.Pos()))
						}
						verbs := fmtVerbs(format)
						for i, a := range call.Args[fi+1:] {
							if i < len(verbs) && (verbs[i] == 'v' || verbs[i] == 'd' || verbs[i] == 'x') {
								t := f.Pkg.TypesInfo.TypeOf(a)
								if t == nil {
									continue
								}
								switch t.Underlying().(type) {
								case *types.Signature, *types.Chan:
									r.Bad("C06-NONDET-SOURCES", f.Name()+" -> fmt %v of func/chan", "an address-like value is formatted", c.pos(call.Pos()))
								case *types.Pointer:
									if !isErrorLike(t) && !implementsStringer(t) {
										r.Bad("C06-NONDET-SOURCES", f.Name()+" -> fmt %v of pointer", "a pointer without String()/Error() is formatted with %"+string(verbs[i])+": the text contains an address", c.pos(call.Pos()))
									}
								}
							}
						}
					}
				}
			}
			return true
		})
	}
	if n == 0 {
		r.Ok("C06-NONDET-SOURCES", "library", fmt.Sprintf("no nondeterminism source is called in %d library functions", len(c.libFns())), "")
	}
	if c.Deep {
		c.deepNondetObservations()
	}
}

func implementsStringer(t types.Type) bool {
	ms := types.NewMethodSet(t)
	for i := 0; i < ms.Len(); i++ {
		if ms.At(i).Obj().Name() == "String" {
			return true
		}
	}
	return false
}

func fmtVerbs(format string) []byte {
	var out []byte
	for i := 0; i < len(format); i++ {
		if format[i] != '%' {
			continue
		}
		i++
		for i < len(format) && strings.IndexByte("+-# 0123456789.*[]", format[i]) >= 0 {
			i++
		}
		if i < len(format) && format[i] != '%' {
			out = append(out, format[i])
		}
	}
	return out
}

// deepNondetObservations lists nondeterminism sources in the dependency (observations, trusted base).
func (c *Ctx) deepNondetObservations() {
	r := c.R
	seen := map[string]bool{}
	for path, pk := range c.P.ByPath {
		if !strings.HasPrefix(path, "github.com/jsightapi/jsight-schema-core") && !strings.HasPrefix(path, "github.com/lucasjones/reggen") {
			continue
		}
		if pk.TypesInfo == nil {
			continue
		}
		for _, file := range pk.Syntax {
			if strings.HasSuffix(pk.Fset.Position(file.Pos()).Filename, "_test.go") {
				continue
			}
			ast.Inspect(file, func(n ast.Node) bool {
				if call, ok := n.(*ast.CallExpr); ok {
					if src := nondetSource(callee(pk, call)); src != "" {
						k := path + " -> " + src
						if !seen[k] {
							seen[k] = true
							r.Observe("C06-NONDET-SOURCES", "dependency: "+strings.TrimPrefix(k, "github.com/"), "nondeterminism source inside the trusted dependency (not a violation of the module's clause)", c.pos(call.Pos()))
						}
					}
				}
				return true
			})
		}
	}
}

func (c *Ctx) ruleSequential() {
	r := c.R
	r.Rule("C06-SEQUENTIAL", "the library starts no goroutine and has no select: the determinism argument covers sequential code only", 1)
	n := 0
	for _, f := range c.libFns() {
		ast.Inspect(f.Decl.Body, func(nd ast.Node) bool {
			switch nd.(type) {
			case *ast.GoStmt:
				n++
				r.Bad("C06-SEQUENTIAL", f.Name()+" go statement", "a goroutine is started in library code: results may depend on scheduling", c.pos(nd.Pos()))
			case *ast.SelectStmt:
				n++
				r.Bad("C06-SEQUENTIAL", f.Name()+" select", "select in library code", c.pos(nd.Pos()))
			}
			return true
		})
	}
	if n == 0 {
		r.Ok("C06-SEQUENTIAL", "library", "no go statement, no select", "")
	}
}

// ruleGlobalState: package-level variables are written only by their initialisers or inside a sync.Once.Do closure,
// never hold mutable containers that functions write to, and are not address-taken into longer-lived structures.
func (c *Ctx) ruleGlobalState(rule string) {
	r := c.R
	r.Rule(rule, "every package-level variable of the library is written only by its initialiser/init(), or only inside a sync.Once.Do closure; none is a sync.Map/Pool/Mutex-guarded cache or a container that functions store into; none has its address taken; a map, slice, pointer or channel among them is only read in place (indexed, ranged over, measured, compared, method receiver) or given to a parameter that is only read: it is never stored, sliced, returned or passed to something that writes through it", 10)
	type gv struct {
		v  *types.Var
		pk *packages.Package
	}
	var globals []gv
	for _, pk := range c.P.Lib {
		scope := pk.Types.Scope()
		for _, n := range scope.Names() {
			if v, ok := scope.Lookup(n).(*types.Var); ok && !c.P.IsTestFile(v.Pos()) {
				globals = append(globals, gv{v, pk})
			}
		}
	}
	sort.Slice(globals, func(i, j int) bool {
		return globals[i].v.Pkg().Path()+globals[i].v.Name() < globals[j].v.Pkg().Path()+globals[j].v.Name()
	})
	problems := map[*types.Var][]string{}
	onceWrites := map[*types.Var]bool{}
	onceOnly := c.onceOnlyFuncs()
	for _, f := range c.libFns() {
		pk := f.Pkg
		isInit := f.Obj.Name() == "init" && f.Decl.Recv == nil
		runsOnce := onceOnly[f.Obj]
		inspectWithStack(f.Decl.Body, func(n ast.Node, stack []ast.Node) bool {
			id, ok := n.(*ast.Ident)
			if !ok {
				return true
			}
			v, ok := pk.TypesInfo.Uses[id].(*types.Var)
			if !ok || v.Pkg() == nil || v.Parent() != v.Pkg().Scope() || !c.P.IsLibPkg(v.Pkg()) {
				return true
			}
			// classify the use by climbing: selector/index chains, then the consuming node
			i := len(stack) - 1
			var child ast.Node = id
			for i >= 0 {
				switch p := stack[i].(type) {
				case *ast.SelectorExpr:
					if p.X == child {
						// method call on the variable?
						if i-1 >= 0 {
							if call, isCall := stack[i-1].(*ast.CallExpr); isCall && call.Fun == ast.Expr(p) {
								if m, ok := pk.TypesInfo.Uses[p.Sel].(*types.Func); ok {
									rt := namedType(pk.TypesInfo.TypeOf(p.X))
									if strings.HasPrefix(rt, "sync.") && rt != "sync.Once" {
										problems[v] = append(problems[v], fmt.Sprintf("%s.%s() in %s: a synchronised package-level container is shared by all builds", rt, m.Name(), f.Name()))
									}
									if rt == "sync.Once" && m.Name() == "Do" {
										return true
									}
								}
							}
						}
						child = p
						i--
						continue
					}
				case *ast.IndexExpr:
					if p.X == child {
						child = p
						i--
						continue
					}
				case *ast.ParenExpr, *ast.StarExpr:
					child = p
					i--
					continue
				}
				break
			}
			if i < 0 {
				return true
			}
			inOnce := false
			for j := i; j >= 0; j-- {
				if fl, ok := stack[j].(*ast.FuncLit); ok && j-1 >= 0 {
					if call, ok := stack[j-1].(*ast.CallExpr); ok && len(call.Args) == 1 && call.Args[0] == ast.Expr(fl) {
						if m := callee(pk, call); m != nil && m.Name() == "Do" && m.Pkg() != nil && m.Pkg().Path() == "sync" {
							inOnce = true
						}
					}
				}
			}
			write := ""
			switch p := stack[i].(type) {
			case *ast.AssignStmt:
				for _, l := range p.Lhs {
					if ast.Unparen(l) == child.(ast.Expr) {
						write = "assigned"
					}
				}
			case *ast.IncDecStmt:
				write = "incremented"
			case *ast.UnaryExpr:
				if p.Op == token.AND {
					write = "address taken"
				}
			case *ast.CallExpr:
				if bid, ok := p.Fun.(*ast.Ident); ok && (bid.Name == "delete" || bid.Name == "clear") && len(p.Args) > 0 && p.Args[0] == child.(ast.Expr) {
					write = "deleted from"
				}
				if bid, ok := p.Fun.(*ast.Ident); ok && bid.Name == "append" && len(p.Args) > 0 && p.Args[0] == child.(ast.Expr) {
					// append(global, ...) assigned back is caught as assignment; alone it may alias
				}
			}
			if write == "" {
				return true
			}
			switch {
			case isInit:
			case (inOnce || runsOnce) && write != "address taken":
				onceWrites[v] = true
			default:
				problems[v] = append(problems[v], fmt.Sprintf("%s in %s", write, f.Name()))
			}
			return true
		})
	}
	// a package-level map, slice, pointer or channel handed out by reference (stored into a field or variable, sliced,
	// returned, given to a function that writes through its parameter) is shared by everything that receives it
	for v, ps := range c.globalAliases() {
		problems[v] = append(problems[v], ps...)
	}
	for _, g := range globals {
		key := strings.TrimPrefix(g.v.Pkg().Path(), "github.com/jsightapi/jsight-api-core/") + "." + g.v.Name()
		tname := namedType(g.v.Type())
		if strings.HasPrefix(tname, "sync.") && tname != "sync.Once" {
			problems[g.v] = append(problems[g.v], "is a "+tname+": shared mutable state between builds")
		}
		if ps := problems[g.v]; len(ps) > 0 {
			sort.Strings(ps)
			r.Bad(rule, key, "package-level state is mutated after initialisation ("+strings.Join(ps, "; ")+"): a build can observe what an earlier or concurrent build left behind", c.pos(g.v.Pos()))
			continue
		}
		if onceWrites[g.v] {
			r.Ok(rule, key, "written only inside a sync.Once.Do closure", c.pos(g.v.Pos()))
		} else {
			r.Ok(rule, key, "written only by its initialiser", c.pos(g.v.Pos()))
		}
	}
}

// onceOnlyFuncs: functions of the library whose every mention is as the argument of a (*sync.Once).Do call: their
// body runs under the Once exactly like a closure written in place.
func (c *Ctx) onceOnlyFuncs() map[*types.Func]bool {
	asOnceArg := map[*types.Func]int{}
	other := map[*types.Func]int{}
	for _, f := range c.libFns() {
		pk := f.Pkg
		inspectWithStack(f.Decl.Body, func(n ast.Node, stack []ast.Node) bool {
			id, ok := n.(*ast.Ident)
			if !ok {
				return true
			}
			g, ok := pk.TypesInfo.Uses[id].(*types.Func)
			if !ok || g.Pkg() == nil || !c.P.IsLibPkg(g.Pkg()) {
				return true
			}
			// climb over a package/receiver qualifier
			i := len(stack) - 1
			var child ast.Node = id
			if i >= 0 {
				if sel, ok := stack[i].(*ast.SelectorExpr); ok && sel.Sel == id {
					child = sel
					i--
				}
			}
			if i >= 0 {
				if call, ok := stack[i].(*ast.CallExpr); ok && len(call.Args) == 1 && call.Args[0] == child {
					if m := callee(pk, call); m != nil && m.Name() == "Do" && m.Pkg() != nil && m.Pkg().Path() == "sync" {
						asOnceArg[g.Origin()]++
						return true
					}
				}
			}
			other[g.Origin()]++
			return true
		})
	}
	out := map[*types.Func]bool{}
	for g, n := range asOnceArg {
		if n > 0 && other[g] == 0 && !g.Exported() {
			out[g] = true
		}
	}
	return out
}

// globalAliases: uses of a package-level variable of reference type (map, slice, pointer, channel) that let the
// reference escape. Allowed in place: g[k] as a value, range g, len/cap, comparison, g.method(...), g.field as a value;
// as an argument only when the callee (library function) uses its parameter in these ways only (two levels), or is a
// read-only standard function.
func (c *Ctx) globalAliases() map[*types.Var][]string {
	out := map[*types.Var][]string{}
	refType := func(t types.Type) bool {
		switch t.Underlying().(type) {
		case *types.Map, *types.Slice, *types.Pointer, *types.Chan:
			return true
		}
		return false
	}
	// readOnlyUse classifies the use of identifier id (naming variable v) with the given ancestors
	var paramReadOnly func(g *types.Func, i int, depth int) bool
	var useEscapes func(f *Fn, id *ast.Ident, stack []ast.Node, depth int) string
	useEscapes = func(f *Fn, id *ast.Ident, stack []ast.Node, depth int) string {
		pro := func(g *types.Func, i int, d int) bool { return paramReadOnly(g, i, d) }
		if i := len(stack) - 1; i >= 0 {
			if p, ok := stack[i].(*ast.SelectorExpr); ok && p.Sel == id {
				// qualified name pkg.g: the selector expression is the value
				return useEscapesNode(c, f, p, stack[:i], depth, pro)
			}
		}
		return useEscapesNode(c, f, id, stack, depth, pro)
	}
	paramReadOnly = func(g *types.Func, idx int, depth int) bool {
		if g.Pkg() == nil {
			return false
		}
		if !c.P.IsLibPkg(g.Pkg()) {
			full := g.Pkg().Path() + "." + g.Name()
			switch g.Pkg().Path() {
			case "strings", "fmt", "strconv", "bytes", "errors", "unicode", "unicode/utf8":
				return true
			}
			return full == "sort.SearchStrings" || full == "slices.Contains" || full == "slices.Index"
		}
		fn := c.fnOf(g)
		if fn == nil || depth > 2 {
			return false
		}
		// the idx-th parameter object
		var pobj types.Object
		k := 0
		for _, fl := range fn.Decl.Type.Params.List {
			for _, nm := range fl.Names {
				if k == idx {
					pobj = fn.Pkg.TypesInfo.Defs[nm]
				}
				k++
			}
			if len(fl.Names) == 0 {
				k++
			}
		}
		if pobj == nil {
			return false
		}
		ok := true
		inspectWithStack(fn.Decl.Body, func(n ast.Node, stack []ast.Node) bool {
			if id, isId := n.(*ast.Ident); isId && fn.Pkg.TypesInfo.Uses[id] == pobj {
				if useEscapes(fn, id, stack, depth+1) != "" || writtenThrough(fn.Pkg, id, stack) {
					ok = false
				}
			}
			return ok
		})
		return ok
	}
	for _, f := range c.libFns() {
		pk := f.Pkg
		inspectWithStack(f.Decl.Body, func(n ast.Node, stack []ast.Node) bool {
			id, ok := n.(*ast.Ident)
			if !ok {
				return true
			}
			v, ok := pk.TypesInfo.Uses[id].(*types.Var)
			if !ok || v.Pkg() == nil || v.Parent() != v.Pkg().Scope() || !c.P.IsLibPkg(v.Pkg()) || !refType(v.Type()) {
				return true
			}
			if why := useEscapes(f, id, stack, 0); why != "" {
				out[v] = append(out[v], why+" in "+f.Name())
			}
			return true
		})
	}
	return out
}

// useEscapesNode classifies the expression `child` (a reference-typed value) by the node that consumes it.
func useEscapesNode(c *Ctx, f *Fn, child ast.Node, stack []ast.Node, depth int, paramReadOnly func(g *types.Func, i int, depth int) bool) string {
	pk := f.Pkg
	i := len(stack) - 1
	for i >= 0 {
		if p, ok := stack[i].(*ast.ParenExpr); ok {
			child = p
			i--
			continue
		}
		break
	}
	if i < 0 {
		return ""
	}
	ce, _ := child.(ast.Expr)
	switch p := stack[i].(type) {
	case *ast.IndexExpr:
		if p.X == ce {
			return "" // element access; a store into it is judged by the assignment clause / writtenThrough
		}
		return ""
	case *ast.RangeStmt:
		if p.X == ce {
			return ""
		}
	case *ast.BinaryExpr:
		return ""
	case *ast.SelectorExpr:
		if p.X == ce {
			return ""
		}
	case *ast.StarExpr:
		return ""
	case *ast.SliceExpr:
		if p.X == ce {
			return "is resliced (the result shares its backing array)"
		}
		return ""
	case *ast.CallExpr:
		if p.Fun == ce {
			return ""
		}
		if id, ok := p.Fun.(*ast.Ident); ok {
			if _, isB := pk.TypesInfo.Uses[id].(*types.Builtin); isB {
				switch id.Name {
				case "len", "cap", "delete", "clear", "copy", "print", "println":
					return "" // delete/clear are writes judged elsewhere; copy(dst, g) reads g
				case "append":
					if len(p.Args) > 0 && p.Args[0] == ce {
						return "is the first operand of append (the result may share its backing array)"
					}
					return ""
				}
			}
		}
		if tv, ok := pk.TypesInfo.Types[p.Fun]; ok && tv.IsType() {
			return "is converted and handed on"
		}
		cal := callee(pk, p)
		if cal == nil {
			return "is given to a function value"
		}
		for k, a := range p.Args {
			if a == ce {
				if sig, ok := cal.Type().(*types.Signature); ok && sig.Variadic() && k >= sig.Params().Len()-1 {
					if cal.Pkg() != nil && !c.P.IsLibPkg(cal.Pkg()) && paramReadOnly(cal, k, depth) {
						return ""
					}
					return "is given to the variadic parameter of " + cal.Name()
				}
				if paramReadOnly(cal, k, depth) {
					return ""
				}
				return "is given to " + cal.Name() + ", which may keep or write through its parameter"
			}
		}
		return ""
	case *ast.AssignStmt:
		for _, rh := range p.Rhs {
			if rh == ce {
				return "is assigned to another variable or field (alias)"
			}
		}
		return ""
	case *ast.ValueSpec:
		return "is assigned to another variable (alias)"
	case *ast.KeyValueExpr:
		if p.Value == ce {
			return "is stored into a composite literal (alias)"
		}
	case *ast.CompositeLit:
		return "is stored into a composite literal (alias)"
	case *ast.ReturnStmt:
		return "is returned (alias)"
	case *ast.UnaryExpr:
		return ""
	case *ast.SendStmt:
		return "is sent on a channel"
	}
	return ""
}

// writtenThrough: the identifier is the base of an element/field/pointer store (x[i] = .., x.f = .., *x = .., x[i]++)
// or is deleted from / cleared.
func writtenThrough(pk *packages.Package, id *ast.Ident, stack []ast.Node) bool {
	var child ast.Node = id
	for i := len(stack) - 1; i >= 0; i-- {
		switch p := stack[i].(type) {
		case *ast.ParenExpr:
			child = p
			continue
		case *ast.IndexExpr:
			if p.X == child {
				child = p
				continue
			}
			return false
		case *ast.SelectorExpr:
			if p.X == child {
				child = p
				continue
			}
			return false
		case *ast.StarExpr:
			child = p
			continue
		case *ast.AssignStmt:
			if child == ast.Node(id) {
				return false // x = ...: the local itself is reassigned, nothing is written through it
			}
			for _, l := range p.Lhs {
				if l == child {
					return true
				}
			}
			return false
		case *ast.IncDecStmt:
			return child != ast.Node(id)
		case *ast.CallExpr:
			if fid, ok := p.Fun.(*ast.Ident); ok && (fid.Name == "delete" || fid.Name == "clear") && len(p.Args) > 0 && p.Args[0] == child {
				return true
			}
			return false
		default:
			return false
		}
	}
	return false
}

// totalOrderSort: the sort call puts the slice into an order that does not depend on the order it had before: the
// natural order of its elements (sort.Strings, sort.Ints, slices.Sort ...), or a comparison function that compares the
// two elements themselves (`return s[i] < s[j]`). A comparison of something computed from the elements (their lower-case
// form, their length, one field) leaves elements that compare equal in the order in which they came - for keys
// collected from a map, the order of the map iteration.
func totalOrderSort(pk *packages.Package, call *ast.CallExpr, slice types.Object) bool {
	f := callee(pk, call)
	if f == nil {
		return false
	}
	switch f.Name() {
	case "Strings", "Ints", "Float64s", "Sort", "Stable":
		if f.Pkg().Path() == "slices" || len(call.Args) == 1 {
			return f.Name() != "Stable" || f.Pkg().Path() == "slices" || len(call.Args) == 1
		}
		return true
	case "Slice", "SliceStable", "SortFunc", "SortStableFunc":
		if len(call.Args) != 2 {
			return false
		}
		fl, ok := ast.Unparen(call.Args[1]).(*ast.FuncLit)
		if !ok || len(fl.Body.List) != 1 {
			return false
		}
		ret, ok := fl.Body.List[0].(*ast.ReturnStmt)
		if !ok || len(ret.Results) != 1 {
			return false
		}
		// the parameters of the comparison
		params := map[types.Object]bool{}
		for _, fld := range fl.Type.Params.List {
			for _, nm := range fld.Names {
				params[pk.TypesInfo.Defs[nm]] = true
			}
		}
		isElem := func(e ast.Expr) bool {
			e = ast.Unparen(e)
			if ix, ok := e.(*ast.IndexExpr); ok {
				sid, ok1 := ast.Unparen(ix.X).(*ast.Ident)
				iid, ok2 := ast.Unparen(ix.Index).(*ast.Ident)
				return ok1 && ok2 && pk.TypesInfo.Uses[sid] == slice && params[pk.TypesInfo.Uses[iid]]
			}
			if id, ok := e.(*ast.Ident); ok { // slices.SortFunc(a, b T)
				return params[pk.TypesInfo.Uses[id]]
			}
			return false
		}
		basic := func(e ast.Expr) bool {
			t := pk.TypesInfo.TypeOf(e)
			if t == nil {
				return false
			}
			_, ok := t.Underlying().(*types.Basic)
			return ok
		}
		switch x := ast.Unparen(ret.Results[0]).(type) {
		case *ast.BinaryExpr:
			if (x.Op == token.LSS || x.Op == token.GTR) && isElem(x.X) && isElem(x.Y) && basic(x.X) {
				return true
			}
		case *ast.CallExpr:
			// cmp.Compare(a, b) / strings.Compare(a, b) on the elements themselves
			if g := callee(pk, x); g != nil && g.Name() == "Compare" && len(x.Args) == 2 && isElem(x.Args[0]) && isElem(x.Args[1]) && basic(x.Args[0]) {
				return true
			}
		}
		return false
	}
	return false
}
