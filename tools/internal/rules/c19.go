package rules

import (
	"fmt"
	"go/ast"
	"go/token"
	"go/types"

	"golang.org/x/tools/go/packages"

	"jsverif/internal/prog"
)

func init() { register("C19", propC19, false, false) }

func propC19(c *Ctx) {
	c.R.Explanation = "Decides the mechanism of the ban for every directive kind: (a) every construction of a Directive from a scanned keyword is dominated by a comma-ok lookup of the ban set keyed by the kind obtained from NewDirectiveType, whose hit branch returns a located error (so directives at top level, in included files and inside MACRO bodies, pasted or not, are tested); (b) the INCLUDE branch of the scan loop consults the ban with key directive.Include before any file-system access; (c) addDirective consults it before dispatch; (d) the ban set is written only by WithBannedDirectives into a map allocated per core, and read only through by-kind lookups, so an unused ban changes nothing; (e) a banned keyword is seen by the scanner after a Description whatever the line ends are (keyword pre-filters, end-of-Description predicate, LF/CR symmetry of the automaton). Not decided: that the error message text/line equals the expected one for every layout."
	c.ruleC19()
	c.ruleBanKeyIsTheKind("C19-BAN-KEY-IS-THE-KIND")
	c.ruleSameSource() // the refusal is located on the banned directive: file and index of every error come from one object
	// a directive can only be refused if it is seen: after the free text of a Description the next keyword must be
	// recognised whatever the line ends of the file are
	c.ruleNextDirectiveRecognised("C19-NEXT-DIRECTIVE")
	c.ruleFirstByteTables("C19-KEYWORD-PREFILTER")
	if m := c.E1Base(); m != nil {
		c.R.Only = func(rule string) bool { return rule == "C08-NEWLINE-SYMMETRY" || rule == "C08-CRLF-ONE-LINE-END" }
		c.ruleC08Scanner(m)
		c.R.Only = nil
	}
}

// banLookup describes `_, ok := core.bannedDirectives[key]; ok` tests.
type banLookup struct {
	ifs *ast.IfStmt
	key ast.Expr
}

// at: the node a guarded site must be dominated by (the lookup itself).
func (b banLookup) at() ast.Node {
	if b.ifs.Init != nil {
		return b.ifs.Init
	}
	return b.ifs.Cond
}

// banPredicates: functions of package core of the form func(k Enumeration) bool { _, ok := <ban>[k]; return ok }
// (or `return <ban>[k]`-like single lookups): a by-kind membership test of the ban set under a name.
func (c *Ctx) banPredicates(ban *types.Var) map[*types.Func]int {
	out := map[*types.Func]int{}
	for _, h := range c.libFns() {
		sig := h.Obj.Type().(*types.Signature)
		if sig.Params().Len() != 1 || sig.Results().Len() != 1 {
			continue
		}
		if b, ok := sig.Results().At(0).Type().Underlying().(*types.Basic); !ok || b.Kind() != types.Bool {
			continue
		}
		if len(h.Decl.Body.List) != 2 {
			continue
		}
		as, ok := h.Decl.Body.List[0].(*ast.AssignStmt)
		ret, ok2 := h.Decl.Body.List[1].(*ast.ReturnStmt)
		if !ok || !ok2 || len(as.Lhs) != 2 || len(as.Rhs) != 1 || len(ret.Results) != 1 {
			continue
		}
		b, k, isIdx := indexOn(h.Pkg, as.Rhs[0])
		if !isIdx || fieldSel(h.Pkg, b) != ban || paramIndexOf(h, k) != 0 {
			continue
		}
		okId, _ := as.Lhs[1].(*ast.Ident)
		rid, _ := ast.Unparen(ret.Results[0]).(*ast.Ident)
		if okId != nil && rid != nil && h.Pkg.TypesInfo.Uses[rid] == h.Pkg.TypesInfo.Defs[okId] {
			out[h.Obj] = 0
		}
	}
	return out
}

func (c *Ctx) banLookups(f *Fn, ban *types.Var) []banLookup {
	pk := f.Pkg
	var out []banLookup
	// `if <core>.isBanned(k) { return <error> }` through a membership predicate
	preds := c.banPredicates(ban)
	ast.Inspect(f.Decl.Body, func(n ast.Node) bool {
		ifs, ok := n.(*ast.IfStmt)
		if !ok || ifs.Init != nil || !returnsNonNilError(pk, ifs.Body.List) {
			return true
		}
		call, ok := ast.Unparen(ifs.Cond).(*ast.CallExpr)
		if !ok || len(call.Args) != 1 {
			return true
		}
		if cal := callee(pk, call); cal != nil {
			if _, isPred := preds[cal.Origin()]; isPred {
				out = append(out, banLookup{ifs, call.Args[0]})
			}
		}
		return true
	})
	ast.Inspect(f.Decl.Body, func(n ast.Node) bool {
		ifs, ok := n.(*ast.IfStmt)
		if !ok || ifs.Init == nil {
			return true
		}
		as, ok := ifs.Init.(*ast.AssignStmt)
		if !ok || len(as.Lhs) != 2 || len(as.Rhs) != 1 {
			return true
		}
		b, k, isIdx := indexOn(pk, as.Rhs[0])
		if !isIdx || fieldSel(pk, b) != ban {
			return true
		}
		okId, _ := as.Lhs[1].(*ast.Ident)
		cid, _ := ast.Unparen(ifs.Cond).(*ast.Ident)
		if okId == nil || cid == nil || pk.TypesInfo.Uses[cid] != pk.TypesInfo.Defs[okId] {
			return true
		}
		if returnsNonNilError(pk, ifs.Body.List) {
			out = append(out, banLookup{ifs, k})
		}
		return true
	})
	return out
}

func (c *Ctx) ruleC19() {
	r := c.R
	r.Rule("C19-BAN-AT-CREATION", "every construction of a Directive from a scanned keyword (directive.New*/composite literal in package core) is dominated by a comma-ok lookup of bannedDirectives keyed by the kind returned by NewDirectiveType, hit branch returning a non-nil error; if the lookup is not in the constructing function, every call path into it (3 levels) must pass such a lookup", 1)
	r.Rule("C19-BAN-BEFORE-FS", "in the INCLUDE handler a lookup of bannedDirectives[directive.Include] with an error-returning hit branch dominates every call that reaches the file system or the scanner (parameter read)", 1)
	r.Rule("C19-BAN-BEFORE-DISPATCH", "in addDirective the ban lookup keyed by d.Type() dominates the directiveFunctions dispatch", 1)
	r.Rule("C19-BAN-READ-ONLY", "bannedDirectives is assigned only inside the closure returned by WithBannedDirectives, from a make() evaluated in that closure (one map per core); every other use is a nil test, len(), an index store in that closure, or a comma-ok lookup whose hit branch returns an error (the ban set decides nothing but the refusal of a directive of that kind)", 3)
	ban := c.coreField("bannedDirectives")
	if ban == nil {
		r.Undecided("C19-BAN-AT-CREATION", "anchor", "field core.JApiCore.bannedDirectives not found", "")
		return
	}
	corePk := c.P.Pkg("core")
	dirPk := c.P.Pkg("directive")
	newType, _ := dirPk.Types.Scope().Lookup("NewDirectiveType").(*types.Func)
	isCtor := func(f *types.Func) bool {
		if f == nil || f.Pkg() != dirPk.Types {
			return false
		}
		sig := f.Type().(*types.Signature)
		if sig.Recv() != nil || sig.Results().Len() != 1 {
			return false
		}
		return namedType(sig.Results().At(0).Type()) == prog.ModulePath+"/directive.Directive" && sig.Params().Len() >= 1 &&
			namedType(sig.Params().At(0).Type()) == prog.ModulePath+"/directive.Enumeration"
	}
	// call graph (static, package core) for the interprocedural part
	callers := map[*types.Func][]struct {
		f    *Fn
		call *ast.CallExpr
	}{}
	var coreFns []*Fn
	for _, f := range c.libFns() {
		if f.Pkg == corePk {
			coreFns = append(coreFns, f)
			ast.Inspect(f.Decl.Body, func(n ast.Node) bool {
				if call, ok := n.(*ast.CallExpr); ok {
					if cal := callee(corePk, call); cal != nil && cal.Pkg() == corePk.Types {
						callers[cal] = append(callers[cal], struct {
							f    *Fn
							call *ast.CallExpr
						}{f, call})
					}
				}
				return true
			})
		}
	}
	var guardedUp func(f *Fn, node ast.Node, depth int) bool
	guardedUp = func(f *Fn, node ast.Node, depth int) bool {
		cf := buildCFG(f.Decl.Body)
		for _, bl := range c.banLookups(f, ban) {
			if namedType(f.Pkg.TypesInfo.TypeOf(bl.key)) == prog.ModulePath+"/directive.Enumeration" && cf.dominatedBy(node, bl.at()) && !(bl.ifs.Body.Pos() <= node.Pos() && node.End() <= bl.ifs.Body.End()) {
				return true
			}
		}
		if depth == 0 {
			return false
		}
		cs := callers[f.Obj]
		if len(cs) == 0 {
			return false
		}
		for _, cl := range cs {
			if !guardedUp(cl.f, cl.call, depth-1) {
				return false
			}
		}
		return true
	}
	nCtor := 0
	for _, f := range coreFns {
		pk := f.Pkg
		cf := buildCFG(f.Decl.Body)
		// kind variables assigned from NewDirectiveType
		kindVar := map[string]bool{}
		ast.Inspect(f.Decl.Body, func(n ast.Node) bool {
			if as, ok := n.(*ast.AssignStmt); ok && len(as.Rhs) == 1 {
				if call, ok := ast.Unparen(as.Rhs[0]).(*ast.CallExpr); ok && callee(pk, call) == newType && newType != nil {
					kindVar[accessPath(pk, as.Lhs[0])] = true
				}
			}
			return true
		})
		ast.Inspect(f.Decl.Body, func(n ast.Node) bool {
			var site ast.Node
			var kindArg ast.Expr
			switch x := n.(type) {
			case *ast.CallExpr:
				if isCtor(callee(pk, x)) {
					site, kindArg = x, x.Args[0]
				}
			case *ast.CompositeLit:
				if namedType(pk.TypesInfo.TypeOf(x)) == prog.ModulePath+"/directive.Directive" {
					site = x
				}
			}
			if site == nil {
				return true
			}
			nCtor++
			key := fmt.Sprintf("Directive constructed in %s", f.Name())
			okLocal := false
			for _, bl := range c.banLookups(f, ban) {
				if kindArg != nil && accessPath(pk, bl.key) == accessPath(pk, kindArg) && kindVar[accessPath(pk, kindArg)] &&
					cf.dominatedBy(site, bl.at()) && !(bl.ifs.Body.Pos() <= site.Pos() && site.End() <= bl.ifs.Body.End()) {
					okLocal = true
				}
			}
			// the kind comes from a helper that only hands out, together with a nil error, a kind it has looked up in the
			// ban set; the caller reaches the construction only over the nil edge of that error
			okHelper := false
			if kindArg != nil && !okLocal {
				kp := accessPath(pk, kindArg)
				ast.Inspect(f.Decl.Body, func(m ast.Node) bool {
					as, isAs := m.(*ast.AssignStmt)
					if !isAs || len(as.Rhs) != 1 || len(as.Lhs) != 2 || accessPath(pk, as.Lhs[0]) != kp {
						return true
					}
					call, isCall := ast.Unparen(as.Rhs[0]).(*ast.CallExpr)
					if !isCall {
						return true
					}
					h := c.fnOf(callee(pk, call))
					eid, isId := as.Lhs[1].(*ast.Ident)
					if h == nil || h.Pkg != corePk || !isId {
						return true
					}
					errObj := pk.TypesInfo.Defs[eid]
					if errObj == nil {
						errObj = pk.TypesInfo.Uses[eid]
					}
					// (i) in the helper: every return with a nil error returns a kind that came from NewDirectiveType and
					// passed a ban lookup with an error on a hit
					hcf := buildCFG(h.Decl.Body)
					hKind := map[string]bool{}
					ast.Inspect(h.Decl.Body, func(k ast.Node) bool {
						if has, ok := k.(*ast.AssignStmt); ok && len(has.Rhs) == 1 {
							if hc, ok := ast.Unparen(has.Rhs[0]).(*ast.CallExpr); ok && callee(h.Pkg, hc) == newType && newType != nil {
								hKind[accessPath(h.Pkg, has.Lhs[0])] = true
							}
						}
						return true
					})
					good, nRet := true, 0
					ast.Inspect(h.Decl.Body, func(k ast.Node) bool {
						ret, ok := k.(*ast.ReturnStmt)
						if !ok || len(ret.Results) != 2 || !isNil(h.Pkg, ret.Results[1]) {
							return true
						}
						nRet++
						rp := accessPath(h.Pkg, ret.Results[0])
						guarded := false
						for _, bl := range c.banLookups(h, ban) {
							if accessPath(h.Pkg, bl.key) == rp && hKind[rp] && hcf.dominatedBy(ret, bl.at()) && !(bl.ifs.Body.Pos() <= ret.Pos() && ret.End() <= bl.ifs.Body.End()) {
								guarded = true
							}
						}
						if !guarded {
							good = false
						}
						return true
					})
					// (ii) in the caller: the construction is reached only when the helper's error was nil
					errNil := func(cond ast.Expr, trueEdge bool) bool {
						be, ok := ast.Unparen(cond).(*ast.BinaryExpr)
						if !ok || !isNil(pk, be.Y) {
							return false
						}
						id, ok := ast.Unparen(be.X).(*ast.Ident)
						if !ok || pk.TypesInfo.Uses[id] != errObj {
							return false
						}
						return (be.Op == token.EQL && trueEdge) || (be.Op == token.NEQ && !trueEdge)
					}
					if good && nRet > 0 && cf.dominatedBy(site, as) && cf.establishedAt(site, errNil, nil) {
						okHelper = true
					}
					return true
				})
			}
			switch {
			case okLocal:
				r.Ok("C19-BAN-AT-CREATION", key, "dominated by the ban lookup keyed by the kind from NewDirectiveType; hit branch returns an error", c.pos(site.Pos()))
			case okHelper:
				r.Ok("C19-BAN-AT-CREATION", key, "the kind comes, with a nil error that the caller tests, from a helper that looked it up in the ban set (hit returns an error)", c.pos(site.Pos()))
			case guardedUp(f, site, 3):
				r.Ok("C19-BAN-AT-CREATION", key, "every call path into this function passes a by-kind ban lookup", c.pos(site.Pos()))
			default:
				r.Bad("C19-BAN-AT-CREATION", key, "a Directive is created from a scanned keyword without a dominating by-kind lookup of the ban set: MACRO, PASTE and directives inside never-pasted macros are not refused, or kinds whose keyword differs from their table spelling (response codes) slip through", c.pos(site.Pos()))
			}
			return true
		})
	}
	if nCtor == 0 {
		r.Undecided("C19-BAN-AT-CREATION", "sites", "no Directive construction found in package core", "")
	}

	// INCLUDE
	if f := c.fn("core", "JApiCore.processInclude"); f != nil {
		pk := f.Pkg
		inc := c.enumConst("Include")
		var guard *banLookup
		for _, bl := range c.banLookups(f, ban) {
			if constObj(pk, bl.key) == inc && inc != nil {
				b := bl
				guard = &b
			}
		}
		cf := buildCFG(f.Decl.Body)
		bad := ""
		n := 0
		ast.Inspect(f.Decl.Body, func(nd ast.Node) bool {
			call, ok := nd.(*ast.CallExpr)
			if !ok {
				return true
			}
			cal := callee(pk, call)
			if cal == nil {
				return true
			}
			sensitive := cal.Pkg() != nil && (cal.Pkg().Path() == "os" || cal.Name() == "getIncludedFilePath" || cal.Name() == "readFile" || cal.Name() == "Push" || cal.Name() == "NewJApiScanner" || cal.Name() == "Next")
			if !sensitive {
				return true
			}
			n++
			if guard == nil || !cf.dominatedBy(call, guard.at()) || (guard.ifs.Body.Pos() <= call.Pos() && call.End() <= guard.ifs.Body.End()) {
				bad = cal.Name() + " at " + c.pos(call.Pos())
			}
			return true
		})
		switch {
		case guard == nil:
			// may be guarded by every caller
			if guardedUp(f, f.Decl.Body.List[0], 2) {
				r.Ok("C19-BAN-BEFORE-FS", "processInclude", "every call path passes a by-kind ban lookup before the INCLUDE is handled", c.pos(f.Decl.Pos()))
			} else {
				r.Bad("C19-BAN-BEFORE-FS", "processInclude", "INCLUDE is resolved (parameter read, file system consulted, scanner switched) without a lookup of bannedDirectives[directive.Include]", c.pos(f.Decl.Pos()))
			}
		case bad != "":
			r.Bad("C19-BAN-BEFORE-FS", "processInclude", "call not dominated by the INCLUDE ban lookup: "+bad, c.pos(f.Decl.Pos()))
		default:
			r.Ok("C19-BAN-BEFORE-FS", "processInclude", fmt.Sprintf("the lookup keyed by directive.Include dominates all %d file/scanner calls", n), c.pos(f.Decl.Pos()))
		}
	} else {
		r.Undecided("C19-BAN-BEFORE-FS", "processInclude", "function not found", "")
	}

	// dispatch
	if f := c.fn("core", "JApiCore.addDirective"); f != nil {
		pk := f.Pkg
		disp := c.coreField("directiveFunctions")
		cf := buildCFG(f.Decl.Body)
		var dispNode ast.Node
		ast.Inspect(f.Decl.Body, func(n ast.Node) bool {
			if ix, ok := n.(*ast.IndexExpr); ok && fieldSel(pk, ix.X) == disp && disp != nil {
				dispNode = ix
			}
			return true
		})
		ok := false
		for _, bl := range c.banLookups(f, ban) {
			// the key as written, or a local that holds it (kind := d.Type())
			if call, isCall := ast.Unparen(unalias(f, bl.key)).(*ast.CallExpr); isCall {
				if cal := callee(pk, call); cal != nil && cal.Name() == "Type" && dispNode != nil && cf.dominatedBy(dispNode, bl.at()) {
					ok = true
				}
			}
		}
		if ok {
			r.Ok("C19-BAN-BEFORE-DISPATCH", "addDirective", "ban lookup keyed by d.Type() dominates the handler dispatch", c.pos(f.Decl.Pos()))
		} else {
			r.Bad("C19-BAN-BEFORE-DISPATCH", "addDirective", "the handler table is consulted without a dominating ban lookup keyed by d.Type()", c.pos(f.Decl.Pos()))
		}
	} else {
		r.Undecided("C19-BAN-BEFORE-DISPATCH", "addDirective", "function not found", "")
	}

	// read-only discipline
	wb := c.fn("core", "WithBannedDirectives")
	for _, f := range c.libFns() {
		pk := f.Pkg
		inspectWithStack(f.Decl.Body, func(n ast.Node, stack []ast.Node) bool {
			// the field set in a composite literal of the core: only a map made on the spot is one ban set per core
			if kv, isKV := n.(*ast.KeyValueExpr); isKV {
				if kid, isId := kv.Key.(*ast.Ident); isId && pk.TypesInfo.Uses[kid] == ban {
					fresh := false
					switch v := ast.Unparen(kv.Value).(type) {
					case *ast.CallExpr:
						if id, ok := v.Fun.(*ast.Ident); ok && id.Name == "make" {
							fresh = true
						}
					case *ast.CompositeLit:
						fresh = true
					}
					key := fmt.Sprintf("use of bannedDirectives in %s (literal)", f.Name())
					if fresh || isNil(pk, kv.Value) {
						r.Ok("C19-BAN-READ-ONLY", key, "the core starts with a map of its own (or none)", c.pos(kv.Pos()))
					} else {
						r.Bad("C19-BAN-READ-ONLY", key, "a new core is given an existing map as its ban set ("+exprString(kv.Value)+"): the bans that WithBannedDirectives writes for one build are seen by every other build that shares it", c.pos(kv.Pos()))
					}
				}
				return true
			}
			sel, ok := n.(*ast.SelectorExpr)
			if !ok || fieldSel(pk, sel) != ban {
				return true
			}
			parent := stack[len(stack)-1]
			var lit *ast.FuncLit
			for i := len(stack) - 1; i >= 0; i-- {
				if fl, ok := stack[i].(*ast.FuncLit); ok {
					lit = fl
					break
				}
			}
			inOption := wb != nil && f.Obj == wb.Obj && lit != nil
			key := fmt.Sprintf("use of bannedDirectives in %s", f.Name())
			where := c.pos(sel.Pos())
			switch p := parent.(type) {
			case *ast.AssignStmt:
				for i, l := range p.Lhs {
					if ast.Unparen(l) == ast.Expr(sel) {
						if !inOption {
							r.Bad("C19-BAN-READ-ONLY", key+" (assignment)", "the ban set is assigned outside the closure returned by WithBannedDirectives", where)
							return true
						}
						fresh := false
						if i < len(p.Rhs) {
							if call, ok := ast.Unparen(p.Rhs[i]).(*ast.CallExpr); ok {
								if id, ok := call.Fun.(*ast.Ident); ok && id.Name == "make" {
									fresh = true
								}
							}
						}
						if fresh {
							r.Ok("C19-BAN-READ-ONLY", key+" (assignment)", "a map made inside the option closure: one ban set per core", where)
						} else {
							r.Bad("C19-BAN-READ-ONLY", key+" (assignment)", "the ban set of a core is not a map made inside the option closure: cores built with the same Option value share (and mutate) one map, so a ban given to one build leaks into others", where)
						}
						return true
					}
				}
				r.Ok("C19-BAN-READ-ONLY", key+" (read in assignment)", "value read", where)
			case *ast.IndexExpr:
				gp := stack[len(stack)-2]
				if as, ok := gp.(*ast.AssignStmt); ok {
					isLhs := false
					for _, l := range as.Lhs {
						if ast.Unparen(l) == ast.Expr(p) {
							isLhs = true
						}
					}
					if isLhs {
						if inOption {
							r.Ok("C19-BAN-READ-ONLY", key+" (index store)", "store inside the option closure", where)
						} else {
							r.Bad("C19-BAN-READ-ONLY", key+" (index store)", "the ban set is modified outside WithBannedDirectives", where)
						}
						return true
					}
					if len(as.Lhs) == 2 {
						if id, ok := as.Lhs[0].(*ast.Ident); ok && id.Name == "_" {
							// the only thing a hit may lead to is the refusal of that directive
							refuses := false
							for _, bl := range c.banLookups(f, ban) {
								if bl.ifs.Init == ast.Stmt(as) {
									refuses = true
								}
							}
							// the lookup may be the body of a membership predicate (isBanned(k)): then every call of the
							// predicate has to be the condition of a refusal
							if _, isPred := c.banPredicates(ban)[f.Obj]; isPred && !refuses {
								sites, closed := c.callersOf(f)
								all := closed && len(sites) > 0
								for _, cs := range sites {
									hit := false
									for _, bl := range c.banLookups(cs.g, ban) {
										if bl.ifs.Init == nil && ast.Unparen(bl.ifs.Cond) == ast.Expr(cs.call) {
											hit = true
										}
									}
									if !hit {
										all = false
									}
								}
								if all {
									r.Ok("C19-BAN-READ-ONLY", key+" (lookup)", fmt.Sprintf("membership predicate; each of its %d calls is the condition of a refusal", len(sites)), where)
									return true
								}
							}
							if refuses {
								r.Ok("C19-BAN-READ-ONLY", key+" (lookup)", "comma-ok lookup whose hit returns an error", where)
							} else {
								r.Bad("C19-BAN-READ-ONLY", key+" (lookup)", "the ban set is consulted for something else than refusing a directive (the hit branch does not return an error): a ban then changes how OTHER directives are processed - work is skipped, a pass is cut short - and documents that do not contain the banned directive build differently", where)
							}
							return true
						}
					}
				}
				r.Bad("C19-BAN-READ-ONLY", key+" (index read)", "the ban set is read other than through a comma-ok membership test", where)
			case *ast.BinaryExpr:
				if (p.Op == token.EQL || p.Op == token.NEQ) && (isNil(pk, p.X) || isNil(pk, p.Y)) {
					r.Ok("C19-BAN-READ-ONLY", key+" (nil test)", "nil comparison", where)
				} else {
					r.Bad("C19-BAN-READ-ONLY", key+" (comparison)", "unexpected comparison of the ban set", where)
				}
			case *ast.CallExpr:
				if id, ok := p.Fun.(*ast.Ident); ok && id.Name == "len" {
					r.Ok("C19-BAN-READ-ONLY", key+" (len)", "len() only", where)
				} else {
					r.Bad("C19-BAN-READ-ONLY", key+" (passed to a call)", "the ban set escapes to another function", where)
				}
			case *ast.RangeStmt:
				r.Bad("C19-BAN-READ-ONLY", key+" (range)", "the ban set is iterated instead of being looked up by kind: the verdict then depends on something else than the directive kind (e.g. a spelling)", where)
			default:
				r.Bad("C19-BAN-READ-ONLY", key+fmt.Sprintf(" (%T)", parent), "unexpected use of the ban set", where)
			}
			return true
		})
	}
}

var _ = packages.NeedName

// ---------- a ban is asked about the directive at hand ----------

// ruleBanKeyIsTheKind: "a ban changes nothing else". Every lookup of the ban set refuses the directive being handled
// when ITS kind is banned. A lookup keyed by the constant of another kind (is URL banned? then refuse this GET with a
// path; is TYPE banned? then refuse this TAG) makes a ban reject projects in which the banned kind does not occur.
func (c *Ctx) ruleBanKeyIsTheKind(rule string) {
	r := c.R
	r.Rule(rule, "every lookup of the ban set (comma-ok index of core.bannedDirectives or a membership predicate over it, hit branch returning an error) is keyed by the kind of the directive at hand: <directive>.Type(), a local only assigned from directive.NewDirectiveType(<keyword>) or from <directive>.Type(), or - in the INCLUDE handler, where no Directive is built - the constant directive.Include. A constant of another kind as the key makes one ban refuse another directive", 3)
	ban := c.coreField("bannedDirectives")
	if ban == nil {
		r.Undecided(rule, "anchor", "field core.JApiCore.bannedDirectives not found", "")
		return
	}
	incl := c.enumConst("Include")
	inclHandler := c.fn("core", "JApiCore.processInclude")
	n := 0
	for _, f := range c.libFns() {
		pk := f.Pkg
		for i, l := range c.banLookups(f, ban) {
			n++
			key := fmt.Sprintf("%s | lookup #%d keyed by %s", f.Name(), i+1, exprString(l.key))
			why := ""
			switch k := ast.Unparen(l.key).(type) {
			case *ast.CallExpr:
				if sel, ok := ast.Unparen(k.Fun).(*ast.SelectorExpr); !ok || sel.Sel.Name != "Type" || len(k.Args) != 0 {
					why = "the key is the result of " + exprString(k.Fun)
				}
			case *ast.Ident, *ast.SelectorExpr:
				if co := constObj(pk, k); co != nil {
					if incl != nil && co == incl && inclHandler != nil && f.Obj == inclHandler.Obj {
						break
					}
					why = "the key is the constant " + co.Name() + ", whatever directive is being handled"
					break
				}
				id, isId := k.(*ast.Ident)
				if !isId {
					why = "the key is " + exprString(k)
					break
				}
				obj := pk.TypesInfo.Uses[id]
				// a local / parameter of the enumeration type: every assignment must come from NewDirectiveType or .Type()
				if paramIndexOf(f, id) >= 0 {
					break // handed in: the callers' argument is the kind of what they handle (C19-BAN-AT-CREATION follows it)
				}
				okSrc := true
				ast.Inspect(f.Decl.Body, func(m ast.Node) bool {
					as, isAs := m.(*ast.AssignStmt)
					if !isAs {
						return true
					}
					for j, lhs := range as.Lhs {
						lid, isL := lhs.(*ast.Ident)
						if !isL || pk.TypesInfo.ObjectOf(lid) != obj {
							continue
						}
						rhs := as.Rhs[0]
						if len(as.Lhs) == len(as.Rhs) {
							rhs = as.Rhs[j]
						}
						call, isCall := ast.Unparen(rhs).(*ast.CallExpr)
						if !isCall {
							okSrc = false
							continue
						}
						name := ""
						switch fun := ast.Unparen(call.Fun).(type) {
						case *ast.SelectorExpr:
							name = fun.Sel.Name
						case *ast.Ident:
							name = fun.Name
						}
						if name != "NewDirectiveType" && name != "Type" {
							okSrc = false
						}
					}
					return true
				})
				if !okSrc {
					why = "the key " + id.Name + " is assigned from something other than NewDirectiveType / Type()"
				}
			default:
				why = "the key is " + exprString(l.key)
			}
			if why == "" {
				r.Ok(rule, key, "keyed by the kind of the directive at hand", c.pos(l.ifs.Pos()))
			} else {
				r.Bad(rule, key, why+": the ban of one kind refuses a directive of another kind - a project in which the banned kind does not occur no longer builds as without the option", c.pos(l.ifs.Pos()))
			}
		}
	}
	if n < 3 {
		r.Undecided(rule, "sites", fmt.Sprintf("only %d lookups of the ban set found", n), "")
	}
}
