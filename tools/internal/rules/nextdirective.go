package rules

import (
	"fmt"
	"go/constant"
	"go/types"
	"os"
	"sort"
	"strings"

	"golang.org/x/tools/go/ssa"

	"jsverif/internal/prog"
	"jsverif/internal/ssaeval"
)

// ruleNextDirectiveRecognised: the text of an implicit Description ends where the next directive begins. The scanner
// asks directive.IsStartWithDirective about the rest of the line; if that predicate says no for a line that starts
// with a keyword, the directive is swallowed into the text (and with it whatever it meant: a PASTE, an INCLUDE, a
// method, a response). The predicate is folded on constants of the program itself: for every spelling of the
// directive table, followed by each byte that may follow a keyword (nothing, blank, tab, '#', '/'), and for response
// codes, IsStartWithDirective must fold to true; for a line of plain text to false. The value of the spelling table is
// the one read from its literal (E2); the dependency's Bytes is modelled by the string it holds. How the predicate is
// written (loop over the table, first-byte switch, per-letter table) does not matter.
func (c *Ctx) ruleNextDirectiveRecognised(rule string) {
	r := c.R
	r.Rule(rule, "directive.IsStartWithDirective folds to true for every keyword of the directive table followed by each possible follower of a keyword (end of line, blank, tab, '#', '/') and for the response codes 100, 200, 599; and to false for plain text: a directive after an implicit Description is never taken for text", 30)
	t := c.Tables()
	f := c.P.LookupFunc("directive", "IsStartWithDirective")
	if f == nil || len(t.Problems) > 0 {
		r.Undecided(rule, "anchor", "IsStartWithDirective or the directive tables not readable", "")
		return
	}
	sf := c.P.SSAFunc(f)
	if sf == nil || len(sf.Params) != 1 {
		r.Undecided(rule, "anchor", "unexpected signature of IsStartWithDirective", "")
		return
	}
	where := ""
	if d := c.P.Decl(f); d != nil {
		where = c.pos(d.Pos())
	}
	var table []ssaeval.Value
	for _, s := range t.SS {
		table = append(table, ssaeval.Str(s))
	}
	bytesVal := func(s string) ssaeval.Value {
		return ssaeval.StructOf(map[int]ssaeval.Value{0: ssaeval.Str(s)})
	}
	strOf := func(v ssaeval.Value) (string, bool) {
		if v.K == ssaeval.Struct {
			if x, ok := v.Fields[0]; ok && x.K == ssaeval.Const && x.C.Kind() == constant.String {
				return constant.StringVal(x.C), true
			}
		}
		return "", false
	}
	intOf := func(v ssaeval.Value) (int, bool) {
		if v.K == ssaeval.Const && v.C.Kind() == constant.Int {
			i, ok := constant.Int64Val(v.C)
			return int(i), ok
		}
		return 0, false
	}
	ev := &ssaeval.Eval{MaxDepth: 6, MaxPaths: 64, MaxVisits: len(t.SS) + 8}
	// the package-level tables of package directive as its initialiser leaves them (spellings, keyword groups)
	if dp := c.P.Pkg("directive"); dp != nil && c.P.SSAPkgs[dp.Types] != nil {
		ev.Inits(c.P.SSAPkgs[dp.Types])
	}
	fold := func(line string) string {
		ev.Follow = func(fn *ssa.Function) bool {
			return inModule(fn)
		}
		ev.Global = func(g *ssa.Global) (ssaeval.Value, bool) {
			// the spelling table: the package-level []string of package directive that E2 read
			if g.Pkg != nil && g.Pkg.Pkg.Path() == prog.ModulePath+"/directive" {
				if p, ok := g.Type().(*types.Pointer); ok {
					if sl, ok := p.Elem().Underlying().(*types.Slice); ok {
						if b, ok := sl.Elem().Underlying().(*types.Basic); ok && b.Kind() == types.String {
							return ssaeval.ListOf(table), true
						}
					}
					if ar, ok := p.Elem().Underlying().(*types.Array); ok {
						if b, ok := ar.Elem().Underlying().(*types.Basic); ok && b.Kind() == types.String {
							return ssaeval.ListOf(table), true
						}
					}
				}
			}
			return ssaeval.Value{}, false
		}
		ev.Oracle = func(fn *ssa.Function, args []ssaeval.Value) (ssaeval.Value, bool) {
			// the dependency's bytes.Bytes, modelled by the string it holds
			if fn.Pkg == nil || !strings.HasSuffix(fn.Pkg.Pkg.Path(), "jsight-schema-core/bytes") || len(args) == 0 {
				return ssaeval.Value{}, false
			}
			s, ok := strOf(args[0])
			if !ok {
				return ssaeval.Value{}, false
			}
			switch fn.Name() {
			case "Len":
				return ssaeval.Int(int64(len(s))), true
			case "String":
				return ssaeval.Str(s), true
			case "FirstByte":
				if len(s) > 0 {
					return ssaeval.Int(int64(s[0])), true
				}
				return ssaeval.Int(0), true
			case "LastByte":
				if len(s) > 0 {
					return ssaeval.Int(int64(s[len(s)-1])), true
				}
				return ssaeval.Int(0), true
			case "Byte":
				if len(args) == 2 {
					if i, ok := intOf(args[1]); ok && i >= 0 && i < len(s) {
						return ssaeval.Int(int64(s[i])), true
					}
				}
			case "Sub":
				if len(args) == 3 {
					lo, ok1 := intOf(args[1])
					hi, ok2 := intOf(args[2])
					if ok1 && ok2 && lo >= 0 && lo <= hi && hi <= len(s) {
						return bytesVal(s[lo:hi]), true
					}
				}
			case "SubLow":
				if len(args) == 2 {
					if lo, ok := intOf(args[1]); ok && lo >= 0 && lo <= len(s) {
						return bytesVal(s[lo:]), true
					}
				}
			case "SubHigh":
				if len(args) == 2 {
					if hi, ok := intOf(args[1]); ok && hi >= 0 && hi <= len(s) {
						return bytesVal(s[:hi]), true
					}
				}
			case "TrimSpaces":
				return bytesVal(strings.TrimSpace(s)), true
			}
			return ssaeval.Value{}, false
		}
		outs := ev.Run(sf, []ssaeval.Value{bytesVal(line)})
		if os.Getenv("JSVERIF_DEBUG") == "fold" {
			for _, o := range outs {
				fmt.Printf("fold %q: rets=%v incomplete=%q conds=%v\n", line, o.Rets, o.Incomplete, o.Conds)
			}
		}
		res := ""
		for _, o := range outs {
			if o.Incomplete != "" || o.Panics || len(o.Rets) != 1 || o.Rets[0].K != ssaeval.Const || o.Rets[0].C.Kind() != constant.Bool {
				why := o.Incomplete
				if why == "" && len(o.Rets) == 1 {
					why = "returns " + o.Rets[0].String()
				}
				return "undecided (" + why + ")"
			}
			v := fmt.Sprint(constant.BoolVal(o.Rets[0].C))
			if res != "" && res != v {
				return "undecided (both)"
			}
			res = v
		}
		return res
	}
	var words []string
	for w := range t.KeywordSet() {
		words = append(words, w)
	}
	sort.Strings(words)
	followers := []struct{ name, text string }{{"end of line", ""}, {"a blank", " x"}, {"a tab", "\tx"}, {"'#'", "#c"}, {"'/'", "/x"}}
	for _, w := range words {
		bad := ""
		for _, fl := range followers {
			if len(w+fl.text) < 3 {
				continue
			}
			if got := fold(w + fl.text); got != "true" {
				bad = fmt.Sprintf("for a line starting with %q followed by %s the predicate folds to %s", w, fl.name, got)
				break
			}
		}
		if bad == "" {
			r.Ok(rule, "keyword "+w, "recognised with each of the five followers", where)
		} else {
			r.Bad(rule, "keyword "+w, bad+": such a directive right after an implicit Description is swallowed into the text", where)
		}
	}
	for _, code := range []string{"100", "200", "404", "599"} {
		if got := fold(code + " any"); got == "true" {
			r.Ok(rule, "response code "+code, "recognised", where)
		} else {
			r.Bad(rule, "response code "+code, "a line starting with the response code folds to "+got, where)
		}
	}
	for _, txt := range []string{"some text", "x", "099 text", "gets"} {
		if got := fold(txt); got == "false" {
			r.Ok(rule, fmt.Sprintf("text %q", txt), "not taken for a directive", where)
		} else {
			r.Bad(rule, fmt.Sprintf("text %q", txt), "a line of plain text folds to "+got+": the Description is cut short", where)
		}
	}
}

// ruleResponseCodeGate: which keyword strings become a response-code directive is decided by NewDirectiveType. It is
// folded on constants taken from the program: the bounds of the response-code range read by E2 (lo, hi), their
// neighbours (lo-1, hi+1), a code with a leading zero, a four-digit code and a keyword of the table. Only codes inside
// [lo, hi] may fold to the response-code kind without error; everything else that is not a keyword folds to an error.
func (c *Ctx) ruleResponseCodeGate(rule string) {
	r := c.R
	r.Rule(rule, "directive.NewDirectiveType folds to (HTTPResponseCode, nil) for the bounds of the response-code range and to a non-nil error for their outer neighbours, for a code with a leading zero and for a four-digit code; a keyword of the table folds to its own kind", 6)
	t := c.Tables()
	f := c.P.LookupFunc("directive", "NewDirectiveType")
	if f == nil || len(t.Problems) > 0 || t.RespConst == "" {
		r.Undecided(rule, "anchor", "NewDirectiveType or the directive tables not readable", "")
		return
	}
	sf := c.P.SSAFunc(f)
	where := ""
	if d := c.P.Decl(f); d != nil {
		where = c.pos(d.Pos())
	}
	ev := &ssaeval.Eval{MaxDepth: 6, MaxPaths: 64, MaxVisits: 2000}
	ev.Follow = func(fn *ssa.Function) bool {
		return inModule(fn)
	}
	if dp := c.P.Pkg("directive"); dp != nil && c.P.SSAPkgs[dp.Types] != nil {
		ev.Inits(c.P.SSAPkgs[dp.Types])
	}
	fold := func(word string) string {
		outs := ev.Run(sf, []ssaeval.Value{ssaeval.Str(word)})
		res := ""
		for _, o := range outs {
			if o.Incomplete != "" || o.Panics || len(o.Rets) != 2 {
				return "undecided (" + o.Incomplete + ")"
			}
			isNil, known := o.Rets[1].IsNilKnown()
			if !known {
				return "undecided (error " + o.Rets[1].String() + ")"
			}
			v := "error"
			if isNil {
				if o.Rets[0].K != ssaeval.Const {
					return "undecided (kind " + o.Rets[0].String() + ")"
				}
				n, _ := constant.Int64Val(constant.ToInt(o.Rets[0].C))
				v = t.ByValue[n]
			}
			if res != "" && res != v {
				return "undecided (both " + res + " and " + v + ")"
			}
			res = v
		}
		return res
	}
	cases := []struct{ word, want string }{
		{itoa(t.RespLo), t.RespConst}, {itoa(t.RespHi), t.RespConst}, {itoa((t.RespLo + t.RespHi) / 2), t.RespConst},
		{itoa(t.RespLo - 1), "error"}, {itoa(t.RespHi + 1), "error"}, {"0" + itoa(t.RespLo)[1:], "error"}, {itoa(t.RespLo) + "0", "error"},
		{"999", "error"}, {"abc", "error"}, {"", "error"},
	}
	for w, n := range t.KeywordSet() {
		if w == "GET" || w == "URL" || w == "PASTE" {
			cases = append(cases, struct{ word, want string }{w, n})
		}
	}
	for _, cs := range cases {
		key := fmt.Sprintf("NewDirectiveType(%q)", cs.word)
		if got := fold(cs.word); got == cs.want {
			r.Ok(rule, key, "folds to "+got, where)
		} else {
			r.Bad(rule, key, fmt.Sprintf("folds to %s, expected %s: a keyword outside the response-code range [%d, %d] becomes a directive (or one inside is refused)", got, cs.want, t.RespLo, t.RespHi), where)
		}
	}
}
