package rules

// Helpers shared by the structural (AST + go/cfg + go/types) rules.

import (
	"fmt"
	"go/ast"
	"go/constant"
	"go/token"
	"go/types"
	"strings"

	"golang.org/x/tools/go/cfg"
	"golang.org/x/tools/go/packages"
	"golang.org/x/tools/go/types/typeutil"

	"jsverif/internal/prog"
)

// Fn bundles a declared function with its package.
type Fn struct {
	Obj  *types.Func
	Decl *ast.FuncDecl
	Pkg  *packages.Package
}

func (f *Fn) Name() string { return prog.FuncName(f.Obj) }

// fn resolves "pkgrel", "Name" or "Type.Method" to a declared function (nil if absent).
func (c *Ctx) fn(rel, name string) *Fn {
	obj := c.P.LookupFunc(rel, name)
	if obj == nil {
		return nil
	}
	d := c.P.Decl(obj)
	if d == nil || d.Body == nil {
		return nil
	}
	return &Fn{Obj: obj, Decl: d, Pkg: c.P.DeclPkg(obj)}
}

// fnOf wraps an already resolved function object.
func (c *Ctx) fnOf(obj *types.Func) *Fn {
	if obj == nil {
		return nil
	}
	d := c.P.Decl(obj)
	if d == nil || d.Body == nil {
		return nil
	}
	return &Fn{Obj: obj, Decl: d, Pkg: c.P.DeclPkg(obj)}
}

// libFns returns every function with a body in the library packages.
func (c *Ctx) libFns() []*Fn {
	var out []*Fn
	for _, f := range c.P.LibFuncs() {
		out = append(out, &Fn{Obj: f, Decl: c.P.Decl(f), Pkg: c.P.DeclPkg(f)})
	}
	return out
}

func (c *Ctx) pos(p token.Pos) string { return c.P.Pos(p) }

// callee resolves the static callee of a call (function or method), nil for dynamic calls.
func callee(pk *packages.Package, call *ast.CallExpr) *types.Func {
	f, _ := typeutil.Callee(pk.TypesInfo, call).(*types.Func)
	if f != nil {
		return f.Origin()
	}
	return nil
}

// fieldSel returns the field object selected by e (nil if e is not a field selection).
func fieldSel(pk *packages.Package, e ast.Expr) *types.Var {
	sel, ok := ast.Unparen(e).(*ast.SelectorExpr)
	if !ok {
		return nil
	}
	if s := pk.TypesInfo.Selections[sel]; s != nil && s.Kind() == types.FieldVal {
		v, _ := s.Obj().(*types.Var)
		return v
	}
	return nil
}

// accessPath normalises an expression made of identifiers, field selections, derefs and
// constant indices to a string built from object identities ("" if not such an expression).
func accessPath(pk *packages.Package, e ast.Expr) string {
	switch x := ast.Unparen(e).(type) {
	case *ast.Ident:
		obj := pk.TypesInfo.Uses[x]
		if obj == nil {
			obj = pk.TypesInfo.Defs[x]
		}
		if obj == nil {
			return ""
		}
		return fmt.Sprintf("%s#%d", x.Name, obj.Pos())
	case *ast.SelectorExpr:
		if f := fieldSel(pk, x); f != nil {
			b := accessPath(pk, x.X)
			if b == "" {
				return ""
			}
			return b + "." + f.Name()
		}
		// package-qualified identifier
		if id, ok := x.X.(*ast.Ident); ok {
			if _, isPkg := pk.TypesInfo.Uses[id].(*types.PkgName); isPkg {
				if obj := pk.TypesInfo.Uses[x.Sel]; obj != nil {
					return fmt.Sprintf("%s.%s", id.Name, x.Sel.Name)
				}
			}
		}
		return ""
	case *ast.StarExpr:
		b := accessPath(pk, x.X)
		if b == "" {
			return ""
		}
		return "*" + b
	case *ast.UnaryExpr:
		if x.Op == token.AND {
			b := accessPath(pk, x.X)
			if b == "" {
				return ""
			}
			return "&" + b
		}
	}
	return ""
}

// prettyPath strips the object ids from an access path for messages.
func prettyPath(p string) string {
	var sb strings.Builder
	skip := false
	for _, r := range p {
		if r == '#' {
			skip = true
			continue
		}
		if skip {
			if r >= '0' && r <= '9' {
				continue
			}
			skip = false
		}
		sb.WriteRune(r)
	}
	return sb.String()
}

func constString(pk *packages.Package, e ast.Expr) (string, bool) {
	if tv, ok := pk.TypesInfo.Types[e]; ok && tv.Value != nil && tv.Value.Kind() == constant.String {
		return constant.StringVal(tv.Value), true
	}
	return "", false
}

func constInt(pk *packages.Package, e ast.Expr) (int64, bool) {
	if tv, ok := pk.TypesInfo.Types[e]; ok && tv.Value != nil {
		if v, ok := constant.Int64Val(constant.ToInt(tv.Value)); ok {
			return v, true
		}
	}
	return 0, false
}

// constObj returns the constant object an expression names (through pkg qualifiers), nil otherwise.
func constObj(pk *packages.Package, e ast.Expr) *types.Const {
	switch x := ast.Unparen(e).(type) {
	case *ast.Ident:
		k, _ := pk.TypesInfo.Uses[x].(*types.Const)
		return k
	case *ast.SelectorExpr:
		k, _ := pk.TypesInfo.Uses[x.Sel].(*types.Const)
		return k
	}
	return nil
}

func isNil(pk *packages.Package, e ast.Expr) bool {
	id, ok := ast.Unparen(e).(*ast.Ident)
	if !ok {
		return false
	}
	_, isNilObj := pk.TypesInfo.Uses[id].(*types.Nil)
	return isNilObj
}

// namedType returns "pkgpath.Name" of a (pointer to) named type.
func namedType(t types.Type) string {
	if t == nil {
		return ""
	}
	if p, ok := t.(*types.Pointer); ok {
		t = p.Elem()
	}
	if n, ok := t.(*types.Named); ok && n.Obj() != nil {
		if n.Obj().Pkg() != nil {
			return n.Obj().Pkg().Path() + "." + n.Obj().Name()
		}
		return n.Obj().Name()
	}
	return ""
}

func isJApiErrorPtr(t types.Type) bool {
	return namedType(t) == prog.ModulePath+"/jerr.JApiError"
}

var errorIface = types.Universe.Lookup("error").Type().Underlying().(*types.Interface)

// isErrorLike: the type implements error (error itself, *jerr.JApiError, openapi.Error, ...).
func isErrorLike(t types.Type) bool {
	if t == nil {
		return false
	}
	if types.Implements(t, errorIface) {
		return true
	}
	return false
}

// ---------- CFG ----------

type funcCFG struct {
	g     *cfg.CFG
	where map[ast.Node]*cfg.Block // statement/expression node -> block
	idx   map[ast.Node]int        // position inside the block
}

func buildCFG(body *ast.BlockStmt) *funcCFG {
	g := cfg.New(body, func(call *ast.CallExpr) bool {
		if id, ok := call.Fun.(*ast.Ident); ok && id.Name == "panic" {
			return false
		}
		return true
	})
	fc := &funcCFG{g: g, where: map[ast.Node]*cfg.Block{}, idx: map[ast.Node]int{}}
	for _, b := range g.Blocks {
		for i, n := range b.Nodes {
			fc.where[n] = b
			fc.idx[n] = i
		}
	}
	return fc
}

// blockOf finds the CFG block and node index containing the syntax node n (n may be nested inside a CFG node).
func (fc *funcCFG) blockOf(n ast.Node) (*cfg.Block, int) {
	if b, ok := fc.where[n]; ok {
		return b, fc.idx[n]
	}
	for cn, b := range fc.where {
		if cn.Pos() <= n.Pos() && n.End() <= cn.End() {
			// choose the innermost enclosing CFG node
			best, bi := b, fc.idx[cn]
			bestLen := cn.End() - cn.Pos()
			for cn2, b2 := range fc.where {
				if cn2.Pos() <= n.Pos() && n.End() <= cn2.End() && cn2.End()-cn2.Pos() < bestLen {
					best, bi, bestLen = b2, fc.idx[cn2], cn2.End()-cn2.Pos()
				}
			}
			return best, bi
		}
	}
	return nil, 0
}

// dominatedBy: every path from the function entry to `target` passes through `guard`.
func (fc *funcCFG) dominatedBy(target, guard ast.Node) bool {
	tb, ti := fc.blockOf(target)
	gb, gi := fc.blockOf(guard)
	if tb == nil || gb == nil {
		return false
	}
	if tb == gb {
		return gi <= ti
	}
	// reachability from entry to tb avoiding gb
	seen := map[*cfg.Block]bool{}
	var work []*cfg.Block
	entry := fc.g.Blocks[0]
	if entry == gb {
		return true
	}
	work = append(work, entry)
	seen[entry] = true
	for len(work) > 0 {
		b := work[len(work)-1]
		work = work[:len(work)-1]
		if b == tb {
			return false
		}
		for _, s := range b.Succs {
			if s != gb && !seen[s] {
				seen[s] = true
				work = append(work, s)
			}
		}
	}
	return true
}

// reachesWithout: can `to` be reached from `from` (exclusive) without passing `avoid`?
func (fc *funcCFG) reachesWithout(from, to, avoid ast.Node) bool {
	fb, fi := fc.blockOf(from)
	tb, ti := fc.blockOf(to)
	if fb == nil || tb == nil {
		return true
	}
	var ab *cfg.Block
	ai := -1
	if avoid != nil {
		ab, ai = fc.blockOf(avoid)
	}
	if fb == tb && fi < ti {
		if ab == fb && ai > fi && ai < ti {
			// only the straight-line path inside the block is blocked; other paths may loop round
		} else {
			return true
		}
	}
	seen := map[*cfg.Block]bool{}
	var work []*cfg.Block
	if ab == fb && ai > fi {
		return false
	}
	for _, s := range fb.Succs {
		if !seen[s] {
			seen[s] = true
			work = append(work, s)
		}
	}
	for len(work) > 0 {
		b := work[len(work)-1]
		work = work[:len(work)-1]
		if b == tb {
			if ab == b && ai < ti {
				continue
			}
			return true
		}
		if b == ab {
			continue
		}
		for _, s := range b.Succs {
			if !seen[s] {
				seen[s] = true
				work = append(work, s)
			}
		}
	}
	return false
}

// ---------- statement shapes ----------

// returnsNonNilError: the statement list ends in (or is) a return whose error-like result is not the nil literal.
func returnsNonNilError(pk *packages.Package, list []ast.Stmt) bool {
	if len(list) == 0 {
		return false
	}
	r, ok := list[len(list)-1].(*ast.ReturnStmt)
	if !ok || len(r.Results) == 0 {
		return false
	}
	for _, e := range r.Results {
		t := pk.TypesInfo.TypeOf(e)
		if isNil(pk, e) {
			continue
		}
		if t != nil && isErrorLike(t) {
			return true
		}
	}
	return false
}

// enclosingFuncBodies walks all statements of a function including closures, calling f for each node with the stack.
func inspectWithStack(root ast.Node, f func(n ast.Node, stack []ast.Node) bool) {
	var stack []ast.Node
	ast.Inspect(root, func(n ast.Node) bool {
		if n == nil {
			stack = stack[:len(stack)-1]
			return true
		}
		ok := f(n, stack)
		if ok {
			stack = append(stack, n)
		}
		return ok
	})
}

// callsIn lists calls to target (by object identity) inside root.
func callsIn(pk *packages.Package, root ast.Node, target *types.Func) []*ast.CallExpr {
	var out []*ast.CallExpr
	ast.Inspect(root, func(n ast.Node) bool {
		if call, ok := n.(*ast.CallExpr); ok && callee(pk, call) == target {
			out = append(out, call)
		}
		return true
	})
	return out
}

func exprString(e ast.Expr) string { return types.ExprString(e) }

// ---------- edge facts ----------

// establishedAt decides a must-fact by forward dataflow over the CFG: the fact is established on the edge out of a
// condition block (establishes(cond, edgeIsTrue)), killed by a node (kills(node)), and holds at `target` when it holds
// on every path from the function entry. It is independent of the statement form (if / else / switch case / loop
// condition / && and || operands: go/cfg gives each operand its own block).
func (fc *funcCFG) establishedAt(target ast.Node, establishes func(cond ast.Expr, trueEdge bool) bool, kills func(n ast.Node) bool) bool {
	tb, ti := fc.blockOf(target)
	if tb == nil {
		return false
	}
	blocks := fc.g.Blocks
	in := map[*cfg.Block]bool{}
	for _, b := range blocks {
		in[b] = true
	}
	in[blocks[0]] = false
	preds := map[*cfg.Block][][2]any{}
	for _, b := range blocks {
		for i, s := range b.Succs {
			preds[s] = append(preds[s], [2]any{b, i})
		}
	}
	outOf := func(b *cfg.Block, edge int) bool {
		v := in[b]
		for _, n := range b.Nodes {
			if kills != nil && kills(n) {
				v = false
			}
		}
		if len(b.Succs) == 2 && len(b.Nodes) > 0 {
			if cond, ok := b.Nodes[len(b.Nodes)-1].(ast.Expr); ok {
				for _, a := range impliedAtoms(cond, edge == 0) {
					if establishes(a.e, a.holds) {
						v = true
					}
				}
			}
		}
		return v
	}
	for changed := true; changed; {
		changed = false
		for _, b := range blocks {
			if b == blocks[0] {
				continue
			}
			v := true
			if len(preds[b]) == 0 {
				v = true // unreachable block
			}
			for _, p := range preds[b] {
				if !outOf(p[0].(*cfg.Block), p[1].(int)) {
					v = false
					break
				}
			}
			if v != in[b] {
				in[b] = v
				changed = true
			}
		}
	}
	v := in[tb]
	for i := 0; i < ti && i < len(tb.Nodes); i++ {
		if kills != nil && kills(tb.Nodes[i]) {
			v = false
		}
	}
	return v
}

// everyIterationPasses: every path in the CFG from the head of the loop round to the head again passes a node that
// contains an event (the loop's own exit block is never entered; closures are not looked into).
func (fc *funcCFG) everyIterationPasses(fs *ast.ForStmt, event func(n ast.Node) bool) bool {
	var head, body *cfg.Block
	for _, b := range fc.g.Blocks {
		if b.Stmt == ast.Stmt(fs) {
			switch b.Kind {
			case cfg.KindForLoop:
				head = b
			case cfg.KindForBody:
				body = b
			}
		}
	}
	if head == nil {
		head = body
	}
	if head == nil {
		return false
	}
	has := func(b *cfg.Block) bool {
		for _, n := range b.Nodes {
			found := false
			ast.Inspect(n, func(m ast.Node) bool {
				if found || m == nil {
					return false
				}
				if _, isLit := m.(*ast.FuncLit); isLit {
					return false
				}
				if event(m) {
					found = true
				}
				return !found
			})
			if found {
				return true
			}
		}
		return false
	}
	if has(head) {
		return true
	}
	seen := map[*cfg.Block]bool{}
	var work []*cfg.Block
	push := func(b *cfg.Block) {
		if b.Kind == cfg.KindForDone && b.Stmt == ast.Stmt(fs) {
			return
		}
		if !seen[b] {
			seen[b] = true
			work = append(work, b)
		}
	}
	for _, s := range head.Succs {
		push(s)
	}
	for len(work) > 0 {
		b := work[len(work)-1]
		work = work[:len(work)-1]
		if b == head {
			return false
		}
		if has(b) {
			continue
		}
		for _, s := range b.Succs {
			push(s)
		}
	}
	return true
}

// ---------- lifting an obligation to the callers of a helper ----------

// paramIndexOf: e is an identifier naming the i-th parameter of f (-1 otherwise; the receiver is -2).
func paramIndexOf(f *Fn, e ast.Expr) int {
	id, ok := ast.Unparen(e).(*ast.Ident)
	if !ok {
		return -1
	}
	obj := f.Pkg.TypesInfo.Uses[id]
	if obj == nil {
		return -1
	}
	if f.Decl.Recv != nil {
		for _, fl := range f.Decl.Recv.List {
			for _, n := range fl.Names {
				if f.Pkg.TypesInfo.Defs[n] == obj {
					return -2
				}
			}
		}
	}
	i := 0
	for _, fl := range f.Decl.Type.Params.List {
		if len(fl.Names) == 0 {
			i++
			continue
		}
		for _, n := range fl.Names {
			if f.Pkg.TypesInfo.Defs[n] == obj {
				return i
			}
			i++
		}
	}
	return -1
}

// paramAssigned: the parameter is assigned (or its address taken) in the body, so it no longer stands for the argument.
func paramAssigned(f *Fn, e ast.Expr) bool {
	id, ok := ast.Unparen(e).(*ast.Ident)
	if !ok {
		return true
	}
	obj := f.Pkg.TypesInfo.Uses[id]
	bad := false
	ast.Inspect(f.Decl.Body, func(n ast.Node) bool {
		switch x := n.(type) {
		case *ast.AssignStmt:
			for _, l := range x.Lhs {
				if lid, ok := ast.Unparen(l).(*ast.Ident); ok && f.Pkg.TypesInfo.Uses[lid] == obj {
					bad = true
				}
			}
		case *ast.IncDecStmt:
			if lid, ok := ast.Unparen(x.X).(*ast.Ident); ok && f.Pkg.TypesInfo.Uses[lid] == obj {
				bad = true
			}
		case *ast.UnaryExpr:
			if lid, ok := ast.Unparen(x.X).(*ast.Ident); ok && x.Op == token.AND && f.Pkg.TypesInfo.Uses[lid] == obj {
				bad = true
			}
		}
		return true
	})
	return bad
}

type callSite struct {
	g    *Fn
	call *ast.CallExpr
}

// callersOf lists the static call sites of f in the library; ok is false when f can also be reached otherwise
// (exported and so callable from outside, used as a value, or an interface method).
func (c *Ctx) callersOf(f *Fn) (sites []callSite, ok bool) {
	ok = !f.Obj.Exported()
	for _, g := range c.libFns() {
		ast.Inspect(g.Decl.Body, func(n ast.Node) bool {
			switch x := n.(type) {
			case *ast.CallExpr:
				if cal := callee(g.Pkg, x); cal != nil && cal.Origin() == f.Obj.Origin() {
					sites = append(sites, callSite{g, x})
				}
			}
			return true
		})
		// uses of f that are not the function of a call: method values, function values
		inspectWithStack(g.Decl.Body, func(n ast.Node, stack []ast.Node) bool {
			id, isId := n.(*ast.Ident)
			if !isId || g.Pkg.TypesInfo.Uses[id] == nil {
				return true
			}
			if fo, isFn := g.Pkg.TypesInfo.Uses[id].(*types.Func); isFn && fo.Origin() == f.Obj.Origin() {
				// find the nearest enclosing call whose Fun contains this identifier
				asFun := false
				for i := len(stack) - 1; i >= 0; i-- {
					if call, isCall := stack[i].(*ast.CallExpr); isCall {
						if call.Fun.Pos() <= id.Pos() && id.End() <= call.Fun.End() {
							asFun = true
						}
						break
					}
				}
				if !asFun {
					ok = false
				}
			}
			return true
		})
	}
	return sites, ok
}

// argFor: the argument expression a call site passes for parameter index i (-2: the receiver expression).
func argFor(cs callSite, i int) ast.Expr {
	if i == -2 {
		if sel, ok := ast.Unparen(cs.call.Fun).(*ast.SelectorExpr); ok {
			return sel.X
		}
		return nil
	}
	if i >= 0 && i < len(cs.call.Args) && !cs.call.Ellipsis.IsValid() {
		return cs.call.Args[i]
	}
	return nil
}

// rebase rewrites an access path of f that is rooted at one of f's parameters (or its receiver) into the path the
// caller sees at the call site ("" when the root is not a parameter, or the parameter is reassigned in f).
func rebase(f *Fn, e ast.Expr, cs callSite) string {
	// find the root identifier
	root := ast.Unparen(e)
	for {
		switch x := root.(type) {
		case *ast.SelectorExpr:
			root = ast.Unparen(x.X)
			continue
		case *ast.StarExpr:
			root = ast.Unparen(x.X)
			continue
		}
		break
	}
	idx := paramIndexOf(f, root)
	if idx == -1 || paramAssigned(f, root) {
		return ""
	}
	arg := argFor(cs, idx)
	if arg == nil {
		return ""
	}
	full, rootPath, argPath := accessPath(f.Pkg, e), accessPath(f.Pkg, root), accessPath(cs.g.Pkg, arg)
	if full == "" || rootPath == "" || argPath == "" || !strings.HasPrefix(full, rootPath) {
		return ""
	}
	// a pointer receiver/argument written &x or a dereference keep the same fields
	return strings.TrimPrefix(argPath, "&") + strings.TrimPrefix(full, rootPath)
}

type condAtom struct {
	e     ast.Expr
	holds bool
}

// impliedAtoms: the atomic conditions whose truth value is known when `cond` evaluated to `val` (go/cfg keeps a
// compound condition in one node): !x flips; a && b true gives both true; a || b false gives both false.
func impliedAtoms(cond ast.Expr, val bool) []condAtom {
	switch x := ast.Unparen(cond).(type) {
	case *ast.UnaryExpr:
		if x.Op == token.NOT {
			return impliedAtoms(x.X, !val)
		}
	case *ast.BinaryExpr:
		switch {
		case x.Op == token.LAND && val, x.Op == token.LOR && !val:
			return append(impliedAtoms(x.X, val), impliedAtoms(x.Y, val)...)
		case x.Op == token.LAND, x.Op == token.LOR:
			return nil
		}
	}
	return []condAtom{{ast.Unparen(cond), val}}
}

// fieldSelNode: fieldSel for an arbitrary node.
func fieldSelNode(pk *packages.Package, n ast.Node) *types.Var {
	if e, ok := n.(ast.Expr); ok {
		return fieldSel(pk, e)
	}
	return nil
}
