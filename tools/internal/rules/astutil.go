package rules

// Helpers shared by the structural (AST + go/cfg + go/types) rules.

import (
	"fmt"
	"go/ast"
	"go/constant"
	"go/token"
	"go/types"
	"strings"

	"golang.org/x/tools/go/cfg"
	"golang.org/x/tools/go/packages"
	"golang.org/x/tools/go/types/typeutil"

	"jsverif/internal/prog"
)

// Fn bundles a declared function with its package.
type Fn struct {
	Obj  *types.Func
	Decl *ast.FuncDecl
	Pkg  *packages.Package
}

func (f *Fn) Name() string { return prog.FuncName(f.Obj) }

// fn resolves "pkgrel", "Name" or "Type.Method" to a declared function (nil if absent).
func (c *Ctx) fn(rel, name string) *Fn {
	obj := c.P.LookupFunc(rel, name)
	if obj == nil {
		return nil
	}
	d := c.P.Decl(obj)
	if d == nil || d.Body == nil {
		return nil
	}
	return &Fn{Obj: obj, Decl: d, Pkg: c.P.DeclPkg(obj)}
}

// fnOf wraps an already resolved function object.
func (c *Ctx) fnOf(obj *types.Func) *Fn {
	if obj == nil {
		return nil
	}
	d := c.P.Decl(obj)
	if d == nil || d.Body == nil {
		return nil
	}
	return &Fn{Obj: obj, Decl: d, Pkg: c.P.DeclPkg(obj)}
}

// libFns returns every function with a body in the library packages.
func (c *Ctx) libFns() []*Fn {
	var out []*Fn
	for _, f := range c.P.LibFuncs() {
		out = append(out, &Fn{Obj: f, Decl: c.P.Decl(f), Pkg: c.P.DeclPkg(f)})
	}
	return out
}

func (c *Ctx) pos(p token.Pos) string { return c.P.Pos(p) }

// callee resolves the static callee of a call (function or method), nil for dynamic calls.
func callee(pk *packages.Package, call *ast.CallExpr) *types.Func {
	f, _ := typeutil.Callee(pk.TypesInfo, call).(*types.Func)
	if f != nil {
		return f.Origin()
	}
	return nil
}

// fieldSel returns the field object selected by e (nil if e is not a field selection).
func fieldSel(pk *packages.Package, e ast.Expr) *types.Var {
	sel, ok := ast.Unparen(e).(*ast.SelectorExpr)
	if !ok {
		return nil
	}
	if s := pk.TypesInfo.Selections[sel]; s != nil && s.Kind() == types.FieldVal {
		v, _ := s.Obj().(*types.Var)
		return v
	}
	return nil
}

// accessPath normalises an expression made of identifiers, field selections, derefs and
// constant indices to a string built from object identities ("" if not such an expression).
func accessPath(pk *packages.Package, e ast.Expr) string {
	switch x := ast.Unparen(e).(type) {
	case *ast.Ident:
		obj := pk.TypesInfo.Uses[x]
		if obj == nil {
			obj = pk.TypesInfo.Defs[x]
		}
		if obj == nil {
			return ""
		}
		return fmt.Sprintf("%s#%d", x.Name, obj.Pos())
	case *ast.SelectorExpr:
		if f := fieldSel(pk, x); f != nil {
			b := accessPath(pk, x.X)
			if b == "" {
				return ""
			}
			return b + "." + f.Name()
		}
		// package-qualified identifier
		if id, ok := x.X.(*ast.Ident); ok {
			if _, isPkg := pk.TypesInfo.Uses[id].(*types.PkgName); isPkg {
				if obj := pk.TypesInfo.Uses[x.Sel]; obj != nil {
					return fmt.Sprintf("%s.%s", id.Name, x.Sel.Name)
				}
			}
		}
		return ""
	case *ast.StarExpr:
		b := accessPath(pk, x.X)
		if b == "" {
			return ""
		}
		return "*" + b
	case *ast.UnaryExpr:
		if x.Op == token.AND {
			b := accessPath(pk, x.X)
			if b == "" {
				return ""
			}
			return "&" + b
		}
	}
	return ""
}

// prettyPath strips the object ids from an access path for messages.
func prettyPath(p string) string {
	var sb strings.Builder
	skip := false
	for _, r := range p {
		if r == '#' {
			skip = true
			continue
		}
		if skip {
			if r >= '0' && r <= '9' {
				continue
			}
			skip = false
		}
		sb.WriteRune(r)
	}
	return sb.String()
}

func constString(pk *packages.Package, e ast.Expr) (string, bool) {
	if tv, ok := pk.TypesInfo.Types[e]; ok && tv.Value != nil && tv.Value.Kind() == constant.String {
		return constant.StringVal(tv.Value), true
	}
	return "", false
}

func constInt(pk *packages.Package, e ast.Expr) (int64, bool) {
	if tv, ok := pk.TypesInfo.Types[e]; ok && tv.Value != nil {
		if v, ok := constant.Int64Val(constant.ToInt(tv.Value)); ok {
			return v, true
		}
	}
	return 0, false
}

// constObj returns the constant object an expression names (through pkg qualifiers), nil otherwise.
func constObj(pk *packages.Package, e ast.Expr) *types.Const {
	switch x := ast.Unparen(e).(type) {
	case *ast.Ident:
		k, _ := pk.TypesInfo.Uses[x].(*types.Const)
		return k
	case *ast.SelectorExpr:
		k, _ := pk.TypesInfo.Uses[x.Sel].(*types.Const)
		return k
	}
	return nil
}

func isNil(pk *packages.Package, e ast.Expr) bool {
	id, ok := ast.Unparen(e).(*ast.Ident)
	if !ok {
		return false
	}
	_, isNilObj := pk.TypesInfo.Uses[id].(*types.Nil)
	return isNilObj
}

// namedType returns "pkgpath.Name" of a (pointer to) named type.
func namedType(t types.Type) string {
	if t == nil {
		return ""
	}
	if p, ok := t.(*types.Pointer); ok {
		t = p.Elem()
	}
	if n, ok := t.(*types.Named); ok && n.Obj() != nil {
		if n.Obj().Pkg() != nil {
			return n.Obj().Pkg().Path() + "." + n.Obj().Name()
		}
		return n.Obj().Name()
	}
	return ""
}

func isJApiErrorPtr(t types.Type) bool {
	return namedType(t) == prog.ModulePath+"/jerr.JApiError"
}

var errorIface = types.Universe.Lookup("error").Type().Underlying().(*types.Interface)

// isErrorLike: the type implements error (error itself, *jerr.JApiError, openapi.Error, ...).
func isErrorLike(t types.Type) bool {
	if t == nil {
		return false
	}
	if types.Implements(t, errorIface) {
		return true
	}
	return false
}

// ---------- CFG ----------

type funcCFG struct {
	g       *cfg.CFG
	where   map[ast.Node]*cfg.Block // statement/expression node -> block
	idx     map[ast.Node]int        // position inside the block
	caseTag map[ast.Expr]ast.Expr   // case expression of a tagged switch -> the tag (go/cfg branches on the bare case expression)
	// expand, when set, gives the returned expression of a predicate helper (`func p(..) bool { return <expr> }`) for a
	// call of it: the atoms of <expr> are then facts of the edge too (they speak in the helper's own parameter names)
	expand func(call *ast.CallExpr) ast.Expr
}

// cfgOf builds the CFG of f with predicate helpers of f's package opened up in edge facts.
func (c *Ctx) cfgOf(f *Fn) *funcCFG {
	fc := buildCFG(f.Decl.Body)
	fc.expand = func(call *ast.CallExpr) ast.Expr {
		cal := callee(f.Pkg, call)
		if cal == nil || cal.Pkg() != f.Pkg.Types {
			return nil
		}
		d := c.P.Decl(cal)
		if d == nil || d.Body == nil || len(d.Body.List) != 1 {
			return nil
		}
		if ret, ok := d.Body.List[0].(*ast.ReturnStmt); ok && len(ret.Results) == 1 {
			if b, ok := f.Pkg.TypesInfo.TypeOf(ret.Results[0]).Underlying().(*types.Basic); ok && b.Info()&types.IsBoolean != 0 {
				return ret.Results[0]
			}
		}
		return nil
	}
	return fc
}

func buildCFG(body *ast.BlockStmt) *funcCFG {
	g := cfg.New(body, func(call *ast.CallExpr) bool {
		if id, ok := call.Fun.(*ast.Ident); ok && id.Name == "panic" {
			return false
		}
		return true
	})
	fc := &funcCFG{g: g, where: map[ast.Node]*cfg.Block{}, idx: map[ast.Node]int{}, caseTag: map[ast.Expr]ast.Expr{}}
	ast.Inspect(body, func(n ast.Node) bool {
		if sw, ok := n.(*ast.SwitchStmt); ok && sw.Tag != nil {
			for _, cl := range sw.Body.List {
				for _, e := range cl.(*ast.CaseClause).List {
					fc.caseTag[e] = sw.Tag
				}
			}
		}
		return true
	})
	for _, b := range g.Blocks {
		for i, n := range b.Nodes {
			fc.where[n] = b
			fc.idx[n] = i
		}
	}
	return fc
}

// blockOf finds the CFG block and node index containing the syntax node n (n may be nested inside a CFG node).
func (fc *funcCFG) blockOf(n ast.Node) (*cfg.Block, int) {
	if b, ok := fc.where[n]; ok {
		return b, fc.idx[n]
	}
	for cn, b := range fc.where {
		if cn.Pos() <= n.Pos() && n.End() <= cn.End() {
			// choose the innermost enclosing CFG node
			best, bi := b, fc.idx[cn]
			bestLen := cn.End() - cn.Pos()
			for cn2, b2 := range fc.where {
				if cn2.Pos() <= n.Pos() && n.End() <= cn2.End() && cn2.End()-cn2.Pos() < bestLen {
					best, bi, bestLen = b2, fc.idx[cn2], cn2.End()-cn2.Pos()
				}
			}
			return best, bi
		}
	}
	return nil, 0
}

// dominatedBy: every path from the function entry to `target` passes through `guard`.
func (fc *funcCFG) dominatedBy(target, guard ast.Node) bool {
	tb, ti := fc.blockOf(target)
	gb, gi := fc.blockOf(guard)
	if tb == nil || gb == nil {
		return false
	}
	if tb == gb {
		return gi <= ti
	}
	// reachability from entry to tb avoiding gb
	seen := map[*cfg.Block]bool{}
	var work []*cfg.Block
	entry := fc.g.Blocks[0]
	if entry == gb {
		return true
	}
	work = append(work, entry)
	seen[entry] = true
	for len(work) > 0 {
		b := work[len(work)-1]
		work = work[:len(work)-1]
		if b == tb {
			return false
		}
		for _, s := range b.Succs {
			if s != gb && !seen[s] {
				seen[s] = true
				work = append(work, s)
			}
		}
	}
	return true
}

// reachesWithout: can `to` be reached from `from` (exclusive) without passing `avoid`?
func (fc *funcCFG) reachesWithout(from, to, avoid ast.Node) bool {
	fb, fi := fc.blockOf(from)
	tb, ti := fc.blockOf(to)
	if fb == nil || tb == nil {
		return true
	}
	var ab *cfg.Block
	ai := -1
	if avoid != nil {
		ab, ai = fc.blockOf(avoid)
	}
	if fb == tb && fi < ti {
		if ab == fb && ai > fi && ai < ti {
			// only the straight-line path inside the block is blocked; other paths may loop round
		} else {
			return true
		}
	}
	seen := map[*cfg.Block]bool{}
	var work []*cfg.Block
	if ab == fb && ai > fi {
		return false
	}
	for _, s := range fb.Succs {
		if !seen[s] {
			seen[s] = true
			work = append(work, s)
		}
	}
	for len(work) > 0 {
		b := work[len(work)-1]
		work = work[:len(work)-1]
		if b == tb {
			if ab == b && ai < ti {
				continue
			}
			return true
		}
		if b == ab {
			continue
		}
		for _, s := range b.Succs {
			if !seen[s] {
				seen[s] = true
				work = append(work, s)
			}
		}
	}
	return false
}

// ---------- statement shapes ----------

// returnsNonNilError: the statement list ends in (or is) a return whose error-like result is not the nil literal.
func returnsNonNilError(pk *packages.Package, list []ast.Stmt) bool {
	if len(list) == 0 {
		return false
	}
	r, ok := list[len(list)-1].(*ast.ReturnStmt)
	if !ok || len(r.Results) == 0 {
		return false
	}
	for _, e := range r.Results {
		t := pk.TypesInfo.TypeOf(e)
		if isNil(pk, e) {
			continue
		}
		if t != nil && isErrorLike(t) {
			return true
		}
	}
	return false
}

// enclosingFuncBodies walks all statements of a function including closures, calling f for each node with the stack.
func inspectWithStack(root ast.Node, f func(n ast.Node, stack []ast.Node) bool) {
	var stack []ast.Node
	ast.Inspect(root, func(n ast.Node) bool {
		if n == nil {
			stack = stack[:len(stack)-1]
			return true
		}
		ok := f(n, stack)
		if ok {
			stack = append(stack, n)
		}
		return ok
	})
}

// callsIn lists calls to target (by object identity) inside root.
func callsIn(pk *packages.Package, root ast.Node, target *types.Func) []*ast.CallExpr {
	var out []*ast.CallExpr
	ast.Inspect(root, func(n ast.Node) bool {
		if call, ok := n.(*ast.CallExpr); ok && callee(pk, call) == target {
			out = append(out, call)
		}
		return true
	})
	return out
}

func exprString(e ast.Expr) string { return types.ExprString(e) }

// ---------- edge facts ----------

// establishedAt decides a must-fact by forward dataflow over the CFG: the fact is established on the edge out of a
// condition block (establishes(cond, edgeIsTrue)), killed by a node (kills(node)), and holds at `target` when it holds
// on every path from the function entry. It is independent of the statement form (if / else / switch case / loop
// condition / && and || operands: go/cfg gives each operand its own block).
func (fc *funcCFG) establishedAt(target ast.Node, establishes func(cond ast.Expr, trueEdge bool) bool, kills func(n ast.Node) bool) bool {
	tb, ti := fc.blockOf(target)
	if tb == nil {
		return false
	}
	blocks := fc.g.Blocks
	in := map[*cfg.Block]bool{}
	for _, b := range blocks {
		in[b] = true
	}
	in[blocks[0]] = false
	preds := map[*cfg.Block][][2]any{}
	for _, b := range blocks {
		for i, s := range b.Succs {
			preds[s] = append(preds[s], [2]any{b, i})
		}
	}
	outOf := func(b *cfg.Block, edge int) bool {
		v := in[b]
		for _, n := range b.Nodes {
			if kills != nil && kills(n) {
				v = false
			}
		}
		if len(b.Succs) == 2 && len(b.Nodes) > 0 {
			if cond, ok := b.Nodes[len(b.Nodes)-1].(ast.Expr); ok {
				if tag, isCase := fc.caseTag[cond]; isCase {
					// `switch tag { case cond:` is the condition tag == cond
					cond = &ast.BinaryExpr{X: tag, Op: token.EQL, Y: cond}
				}
				for _, a := range impliedAtomsX(cond, edge == 0, fc.expand, 0) {
					if establishes(a.e, a.holds) {
						v = true
					}
				}
			}
		}
		return v
	}
	for changed := true; changed; {
		changed = false
		for _, b := range blocks {
			if b == blocks[0] {
				continue
			}
			v := true
			if len(preds[b]) == 0 {
				v = true // unreachable block
			}
			for _, p := range preds[b] {
				if !outOf(p[0].(*cfg.Block), p[1].(int)) {
					v = false
					break
				}
			}
			if v != in[b] {
				in[b] = v
				changed = true
			}
		}
	}
	v := in[tb]
	for i := 0; i < ti && i < len(tb.Nodes); i++ {
		if kills != nil && kills(tb.Nodes[i]) {
			v = false
		}
	}
	return v
}

// everyIterationPasses: every path in the CFG from the head of the loop round to the head again passes a node that
// contains an event (the loop's own exit block is never entered; closures are not looked into).
func (fc *funcCFG) everyIterationPasses(fs *ast.ForStmt, event func(n ast.Node) bool) bool {
	return fc.everyRoundPasses(fs, event)
}

// everyRoundPasses is everyIterationPasses for a for or a range statement.
func (fc *funcCFG) everyRoundPasses(fs ast.Stmt, event func(n ast.Node) bool) bool {
	var head, body *cfg.Block
	for _, b := range fc.g.Blocks {
		if b.Stmt == fs {
			switch b.Kind {
			case cfg.KindForLoop, cfg.KindRangeLoop:
				head = b
			case cfg.KindForBody, cfg.KindRangeBody:
				body = b
			}
		}
	}
	if head == nil {
		head = body
	}
	if head == nil {
		return false
	}
	has := func(b *cfg.Block) bool {
		for _, n := range b.Nodes {
			found := false
			ast.Inspect(n, func(m ast.Node) bool {
				if found || m == nil {
					return false
				}
				if _, isLit := m.(*ast.FuncLit); isLit {
					return false
				}
				if event(m) {
					found = true
				}
				return !found
			})
			if found {
				return true
			}
		}
		return false
	}
	if has(head) {
		return true
	}
	seen := map[*cfg.Block]bool{}
	var work []*cfg.Block
	push := func(b *cfg.Block) {
		if (b.Kind == cfg.KindForDone || b.Kind == cfg.KindRangeDone) && b.Stmt == fs {
			return
		}
		if !seen[b] {
			seen[b] = true
			work = append(work, b)
		}
	}
	for _, s := range head.Succs {
		push(s)
	}
	for len(work) > 0 {
		b := work[len(work)-1]
		work = work[:len(work)-1]
		if b == head {
			return false
		}
		if has(b) {
			continue
		}
		for _, s := range b.Succs {
			push(s)
		}
	}
	return true
}

// ---------- lifting an obligation to the callers of a helper ----------

// paramIndexOf: e is an identifier naming the i-th parameter of f (-1 otherwise; the receiver is -2).
func paramIndexOf(f *Fn, e ast.Expr) int {
	id, ok := ast.Unparen(e).(*ast.Ident)
	if !ok {
		return -1
	}
	obj := f.Pkg.TypesInfo.Uses[id]
	if obj == nil {
		return -1
	}
	if f.Decl.Recv != nil {
		for _, fl := range f.Decl.Recv.List {
			for _, n := range fl.Names {
				if f.Pkg.TypesInfo.Defs[n] == obj {
					return -2
				}
			}
		}
	}
	i := 0
	for _, fl := range f.Decl.Type.Params.List {
		if len(fl.Names) == 0 {
			i++
			continue
		}
		for _, n := range fl.Names {
			if f.Pkg.TypesInfo.Defs[n] == obj {
				return i
			}
			i++
		}
	}
	return -1
}

// paramAssigned: the parameter is assigned (or its address taken) in the body, so it no longer stands for the argument.
func paramAssigned(f *Fn, e ast.Expr) bool {
	id, ok := ast.Unparen(e).(*ast.Ident)
	if !ok {
		return true
	}
	obj := f.Pkg.TypesInfo.Uses[id]
	bad := false
	ast.Inspect(f.Decl.Body, func(n ast.Node) bool {
		switch x := n.(type) {
		case *ast.AssignStmt:
			for _, l := range x.Lhs {
				if lid, ok := ast.Unparen(l).(*ast.Ident); ok && f.Pkg.TypesInfo.Uses[lid] == obj {
					bad = true
				}
			}
		case *ast.IncDecStmt:
			if lid, ok := ast.Unparen(x.X).(*ast.Ident); ok && f.Pkg.TypesInfo.Uses[lid] == obj {
				bad = true
			}
		case *ast.UnaryExpr:
			if lid, ok := ast.Unparen(x.X).(*ast.Ident); ok && x.Op == token.AND && f.Pkg.TypesInfo.Uses[lid] == obj {
				bad = true
			}
		}
		return true
	})
	return bad
}

type callSite struct {
	g    *Fn
	call *ast.CallExpr
}

// callersOf lists the static call sites of f in the library; ok is false when f can also be reached otherwise
// (exported and so callable from outside, used as a value, or an interface method).
func (c *Ctx) callersOf(f *Fn) (sites []callSite, ok bool) {
	ok = !f.Obj.Exported()
	for _, g := range c.libFns() {
		ast.Inspect(g.Decl.Body, func(n ast.Node) bool {
			switch x := n.(type) {
			case *ast.CallExpr:
				if cal := callee(g.Pkg, x); cal != nil && cal.Origin() == f.Obj.Origin() {
					sites = append(sites, callSite{g, x})
				}
			}
			return true
		})
		// uses of f that are not the function of a call: method values, function values
		inspectWithStack(g.Decl.Body, func(n ast.Node, stack []ast.Node) bool {
			id, isId := n.(*ast.Ident)
			if !isId || g.Pkg.TypesInfo.Uses[id] == nil {
				return true
			}
			if fo, isFn := g.Pkg.TypesInfo.Uses[id].(*types.Func); isFn && fo.Origin() == f.Obj.Origin() {
				// find the nearest enclosing call whose Fun contains this identifier
				asFun := false
				for i := len(stack) - 1; i >= 0; i-- {
					if call, isCall := stack[i].(*ast.CallExpr); isCall {
						if call.Fun.Pos() <= id.Pos() && id.End() <= call.Fun.End() {
							asFun = true
						}
						break
					}
				}
				if !asFun {
					ok = false
				}
			}
			return true
		})
	}
	return sites, ok
}

// argFor: the argument expression a call site passes for parameter index i (-2: the receiver expression).
func argFor(cs callSite, i int) ast.Expr {
	if i == -2 {
		if sel, ok := ast.Unparen(cs.call.Fun).(*ast.SelectorExpr); ok {
			return sel.X
		}
		return nil
	}
	if i >= 0 && i < len(cs.call.Args) && !cs.call.Ellipsis.IsValid() {
		return cs.call.Args[i]
	}
	return nil
}

// rebase rewrites an access path of f that is rooted at one of f's parameters (or its receiver) into the path the
// caller sees at the call site ("" when the root is not a parameter, or the parameter is reassigned in f).
func rebase(f *Fn, e ast.Expr, cs callSite) string {
	// find the root identifier
	root := ast.Unparen(e)
	for {
		switch x := root.(type) {
		case *ast.SelectorExpr:
			root = ast.Unparen(x.X)
			continue
		case *ast.StarExpr:
			root = ast.Unparen(x.X)
			continue
		}
		break
	}
	idx := paramIndexOf(f, root)
	if idx == -1 || paramAssigned(f, root) {
		return ""
	}
	arg := argFor(cs, idx)
	if arg == nil {
		return ""
	}
	full, rootPath, argPath := accessPath(f.Pkg, e), accessPath(f.Pkg, root), accessPath(cs.g.Pkg, arg)
	if full == "" || rootPath == "" || argPath == "" || !strings.HasPrefix(full, rootPath) {
		return ""
	}
	// a pointer receiver/argument written &x or a dereference keep the same fields
	return strings.TrimPrefix(argPath, "&") + strings.TrimPrefix(full, rootPath)
}

type condAtom struct {
	e     ast.Expr
	holds bool
}

// impliedAtoms: the atomic conditions whose truth value is known when `cond` evaluated to `val` (go/cfg keeps a
// compound condition in one node): !x flips; a && b true gives both true; a || b false gives both false.
func impliedAtoms(cond ast.Expr, val bool) []condAtom {
	switch x := ast.Unparen(cond).(type) {
	case *ast.UnaryExpr:
		if x.Op == token.NOT {
			return impliedAtoms(x.X, !val)
		}
	case *ast.BinaryExpr:
		switch {
		case x.Op == token.LAND && val, x.Op == token.LOR && !val:
			return append(impliedAtoms(x.X, val), impliedAtoms(x.Y, val)...)
		case x.Op == token.LAND, x.Op == token.LOR:
			return nil
		}
	}
	return []condAtom{{ast.Unparen(cond), val}}
}

// impliedAtomsX is impliedAtoms with predicate helpers opened up (depth-bounded).
func impliedAtomsX(cond ast.Expr, val bool, expand func(*ast.CallExpr) ast.Expr, depth int) []condAtom {
	atoms := impliedAtoms(cond, val)
	if expand == nil || depth > 3 {
		return atoms
	}
	out := atoms
	for _, a := range atoms {
		if call, ok := a.e.(*ast.CallExpr); ok {
			if body := expand(call); body != nil {
				out = append(out, impliedAtomsX(body, a.holds, expand, depth+1)...)
			}
		}
	}
	return out
}

// fieldSelNode: fieldSel for an arbitrary node.
func fieldSelNode(pk *packages.Package, n ast.Node) *types.Var {
	if e, ok := n.(ast.Expr); ok {
		return fieldSel(pk, e)
	}
	return nil
}

// soleDef: e names a local variable of f with exactly one definition `x := rhs` (one value on each side), never
// assigned again, never incremented and never address-taken; the right-hand side is returned (nil otherwise).
func soleDef(f *Fn, e ast.Expr) ast.Expr {
	id, ok := ast.Unparen(e).(*ast.Ident)
	if !ok {
		return nil
	}
	obj, _ := f.Pkg.TypesInfo.Uses[id].(*types.Var)
	if obj == nil || obj.IsField() || obj.Parent() == nil || obj.Parent() == f.Pkg.Types.Scope() {
		return nil
	}
	var rhs ast.Expr
	n := 0
	ast.Inspect(f.Decl, func(nd ast.Node) bool {
		switch x := nd.(type) {
		case *ast.AssignStmt:
			for i, l := range x.Lhs {
				lid, ok := ast.Unparen(l).(*ast.Ident)
				if !ok {
					continue
				}
				if f.Pkg.TypesInfo.Defs[lid] == obj || f.Pkg.TypesInfo.Uses[lid] == obj {
					n++
					if x.Tok == token.DEFINE && len(x.Lhs) == len(x.Rhs) {
						rhs = x.Rhs[i]
					} else {
						n++
					}
				}
			}
		case *ast.IncDecStmt:
			if lid, ok := ast.Unparen(x.X).(*ast.Ident); ok && f.Pkg.TypesInfo.Uses[lid] == obj {
				n += 2
			}
		case *ast.UnaryExpr:
			if lid, ok := ast.Unparen(x.X).(*ast.Ident); ok && x.Op == token.AND && f.Pkg.TypesInfo.Uses[lid] == obj {
				n += 2
			}
		case *ast.RangeStmt:
			for _, l := range []ast.Expr{x.Key, x.Value} {
				if lid, ok := l.(*ast.Ident); ok && (f.Pkg.TypesInfo.Defs[lid] == obj || f.Pkg.TypesInfo.Uses[lid] == obj) {
					n += 2
				}
			}
		case *ast.ValueSpec:
			for _, nm := range x.Names {
				if f.Pkg.TypesInfo.Defs[nm] == obj {
					n += 2
				}
			}
		}
		return true
	})
	if n == 1 {
		return rhs
	}
	return nil
}

// unalias follows soleDef while the expression is a local with one definition.
func unalias(f *Fn, e ast.Expr) ast.Expr {
	for i := 0; i < 4; i++ {
		d := soleDef(f, e)
		if d == nil {
			break
		}
		e = d
	}
	return ast.Unparen(e)
}

// alwaysNonNil: a function of the module every return of which yields, as its (single or last) result, the address of
// a composite literal, the result of another such function, or of errors.New / fmt.Errorf (AST-level summary; a local
// with one definition is followed).
func (c *Ctx) alwaysNonNil(f *types.Func) bool {
	if c.nonNilMemo == nil {
		c.nonNilMemo = map[*types.Func]int{}
	}
	f = f.Origin()
	switch c.nonNilMemo[f] {
	case 1:
		return true
	case 2, 3:
		return false
	}
	c.nonNilMemo[f] = 3
	res := func() bool {
		if f.Pkg() != nil && !c.P.IsLibPkg(f.Pkg()) {
			full := f.Pkg().Path() + "." + f.Name()
			return full == "errors.New" || full == "fmt.Errorf"
		}
		fn := c.fnOf(f)
		if fn == nil || fn.Decl.Body == nil {
			return false
		}
		ok, n := true, 0
		ast.Inspect(fn.Decl.Body, func(nd ast.Node) bool {
			if _, isLit := nd.(*ast.FuncLit); isLit {
				return false
			}
			ret, isRet := nd.(*ast.ReturnStmt)
			if !isRet {
				return true
			}
			n++
			if len(ret.Results) == 0 {
				ok = false
				return true
			}
			e := unalias(fn, ret.Results[len(ret.Results)-1])
			switch x := e.(type) {
			case *ast.UnaryExpr:
				if _, isCL := ast.Unparen(x.X).(*ast.CompositeLit); !(x.Op == token.AND && isCL) {
					ok = false
				}
			case *ast.CallExpr:
				if cal := callee(fn.Pkg, x); cal == nil || !c.alwaysNonNil(cal) {
					ok = false
				}
			default:
				ok = false
			}
			return true
		})
		return ok && n > 0
	}()
	if res {
		c.nonNilMemo[f] = 1
	} else {
		c.nonNilMemo[f] = 2
	}
	return res
}

// stableExpr renders an expression by the origin of its parts instead of local names: the receiver is "recv", the i-th
// parameter "param#i", a local with one definition is replaced by that definition, a local defined by a multi-valued
// call is "result#k of <callee>", a range variable is "elem of <collection>" (stack: the enclosing nodes of e).
func (c *Ctx) stableExpr(f *Fn, e ast.Expr, stack []ast.Node) string {
	return c.stableExprD(f, e, stack, 0)
}

func (c *Ctx) stableExprD(f *Fn, e ast.Expr, stack []ast.Node, depth int) string {
	e = ast.Unparen(e)
	if depth > 6 {
		return exprString(e)
	}
	pk := f.Pkg
	switch x := e.(type) {
	case *ast.SelectorExpr:
		if _, isPkg := pk.TypesInfo.Uses[identOf(x.X)].(*types.PkgName); isPkg {
			return exprString(e)
		}
		return c.stableExprD(f, x.X, stack, depth+1) + "." + x.Sel.Name
	case *ast.StarExpr:
		return "*" + c.stableExprD(f, x.X, stack, depth+1)
	case *ast.Ident:
		obj, _ := pk.TypesInfo.Uses[x].(*types.Var)
		if obj == nil {
			return x.Name
		}
		switch i := paramIndexOf(f, x); {
		case i == -2:
			return "recv"
		case i >= 0:
			return fmt.Sprintf("param#%d", i)
		}
		if d := soleDef(f, x); d != nil {
			return c.stableExprD(f, d, stack, depth+1)
		}
		// range variable / multi-valued definition
		res := ""
		ast.Inspect(f.Decl.Body, func(n ast.Node) bool {
			switch y := n.(type) {
			case *ast.RangeStmt:
				for _, v := range []ast.Expr{y.Key, y.Value} {
					if vid, ok := v.(*ast.Ident); ok && pk.TypesInfo.Defs[vid] == obj {
						res = "elem of " + c.stableExprD(f, y.X, stack, depth+1)
					}
				}
			case *ast.AssignStmt:
				if y.Tok == token.DEFINE && len(y.Rhs) == 1 && len(y.Lhs) > 1 {
					for k, l := range y.Lhs {
						if lid, ok := l.(*ast.Ident); ok && pk.TypesInfo.Defs[lid] == obj {
							if call, ok := ast.Unparen(y.Rhs[0]).(*ast.CallExpr); ok {
								if cal := callee(pk, call); cal != nil {
									res = fmt.Sprintf("result#%d of %s", k, cal.Name())
								}
							}
						}
					}
				}
			}
			return true
		})
		if res != "" {
			return res
		}
		return x.Name
	}
	return exprString(e)
}

// stripRef drops dereferences and address-of: `*d`, `&d` and `d` name the same directive for a fact about it.
func stripRef(e ast.Expr) ast.Expr {
	for {
		e = ast.Unparen(e)
		switch x := e.(type) {
		case *ast.StarExpr:
			e = x.X
			continue
		case *ast.UnaryExpr:
			if x.Op == token.AND {
				e = x.X
				continue
			}
		}
		return e
	}
}

// establishedUpward: the fact about `subj` is established (edge facts, predicate helpers opened) at `site` in f, or --
// when subj is an unassigned parameter (or the receiver) of f and every use of f is a static call -- at every call
// site of f about the argument passed, recursively (three levels).
func (c *Ctx) establishedUpward(f *Fn, site ast.Node, subj ast.Expr, fact func(g *Fn, cond ast.Expr, holds bool, subj ast.Expr) bool, depth int) bool {
	subj = stripRef(subj)
	if c.cfgOf(f).establishedAt(site, func(cond ast.Expr, holds bool) bool { return fact(f, cond, holds, subj) }, nil) {
		return true
	}
	if depth >= 3 {
		return false
	}
	i := paramIndexOf(f, subj)
	if i == -1 || (i >= 0 && paramAssigned(f, subj)) {
		return false
	}
	sites, ok := c.callersOf(f)
	if !ok || len(sites) == 0 {
		return false
	}
	for _, cs := range sites {
		arg := argFor(cs, i)
		if arg == nil || !c.establishedUpward(cs.g, cs.call, arg, fact, depth+1) {
			return false
		}
	}
	return true
}

// affineOf writes an integer expression as base + off with locals followed through their one definition (base is nil
// for a constant).
func affineOf(f *Fn, e ast.Expr) (base ast.Expr, off int64, ok bool) {
	e = unalias(f, e)
	if k, isK := constInt(f.Pkg, e); isK {
		return nil, k, true
	}
	if be, isB := e.(*ast.BinaryExpr); isB && (be.Op == token.ADD || be.Op == token.SUB) {
		if k, isK := constInt(f.Pkg, be.Y); isK {
			b, o, ok := affineOf(f, be.X)
			if !ok {
				return nil, 0, false
			}
			if be.Op == token.SUB {
				k = -k
			}
			return b, o + k, true
		}
	}
	return e, 0, true
}

// excludesZero: the comparison `cond` having the truth value `holds` rules out base == 0, where base is the integer
// expression rendered as baseStr (by exprString of the unaliased expression): i == -1 false with i = base-1,
// base == 0 false, base > 0 true, ...
func excludesZero(f *Fn, cond ast.Expr, holds bool, baseStr string) bool {
	be, ok := ast.Unparen(cond).(*ast.BinaryExpr)
	if !ok {
		return false
	}
	lb, lo, ok1 := affineOf(f, be.X)
	rb, ro, ok2 := affineOf(f, be.Y)
	if !ok1 || !ok2 {
		return false
	}
	op := be.Op
	if lb == nil && rb != nil {
		lb, lo, rb, ro = rb, ro, lb, lo
		switch op {
		case token.LSS:
			op = token.GTR
		case token.GTR:
			op = token.LSS
		case token.LEQ:
			op = token.GEQ
		case token.GEQ:
			op = token.LEQ
		}
	}
	if lb == nil || rb != nil || exprString(lb) != baseStr {
		return false
	}
	// truth of (0 + lo) op ro
	var at0 bool
	switch op {
	case token.EQL:
		at0 = lo == ro
	case token.NEQ:
		at0 = lo != ro
	case token.LSS:
		at0 = lo < ro
	case token.LEQ:
		at0 = lo <= ro
	case token.GTR:
		at0 = lo > ro
	case token.GEQ:
		at0 = lo >= ro
	default:
		return false
	}
	return at0 != holds
}

// definingCall: the call that defines the local e, as its only definition, in a single- or multi-valued `:=`
// (k is the position of e among the results).
func definingCall(f *Fn, e ast.Expr) (call *ast.CallExpr, k int) {
	id := identOf(e)
	if id == nil {
		return nil, 0
	}
	obj := f.Pkg.TypesInfo.Uses[id]
	if obj == nil {
		obj = f.Pkg.TypesInfo.Defs[id]
	}
	n := 0
	ast.Inspect(f.Decl, func(nd ast.Node) bool {
		as, ok := nd.(*ast.AssignStmt)
		if !ok {
			return true
		}
		for i, l := range as.Lhs {
			lid := identOf(l)
			if lid == nil || (f.Pkg.TypesInfo.Defs[lid] != obj && f.Pkg.TypesInfo.Uses[lid] != obj) {
				continue
			}
			n++
			if as.Tok == token.DEFINE && len(as.Rhs) == 1 {
				if cl, ok := ast.Unparen(as.Rhs[0]).(*ast.CallExpr); ok {
					call, k = cl, i
				}
			} else if as.Tok == token.DEFINE && len(as.Rhs) == len(as.Lhs) {
				if cl, ok := ast.Unparen(as.Rhs[i]).(*ast.CallExpr); ok {
					call, k = cl, 0
				}
			}
		}
		return true
	})
	if n != 1 {
		return nil, 0
	}
	return call, k
}

// membershipPredicate: g is `func(..) bool { _, ok := <map>[<parameter>]; return ok }` (or `return <map>[<parameter>]`
// on a map of bool): a membership test of a map under a name.
func (c *Ctx) membershipPredicate(g *types.Func) bool {
	f := c.fnOf(g)
	if f == nil || f.Decl.Body == nil {
		return false
	}
	list := f.Decl.Body.List
	pk := f.Pkg
	switch len(list) {
	case 1:
		ret, ok := list[0].(*ast.ReturnStmt)
		if !ok || len(ret.Results) != 1 {
			return false
		}
		_, _, isIdx := indexOn(pk, ret.Results[0])
		return isIdx
	case 2:
		as, ok := list[0].(*ast.AssignStmt)
		ret, ok2 := list[1].(*ast.ReturnStmt)
		if !ok || !ok2 || len(as.Lhs) != 2 || len(as.Rhs) != 1 || len(ret.Results) != 1 {
			return false
		}
		if _, _, isIdx := indexOn(pk, as.Rhs[0]); !isIdx {
			return false
		}
		okId, rid := identOf(as.Lhs[1]), identOf(ret.Results[0])
		return okId != nil && rid != nil && pk.TypesInfo.Uses[rid] == pk.TypesInfo.Defs[okId]
	}
	return false
}

// reachesAvoiding: can `to` be reached from just after `from` along a path that passes none of the `avoid` nodes?
// Decided at node granularity on the CFG (an avoid node in the same block before `to` blocks the straight path).
func (fc *funcCFG) reachesAvoiding(from, to ast.Node, avoid []ast.Node) bool {
	fb, fi := fc.blockOf(from)
	tb, ti := fc.blockOf(to)
	if fb == nil || tb == nil {
		return true
	}
	type at struct {
		b *cfg.Block
		i int
	}
	av := map[at]bool{}
	for _, a := range avoid {
		if b, i := fc.blockOf(a); b != nil {
			av[at{b, i}] = true
		}
	}
	seen := map[*cfg.Block]bool{}
	// walk the rest of a block from index i; true when `to` is met first
	var walk func(b *cfg.Block, i int) bool
	walk = func(b *cfg.Block, i int) bool {
		for ; i < len(b.Nodes); i++ {
			if b == tb && i == ti {
				return true
			}
			if av[at{b, i}] {
				return false
			}
		}
		for _, s := range b.Succs {
			if seen[s] {
				continue
			}
			seen[s] = true
			if walk(s, 0) {
				return true
			}
		}
		return false
	}
	return walk(fb, fi+1)
}

// reachesFromEntryAvoiding: can `to` be reached from the function entry along a path that passes none of `avoid`?
func (fc *funcCFG) reachesFromEntryAvoiding(to ast.Node, avoid []ast.Node) bool {
	tb, ti := fc.blockOf(to)
	if tb == nil || len(fc.g.Blocks) == 0 {
		return true
	}
	type at struct {
		b *cfg.Block
		i int
	}
	av := map[at]bool{}
	for _, a := range avoid {
		if b, i := fc.blockOf(a); b != nil {
			av[at{b, i}] = true
		}
	}
	seen := map[*cfg.Block]bool{}
	var walk func(b *cfg.Block) bool
	walk = func(b *cfg.Block) bool {
		for i := 0; i < len(b.Nodes); i++ {
			if b == tb && i == ti {
				return true
			}
			if av[at{b, i}] {
				return false
			}
		}
		for _, s := range b.Succs {
			if !seen[s] {
				seen[s] = true
				if walk(s) {
					return true
				}
			}
		}
		return false
	}
	seen[fc.g.Blocks[0]] = true
	return walk(fc.g.Blocks[0])
}

// paramObjAt: the object of the i-th parameter of f (nil when unnamed).
func paramObjAt(f *Fn, i int) types.Object {
	k := 0
	for _, fl := range f.Decl.Type.Params.List {
		if len(fl.Names) == 0 {
			k++
			continue
		}
		for _, nm := range fl.Names {
			if k == i {
				return f.Pkg.TypesInfo.Defs[nm]
			}
			k++
		}
	}
	return nil
}
