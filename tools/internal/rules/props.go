package rules

import (
	"fmt"

	"jsverif/internal/scanfsm"
)

func init() {
	register("C13", propC13, false, false)
	register("C12", propC12, false, false)
	register("C08", propC08, false, false)
}

func propC08(c *Ctx) {
	c.R.Explanation = "Decides the scanner-level symmetries that are necessary for layout independence, for ALL inputs, on the automaton extracted from the step functions: LF==CR and SP==TAB in every state, comments push/pop/re-feed, blank lines are event-free and idempotent, // and /* */ are both available and '*/' always closes. Not decided: equality of catalogs under rewrites (a behavioural round trip), de-indentation of Description text."
	m := c.E1Base()
	if m == nil {
		return
	}
	c.ruleC08Scanner(m)
	c.ruleUnquote()
	c.ruleNormalisers()
	c.ruleDescriptionBlankLines("C08-DESCRIPTION-BLANK-LINES")
	c.ruleNotesLineEnds("C08-NOTES-LINE-ENDS")
	c.ruleNextDirectiveRecognised("C08-NEXT-DIRECTIVE") // a tab after the keyword is as good as a blank
	c.ruleBlankPairs("C08-BLANK-PAIRS")
	c.ruleSchemaExtentByDependency("C08-SCHEMA-EXTENT")
	c.ruleRegexPreludeComment("C08-REGEX-PRELUDE-COMMENT")
	c.ruleCommentBeforeOpen("C08-COMMENT-BEFORE-OPEN")
	c.ruleCommentStartTotal("C08-COMMENT-START-TOTAL")
	c.ruleFinalNewline("C08-FINAL-NEWLINE")
	c.ruleOpenTransparent(m, "C08-OPEN-TRANSPARENT") // a body in explicit parentheses is the body without them
	c.ruleC14NameIsPath()                            // blank lines in front of a file move its errors: the content of a file object is the file's bytes
	if c.R.Tier == "thorough" {
		c.thoroughScanner(m, "C08")
	}
}

// thoroughScanner repeats the pushdown exploration with a deeper stack bound and with byte 0 as an ordinary byte, and
// reports every finding of the kinds that belong to the property.
func (c *Ctx) thoroughScanner(m *scanfsm.Machine, prop string) {
	r := c.R
	r.Rule("E1-THOROUGH", "the exploration is repeated with stack bound k=9 and, separately, with byte 0 treated as an ordinary byte (no NUL guard assumed); every finding of any kind is reported", 2)
	for _, v := range []struct {
		k    int
		pess bool
	}{{9, false}, {stackK, true}} {
		a := m.Analyse(v.k, v.pess)
		label := fmt.Sprintf("k=%d", v.k)
		if v.pess {
			label += ", byte 0 ordinary"
		}
		bad := 0
		for _, f := range a.Findings {
			if v.pess && (f.Kind == "bracket" || f.Kind == "underflow" || f.Kind == "extent" || f.Kind == "order") {
				// with NUL as an ordinary byte the EOF branches of the step functions run in the middle of the data: what
				// they break is exactly why Next() rejects NUL; the guard is checked separately (E1-EXTRACT nul-guard)
				continue
			}
			bad++
			r.Bad("E1-THOROUGH", label+": "+f.Kind+" "+f.Key, f.Text+"; trace "+f.Trace, c.P.Pos(m.Pos[f.State]))
		}
		if bad == 0 {
			r.Ok("E1-THOROUGH", label, fmt.Sprintf("%d configurations, %d transitions, nothing found", a.Configs, a.Transitions), "")
		}
	}
}

func propC13(c *Ctx) {
	c.R.Level = "model_checking"
	c.R.Explanation = "Decides the scanner clause of C13 for ALL byte strings: the automaton is extracted from the source of the 170 step functions by partial evaluation per byte (nothing is executed) and the set of accepted keyword words is compared, as a language, with the directive table read from package directive; terminator set, error position and table agreement are checked on the same extracted model. traces_validated_against_impl is 0 by construction (static technique). Not decided: behaviour of core after the scanner (the 'unknown directive' message is covered by C13-REACHABLE table agreement only)."
	m := c.E1Base()
	if m == nil {
		return
	}
	t := c.Tables()
	c.ruleC13(m, t)
	// where a file starts, exactly what may start a line may stand (no extra bytes skipped, none refused)
	c.ruleStartState(m, "C13-START-STATE")
	c.ruleFirstByteTables("C13-KEYWORD-PREFILTER")
	c.ruleNextDirectiveRecognised("C13-NEXT-DIRECTIVE")
	c.ruleResponseCodeGate("C13-RESPONSE-CODE-GATE")
	c.ruleDisallowedCalls("C13-DISALLOWED-CALLS") // Unicode classes where the language means ASCII digits and blanks
	a := c.ruleAnalysis(m, map[string]string{}, false)
	if c.R.Tier == "thorough" {
		c.thoroughScanner(m, "C13")
	}
	c.R.Stats["traces_validated_against_impl"] = 0
	c.R.Stats["exhaustive"] = true
	_ = a
}

func propC12(c *Ctx) {
	c.R.Explanation = "Decides well-formedness of the lexeme stream for ALL byte strings on the pushdown system extracted from the step functions: Begin/End bracketing, extents >= -1, text order, positions inside the bytes read. Not decided: byte-for-byte equality of lexeme values with the rendered pieces of a document, and the extent of schema/enum bodies, which is delegated to jsight-schema-core's Len() (trusted <= remaining input)."
	m := c.E1Base()
	if m == nil {
		return
	}
	c.ruleC12(m)
	// an Annotation lexeme must end at the first "*/": the same rule as C08-ANNOTATION-FORMS
	// ... and a document rendered with CR LF line ends must give the lexemes of the same document rendered with LF
	c.R.Only = func(rule string) bool {
		return rule == "C08-ANNOTATION-FORMS" || rule == "C08-COMMENT-RETURN" || rule == "C08-CRLF-ONE-LINE-END" || rule == "C08-COMMENT-FENCE"
	}
	c.ruleC08Scanner(m)
	c.R.Only = nil
	c.ruleNextDirectiveRecognised("C12-NEXT-DIRECTIVE")
	c.ruleFirstByteTables("C12-KEYWORD-PREFILTER") // a Description's Text lexeme must end where the next directive starts
	c.ruleParamsPositionFree("C12-PARAMS-POSITION-FREE")
	c.ruleNextDrains("C12-NEXT-DRAINS")
	c.ruleFoundAtVerbatim("C12-FOUNDAT-VERBATIM")
	c.ruleReadersRecovered("C12-READERS-RECOVERED")
	c.ruleOpenTransparent(m, "C12-OPEN-TRANSPARENT")
	if c.R.Tier == "thorough" {
		c.thoroughScanner(m, "C12")
	}
}
