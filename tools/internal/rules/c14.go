package rules

import (
	"fmt"
	"go/ast"
	"go/token"
	"go/types"
	"jsverif/internal/ssaeval"
	"regexp"
	"sort"
	"strings"

	"golang.org/x/tools/go/callgraph"
	"golang.org/x/tools/go/ssa"

	"jsverif/internal/prog"
)

func init() { register("C14", propC14, false, true) }

func propC14(c *Ctx) {
	c.R.Explanation = "Decides, for all INCLUDE parameter strings and include graphs (modulo symlinks and OS path semantics): (a) who may touch the file system: only the three reference sites; (b) the stat'ed and read path is filepath.Join(dir of the including file, p) for the very string p that passed the name predicate first, and the path handed on is the one that was stat'ed in this call; (c) the name predicate, translated to a product automaton, accepts no string outside the safe language (non-empty, not absolute, no backslash, no '.'/'..' segment) - a counterexample word is printed otherwise; (d) the cycle guard of the scanner stack (lookup before push, insert, delete on pop, scanner switched only after a successful push); (e) errors of the INCLUDE handler are located at the INCLUDE keyword."
	c.ruleC14FS()
	c.ruleSameSource() // "located at the INCLUDE": file and index of every error come from one object
	c.ruleC14ValidateFirst()
	c.ruleC14Predicate()
	c.ruleC14CycleGuard()
	c.ruleC14NameIsPath()
	c.ruleC14RecursionOnlyForCycles()
	c.ruleWriteLengthCheck("C14-WRITE-LENGTH-CHECK")
	c.ruleCycleBeforeScan("C14-CYCLE-BEFORE-SCAN")
	if m := c.E1Base(); m != nil {
		c.ruleQuotedEscapes(m, "C14-QUOTED-ESCAPES")
		c.ruleEOFOpen(m, c.Analysis(stackK, false), "C14-EOF-OPEN") // the file name of an INCLUDE on the last line of a file is a parameter like any other
	}
	c.ruleNextDirectiveRecognised("C14-NEXT-DIRECTIVE") // an INCLUDE after an implicit Description must be seen (and so refused, read or reported)
}

// fsPrimitive reports whether the callee is a path-taking file-system primitive.
func fsPrimitive(f *types.Func) bool { return fsPrim(f, true) }

func fsPrim(f *types.Func, wide bool) bool {
	if f == nil || f.Pkg() == nil {
		return false
	}
	if sig, ok := f.Type().(*types.Signature); ok && sig.Recv() != nil {
		// methods: only whole packages that have no business in a parser
		switch f.Pkg().Path() {
		case "os/exec", "net", "net/http", "plugin":
			return wide
		}
		return false
	}
	switch f.Pkg().Path() {
	case "os":
		switch f.Name() {
		case "Open", "OpenFile", "ReadFile", "Stat", "Lstat", "ReadDir", "Create", "CreateTemp", "WriteFile", "Remove", "RemoveAll",
			"Mkdir", "MkdirAll", "MkdirTemp", "Rename", "Readlink", "Chdir", "Truncate", "Symlink", "Link", "Chmod", "Chown", "Chtimes", "DirFS", "Getwd":
			return true
		}
	case "io/ioutil":
		return true
	case "path/filepath":
		switch f.Name() {
		case "Walk", "WalkDir", "Glob", "EvalSymlinks", "Abs":
			return true
		}
	case "github.com/jsightapi/jsight-schema-core/reader":
		return true
	case "os/exec", "net", "net/http", "syscall", "plugin":
		return wide
	}
	return false
}

func (c *Ctx) ruleC14FS() {
	r := c.R
	r.Rule("C14-WHO-MAY-TOUCH-FS", "path-taking file primitives (os.*, ioutil.*, filepath.Walk/Glob/EvalSymlinks/Abs, schema-core reader.*, os/exec, net) are called in library packages only at reference sites, recognised by their role: the Stat of the include resolver, a read of the path the resolver returned (handed on through parameters of helpers at most), and in package kit the read of the root file named by the caller; thorough tier: also no other dependency function reachable from the library reaches such a primitive", 3)
	resolver := c.includeResolver()
	var statHolder *Fn
	if ri := c.includeResolverInfo(); ri != nil {
		statHolder = ri.holder
	}
	// a site is a reference site by its role, not by the name of the function it sits in:
	//   the Stat of the include resolver; a primitive that is handed a governed path (the resolver's result, C14-VALIDATE-FIRST);
	//   in package kit, a primitive that is handed a parameter of an entry point (the root file chosen by the caller)
	role := func(f *Fn, call *ast.CallExpr, cal *types.Func) string {
		if resolver != nil && (f.Obj == resolver.Obj || (statHolder != nil && f.Obj == statHolder.Obj)) && cal.Pkg().Path() == "os" && (cal.Name() == "Stat" || cal.Name() == "Lstat") {
			return "stat of the validated, joined include path"
		}
		if len(call.Args) == 0 {
			return ""
		}
		if f.Pkg.Types.Name() == "kit" {
			if c.rootPathParam(f, call.Args[0], map[types.Object]bool{}) {
				return "reads the root file given by the caller"
			}
			return ""
		}
		if resolver != nil {
			if why := c.governedPath(f, call.Args[0], resolver, map[types.Object]bool{}); why != "" {
				return "reads a governed path: " + why
			}
		}
		return ""
	}
	nSites := 0
	for _, f := range c.libFns() {
		ast.Inspect(f.Decl.Body, func(n ast.Node) bool {
			call, ok := n.(*ast.CallExpr)
			if !ok {
				return true
			}
			cal := callee(f.Pkg, call)
			if !fsPrimitive(cal) {
				return true
			}
			pkgName := cal.Pkg().Name()
			key := fmt.Sprintf("%s -> %s.%s", f.Name(), pkgName, cal.Name())
			if why := role(f, call, cal); why != "" {
				nSites++
				r.Ok("C14-WHO-MAY-TOUCH-FS", key, "reference site: "+why, c.pos(call.Pos()))
			} else {
				r.Bad("C14-WHO-MAY-TOUCH-FS", key, "a file-system (or process/network) primitive is called outside the three reference sites: the builder can touch files that the include rules do not govern", c.pos(call.Pos()))
			}
			return true
		})
		// function values (os.ReadFile passed around)
		inspectWithStack(f.Decl.Body, func(n ast.Node, stack []ast.Node) bool {
			sel, ok := n.(*ast.SelectorExpr)
			if !ok {
				return true
			}
			if fn, ok := f.Pkg.TypesInfo.Uses[sel.Sel].(*types.Func); ok && fsPrimitive(fn) {
				if len(stack) > 0 {
					if call, isCall := stack[len(stack)-1].(*ast.CallExpr); isCall && ast.Unparen(call.Fun) == ast.Expr(sel) {
						return true // a direct call, judged above
					}
				}
				key := fmt.Sprintf("%s -> %s.%s", f.Name(), fn.Pkg().Name(), fn.Name())
				r.Bad("C14-WHO-MAY-TOUCH-FS", key+" (value)", "a file-system primitive is used as a value: who calls it with which path is not visible", c.pos(sel.Pos()))
			}
			return true
		})
	}
	if nSites < 3 {
		r.Observe("C14-WHO-MAY-TOUCH-FS", "reference sites", fmt.Sprintf("%d reference sites found (3 on the pinned tree)", nSites), "")
	}
	if c.Deep {
		c.ruleC14DeepFS()
	}
}

// ruleC14DeepFS: over the whole-program call graph, which library functions can reach a
// file primitive through dependency code without passing one of the reference sites?
func (c *Ctx) ruleC14DeepFS() {
	r := c.R
	cg := c.P.CallGraph()
	allowedFn := map[string]bool{"core.(*JApiCore).getIncludedFilePath": true, "core.readFile": true, "kit.readPanicFree": true}
	base := func(f *ssa.Function) string {
		n := prog.SSAName(f)
		if i := strings.Index(n, "$"); i >= 0 {
			n = n[:i]
		}
		return n
	}
	touching := map[string]string{}
	for fn, n := range cg.Nodes {
		if fn == nil || !c.P.InLib(fn) || allowedFn[base(fn)] {
			continue
		}
		name := prog.SSAName(fn)
		seen := map[int]bool{n.ID: true}
		work := []*callgraph.Node{n}
		for len(work) > 0 && touching[name] == "" {
			x := work[len(work)-1]
			work = work[:len(work)-1]
			for _, e := range x.Out {
				cal := e.Callee
				if cal.Func == nil || seen[cal.ID] {
					continue
				}
				seen[cal.ID] = true
				if obj, ok := cal.Func.Object().(*types.Func); ok && fsPrim(obj, false) {
					touching[name] = obj.FullName()
					break
				}
				if allowedFn[base(cal.Func)] {
					continue
				}
				// the standard library is not walked beyond the primitives themselves
				if cal.Func.Pkg != nil && !strings.Contains(cal.Func.Pkg.Pkg.Path(), ".") {
					continue
				}
				work = append(work, cal)
			}
		}
	}
	var names []string
	for n := range touching {
		names = append(names, n)
	}
	sort.Strings(names)
	for _, n := range names {
		r.Bad("C14-WHO-MAY-TOUCH-FS", "deep: "+n, "reaches "+touching[n]+" through the call graph without passing a reference site", "")
	}
	if len(names) == 0 {
		r.Ok("C14-WHO-MAY-TOUCH-FS", "deep: whole-program call graph", fmt.Sprintf("no library function outside the reference sites reaches a file primitive (VTA call graph, %d nodes)", len(cg.Nodes)), "")
	}
}

func (c *Ctx) ruleC14ValidateFirst() {
	r := c.R
	r.Rule("C14-VALIDATE-FIRST", "in the function calling os.Stat: the stat'ed value is filepath.Join(filepath.Dir(<current scanner>.File().Name()), p); p passed the name predicate in an `if err := V(p); err != nil { return error }` that dominates the Stat; every successful return hands on the very variable that was stat'ed and is dominated by the Stat call; the reader is given that returned value", 4)
	ri := c.includeResolverInfo()
	if ri == nil || ri.statArg == nil {
		r.Bad("C14-VALIDATE-FIRST", "stat", "no library function outside package kit stats a path (or several do): the include path is not checked for existence by one resolver", "")
		return
	}
	f := ri.resolver
	pk := f.Pkg
	where := c.pos(f.Decl.Pos())
	cf := buildCFG(f.Decl.Body)
	stat := ri.stat
	_ = where
	statArg := accessPath(pk, ri.statArg)
	// definition of the stat'ed variable
	var join *ast.CallExpr
	ast.Inspect(f.Decl.Body, func(n ast.Node) bool {
		if as, ok := n.(*ast.AssignStmt); ok && len(as.Lhs) == 1 && len(as.Rhs) == 1 && accessPath(pk, as.Lhs[0]) == statArg && statArg != "" {
			if call, ok := ast.Unparen(as.Rhs[0]).(*ast.CallExpr); ok {
				if cal := callee(pk, call); cal != nil && cal.Pkg() != nil && cal.Pkg().Path() == "path/filepath" && cal.Name() == "Join" {
					join = call
				}
			}
		}
		return true
	})
	if join == nil || len(join.Args) != 2 {
		r.Bad("C14-VALIDATE-FIRST", "join", "the stat'ed path is not the result of a two-operand filepath.Join", c.pos(stat.Pos()))
		return
	}
	// first operand: filepath.Dir(<x>.scanner.File().Name())
	dirOK := false
	if call, ok := ast.Unparen(join.Args[0]).(*ast.CallExpr); ok {
		if cal := callee(pk, call); cal != nil && cal.Name() == "Dir" && len(call.Args) == 1 {
			s := exprString(call.Args[0])
			if fld := c.coreField("scanner"); fld != nil && strings.HasSuffix(s, ".File().Name()") {
				ast.Inspect(call.Args[0], func(n ast.Node) bool {
					if sel, ok := n.(*ast.SelectorExpr); ok && fieldSel(pk, sel) == fld {
						dirOK = true
					}
					return true
				})
			}
		}
	}
	if dirOK {
		r.Ok("C14-VALIDATE-FIRST", "base directory", "first Join operand is filepath.Dir(core.scanner.File().Name()): the directory of the including file", c.pos(join.Pos()))
	} else {
		r.Bad("C14-VALIDATE-FIRST", "base directory", "the include path is not resolved against the directory of the currently scanned file: "+exprString(join.Args[0]), c.pos(join.Pos()))
	}
	pPath := accessPath(pk, join.Args[1])
	// validation guard
	var guard *ast.IfStmt
	var validator *types.Func
	ast.Inspect(f.Decl.Body, func(n ast.Node) bool {
		ifs, ok := n.(*ast.IfStmt)
		if !ok || ifs.Init == nil {
			return true
		}
		as, ok := ifs.Init.(*ast.AssignStmt)
		if !ok || len(as.Rhs) != 1 {
			return true
		}
		call, ok := ast.Unparen(as.Rhs[0]).(*ast.CallExpr)
		if !ok || len(call.Args) != 1 || accessPath(pk, call.Args[0]) != pPath || pPath == "" {
			return true
		}
		cal := callee(pk, call)
		if cal == nil || cal.Pkg() != pk.Types {
			return true
		}
		if be, ok := ast.Unparen(ifs.Cond).(*ast.BinaryExpr); ok && be.Op == token.NEQ && isNil(pk, be.Y) && returnsNonNilError(pk, ifs.Body.List) {
			guard, validator = ifs, cal
		}
		return true
	})
	if guard != nil && cf.dominatedBy(stat, guard.Init) && cf.dominatedBy(join, guard.Init) {
		r.Ok("C14-VALIDATE-FIRST", "validated before stat", fmt.Sprintf("%s(p) != nil returns an error and dominates the Join and the Stat of the same p", validator.Name()), c.pos(guard.Pos()))
	} else if v, und := c.validatedBeforeStatE8(f); und == "" && v != nil {
		validator = v
		r.Ok("C14-VALIDATE-FIRST", "validated before stat", fmt.Sprintf("by abstract evaluation of the resolver (its own helpers inlined): on every path that reaches os.Stat the joined name has passed %s(p) == nil", v.Name()), c.pos(stat.Pos()))
	} else {
		r.Bad("C14-VALIDATE-FIRST", "validated before stat", "the string joined into the stat'ed path does not pass the name predicate on every path to os.Stat", c.pos(stat.Pos()))
	}
	// p is not reassigned between validation and join
	reassigned := false
	ast.Inspect(f.Decl.Body, func(n ast.Node) bool {
		if as, ok := n.(*ast.AssignStmt); ok && guard != nil && as.Pos() > guard.Pos() && as.Pos() < join.Pos() {
			for _, l := range as.Lhs {
				if accessPath(pk, l) == pPath {
					reassigned = true
				}
			}
		}
		return true
	})
	if reassigned {
		r.Bad("C14-VALIDATE-FIRST", "same value", "the validated string is reassigned before it is joined", where)
	}
	// successful returns
	nOK := 0
	inspectWithStack(f.Decl.Body, func(n ast.Node, stack []ast.Node) bool {
		ret, ok := n.(*ast.ReturnStmt)
		if !ok || len(ret.Results) != 2 || !isNil(pk, ret.Results[1]) {
			return true
		}
		nOK++
		key := fmt.Sprintf("successful return #%d", nOK)
		if accessPath(pk, ret.Results[0]) == statArg && cf.dominatedBy(ret, stat) {
			r.Ok("C14-VALIDATE-FIRST", key, "returns the stat'ed variable after the Stat call", c.pos(ret.Pos()))
		} else {
			r.Bad("C14-VALIDATE-FIRST", key, "a path is handed to the reader that was not validated, joined and stat'ed in this call (for instance a cached resolution keyed by the raw parameter: the same parameter means different files in different directories)", c.pos(ret.Pos()))
		}
		return true
	})
	if nOK == 0 {
		r.Bad("C14-VALIDATE-FIRST", "successful return", "no successful return found", where)
	}
	c.includeValidator = validator
	// the reader gets the returned value: every read primitive of the library outside package kit is handed a
	// governed path (see governedPath), and the File object is named by the same path
	nReads := 0
	for _, g := range c.libFns() {
		if g.Pkg.Types.Name() == "kit" {
			continue
		}
		ast.Inspect(g.Decl.Body, func(n ast.Node) bool {
			call, ok := n.(*ast.CallExpr)
			if !ok || len(call.Args) == 0 {
				return true
			}
			cal := callee(g.Pkg, call)
			if !fsPrimitive(cal) || cal.Pkg().Path() == "os" && (cal.Name() == "Stat" || cal.Name() == "Lstat") && (g.Obj == f.Obj || g.Obj == ri.holder.Obj) {
				return true
			}
			nReads++
			key := fmt.Sprintf("reader argument | %s -> %s.%s", g.Name(), cal.Pkg().Name(), cal.Name())
			if why := c.governedPath(g, call.Args[0], f, map[types.Object]bool{}); why != "" {
				r.Ok("C14-VALIDATE-FIRST", key, why, c.pos(call.Pos()))
			} else {
				r.Bad("C14-VALIDATE-FIRST", key, "the path read is not the value returned by the include resolver "+f.Obj.Name()+" (directly or through parameters of helpers)", c.pos(call.Pos()))
			}
			// the File built from the content carries the same path
			readPath := accessPath(g.Pkg, call.Args[0])
			ast.Inspect(g.Decl.Body, func(m ast.Node) bool {
				nc, ok := m.(*ast.CallExpr)
				if !ok || len(nc.Args) != 2 {
					return true
				}
				if nf := callee(g.Pkg, nc); nf != nil && nf.Name() == "NewFile" && nf.Pkg() != nil && strings.HasSuffix(nf.Pkg().Path(), "/fs") {
					if accessPath(g.Pkg, nc.Args[0]) == readPath && readPath != "" {
						r.Ok("C14-VALIDATE-FIRST", "file name | "+g.Name(), "fs.NewFile is given the path that was read", c.pos(nc.Pos()))
					} else {
						r.Bad("C14-VALIDATE-FIRST", "file name | "+g.Name(), "the File is named by something else than the path that was read: relative includes inside it and error locations refer to another file", c.pos(nc.Pos()))
					}
				}
				return true
			})
			return true
		})
	}
	if nReads == 0 {
		r.Bad("C14-VALIDATE-FIRST", "reader argument", "no read of the included file found", where)
	}
}

// includeResolver: the one library function outside package kit that stats a path.
func (c *Ctx) includeResolver() *Fn {
	if ri := c.includeResolverInfo(); ri != nil {
		return ri.resolver
	}
	return nil
}

// resolverInfo: the include resolver and its Stat. When the Stat sits in a helper that stats its own (unassigned)
// parameter and is called from one place, the resolver is that caller, the call of the helper stands for the Stat
// and the argument for the stat'ed path.
type resolverInfo struct {
	resolver, holder *Fn
	stat             *ast.CallExpr
	statArg          ast.Expr
}

func (c *Ctx) includeResolverInfo() *resolverInfo {
	var found []*Fn
	var stats []*ast.CallExpr
	for _, g := range c.libFns() {
		if g.Pkg.Types.Name() == "kit" {
			continue
		}
		var st *ast.CallExpr
		ast.Inspect(g.Decl.Body, func(n ast.Node) bool {
			if call, ok := n.(*ast.CallExpr); ok {
				if cal := callee(g.Pkg, call); cal != nil && cal.Pkg() != nil && cal.Pkg().Path() == "os" && (cal.Name() == "Stat" || cal.Name() == "Lstat") {
					st = call
				}
			}
			return true
		})
		if st != nil {
			found = append(found, g)
			stats = append(stats, st)
		}
	}
	if len(found) != 1 {
		return nil
	}
	ri := &resolverInfo{resolver: found[0], holder: found[0], stat: stats[0]}
	if len(stats[0].Args) == 1 {
		ri.statArg = stats[0].Args[0]
		if idx := paramIndexOf(found[0], stats[0].Args[0]); idx >= 0 && !paramAssigned(found[0], stats[0].Args[0]) {
			if sites, closed := c.callersOf(found[0]); closed && len(sites) == 1 {
				if a := argFor(sites[0], idx); a != nil {
					ri.resolver, ri.stat, ri.statArg = sites[0].g, sites[0].call, a
				}
			}
		}
	}
	return ri
}

// governedPath: the expression is the first result of the include resolver (a local defined from its call), or a
// parameter of g for which every call site in the library passes a governed path.
func (c *Ctx) governedPath(g *Fn, e ast.Expr, resolver *Fn, visiting map[types.Object]bool) string {
	id, ok := ast.Unparen(e).(*ast.Ident)
	if !ok {
		return ""
	}
	obj := g.Pkg.TypesInfo.Uses[id]
	if obj == nil || visiting[obj] {
		return ""
	}
	visiting[obj] = true
	if idx := paramIndexOf(g, id); idx >= 0 {
		if paramAssigned(g, id) {
			return ""
		}
		sites, closed := c.callersOf(g)
		if !closed || len(sites) == 0 {
			return ""
		}
		for _, cs := range sites {
			a := argFor(cs, idx)
			if a == nil || c.governedPath(cs.g, a, resolver, visiting) == "" {
				return ""
			}
		}
		return fmt.Sprintf("parameter of the helper %s; each of its %d call sites passes the value returned by %s", g.Obj.Name(), len(sites), resolver.Obj.Name())
	}
	// a local: exactly one definition, from the resolver's call
	nDef, fromResolver := 0, false
	ast.Inspect(g.Decl.Body, func(n ast.Node) bool {
		as, ok := n.(*ast.AssignStmt)
		if !ok {
			return true
		}
		for i, l := range as.Lhs {
			lid, ok := ast.Unparen(l).(*ast.Ident)
			if !ok || (g.Pkg.TypesInfo.Defs[lid] != obj && g.Pkg.TypesInfo.Uses[lid] != obj) {
				continue
			}
			nDef++
			if i == 0 && len(as.Rhs) == 1 {
				if call, ok := ast.Unparen(as.Rhs[0]).(*ast.CallExpr); ok && callee(g.Pkg, call) == resolver.Obj {
					fromResolver = true
				}
			}
		}
		return true
	})
	if nDef == 1 && fromResolver {
		return "the value returned by " + resolver.Obj.Name() + " in this function"
	}
	return ""
}

func (c *Ctx) ruleC14Predicate() {
	r := c.R
	r.Rule("C14-PREDICATE", "the name predicate applied before the Stat accepts only strings of the safe language (non-empty, not starting with '/', no '\\', no '/'-segment equal to '.' or '..'); decided on the product automaton of its atoms; s[0] is evaluated only after an emptiness test that rejects", 2)
	// the predicate is the function whose error guards the Stat in the include resolver (found by C14-VALIDATE-FIRST)
	var f *Fn
	if c.includeValidator != nil {
		f = c.fnOf(c.includeValidator)
	}
	if f == nil {
		f = c.fn("core", "validateIncludeFileName")
	}
	if f == nil {
		r.Undecided("C14-PREDICATE", "anchor", "no name predicate guards the Stat of the include resolver", "")
		return
	}
	p := translatePredicateWith(f.Pkg, f.Decl, func(h *types.Func) *ast.FuncDecl { return c.P.Decl(h) })
	if len(p.problems) > 0 {
		for _, pr := range p.problems {
			r.Undecided("C14-PREDICATE", "translation", "the predicate uses a construct outside the decidable subset, so inclusion in the safe language cannot be decided: "+pr, c.pos(f.Decl.Pos()))
		}
		return
	}
	var as []string
	for _, a := range p.atoms {
		as = append(as, a.String())
	}
	word, found, states := p.findUnsafeAccepted()
	if len(p.problems) > 0 {
		r.Undecided("C14-PREDICATE", "inclusion", strings.Join(p.problems, "; "), c.pos(f.Decl.Pos()))
		return
	}
	if found {
		r.Bad("C14-PREDICATE", "inclusion", fmt.Sprintf("the predicate accepts %q (x = any other character), which is outside the safe language; atoms: %v", word, as), c.pos(f.Decl.Pos()))
	} else {
		r.Ok("C14-PREDICATE", "inclusion", fmt.Sprintf("L(accepted) is included in L(safe): %d product states over atoms %v", states, as), c.pos(f.Decl.Pos()))
	}
	if p.usesIdx0 {
		if p.idx0Safe {
			r.Ok("C14-PREDICATE", "index 0", "s[0] is read only after the empty string was rejected", c.pos(f.Decl.Pos()))
		} else {
			r.Bad("C14-PREDICATE", "index 0", "s[0] is read although s may be empty (INCLUDE \"\" panics)", c.pos(f.Decl.Pos()))
		}
	} else {
		r.OkTrivial("C14-PREDICATE", "index 0", "no s[0]", c.pos(f.Decl.Pos()))
	}
	c.R.Stats["c14_predicate_states"] = states
}

func (c *Ctx) ruleC14CycleGuard() {
	r := c.R
	r.Rule("C14-CYCLE-GUARD", "Stack.Push: the append is dominated by the miss edge of the lookup of the file-name set (hit returns an error) and followed by the insertion of the same name; Pop deletes the popped name; processInclude replaces core.scanner only after Push returned nil and converts Push's error at the keyword", 4)
	push := c.fn("scanner", "Stack.Push")
	pop := c.fn("scanner", "Stack.Pop")
	if push == nil || pop == nil {
		r.Undecided("C14-CYCLE-GUARD", "anchor", "scanner.Stack.Push/Pop not found", "")
		return
	}
	// Push and Pop are read off their abstract evaluation (stackeval.go): the facts are about terms, not about the
	// layout of the code
	sf := c.stackFacts()
	if sf.err != "" {
		r.Undecided("C14-CYCLE-GUARD", "Stack", sf.err, c.pos(push.Decl.Pos()))
	} else {
		verdict := func(key, okText, bad string, pos string) {
			if bad == "" {
				r.Ok("C14-CYCLE-GUARD", key, okText, pos)
			} else {
				r.Bad("C14-CYCLE-GUARD", key, bad, pos)
			}
		}
		pp, po := c.pos(push.Decl.Pos()), c.pos(pop.Decl.Pos())
		verdict("Push lookup", fmt.Sprintf("on each of the paths of Push that append to the stack the file name was looked up in the set and missed (%d paths evaluated)", sf.pushPaths), sf.pushGuard, pp)
		verdict("Push refuses", "a hit of that lookup returns a non-nil error without pushing", sf.pushRefuse, pp)
		verdict("Push insert", "the same name (same term) is inserted into the set on every such path", sf.pushInsert, pp)
		verdict("key", "the name is derived from the scanner that is pushed", sf.pushKey, pp)
		verdict("Pop forgets", "Pop deletes the name derived from the popped scanner from the set: repeated non-cyclic includes stay legal", sf.popDeletes, po)
	}
	// processInclude
	if pi := c.fn("core", "JApiCore.processInclude"); pi != nil {
		cfi := buildCFG(pi.Decl.Body)
		scField := c.coreField("scanner")
		var pushIf *ast.IfStmt
		ast.Inspect(pi.Decl.Body, func(n ast.Node) bool {
			if ifs, ok := n.(*ast.IfStmt); ok && ifs.Init != nil && len(callsIn(pi.Pkg, ifs.Init, push.Obj)) == 1 && returnsNonNilError(pi.Pkg, ifs.Body.List) {
				pushIf = ifs
			}
			return true
		})
		bad := ""
		nSwitch := 0
		ast.Inspect(pi.Decl.Body, func(n ast.Node) bool {
			if as, ok := n.(*ast.AssignStmt); ok {
				for _, l := range as.Lhs {
					if fieldSel(pi.Pkg, l) == scField && scField != nil {
						nSwitch++
						if pushIf == nil || !cfi.dominatedBy(as, pushIf.Init) || (pushIf.Body.Pos() <= as.Pos() && as.End() <= pushIf.Body.End()) {
							bad = c.pos(as.Pos())
						}
					}
				}
			}
			return true
		})
		if pushIf != nil && bad == "" && nSwitch == 1 {
			r.Ok("C14-CYCLE-GUARD", "switch after push", "core.scanner is replaced only after Push returned nil; Push's error is returned", c.pos(pi.Decl.Pos()))
		} else {
			r.Bad("C14-CYCLE-GUARD", "switch after push", fmt.Sprintf("the scanner is switched without a successful Push on every path (%s)", bad), c.pos(pi.Decl.Pos()))
		}
		// errors at the keyword
		kw := ""
		if len(pi.Decl.Type.Params.List) == 1 && len(pi.Decl.Type.Params.List[0].Names) == 1 {
			kw = pi.Decl.Type.Params.List[0].Names[0].Name
		}
		r.Rule("C14-ERRORS-AT-INCLUDE", "every error constructed in processInclude/getIncludedFilePath is built from the INCLUDE keyword lexeme (or is the scanner's own error)", 3)
		for _, g := range []*Fn{pi, c.fn("core", "JApiCore.getIncludedFilePath")} {
			if g == nil {
				continue
			}
			i := 0
			ast.Inspect(g.Decl.Body, func(n ast.Node) bool {
				ret, ok := n.(*ast.ReturnStmt)
				if !ok || len(ret.Results) == 0 {
					return true
				}
				e := ret.Results[len(ret.Results)-1]
				if isNil(g.Pkg, e) {
					return true
				}
				i++
				key := fmt.Sprintf("%s error return #%d", g.Obj.Name(), i)
				if call, ok := ast.Unparen(e).(*ast.CallExpr); ok {
					if len(call.Args) >= 1 && exprString(call.Args[0]) == kw {
						r.Ok("C14-ERRORS-AT-INCLUDE", key, "built from the keyword lexeme by "+exprString(call.Fun), c.pos(ret.Pos()))
					} else {
						r.Bad("C14-ERRORS-AT-INCLUDE", key, "error not located at the INCLUDE keyword: "+exprString(e), c.pos(ret.Pos()))
					}
				} else {
					r.Ok("C14-ERRORS-AT-INCLUDE", key, "propagates an already located error ("+exprString(e)+")", c.pos(ret.Pos()))
				}
				return true
			})
		}
	}
}

// rootPathParam: in package kit, the expression is a parameter of an exported entry point, or a parameter of a helper
// every call site of which passes one.
func (c *Ctx) rootPathParam(f *Fn, e ast.Expr, visiting map[types.Object]bool) bool {
	id, ok := ast.Unparen(e).(*ast.Ident)
	if !ok {
		return false
	}
	obj := f.Pkg.TypesInfo.Uses[id]
	idx := paramIndexOf(f, id)
	if obj == nil || idx < 0 || visiting[obj] || paramAssigned(f, id) {
		return false
	}
	visiting[obj] = true
	if f.Obj.Exported() {
		return true
	}
	sites, closed := c.callersOf(f)
	if !closed || len(sites) == 0 {
		return false
	}
	for _, cs := range sites {
		a := argFor(cs, idx)
		if a == nil || !c.rootPathParam(cs.g, a, visiting) {
			return false
		}
	}
	return true
}

// ruleC14NameIsPath: an INCLUDE is resolved against filepath.Dir(<name of the including file>). That is "the directory
// of the including file" only as long as a file's name IS the path it was read from.
func (c *Ctx) ruleC14NameIsPath() {
	r := c.R
	r.Rule("C14-NAME-IS-PATH", "wherever the library makes a file object out of bytes read from a path (fs.NewFile(name, <result of os.ReadFile(p)>), reader.ReadWithName(p, name); reader.Read(p) does it by construction), the name is the very expression of the path: INCLUDE parameters are resolved against the directory part of that name", 2)
	n := 0
	for _, f := range c.libFns() {
		pk := f.Pkg
		ast.Inspect(f.Decl.Body, func(nd ast.Node) bool {
			call, ok := nd.(*ast.CallExpr)
			if !ok {
				return true
			}
			cal := callee(pk, call)
			if cal == nil || cal.Pkg() == nil {
				return true
			}
			full := cal.Pkg().Path() + "." + cal.Name()
			key := f.Name() + " | " + exprString(call)
			switch {
			case strings.HasSuffix(full, "jsight-schema-core/reader.ReadWithName") && len(call.Args) == 2:
				n++
				if c.stableExpr(f, call.Args[0], nil) == c.stableExpr(f, call.Args[1], nil) {
					r.Ok("C14-NAME-IS-PATH", key, "name and path are the same expression", c.pos(call.Pos()))
				} else {
					r.Bad("C14-NAME-IS-PATH", key, "the file is read from "+exprString(call.Args[0])+" but named "+exprString(call.Args[1])+": its INCLUDEs are resolved against the directory of the name, which is not the directory the file lies in", c.pos(call.Pos()))
				}
			case strings.HasSuffix(full, "jsight-schema-core/reader.Read") && len(call.Args) == 1:
				n++
				r.Ok("C14-NAME-IS-PATH", key, "reader.Read names the file by the path it reads", c.pos(call.Pos()))
			case strings.HasSuffix(full, "jsight-schema-core/fs.NewFile") && len(call.Args) == 2:
				rc, _ := definingCall(f, call.Args[1])
				if rc == nil {
					if direct, isCall := ast.Unparen(call.Args[1]).(*ast.CallExpr); isCall {
						rc = direct
					}
				}
				if rc == nil {
					// a content variable that is assigned more than once, one of the assignments being a file read: the
					// bytes are changed on the way (trimmed, a BOM cut off): every offset - the lines of all errors and
					// traces in that file - is then counted in something else than the file on disk
					if id := identOf(call.Args[1]); id != nil {
						obj := pk.TypesInfo.Uses[id]
						reads, assigns := 0, 0
						ast.Inspect(f.Decl.Body, func(m ast.Node) bool {
							if as, ok := m.(*ast.AssignStmt); ok {
								for i, l := range as.Lhs {
									if lid := identOf(l); lid != nil && objOf(pk, lid) == obj {
										assigns++
										var rhs ast.Expr
										if len(as.Rhs) == 1 {
											rhs = as.Rhs[0]
										} else if i < len(as.Rhs) {
											rhs = as.Rhs[i]
										}
										if rcl, ok := ast.Unparen(rhs).(*ast.CallExpr); ok {
											if g := callee(pk, rcl); g != nil && fsPrimitive(g) {
												reads++
											}
										}
									}
								}
							}
							return true
						})
						if reads > 0 && assigns > 1 {
							n++
							r.Bad("C14-NAME-IS-PATH", key+" (content)", "the bytes read from the file are changed before they become the content of the file object: positions in it (lines of errors and of include traces) are no longer positions in the file on disk", c.pos(call.Pos()))
						}
					}
					return true // content not read from a path here (virtual file, placeholder)
				}
				rcal := callee(pk, rc)
				// a file object wrapped again: content taken from <file>.Content(). The new object stands for the same
				// file on disk, so it must carry the same name, byte for byte.
				if rcal != nil && rcal.Name() == "Content" && rcal.Pkg() != nil && strings.HasSuffix(rcal.Pkg().Path(), "jsight-schema-core/fs") {
					n++
					same := false
					if csel, ok := ast.Unparen(rc.Fun).(*ast.SelectorExpr); ok {
						if nc, ok := ast.Unparen(unalias(f, call.Args[0])).(*ast.CallExpr); ok {
							if ncal := callee(pk, nc); ncal != nil && ncal.Name() == "Name" && len(nc.Args) == 0 {
								if nsel, ok := ast.Unparen(nc.Fun).(*ast.SelectorExpr); ok && c.stableExpr(f, nsel.X, nil) == c.stableExpr(f, csel.X, nil) {
									same = true
								}
							}
						}
					}
					if same {
						r.Ok("C14-NAME-IS-PATH", key, "a copy of a file object under the same name", c.pos(call.Pos()))
					} else {
						r.Bad("C14-NAME-IS-PATH", key, "the content of the file object "+exprString(rc.Fun)+" is given another name ("+exprString(call.Args[0])+"): INCLUDE parameters are resolved against the directory part of the name, which is then no longer the directory the file was read from", c.pos(call.Pos()))
					}
					return true
				}
				if rcal != nil && !fsPrimitive(rcal) {
					// content = g(<bytes read from a path>): the bytes are changed on the way to the file object
					for _, a := range rc.Args {
						inner, _ := definingCall(f, a)
						if inner == nil {
							inner, _ = ast.Unparen(a).(*ast.CallExpr)
						}
						if inner != nil {
							if g := callee(pk, inner); g != nil && fsPrimitive(g) {
								n++
								r.Bad("C14-NAME-IS-PATH", key+" (content)", "the bytes read from the file pass through "+exprString(rc.Fun)+" before they become the content of the file object: positions in it (lines of errors and of include traces) are no longer positions in the file on disk", c.pos(call.Pos()))
							}
						}
					}
					return true
				}
				if rcal == nil || !fsPrimitive(rcal) || len(rc.Args) < 1 {
					return true
				}
				n++
				// the path the content is read from must still be the path the caller gave: a parameter that the function
				// rewrites (symbolic links resolved, made absolute, cleaned) names the file differently from the INCLUDE
				if pi := paramIndexOf(f, rc.Args[0]); pi >= 0 && paramAssigned(f, rc.Args[0]) {
					r.Bad("C14-NAME-IS-PATH", key+" (path rewritten)", "the path parameter "+exprString(rc.Args[0])+" is reassigned before the file is read and named: the file object, and with it every error location, every include-trace line and the directory against which its own INCLUDEs are resolved, carries another name than the one the INCLUDE directive (or the caller) gave", c.pos(call.Pos()))
					return true
				}
				if c.stableExpr(f, call.Args[0], nil) == c.stableExpr(f, rc.Args[0], nil) {
					r.Ok("C14-NAME-IS-PATH", key, "named by the path its content was read from", c.pos(call.Pos()))
				} else {
					r.Bad("C14-NAME-IS-PATH", key, "the content is read from "+exprString(rc.Args[0])+" but the file is named "+exprString(call.Args[0])+": its INCLUDEs are resolved against another directory than the one the file lies in", c.pos(call.Pos()))
				}
			}
			return true
		})
	}
	if n < 2 {
		r.Undecided("C14-NAME-IS-PATH", "sites", fmt.Sprintf("only %d file-from-path constructions recognised (the root file and the included file on the pinned tree)", n), "")
	}
}

// ruleC14RecursionOnlyForCycles: "a file that includes itself ... is reported as a recursion error; including the
// same file several times without a cycle is allowed". The recursion message may therefore be raised only by the
// test that found the file on the stack of open files, never by a count, a depth or a size.
func (c *Ctx) ruleC14RecursionOnlyForCycles() {
	r := c.R
	r.Rule("C14-RECURSION-ONLY-FOR-CYCLES", "every use of the message constant jerr.RecursionIsProhibited lies on a path on which a membership test of a map has hit (the comma-ok guard of Stack.Push on the set of open files; for PASTE cycles, which share the message, the in-progress state recorded for the macro name): no depth limit, counter or other circumstance is reported as a recursion", 1)
	pj := c.P.Pkg("jerr")
	if pj == nil {
		r.Undecided("C14-RECURSION-ONLY-FOR-CYCLES", "anchor", "package jerr not found", "")
		return
	}
	k, _ := pj.Types.Scope().Lookup("RecursionIsProhibited").(*types.Const)
	if k == nil {
		r.Undecided("C14-RECURSION-ONLY-FOR-CYCLES", "anchor", "jerr.RecursionIsProhibited not found", "")
		return
	}
	n := 0
	for _, f := range c.libFns() {
		pk := f.Pkg
		cf := c.cfgOf(f)
		// comma-ok variables of lookups in a map field
		okVars := map[types.Object]bool{}
		ast.Inspect(f.Decl.Body, func(nd ast.Node) bool {
			if as, ok := nd.(*ast.AssignStmt); ok && len(as.Lhs) == 2 && len(as.Rhs) == 1 {
				if b, _, isIdx := indexOn(pk, as.Rhs[0]); isIdx && fieldSel(pk, b) != nil {
					if id := identOf(as.Lhs[1]); id != nil && id.Name != "_" {
						okVars[objOf(pk, id)] = true
					}
				}
			}
			return true
		})
		inspectWithStack(f.Decl.Body, func(nd ast.Node, stack []ast.Node) bool {
			e, ok := nd.(ast.Expr)
			if !ok || constObj(pk, e) != k {
				return true
			}
			if _, isSel := nd.(*ast.SelectorExpr); !isSel {
				if _, isId := nd.(*ast.Ident); !isId {
					return true
				}
			}
			// the statement the constant is used in
			var stmt ast.Node = nd
			for i := len(stack) - 1; i >= 0; i-- {
				if _, isStmt := stack[i].(ast.Stmt); isStmt {
					stmt = stack[i]
					break
				}
			}
			n++
			hit := func(cond ast.Expr, holds bool) bool {
				if id := identOf(cond); id != nil {
					return holds && okVars[pk.TypesInfo.Uses[id]]
				}
				// the membership test under a name: s.contains(name)
				if pc, ok := ast.Unparen(cond).(*ast.CallExpr); ok && holds {
					if g := callee(pk, pc); g != nil && c.membershipPredicate(g) {
						return true
					}
				}
				// m[k] == <state constant>: the element recorded for the name says "in progress" (the macro cycle
				// check uses the same message for PASTE cycles)
				if be, ok := ast.Unparen(cond).(*ast.BinaryExpr); ok && be.Op == token.EQL && holds {
					for _, side := range []ast.Expr{be.X, be.Y} {
						if _, _, isIdx := indexOn(pk, side); isIdx {
							return true
						}
					}
				}
				return false
			}
			key := f.Name() + " | RecursionIsProhibited"
			if cf.establishedAt(stmt, hit, nil) {
				r.Ok("C14-RECURSION-ONLY-FOR-CYCLES", key, "raised only when the file's name was found in the set of open files", c.pos(nd.Pos()))
			} else {
				r.Bad("C14-RECURSION-ONLY-FOR-CYCLES", key, "the recursion error is raised on a path on which no membership test of the set of open files has hit: an include tree without a cycle (deep, wide, or the same file twice) can be refused as a recursion", c.pos(nd.Pos()))
			}
			return false
		})
	}
	if n == 0 {
		r.Undecided("C14-RECURSION-ONLY-FOR-CYCLES", "sites", "the recursion message is not used anywhere: the cycle guard is no longer recognised", "")
	}
}

var statJoinRe = regexp.MustCompile(`^path/filepath\.Join\(list\[path/filepath\.Dir\((.*)\) (.*)\]\)$`)

// validatedBeforeStatE8: the include resolver evaluated abstractly with the helpers that only it calls inlined: every
// path that calls os.Stat/Lstat does so on Join(Dir(..), P) and has decided <validator>(P) == nil, for one function
// <validator> of the module of type func(string) error. Returns the validator.
func (c *Ctx) validatedBeforeStatE8(f *Fn) (*types.Func, string) {
	sf := c.P.SSAFunc(f.Obj)
	if sf == nil {
		return nil, "no SSA form"
	}
	ev := c.ownHelpersEval(f, nil, nil)
	ev.WantCall = func(fn *ssa.Function) bool {
		return fn.Pkg != nil && fn.Pkg.Pkg.Path() == "os" && (fn.Name() == "Stat" || fn.Name() == "Lstat")
	}
	var args []ssaeval.Value
	for _, p := range sf.Params {
		args = append(args, ssaeval.Obj(p.Name()))
	}
	var validator *types.Func
	nStat := 0
	for _, o := range ev.Run(sf, args) {
		if o.Incomplete != "" {
			return nil, "incomplete: " + o.Incomplete
		}
		for _, e := range o.Events {
			if e.Kind != "call" || len(e.Args) != 1 {
				continue
			}
			nStat++
			m := statJoinRe.FindStringSubmatch(stripEpochs(e.Args[0].Term()))
			if m == nil {
				return nil, ""
			}
			p := m[2]
			found := false
			for _, cd := range o.Conds {
				t := stripEpochs(cd.Term)
				var inner string
				switch {
				case strings.HasPrefix(t, "!=(") && strings.HasSuffix(t, ",nil)") && !cd.Taken:
					inner = t[3 : len(t)-5]
				case strings.HasPrefix(t, "==(") && strings.HasSuffix(t, ",nil)") && cd.Taken:
					inner = t[3 : len(t)-5]
				default:
					continue
				}
				if !strings.HasSuffix(inner, "("+p+")") {
					continue
				}
				name := strings.TrimSuffix(inner, "("+p+")")
				for _, g := range c.libFns() {
					if sg := c.P.SSAFunc(g.Obj); sg != nil && sg.String() == name {
						sig := g.Obj.Type().(*types.Signature)
						if sig.Params().Len() == 1 && sig.Results().Len() == 1 && isErrorLike(sig.Results().At(0).Type()) {
							if validator == nil || validator == g.Obj {
								validator = g.Obj
								found = true
							}
						}
					}
				}
			}
			if !found {
				return nil, ""
			}
		}
	}
	if nStat == 0 {
		return nil, "no path reaches os.Stat"
	}
	return validator, ""
}

// ---------- a short-write test measures what was written ----------

// ruleWriteLengthCheck: `n, err := w.Write(A)` followed by a comparison of n with len(B) is a test for a short write
// only if B is what was written. When A is changed (cleaned, converted) and B is not, the test fails for every input on
// which the two lengths differ, and a valid INCLUDE is refused with a failure that is neither a recursion nor a missing
// file.
func (c *Ctx) ruleWriteLengthCheck(rule string) {
	r := c.R
	r.Rule(rule, "wherever the count returned by a Write(A) is compared with len(B), A and B are the same value (up to a []byte/string conversion): a short-write test that measures something else than what was written rejects valid input (the hash of the include stack is computed this way for every INCLUDE)", 1)
	strip := func(f *Fn, e ast.Expr) string {
		e = ast.Unparen(e)
		for {
			call, ok := e.(*ast.CallExpr)
			if !ok || len(call.Args) != 1 {
				break
			}
			if tv, ok := f.Pkg.TypesInfo.Types[call.Fun]; !ok || !tv.IsType() {
				break
			}
			e = ast.Unparen(call.Args[0])
		}
		return c.stableExpr(f, e, nil)
	}
	n := 0
	for _, f := range c.libFns() {
		pk := f.Pkg
		ast.Inspect(f.Decl.Body, func(nd ast.Node) bool {
			as, ok := nd.(*ast.AssignStmt)
			if !ok || len(as.Lhs) != 2 || len(as.Rhs) != 1 {
				return true
			}
			call, ok := ast.Unparen(as.Rhs[0]).(*ast.CallExpr)
			if !ok || len(call.Args) != 1 {
				return true
			}
			cal := callee(pk, call)
			if cal == nil || (cal.Name() != "Write" && cal.Name() != "WriteString") {
				return true
			}
			nid, ok := as.Lhs[0].(*ast.Ident)
			if !ok || nid.Name == "_" {
				return true
			}
			nobj := pk.TypesInfo.Defs[nid]
			if nobj == nil {
				nobj = pk.TypesInfo.Uses[nid]
			}
			written := strip(f, call.Args[0])
			ast.Inspect(f.Decl.Body, func(m ast.Node) bool {
				be, ok := m.(*ast.BinaryExpr)
				if !ok || (be.Op != token.EQL && be.Op != token.NEQ && be.Op != token.LSS && be.Op != token.GTR) {
					return true
				}
				for _, pair := range [][2]ast.Expr{{be.X, be.Y}, {be.Y, be.X}} {
					id, ok := ast.Unparen(pair[0]).(*ast.Ident)
					if !ok || pk.TypesInfo.Uses[id] != nobj {
						continue
					}
					lc, ok := ast.Unparen(pair[1]).(*ast.CallExpr)
					if !ok || len(lc.Args) != 1 {
						continue
					}
					if lid, ok := lc.Fun.(*ast.Ident); !ok || lid.Name != "len" {
						continue
					}
					n++
					key := fmt.Sprintf("%s | %s vs %s", f.Name(), exprString(call), exprString(pair[1]))
					if measured := strip(f, lc.Args[0]); measured == written {
						r.Ok(rule, key, "the length compared is that of what was written", c.pos(be.Pos()))
					} else {
						r.Bad(rule, key, "the count of "+exprString(call)+" is compared with the length of something else ("+exprString(lc.Args[0])+"): whenever the two lengths differ the function reports a failure although nothing failed", c.pos(be.Pos()))
					}
				}
				return true
			})
			return true
		})
	}
	if n == 0 {
		r.Ok(rule, "library", "no write count is compared with a length", "")
	}
}

// ---------- a cycle is seen before the file is scanned again ----------

// ruleCycleBeforeScan: the recursion test of the include stack asks whether the INCLUDING file is already open, at the
// moment it is pushed. A file that includes itself is therefore scanned a second time, from its first byte, before the
// cycle is seen at its own INCLUDE line - and whatever the second scan meets first is reported instead (a root file
// that includes itself: "the directive JSIGHT is not allowed in included files"). The property asks for a recursion
// error. The test has to be made on the file that is about to be scanned, before its scanner is created.
func (c *Ctx) ruleCycleBeforeScan(rule string) {
	r := c.R
	r.Rule(rule, "in the INCLUDE handler the scanner of the included file (scanner.NewJApiScanner(<file read>)) is created only after a test, keyed by the name of THAT file, that it is not being scanned already: otherwise a cyclic file is scanned once more before the cycle is seen, and the first fault the second scan meets is reported instead of the recursion", 1)
	h := c.fn("core", "JApiCore.processInclude")
	mk := c.P.LookupFunc("scanner", "NewJApiScanner")
	if h == nil || mk == nil {
		r.Undecided(rule, "anchor", "processInclude / scanner.NewJApiScanner not found", "")
		return
	}
	calls := callsIn(h.Pkg, h.Decl.Body, mk)
	if len(calls) == 0 {
		r.Undecided(rule, "sites", "processInclude creates no scanner", c.pos(h.Decl.Pos()))
		return
	}
	fc := c.cfgOf(h)
	for _, mkc := range calls {
		if len(mkc.Args) != 1 {
			continue
		}
		fileExpr := c.stableExpr(h, mkc.Args[0], nil)
		// a call on the stack field whose argument is <file>.Name(), in a condition whose hit returns an error,
		// dominating the creation
		guarded := false
		ast.Inspect(h.Decl.Body, func(n ast.Node) bool {
			ifs, ok := n.(*ast.IfStmt)
			if !ok || !returnsNonNilError(h.Pkg, ifs.Body.List) {
				return true
			}
			ast.Inspect(ifs.Cond, func(m ast.Node) bool {
				call, ok := m.(*ast.CallExpr)
				if !ok || len(call.Args) != 1 {
					return true
				}
				nameCall, ok := ast.Unparen(call.Args[0]).(*ast.CallExpr)
				if !ok {
					return true
				}
				nsel, ok := ast.Unparen(nameCall.Fun).(*ast.SelectorExpr)
				if !ok || nsel.Sel.Name != "Name" || c.stableExpr(h, nsel.X, nil) != fileExpr {
					return true
				}
				if fc.dominatedBy(mkc, ifs.Cond) && ifs.End() <= mkc.Pos() {
					guarded = true
				}
				return true
			})
			return true
		})
		key := h.Name() + " | " + exprString(mkc.Fun)
		if guarded {
			r.Ok(rule, key, "the file is tested against the open files before its scanner is created", c.pos(mkc.Pos()))
		} else {
			r.Bad(rule, key, "the scanner of the included file is created without asking whether that file is already being scanned (the stack only tests the including file when it is pushed): a file that includes itself is scanned a second time, and the first fault met there - for a root file, its JSIGHT directive - is reported instead of the recursion", c.pos(mkc.Pos()))
		}
	}
}
