package rules

import (
	"fmt"
	"go/ast"
	"go/token"
	"go/types"
	"strings"
)

// ---------- a line of blanks in a Description is an empty line ----------

// ruleDescriptionBlankLines: the normaliser of a Description strips the indentation that all lines have in common and
// leaves empty lines out of that computation. "Empty" has to mean "nothing but blanks and tabs": trailing blanks are
// insignificant (C08), so an empty line that happens to hold three blanks must not shorten the common indentation of
// the text (every line then keeps a leading blank) nor become the first line of the text.
func (c *Ctx) ruleDescriptionBlankLines(rule string) {
	r := c.R
	r.Rule(rule, "wherever the normaliser of a Description (core.description and the functions of package core it hands the split lines to) asks whether a line is empty - len(<element of the lines>) compared with 0 - the element has either just been trimmed of blanks and tabs (bytes.Trim/TrimLeft/TrimRight with a cut set that holds ' ' and '\\t', or TrimSpace), or the caller has emptied every line of blanks before the call (a loop over the lines, in front of the call, that stores an empty value into an element under such a trimmed-length test): a whitespace-only line counts as an empty one", 1)
	d := c.fn("core", "description")
	if d == nil {
		r.Undecided(rule, "anchor", "core.description not found", "")
		return
	}
	isLinesType := func(t types.Type) bool {
		sl, ok := t.Underlying().(*types.Slice)
		if !ok {
			return false
		}
		in, ok := sl.Elem().Underlying().(*types.Slice)
		if !ok {
			return false
		}
		b, ok := in.Elem().Underlying().(*types.Basic)
		return ok && b.Kind() == types.Byte
	}
	trimmed := func(f *Fn, e ast.Expr) bool {
		call, ok := ast.Unparen(e).(*ast.CallExpr)
		if !ok {
			return false
		}
		cal := callee(f.Pkg, call)
		if cal == nil || cal.Pkg() == nil || (cal.Pkg().Path() != "bytes" && cal.Pkg().Path() != "strings") {
			return false
		}
		switch cal.Name() {
		case "TrimSpace":
			return true
		case "Trim", "TrimLeft", "TrimRight":
			if len(call.Args) == 2 {
				if cut, ok := constString(f.Pkg, call.Args[1]); ok && strings.Contains(cut, " ") && strings.Contains(cut, "\t") {
					return true
				}
			}
		}
		return false
	}
	// lenZeroTest: e is len(X) ==/!= 0 (either order); returns X
	lenZeroTest := func(f *Fn, e ast.Expr) ast.Expr {
		be, ok := ast.Unparen(e).(*ast.BinaryExpr)
		if !ok || (be.Op != token.EQL && be.Op != token.NEQ && be.Op != token.GTR) {
			return nil
		}
		x, y := be.X, be.Y
		if k, isK := constInt(f.Pkg, x); isK && k == 0 {
			x, y = y, x
		}
		if k, isK := constInt(f.Pkg, y); !isK || k != 0 {
			return nil
		}
		call, ok := ast.Unparen(x).(*ast.CallExpr)
		if !ok || len(call.Args) != 1 || exprString(call.Fun) != "len" {
			return nil
		}
		return call.Args[0]
	}
	// emptiesLines: somewhere in g a loop stores into an element of the lines under a trimmed-length test
	var emptiesLines func(g *Fn) bool
	emptiesLines = func(g *Fn) bool {
		res := false
		ast.Inspect(g.Decl.Body, func(nd ast.Node) bool {
			ifs, ok := nd.(*ast.IfStmt)
			if !ok {
				return true
			}
			x := lenZeroTest(g, ifs.Cond)
			if x == nil || !trimmed(g, x) {
				return true
			}
			for _, s2 := range ifs.Body.List {
				if as, ok := s2.(*ast.AssignStmt); ok && len(as.Lhs) == 1 {
					if ix, ok := ast.Unparen(as.Lhs[0]).(*ast.IndexExpr); ok && isLinesType(g.Pkg.TypesInfo.TypeOf(ix.X)) {
						res = true
					}
				}
			}
			return true
		})
		return res
	}
	// emptiedBefore: in f, before `at`, a loop over the lines stores an empty value into an element under a
	// trimmed-length test
	emptiedBefore := func(f *Fn, at token.Pos) bool {
		found := false
		for _, st := range f.Decl.Body.List {
			if st.End() > at {
				break
			}
			switch x := st.(type) {
			case *ast.ForStmt, *ast.RangeStmt:
			case *ast.AssignStmt, *ast.ExprStmt:
				// lines = emptyBlankLines(lines): a helper of the package that does the emptying
				ast.Inspect(x, func(nd ast.Node) bool {
					call, ok := nd.(*ast.CallExpr)
					if !ok {
						return true
					}
					cal := callee(f.Pkg, call)
					if cal == nil {
						return true
					}
					g := c.fnOf(cal)
					if g == nil || g.Pkg != f.Pkg || g.Decl == nil || g.Obj == f.Obj {
						return true
					}
					for _, a := range call.Args {
						if isLinesType(f.Pkg.TypesInfo.TypeOf(a)) && emptiesLines(g) {
							found = true
						}
					}
					return true
				})
				continue
			default:
				continue
			}
			ast.Inspect(st, func(nd ast.Node) bool {
				ifs, ok := nd.(*ast.IfStmt)
				if !ok {
					return true
				}
				x := lenZeroTest(f, ifs.Cond)
				if x == nil || !trimmed(f, x) {
					return true
				}
				for _, s2 := range ifs.Body.List {
					if as, ok := s2.(*ast.AssignStmt); ok && len(as.Lhs) == 1 {
						if ix, ok := ast.Unparen(as.Lhs[0]).(*ast.IndexExpr); ok && isLinesType(f.Pkg.TypesInfo.TypeOf(ix.X)) {
							found = true
						}
					}
				}
				return true
			})
		}
		return found
	}
	n := 0
	var judge func(f *Fn, emptied bool, depth int)
	judge = func(f *Fn, emptied bool, depth int) {
		if depth > 2 {
			return
		}
		pk := f.Pkg
		k := 0
		ast.Inspect(f.Decl.Body, func(nd ast.Node) bool {
			switch x := nd.(type) {
			case *ast.BinaryExpr:
				arg := lenZeroTest(f, x)
				if arg == nil {
					return true
				}
				ix, ok := ast.Unparen(arg).(*ast.IndexExpr)
				if !ok || !isLinesType(pk.TypesInfo.TypeOf(ix.X)) {
					// len(bytes.Trim(lines[i], ..)) == 0 is itself fine; only plain elements are judged
					return true
				}
				n++
				k++
				key := fmt.Sprintf("%s | empty-line test #%d", f.Name(), k)
				if emptied || emptiedBefore(f, x.Pos()) {
					r.Ok(rule, key, "lines of blanks were emptied before this test", c.pos(x.Pos()))
				} else {
					r.Bad(rule, key, "a line counts as empty only if it has no byte at all: a line of blanks or tabs takes part in the common indentation (every line of the text keeps a leading blank) and can become the first line of the text - trailing blanks on an empty line change the description", c.pos(x.Pos()))
				}
			case *ast.CallExpr:
				cal := callee(pk, x)
				if cal == nil {
					return true
				}
				g := c.fnOf(cal)
				if g == nil || g.Pkg != pk || g.Decl == nil || g.Obj == f.Obj {
					return true
				}
				for _, a := range x.Args {
					if isLinesType(pk.TypesInfo.TypeOf(a)) {
						judge(g, emptied || emptiedBefore(f, x.Pos()), depth+1)
					}
				}
			}
			return true
		})
	}
	judge(d, false, 0)
	if n == 0 {
		r.Undecided(rule, "sites", "the normaliser of a Description has no empty-line test on the split lines", c.pos(d.Decl.Pos()))
	}
}
