package rules

import (
	"fmt"
	"go/types"
	"regexp"
	"strings"

	"golang.org/x/tools/go/ssa"

	"jsverif/internal/ssaeval"
)

// stackFacts: what Stack.Push and Stack.Pop do, read off the abstract evaluation of their SSA form (internal/ssaeval)
// with symbolic arguments. The facts are about terms (the key looked up and the key inserted are the same term; the
// element returned is the one at index len-1 of the slice the push appends to), so they hold however the code is laid
// out: helper or inline, local variable or repeated expression.
type stackFacts struct {
	err string // the evaluation could not be made (anchor missing, incomplete path)

	pushGuard, pushInsert, pushKey, pushRefuse string // "" = holds, otherwise why not
	popLIFO, popShrinks, popDeletes            string
	pushPaths, popPaths                        int
}

// fileNameOf: the term of <scanner>.file.Name() (or <scanner>.File().Name()) with nothing wrapped around it: the
// method Name of the dependency's File applied to the file the scanner's field holds.
var fileNameOf = regexp.MustCompile(`^\([^()]*fs\.File\)\.Name\(L\(\*\(L\((.+)\.[A-Za-z_0-9]+\)@\d+\)\)@\d+\)@\d+$`)

func (c *Ctx) stackFacts() *stackFacts {
	if c.stackF != nil {
		return c.stackF
	}
	f := &stackFacts{}
	c.stackF = f
	tn := c.P.LookupType("scanner", "Stack")
	scT := c.P.LookupType("scanner", "Scanner")
	pushO, popO := c.P.LookupFunc("scanner", "Stack.Push"), c.P.LookupFunc("scanner", "Stack.Pop")
	if tn == nil || scT == nil || pushO == nil || popO == nil {
		f.err = "scanner.Stack / Push / Pop not found"
		return f
	}
	st, _ := tn.Type().Underlying().(*types.Struct)
	setField, stackField, itemScanner := "", "", ""
	for i := 0; st != nil && i < st.NumFields(); i++ {
		switch t := st.Field(i).Type().Underlying().(type) {
		case *types.Map:
			if b, ok := t.Key().Underlying().(*types.Basic); ok && b.Kind() == types.String {
				if e, ok := t.Elem().Underlying().(*types.Struct); ok && e.NumFields() == 0 {
					setField = st.Field(i).Name()
				}
			}
		case *types.Slice:
			if it, ok := t.Elem().Underlying().(*types.Struct); ok {
				for j := 0; j < it.NumFields(); j++ {
					if p, ok := it.Field(j).Type().(*types.Pointer); ok && types.Identical(p.Elem(), scT.Type()) {
						stackField, itemScanner = st.Field(i).Name(), it.Field(j).Name()
					}
				}
			}
		}
	}
	if setField == "" || stackField == "" {
		f.err = "Stack has no set of file names or no slice of scanners"
		return f
	}
	follow := func(fn *ssa.Function) bool {
		return inModule(fn)
	}
	// ---- Push(s, scanner, at)
	ev := &ssaeval.Eval{MaxDepth: 4, MaxPaths: 256, Follow: follow}
	outs := ev.Run(c.P.SSAFunc(pushO), []ssaeval.Value{ssaeval.Obj("s"), ssaeval.Obj("scanner"), ssaeval.Obj("at")})
	f.pushPaths = len(outs)
	pushed, refused := 0, 0
	f.pushRefuse = "no path refuses a scanner whose file name is in the set"
	for _, o := range outs {
		if o.Incomplete != "" || o.Panics {
			f.err = "Push: a path could not be followed: " + o.Incomplete
			return f
		}
		// position of the append to the stack
		at := -1
		for i, e := range o.Events {
			if e.Kind == "store" && e.Loc == "s."+stackField && strings.HasPrefix(e.Args[0].Term(), "append(") {
				at = i
			}
		}
		// the set that s.<set> holds at a given position of the path
		setAt := func(pos int) string {
			cur := ""
			for i := 0; i < pos; i++ {
				if e := o.Events[i]; e.Kind == "store" && e.Loc == "s."+setField {
					cur = e.Args[0].Term()
				}
			}
			return cur
		}
		isSet := func(m ssaeval.Value, pos int) bool {
			if cur := setAt(pos); cur != "" {
				return m.Term() == cur
			}
			return strings.HasPrefix(m.Term(), "L(s."+setField+")@")
		}
		if at < 0 {
			// not pushed: a refusal if the path took the hit edge of a lookup in the set and returns a non-nil error
			for i, e := range o.Events {
				if e.Kind == "lookup" && isSet(e.Args[0], i) && o.CondIs(e.Args[2].Term(), true) && len(o.Rets) == 1 {
					if isNil, known := o.Rets[0].IsNilKnown(); known && !isNil {
						refused++
						f.pushRefuse = ""
					}
				}
			}
			continue
		}
		pushed++
		guard := -1
		for i := 0; i < at; i++ {
			if e := o.Events[i]; e.Kind == "lookup" && isSet(e.Args[0], i) && o.CondIs(e.Args[2].Term(), false) {
				guard = i
			}
		}
		if guard < 0 {
			f.pushGuard = "there is a path that appends the scanner without having missed a lookup of the file-name set"
			continue
		}
		key := o.Events[guard].Args[1].Term()
		if !fileNameOf.MatchString(key) || !strings.Contains(key, "(L(scanner.") {
			f.pushKey = "the name looked up is not the Name() of the file of the scanner that is pushed, unchanged (" + key + "): two different files can collide, or one file can be known under two names"
		}
		ins := false
		for i, e := range o.Events {
			if e.Kind == "mapupdate" && isSet(e.Args[0], i) && e.Args[1].Term() == key {
				ins = true
			}
		}
		if !ins {
			f.pushInsert = "there is a path that appends the scanner without inserting the name it looked up into the set"
		}
	}
	if pushed == 0 {
		f.pushGuard = "no path of Push appends to the stack"
	}
	_ = refused
	// ---- Pop(s)
	ev2 := &ssaeval.Eval{MaxDepth: 4, MaxPaths: 256, Follow: follow}
	pouts := ev2.Run(c.P.SSAFunc(popO), []ssaeval.Value{ssaeval.Obj("s")})
	f.popPaths = len(pouts)
	popped := 0
	for _, o := range pouts {
		if o.Incomplete != "" || o.Panics {
			f.err = "Pop: a path could not be followed: " + o.Incomplete
			return f
		}
		if len(o.Rets) != 1 {
			f.err = "Pop: unexpected results"
			return f
		}
		if o.Rets[0].K == ssaeval.Nil {
			continue
		}
		popped++
		// the stack as it was when Pop was entered
		stackT := "L(s." + stackField + ")@0"
		last := fmt.Sprintf("len(%s){-1}", stackT)
		top := fmt.Sprintf("%s[%s]", stackT, last)
		wantPrefix := "L(" + top + "." + itemScanner + ")@"
		r := o.Rets[0].Term()
		if !strings.HasPrefix(r, wantPrefix) {
			f.popLIFO = "Pop returns " + r + ", not the scanner of the last element of the stack"
		}
		shr, del := false, false
		for _, e := range o.Events {
			if e.Kind == "store" && e.Loc == "s."+stackField && e.Args[0].Term() == fmt.Sprintf("slice(%s,,%s)", stackT, last) {
				shr = true
			}
			if e.Kind == "delete" && len(e.Args) == 2 && strings.HasPrefix(e.Args[0].Term(), "L(s."+setField+")@") &&
				fileNameOf.MatchString(e.Args[1].Term()) && strings.Contains(e.Args[1].Term(), "(L(L("+top+"."+itemScanner+")@") {
				del = true
			}
		}
		if !shr {
			f.popShrinks = "a path of Pop returns a scanner without cutting the last element off the stack"
		}
		if !del {
			f.popDeletes = "a path of Pop returns a scanner without deleting its file name from the set"
		}
	}
	if popped == 0 {
		f.popLIFO = "no path of Pop returns a scanner"
	}
	return f
}
