package rules

import (
	"fmt"
	"go/ast"
	"strings"
)

// ---------- a note that spans lines does not keep the line ends of the file ----------

// ruleNotesLineEnds: the notes of schema nodes, of rule values and of ENUM values are comments of the document; a
// /* */ comment can span lines. The schema library hands them over as they stand in the file, CR LF included, so the
// catalog of a document saved with Windows line ends differs from the catalog of the same document saved with LF
// unless the module normalises them where it copies them into the catalog.
func (c *Ctx) ruleNotesLineEnds(rule string) {
	r := c.R
	r.Rule(rule, "in package catalog, every value copied from a Comment field of a value of jsight-schema-core into a Note field of the catalog model passes a function that makes the line ends uniform: catalog.Annotation (collapses all white space), or a function of the library whose body replaces \"\\r\\n\" and \"\\r\" (strings.ReplaceAll / bytes.ReplaceAll / a Replacer holding both) - the note of a multi-line comment is the same whatever the line ends of the file are", 3)
	pk := c.P.Pkg("catalog")
	if pk == nil {
		r.Undecided(rule, "anchor", "package catalog not loaded", "")
		return
	}
	normaliser := func(call *ast.CallExpr) bool {
		cal := callee(pk, call)
		if cal == nil {
			return false
		}
		g := c.fnOf(cal)
		if g == nil || g.Decl == nil || g.Decl.Body == nil {
			return false
		}
		if g.Obj.Name() == "Annotation" && g.Pkg == pk {
			return true
		}
		crlf, cr := false, false
		ast.Inspect(g.Decl.Body, func(nd ast.Node) bool {
			if lit, ok := nd.(*ast.BasicLit); ok {
				if s, isS := constString(g.Pkg, lit); isS {
					if s == "\r\n" {
						crlf = true
					}
					if s == "\r" {
						cr = true
					}
				}
			}
			return true
		})
		return crlf && cr
	}
	n := 0
	for _, f := range c.libFns() {
		if f.Pkg != pk {
			continue
		}
		k := 0
		ast.Inspect(f.Decl.Body, func(nd ast.Node) bool {
			var val ast.Expr
			switch x := nd.(type) {
			case *ast.KeyValueExpr:
				if kid, ok := x.Key.(*ast.Ident); ok && kid.Name == "Note" {
					val = x.Value
				}
			case *ast.AssignStmt:
				for i, l := range x.Lhs {
					if sel, ok := ast.Unparen(l).(*ast.SelectorExpr); ok && sel.Sel.Name == "Note" && i < len(x.Rhs) && len(x.Lhs) == len(x.Rhs) {
						val = x.Rhs[i]
					}
				}
			}
			if val == nil {
				return true
			}
			// does the value come from a Comment field of the dependency?
			fromComment, through := false, false
			ast.Inspect(val, func(m ast.Node) bool {
				if sel, ok := m.(*ast.SelectorExpr); ok && sel.Sel.Name == "Comment" {
					if fld := fieldSel(pk, sel); fld != nil && fld.Pkg() != nil && strings.HasPrefix(fld.Pkg().Path(), depModule) {
						fromComment = true
					}
				}
				if call, ok := m.(*ast.CallExpr); ok && normaliser(call) {
					through = true
				}
				return true
			})
			if !fromComment {
				return true
			}
			n++
			k++
			key := fmt.Sprintf("%s | Note #%d", f.Name(), k)
			if through {
				r.Ok(rule, key, "the comment passes a line-end normaliser", c.pos(val.Pos()))
			} else {
				r.Bad(rule, key, "a comment of the schema library is copied into the catalog as it stands in the file: a /* */ note that spans lines keeps \\r\\n in a document with Windows line ends and \\n in the same document with Unix line ends - the catalogs differ", c.pos(val.Pos()))
			}
			return true
		})
	}
	if n < 3 {
		r.Undecided(rule, "sites", fmt.Sprintf("only %d copies of a Comment into a Note found in package catalog", n), "")
	}
}
