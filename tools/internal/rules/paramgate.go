package rules

import (
	"fmt"
	"go/ast"
	"go/types"
	"strings"
)

// ---------- a parameter reaches the model whatever the other parameters say ----------

// ruleParamNotGated: the handlers of package core copy named parameters of a directive into fields of the catalog
// model (q.Format = d.NamedParameter("Format")). The parameters of a directive are independent of each other in the
// language: whether one is written says nothing about another. A copy that only happens under a test of ANOTHER
// parameter drops what the document says whenever that other parameter is absent.
func (c *Ctx) ruleParamNotGated(rule string) {
	r := c.R
	r.Rule(rule, "in package core, an assignment that stores a named parameter of a directive (d.NamedParameter(\"K\"), directly or through a local only assigned from it) into a field of a value of package catalog is not nested in an if/switch/case whose condition reads a DIFFERENT named parameter of the directive (directly or through such a local) - unless that condition's other branch stores the same field too: what the document says for K reaches the catalog whether or not K' is written", 1)
	pkc := c.P.Pkg("core")
	if pkc == nil {
		r.Undecided(rule, "anchor", "package core not loaded", "")
		return
	}
	n := 0
	for _, f := range c.libFns() {
		if f.Pkg != pkc {
			continue
		}
		pk := f.Pkg
		// locals assigned from NamedParameter("K") only
		localKey := map[types.Object]string{}
		multi := map[types.Object]bool{}
		keyOfCall := func(e ast.Expr) string {
			call, ok := ast.Unparen(e).(*ast.CallExpr)
			if !ok || len(call.Args) != 1 {
				return ""
			}
			cal := callee(pk, call)
			if cal == nil || cal.Name() != "NamedParameter" {
				return ""
			}
			k, ok := constString(pk, call.Args[0])
			if !ok {
				return ""
			}
			return k
		}
		ast.Inspect(f.Decl.Body, func(nd ast.Node) bool {
			as, ok := nd.(*ast.AssignStmt)
			if !ok || len(as.Lhs) != len(as.Rhs) {
				return true
			}
			for i, l := range as.Lhs {
				id, ok := l.(*ast.Ident)
				if !ok {
					continue
				}
				obj := pk.TypesInfo.ObjectOf(id)
				if obj == nil {
					continue
				}
				k := keyOfCall(as.Rhs[i])
				if k == "" {
					if _, had := localKey[obj]; had {
						multi[obj] = true
					}
					continue
				}
				if old, had := localKey[obj]; had && old != k {
					multi[obj] = true
				}
				localKey[obj] = k
			}
			return true
		})
		keysIn := func(e ast.Node) map[string]bool {
			out := map[string]bool{}
			ast.Inspect(e, func(m ast.Node) bool {
				switch x := m.(type) {
				case *ast.CallExpr:
					if k := keyOfCall(x); k != "" {
						out[k] = true
					}
				case *ast.Ident:
					if obj := pk.TypesInfo.Uses[x]; obj != nil && !multi[obj] {
						if k, ok := localKey[obj]; ok {
							out[k] = true
						}
					}
				}
				return true
			})
			return out
		}
		inspectWithStack(f.Decl.Body, func(nd ast.Node, stack []ast.Node) bool {
			as, ok := nd.(*ast.AssignStmt)
			if !ok || len(as.Lhs) != len(as.Rhs) {
				return true
			}
			for i, l := range as.Lhs {
				fld := fieldSel(pk, l)
				if fld == nil || fld.Pkg() == nil || !strings.HasSuffix(fld.Pkg().Path(), "/catalog") {
					continue
				}
				ks := keysIn(as.Rhs[i])
				if len(ks) != 1 {
					continue
				}
				var k string
				for kk := range ks {
					k = kk
				}
				n++
				key := fmt.Sprintf("%s | %s = parameter %s", f.Name(), exprString(l), k)
				gate := ""
				for j := len(stack) - 1; j >= 0 && gate == ""; j-- {
					var cond ast.Node
					var other ast.Node
					switch p := stack[j].(type) {
					case *ast.FuncLit:
						j = -1
						continue
					case *ast.IfStmt:
						if p.Body.Pos() <= as.Pos() && as.End() <= p.Body.End() {
							cond, other = p.Cond, p.Else
							if p.Init != nil {
								for kk := range keysIn(p.Init) {
									if kk != k {
										gate = kk
									}
								}
							}
						} else if p.Else != nil && p.Else.Pos() <= as.Pos() && as.End() <= p.Else.End() {
							cond, other = p.Cond, p.Body
						}
					case *ast.CaseClause:
						for _, e := range p.List {
							for kk := range keysIn(e) {
								if kk != k {
									gate = kk
								}
							}
						}
					case *ast.SwitchStmt:
						if p.Tag != nil {
							for kk := range keysIn(p.Tag) {
								if kk != k {
									gate = kk
								}
							}
						}
					}
					if cond == nil {
						continue
					}
					g := ""
					for kk := range keysIn(cond) {
						if kk != k {
							g = kk
						}
					}
					if g == "" {
						continue
					}
					// the other branch stores the same field too: the test picks between two values, it drops nothing
					stores := false
					if other != nil {
						ast.Inspect(other, func(m ast.Node) bool {
							if a2, ok := m.(*ast.AssignStmt); ok {
								for _, l2 := range a2.Lhs {
									if f2 := fieldSel(pk, l2); f2 != nil && f2 == fld {
										stores = true
									}
								}
							}
							return true
						})
					}
					if !stores {
						gate = g
					}
				}
				if gate == "" {
					r.Ok(rule, key, "stored whatever the other parameters of the directive are", c.pos(as.Pos()))
				} else {
					r.Bad(rule, key, fmt.Sprintf("the parameter %s is copied into the catalog only when the parameter %s passes a test: a directive that writes %s without %s loses it", k, gate, k, gate), c.pos(as.Pos()))
				}
			}
			return true
		})
	}
	if n < 1 {
		r.Undecided(rule, "sites", "no copy of a named parameter into a catalog field found in package core", "")
	}
}
