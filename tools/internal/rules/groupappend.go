package rules

import (
	"go/ast"
	"go/types"
)

// ruleGroupAppendTotal: a tag lists an interaction because the interaction was filed under it - the list of a
// tag's interaction group and the interactions that name the tag are two views of one relation (C05-TAG-PAIRING
// checks the side of the interaction). The group's side is the method that is handed an InteractionID and appends it
// to the group's list. It must do so for every id it is handed: a test in front of the append (a "listed already"
// scan, a filter by kind) leaves an interaction that names the tag out of the tag's list.
func (c *Ctx) ruleGroupAppendTotal(rule string) {
	r := c.R
	r.Rule(rule, "every method of package catalog that is handed one catalog.InteractionID and appends it to a list of its receiver (the interaction groups of a tag) does so unconditionally: the append is a statement of the method's body itself, in the plain form `recv.F = append(recv.F, id)`, and the method has no return in front of it - so every interaction filed under a tag is listed by the tag", 2)
	pk := c.P.Pkg("catalog")
	if pk == nil {
		r.Undecided(rule, "anchor", "package catalog not loaded", "")
		return
	}
	n := 0
	for _, f := range c.libFns() {
		if f.Pkg != pk || f.Decl.Recv == nil {
			continue
		}
		sig, _ := f.Obj.Type().(*types.Signature)
		if sig == nil || sig.Params().Len() != 1 || sig.Results().Len() != 0 {
			continue
		}
		nt, _ := sig.Params().At(0).Type().(*types.Named)
		if nt == nil || nt.Obj().Name() != "InteractionID" || nt.Obj().Pkg() == nil || nt.Obj().Pkg() != pk.Types {
			continue
		}
		// a method that writes a slice field of its receiver at all
		writes := false
		var recv types.Object
		if len(f.Decl.Recv.List) == 1 && len(f.Decl.Recv.List[0].Names) == 1 {
			recv = pk.TypesInfo.Defs[f.Decl.Recv.List[0].Names[0]]
		}
		ast.Inspect(f.Decl.Body, func(nd ast.Node) bool {
			if as, ok := nd.(*ast.AssignStmt); ok {
				for _, l := range as.Lhs {
					if sel, ok := ast.Unparen(l).(*ast.SelectorExpr); ok {
						if id, ok := ast.Unparen(sel.X).(*ast.Ident); ok && recv != nil && pk.TypesInfo.Uses[id] == recv {
							if _, ok := pk.TypesInfo.TypeOf(l).Underlying().(*types.Slice); ok {
								writes = true
							}
						}
					}
				}
			}
			return true
		})
		if !writes {
			continue
		}
		n++
		key := f.Name()
		if !c.appendsParamToReceiver(f.Obj) {
			r.Bad(rule, key, "the list of the group is written, but not in the plain form recv.F = append(recv.F, id): what the tag lists is no longer simply what was filed under it", c.pos(f.Decl.Pos()))
			continue
		}
		// the plain append is a statement of the body itself and nothing returns before it
		top := -1
		for i, st := range f.Decl.Body.List {
			if as, ok := st.(*ast.AssignStmt); ok && len(as.Rhs) == 1 {
				if call, ok := ast.Unparen(as.Rhs[0]).(*ast.CallExpr); ok {
					if id, ok := call.Fun.(*ast.Ident); ok && id.Name == "append" && len(call.Args) == 2 && types.ExprString(call.Args[0]) == types.ExprString(as.Lhs[0]) {
						top = i
						break
					}
				}
			}
		}
		if top < 0 {
			r.Bad(rule, key, "the append of the id stands under a condition or in a loop: an id can be handed in without being listed", c.pos(f.Decl.Pos()))
			continue
		}
		var early ast.Node
		for _, st := range f.Decl.Body.List[:top] {
			ast.Inspect(st, func(nd ast.Node) bool {
				if _, ok := nd.(*ast.FuncLit); ok {
					return false
				}
				if ret, ok := nd.(*ast.ReturnStmt); ok && early == nil {
					early = ret
				}
				return true
			})
		}
		if early != nil {
			r.Bad(rule, key, "the method can return before it appends the id: an interaction that names the tag is missing from the tag's list", c.pos(early.Pos()))
			continue
		}
		r.Ok(rule, key, "appends the id it is handed to the list, unconditionally", c.pos(f.Decl.Body.List[top].Pos()))
	}
	if n == 0 {
		r.Undecided(rule, "sites", "no method taking a catalog.InteractionID and writing a list of its receiver found (the append methods of the two tag interaction groups used to match)", "")
	}
}
