package rules

import (
	"fmt"
	"go/ast"
	"go/types"
)

// ruleCommentStartTotal: a '#' outside a body starts a comment wherever it stands; the step functions hand it to one
// helper (`case CommentSign: return s.startComment()`). Whatever that helper returns is the verdict on the '#': if it
// can return an error - a limit on the depth of the step stack, a test of the state it was called from - then adding
// a comment turns an accepted document into a refused one. The helper must return nil on every path.
func (c *Ctx) ruleCommentStartTotal(rule string) {
	r := c.R
	r.Rule(rule, "the helper that the step functions of package scanner call on the comment sign (`case CommentSign: return s.<helper>()`, in at least three step functions) returns the nil literal on every path and does not panic: starting a comment cannot fail, so a comment never changes the verdict on a document", 1)
	pk := c.P.Pkg("scanner")
	if pk == nil {
		r.Undecided(rule, "anchor", "package scanner not loaded", "")
		return
	}
	cs := pk.Types.Scope().Lookup("CommentSign")
	if cs == nil {
		r.Undecided(rule, "anchor", "scanner.CommentSign not found", "")
		return
	}
	count := map[*types.Func]int{}
	for _, f := range c.libFns() {
		if f.Pkg != pk {
			continue
		}
		ast.Inspect(f.Decl.Body, func(nd ast.Node) bool {
			cc, ok := nd.(*ast.CaseClause)
			if !ok || len(cc.Body) != 1 {
				return true
			}
			hit := false
			for _, e := range cc.List {
				if id, ok := ast.Unparen(e).(*ast.Ident); ok && pk.TypesInfo.Uses[id] == cs {
					hit = true
				}
			}
			if !hit {
				return true
			}
			if ret, ok := cc.Body[0].(*ast.ReturnStmt); ok && len(ret.Results) == 1 {
				if call, ok := ast.Unparen(ret.Results[0]).(*ast.CallExpr); ok && len(call.Args) == 0 {
					if cal := callee(pk, call); cal != nil {
						count[cal]++
					}
				}
			}
			return true
		})
	}
	n := 0
	for cal, k := range count {
		if k < 3 {
			continue
		}
		h := c.fnOf(cal)
		if h == nil {
			continue
		}
		n++
		var bad ast.Node
		why := ""
		ast.Inspect(h.Decl.Body, func(nd ast.Node) bool {
			if bad != nil {
				return false
			}
			switch x := nd.(type) {
			case *ast.FuncLit:
				return false
			case *ast.ReturnStmt:
				if len(x.Results) != 1 || !isNil(h.Pkg, x.Results[0]) {
					bad, why = x, "returns something else than nil"
				}
			case *ast.CallExpr:
				if id, ok := x.Fun.(*ast.Ident); ok && id.Name == "panic" {
					bad, why = x, "panics"
				}
			}
			return true
		})
		key := h.Name()
		if bad != nil {
			r.Bad(rule, key, fmt.Sprintf("called on the comment sign in %d step functions, and it %s: a comment can turn an accepted document into a refused one", k, why), c.pos(bad.Pos()))
		} else {
			r.Ok(rule, key, fmt.Sprintf("called on the comment sign in %d step functions; returns nil on every path", k), c.pos(h.Decl.Pos()))
		}
	}
	if n == 0 {
		r.Undecided(rule, "sites", "no helper called on CommentSign in three or more step functions ((*Scanner).startComment used to match)", "")
	}
}
