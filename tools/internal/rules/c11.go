package rules

import (
	"fmt"
	"go/ast"
	"go/constant"
	"go/token"
	"go/types"
	"golang.org/x/tools/go/ssa"
	"sort"
	"strings"

	"jsverif/internal/prog"
	"jsverif/internal/scanfsm"
	"jsverif/internal/ssaeval"
)

func init() { register("C11", propC11, false, false) }

func propC11(c *Ctx) {
	c.R.Explanation = "Decides (a) that the context table encoded in package directive (kinds, spellings, root set, parent->children relation, HTTP-method set) equals the frozen reference table of JSight API 0.3, pair by pair; (b) the control structure of the resolution algorithm: one context cursor, attach only under the allowed-lookup, silent walk-up only from implicit contexts, explicit contexts reject, method-with-Path under an implicit URL starts a new root, ')' closes the innermost explicit context and errors at nil; (c) parenthesis events in the scanner. Not decided: the verdict for each concrete directive sequence (the product of table and algorithm is not enumerated)."
	t := c.Tables()
	c.ruleC11Table(t)
	c.ruleAccessorFaithful("C11-ACCESSOR-FAITHFUL")
	c.ruleC11WalkUp()
	c.ruleC11CursorSteps("C11-CURSOR-STEPS")
	c.ruleC11Close()
	c.ruleC10CopyReset()    // the paste pass re-runs the same context resolution on copies
	c.ruleC10CopyIdentity() // a child is attached whatever other children stand at the same coordinates (copies of one macro directive do)
	c.ruleOpenForEveryKind("C11-OPEN-FOR-EVERY-KIND")
	c.rulePlaceWhenComplete("C11-PLACE-WHEN-COMPLETE")
	c.ruleExplicitFlagWriters("C11-EXPLICIT-FLAG-WRITERS")
	c.ruleURLChildClasses("C11-URL-CHILD-CLASSES")
	c.rulePhaseConstructor() // the second placement pass runs for every project: nothing is decided from the root file's text
	if m := c.E1Base(); m != nil {
		c.ruleC11Paren(m)
		c.ruleOpenTransparent(m, "C11-OPEN-TRANSPARENT")
		c.ruleOpenUngated("C11-OPEN-UNGATED")
		c.ruleCommentBeforeOpen("C11-COMMENT-BEFORE-OPEN")
		// the states entered after '(' return by popping: a pop with nothing pushed refuses a well-nested document
		c.R.Only = func(rule string) bool { return rule == "C01-PDS-UNDERFLOW" }
		c.ruleC01Scanner(m, false)
		c.R.Only = nil
		c.ruleEOFAsEOL(m, c.Analysis(stackK, false)) // a context opened at the very end of an included file is closed by the including one
	}
}

// ruleC11CursorSteps: the context cursor is the whole state of the walk-up algorithm. It moves by steps - onto the
// directive that has just been placed, one level up, or back to "no context" before a pass starts. A write of anything
// else (a saved earlier value put back, a directive found elsewhere) makes the placement of the next directive depend
// on something other than the text before it.
func (c *Ctx) ruleC11CursorSteps(rule string) {
	r := c.R
	r.Rule(rule, "every assignment to the context cursor (core.currentContextDirective) assigns nil, <expr>.Parent, or the directive parameter of the enclosing function (the directive being placed): the cursor is never restored from a saved copy nor set to a directive obtained elsewhere", 5)
	cur := c.coreField("currentContextDirective")
	if cur == nil {
		r.Undecided(rule, "anchor", "field core.JApiCore.currentContextDirective not found", "")
		return
	}
	n := 0
	for _, f := range c.libFns() {
		pk := f.Pkg
		ast.Inspect(f.Decl.Body, func(nd ast.Node) bool {
			as, ok := nd.(*ast.AssignStmt)
			if !ok {
				return true
			}
			for i, l := range as.Lhs {
				if fieldSel(pk, l) != cur || i >= len(as.Rhs) {
					continue
				}
				n++
				rhs := unalias(f, as.Rhs[i])
				key := fmt.Sprintf("%s | cursor = %s", f.Name(), exprString(as.Rhs[i]))
				okStep := ""
				switch x := rhs.(type) {
				case *ast.Ident:
					if isNil(pk, x) {
						okStep = "reset to no context"
					} else if pi := paramIndexOf(f, x); pi >= 0 && !paramAssigned(f, x) {
						okStep = "the directive handed to the function"
					}
				case *ast.SelectorExpr:
					if fld := fieldSel(pk, x); fld != nil && fld.Name() == "Parent" {
						okStep = "one level up"
					}
				case *ast.UnaryExpr:
					// &copy of the directive being placed (the paste pass works on copies)
					if x.Op == token.AND {
						okStep = "the address of the copy being placed"
					}
				}
				if okStep != "" {
					r.Ok(rule, key, okStep, c.pos(as.Pos()))
				} else {
					r.Bad(rule, key, "the context cursor is set to something that is neither nil, nor a Parent, nor the directive being placed (a saved earlier value put back?): the next directive is resolved from a context that the text before it did not lead to", c.pos(as.Pos()))
				}
			}
			return true
		})
	}
	if n == 0 {
		r.Undecided(rule, "sites", "no assignment to the context cursor found", "")
	}
}

func (c *Ctx) ruleC11Table(t *Tables) {
	r := c.R
	r.Rule("E2-TABLES", "the directive tables are read from typed literals; anything unreadable is UNDECIDED", 1)
	r.Rule("C11-TABLE", "kinds+spellings, root set, parent->children relation and HTTP-method set extracted from the source equal tools/reference/context_table.json (semantic comparison of sets of pairs)", 100)
	for _, p := range t.Problems {
		r.Undecided("E2-TABLES", "extract", p, "")
	}
	if len(t.Problems) > 0 {
		return
	}
	r.Ok("E2-TABLES", "extract", fmt.Sprintf("%d kinds, %d parents in the context relation", len(t.Consts), len(t.Children)), "")
	ref, err := loadContextRef()
	if err != nil {
		r.Undecided("C11-TABLE", "reference", "cannot load the reference table: "+err.Error(), "")
		return
	}
	// kinds and spellings
	for n, sp := range ref.Kinds {
		v, ok := t.Consts[n]
		switch {
		case !ok:
			r.Bad("C11-TABLE", "kind "+n, "directive kind of the reference is missing in the source", "")
		case int(v) >= len(t.SS) || t.SS[v] != sp:
			got := ""
			if int(v) < len(t.SS) {
				got = t.SS[v]
			}
			r.Bad("C11-TABLE", "kind "+n, fmt.Sprintf("spelling is %q, the language says %q", got, sp), "")
		default:
			r.OkTrivial("C11-TABLE", "kind "+n, "spelled "+sp, "")
		}
	}
	for n := range t.Consts {
		if _, ok := ref.Kinds[n]; !ok {
			r.Bad("C11-TABLE", "kind "+n, "directive kind is not part of the reference language table", "")
		}
	}
	cmpSet := func(what string, got map[string]bool, want []string) {
		ws := map[string]bool{}
		for _, w := range want {
			ws[w] = true
		}
		for _, w := range want {
			if got[w] {
				r.Ok("C11-TABLE", what+" contains "+w, "as in the reference", "")
			} else {
				r.Bad("C11-TABLE", what+" contains "+w, "the reference allows it, the source does not", "")
			}
		}
		for g := range got {
			if got[g] && !ws[g] {
				r.Bad("C11-TABLE", what+" contains "+g, "the source allows it, the reference does not", "")
			}
		}
	}
	cmpSet("root", t.Root, ref.Root)
	cmpSet("http-methods", t.HTTPMethod, ref.Methods)
	var parents []string
	for p := range ref.Children {
		parents = append(parents, p)
	}
	sort.Strings(parents)
	for _, p := range parents {
		got := t.Children[p]
		if got == nil {
			got = map[string]bool{}
		}
		cmpSet("children("+p+")", got, ref.Children[p])
	}
	for p, cs := range t.Children {
		if _, ok := ref.Children[p]; !ok && len(cs) > 0 {
			r.Bad("C11-TABLE", "children("+p+")", "the source gives this kind a context, the reference does not", "")
		}
	}
}

// ruleC11WalkUp checks the structure of core.processContext.
// ruleC11WalkUp used to check the structure of processContext on its syntax (one cursor expression, attachments inside
// the body of the `if` that asks IsAllowedForDirectiveContext, ...). Those clauses recognised one layout of the
// function and raised alarms when a branch was moved into a helper; every one of them is implied by the path rule
// C11-PLACEMENT-PATHS, which is decided on the abstract evaluation and does not depend on the layout. The syntactic
// rule is retired (kept below as ruleC11WalkUpSyntactic for reference, not run).
func (c *Ctx) ruleC11WalkUp() {
	c.ruleC11PlacementPaths()
}

func (c *Ctx) ruleC11WalkUpSyntactic() {
	r := c.R
	r.Rule("C11-WALK-UP", "processContext: one context cursor; AppendChild and Parent assignment only under IsAllowedForDirectiveContext(d.Type()); silent move to .Parent only after the explicit-context test returned the incorrect-context error; root append only under IsAllowedForRootContext or the method-with-Path-under-URL test whose explicit-URL branch returns the error", 6)
	f := c.fn("core", "JApiCore.processContext")
	if f == nil {
		r.Undecided("C11-WALK-UP", "anchor", "core.(*JApiCore).processContext not found", "")
		return
	}
	pk := f.Pkg
	where := c.pos(f.Decl.Pos())
	dirPtr := func(e ast.Expr) bool {
		return namedType(pk.TypesInfo.TypeOf(e)) == prog.ModulePath+"/directive.Directive"
	}
	// the directive parameter
	var dParam types.Object
	for _, fl := range f.Decl.Type.Params.List {
		for _, n := range fl.Names {
			if obj := pk.TypesInfo.Defs[n]; obj != nil {
				if p, ok := obj.Type().(*types.Pointer); ok && namedType(p) == prog.ModulePath+"/directive.Directive" {
					dParam = obj
				}
			}
		}
	}
	if dParam == nil {
		r.Undecided("C11-WALK-UP", "anchor", "no *directive.Directive parameter in processContext", where)
		return
	}
	dPath := fmt.Sprintf("%s#%d", dParam.Name(), dParam.Pos())
	cfgF := buildCFG(f.Decl.Body)

	// collect every context-cursor expression
	cursors := map[string][]token.Pos{}
	note := func(e ast.Expr) {
		if !dirPtr(e) {
			return
		}
		p := accessPath(pk, e)
		if p == "" || p == dPath {
			return
		}
		cursors[p] = append(cursors[p], e.Pos())
	}
	var allowedIf, rootIf *ast.IfStmt
	var explicitIfs []*ast.IfStmt
	var appendChild []*ast.CallExpr
	var parentAssign, walkUp []*ast.AssignStmt
	var rootAppends []ast.Node
	// helpers of the package that append their directive parameter to a list handed in by pointer (appendToRoot):
	// a call of one with d counts as the root append
	appendHelpers := map[*types.Func]int{} // -> index of the directive parameter
	for _, h := range c.libFns() {
		if h.Pkg != pk || h.Obj == f.Obj {
			continue
		}
		ast.Inspect(h.Decl.Body, func(n ast.Node) bool {
			as, ok := n.(*ast.AssignStmt)
			if !ok || len(as.Lhs) != 1 || len(as.Rhs) != 1 {
				return true
			}
			call, ok := ast.Unparen(as.Rhs[0]).(*ast.CallExpr)
			if !ok || len(call.Args) != 2 {
				return true
			}
			if id, ok := call.Fun.(*ast.Ident); !ok || id.Name != "append" {
				return true
			}
			if st, ok := ast.Unparen(as.Lhs[0]).(*ast.StarExpr); !ok || paramIndexOf(h, st.X) < 0 {
				return true
			}
			if i := paramIndexOf(h, call.Args[1]); i >= 0 && dirPtr(call.Args[1]) && !paramAssigned(h, call.Args[1]) {
				appendHelpers[h.Obj] = i
			}
			return true
		})
	}
	inspectWithStack(f.Decl.Body, func(n ast.Node, stack []ast.Node) bool {
		switch x := n.(type) {
		case *ast.SelectorExpr:
			if fld := fieldSel(pk, x); fld != nil && (fld.Name() == "HasExplicitContext" || fld.Name() == "Parent") {
				note(x.X)
			}
		case *ast.CallExpr:
			if cal := callee(pk, x); cal != nil {
				if i, isHelper := appendHelpers[cal.Origin()]; isHelper && i < len(x.Args) && accessPath(pk, x.Args[i]) == dPath {
					rootAppends = append(rootAppends, x)
				}
				if sel, ok := ast.Unparen(x.Fun).(*ast.SelectorExpr); ok {
					switch cal.Name() {
					case "Type", "AppendChild":
						note(sel.X)
					}
					if cal.Name() == "AppendChild" {
						appendChild = append(appendChild, x)
					}
				}
			}
		case *ast.BinaryExpr:
			if x.Op == token.EQL || x.Op == token.NEQ {
				if isNil(pk, x.Y) {
					note(x.X)
				}
				if isNil(pk, x.X) {
					note(x.Y)
				}
			}
		case *ast.IfStmt:
			condCalls := func(name string) bool {
				found := false
				ast.Inspect(x.Cond, func(m ast.Node) bool {
					if call, ok := m.(*ast.CallExpr); ok {
						if cal := callee(pk, call); cal != nil && cal.Name() == name {
							found = true
						}
					}
					return true
				})
				return found
			}
			if condCalls("IsAllowedForDirectiveContext") {
				allowedIf = x
			}
			if condCalls("IsAllowedForRootContext") {
				rootIf = x
			}
			if fld := fieldSel(pk, x.Cond); fld != nil && fld.Name() == "HasExplicitContext" {
				explicitIfs = append(explicitIfs, x)
			}
		case *ast.AssignStmt:
			if len(x.Lhs) == 1 && len(x.Rhs) == 1 {
				if fld := fieldSel(pk, x.Lhs[0]); fld != nil && fld.Name() == "Parent" {
					if accessPath(pk, x.Lhs[0].(*ast.SelectorExpr).X) == dPath {
						parentAssign = append(parentAssign, x)
						note(x.Rhs[0])
					}
				}
				if fld := fieldSel(pk, x.Rhs[0]); fld != nil && fld.Name() == "Parent" && dirPtr(x.Lhs[0]) {
					if accessPath(pk, x.Lhs[0]) == accessPath(pk, x.Rhs[0].(*ast.SelectorExpr).X) {
						walkUp = append(walkUp, x)
					}
				}
				if call, ok := ast.Unparen(x.Rhs[0]).(*ast.CallExpr); ok {
					if id, ok := call.Fun.(*ast.Ident); ok && id.Name == "append" && len(call.Args) == 2 {
						if accessPath(pk, call.Args[1]) == dPath {
							rootAppends = append(rootAppends, x)
						}
					}
				}
			}
		}
		return true
	})
	// one cursor
	if len(cursors) == 1 {
		for p, ps := range cursors {
			r.Ok("C11-WALK-UP", "single context cursor", fmt.Sprintf("all %d context tests, attachments and walk-up steps use %s", len(ps), prettyPath(p)), where)
		}
	} else {
		var ps []string
		for p, pp := range cursors {
			ps = append(ps, fmt.Sprintf("%s (%d uses, first at %s)", prettyPath(p), len(pp), c.pos(pp[0])))
		}
		sort.Strings(ps)
		r.Bad("C11-WALK-UP", "single context cursor", "the context is read through different expressions inside the resolution loop, so a test and the action it guards can look at different directives: "+strings.Join(ps, "; "), where)
	}
	within := func(n ast.Node, blk *ast.BlockStmt) bool {
		return blk != nil && blk.Pos() <= n.Pos() && n.End() <= blk.End()
	}
	// attachments under the allowed-lookup
	if allowedIf == nil {
		r.Bad("C11-WALK-UP", "allowed lookup", "no `if <ctx>.Type().IsAllowedForDirectiveContext(d.Type())` in processContext", where)
	} else {
		ok := len(appendChild) > 0 && len(parentAssign) > 0
		for _, a := range appendChild {
			ok = ok && within(a, allowedIf.Body)
		}
		for _, a := range parentAssign {
			ok = ok && within(a, allowedIf.Body)
		}
		if ok {
			r.Ok("C11-WALK-UP", "attach under allowed lookup", fmt.Sprintf("%d AppendChild and %d Parent assignments, all inside the true branch of the lookup", len(appendChild), len(parentAssign)), c.pos(allowedIf.Pos()))
		} else {
			r.Bad("C11-WALK-UP", "attach under allowed lookup", "a child is attached (AppendChild / d.Parent = ...) outside the true branch of IsAllowedForDirectiveContext, or no attachment found", c.pos(allowedIf.Pos()))
		}
		// the argument of the lookup is d.Type()
		argOK := false
		ast.Inspect(allowedIf.Cond, func(m ast.Node) bool {
			if call, ok := m.(*ast.CallExpr); ok {
				if cal := callee(pk, call); cal != nil && cal.Name() == "IsAllowedForDirectiveContext" && len(call.Args) == 1 {
					if inner, ok := ast.Unparen(call.Args[0]).(*ast.CallExpr); ok {
						if ic := callee(pk, inner); ic != nil && ic.Name() == "Type" {
							if sel, ok := ast.Unparen(inner.Fun).(*ast.SelectorExpr); ok && accessPath(pk, sel.X) == dPath {
								argOK = true
							}
						}
					}
				}
			}
			return true
		})
		if argOK {
			r.Ok("C11-WALK-UP", "lookup argument", "the kind looked up is d.Type() of the incoming directive", c.pos(allowedIf.Pos()))
		} else {
			r.Bad("C11-WALK-UP", "lookup argument", "IsAllowedForDirectiveContext is not asked about d.Type()", c.pos(allowedIf.Pos()))
		}
	}
	// walk-up only after the explicit test returned an error
	if len(walkUp) == 0 {
		r.Bad("C11-WALK-UP", "walk-up", "no `ctx = ctx.Parent` step found: implicit contexts cannot close", where)
	}
	for i, w := range walkUp {
		guarded := false
		for _, ei := range explicitIfs {
			if returnsNonNilError(pk, ei.Body.List) && !within(w, ei.Body) && cfgF.dominatedBy(w, ei.Cond) {
				guarded = true
			}
		}
		key := fmt.Sprintf("walk-up #%d", i+1)
		if guarded {
			r.Ok("C11-WALK-UP", key, "dominated by `if ctx.HasExplicitContext { return <incorrect-context error> }`", c.pos(w.Pos()))
		} else {
			r.Bad("C11-WALK-UP", key, "the silent move to the parent context is not guarded by an explicit-context test that returns an error: an explicit '( )' context can close silently", c.pos(w.Pos()))
		}
	}
	// root appends
	if rootIf == nil {
		r.Bad("C11-WALK-UP", "root lookup", "no `if d.Type().IsAllowedForRootContext()` in processContext", where)
	}
	for i, a := range rootAppends {
		key := fmt.Sprintf("root append #%d", i+1)
		switch {
		case rootIf != nil && within(a, rootIf.Body):
			r.Ok("C11-WALK-UP", key, "inside the true branch of IsAllowedForRootContext", c.pos(a.Pos()))
		case allowedIf != nil && within(a, allowedIf.Body):
			// must be in the method-with-path branch, after an explicit test that errors
			guarded := false
			for _, ei := range explicitIfs {
				if returnsNonNilError(pk, ei.Body.List) && !within(a, ei.Body) && cfgF.dominatedBy(a, ei.Cond) && within(ei, allowedIf.Body) {
					guarded = true
				}
			}
			pathTest := false
			inspectWithStack(allowedIf.Body, func(n ast.Node, _ []ast.Node) bool {
				if call, ok := n.(*ast.CallExpr); ok {
					if cal := callee(pk, call); cal != nil && cal.Name() == "IsHTTPRequestMethod" {
						pathTest = true
					}
				}
				return true
			})
			if guarded && pathTest {
				r.Ok("C11-WALK-UP", key, "method-with-Path branch: explicit URL context returns the error first", c.pos(a.Pos()))
			} else {
				r.Bad("C11-WALK-UP", key, "a directive is appended to the root from inside a context without the explicit-URL test returning the error first", c.pos(a.Pos()))
			}
		default:
			r.Bad("C11-WALK-UP", key, "a directive is appended to the root outside the root-allowed test", c.pos(a.Pos()))
		}
	}
	if rootIf != nil {
		// the statement after the root if returns an error
		ok := false
		inspectWithStack(f.Decl.Body, func(n ast.Node, stack []ast.Node) bool {
			if blk, isB := n.(*ast.BlockStmt); isB {
				for i, s := range blk.List {
					if s == ast.Stmt(rootIf) && i+1 < len(blk.List) && returnsNonNilError(pk, blk.List[i+1:i+2]) {
						ok = true
					}
				}
			}
			return true
		})
		if ok && returnsNil(pk, rootIf.Body.List) {
			r.Ok("C11-WALK-UP", "root reject", "a kind that is not root-allowed is rejected with an error at the root", c.pos(rootIf.Pos()))
		} else {
			r.Bad("C11-WALK-UP", "root reject", "the root-context test is not followed by an error return for kinds that are not allowed at the root", c.pos(rootIf.Pos()))
		}
	}
}

func returnsNil(pk interface{}, list []ast.Stmt) bool {
	if len(list) == 0 {
		return false
	}
	r, ok := list[len(list)-1].(*ast.ReturnStmt)
	if !ok || len(r.Results) != 1 {
		return false
	}
	id, ok := ast.Unparen(r.Results[0]).(*ast.Ident)
	return ok && id.Name == "nil"
}

// ruleC11Close: closeLastExplicitContext / processContextEnd / processEOF.
func (c *Ctx) ruleC11Close() {
	r := c.R
	r.Rule("C11-CLOSE", "closeLastExplicitContext stops at the first explicit ancestor and errors at nil; processContextEnd finalises the pending directive first; processEOF reports an open explicit context", 4)
	f := c.fn("core", "JApiCore.closeLastExplicitContext")
	// the walk may have been written into the handler of ")" itself: then that handler is evaluated, with the
	// finalisation of the pending directive kept opaque (it places a directive and moves the cursor by its own rules)
	inlined := false
	pcdFn := c.P.LookupFunc("core", "JApiCore.processCurrentDirective")
	if f == nil {
		f = c.fn("core", "JApiCore.processContextEnd")
		inlined = true
	}
	if f == nil {
		r.Undecided("C11-CLOSE", "anchor", "neither closeLastExplicitContext nor processContextEnd found", "")
		return
	}
	where := c.pos(f.Decl.Pos())
	// closeLastExplicitContext is read off its abstract evaluation (three rounds of its loop): the context cursor
	// only ever moves from a directive to that directive's Parent; a directive is left only together with a test of
	// its HasExplicitContext; nil is returned exactly when the directive left last was explicit (and no earlier one
	// was); a non-nil error is returned exactly when the cursor was found to be nil. The layout (endless loop with
	// ifs, loop condition, local alias) does not matter.
	cur := c.coreField("currentContextDirective")
	sf := c.P.SSAFunc(f.Obj)
	finalFirstC11 := true
	if cur == nil || sf == nil {
		r.Undecided("C11-CLOSE", "anchor", "context cursor field or SSA form not found", where)
	} else {
		loc := "core." + cur.Name()
		ev := c.newEval()
		finalFirst := true
		_ = finalFirst
		if inlined && pcdFn != nil {
			pcdSSA := c.P.SSAFunc(pcdFn)
			inner := ev.Follow
			ev.Follow = func(fn *ssa.Function) bool { return fn != pcdSSA && inner(fn) }
			ev.WantCall = func(fn *ssa.Function) bool { return fn == pcdSSA }
		}
		outs := ev.Run(sf, []ssaeval.Value{ssaeval.Obj("core")})
		bad, nNil, nErr, nCut := "", 0, 0, 0
		for _, o := range outs {
			if o.Panics {
				bad = "a path panics"
				continue
			}
			if inlined {
				// the error of the finalisation handed on before anything is closed: not a path of the walk
				stores, callAt, firstStore := 0, -1, -1
				for i, e := range o.Events {
					if e.Kind == "store" && e.Loc == "core."+cur.Name() {
						stores++
						if firstStore < 0 {
							firstStore = i
						}
					}
					if e.Kind == "call" && callAt < 0 {
						callAt = i
					}
				}
				if firstStore >= 0 && (callAt < 0 || callAt > firstStore) {
					finalFirst = false
					finalFirstC11 = false
				}
				if stores == 0 && len(o.Rets) == 1 {
					if _, known := o.Rets[0].IsNilKnown(); !known && strings.Contains(o.Rets[0].Term(), "processCurrentDirective") {
						continue
					}
				}
			}
			// terms are compared without their epochs (an opaque call before the walk shifts them all; the nesting of the
			// loads still tells one cursor value from the next)
			cursor := "L(" + loc + ")"
			var left []string // cursors that were left, in order
			explicit := map[string]string{}
			nilFound := false
			for _, e := range o.Events {
				switch {
				case e.Kind == "store" && e.Loc == loc:
					if stripEpochs(e.Args[0].Term()) != "L("+cursor+".Parent)" {
						bad = "the context cursor is set to " + e.Args[0].Term() + ", which is not the Parent of the context it leaves"
					}
					left = append(left, cursor)
					cursor = stripEpochs(e.Args[0].Term())
				case e.Kind == "cond":
					t := stripEpochs(e.Args[0].Term())
					if strings.HasPrefix(t, "L(") && strings.HasSuffix(t, ".HasExplicitContext)") {
						subj := strings.TrimPrefix(strings.TrimSuffix(t, ".HasExplicitContext)"), "L(")
						explicit[subj] = e.Fn
					}
					if (t == "==("+cursor+",nil)" && e.Fn == "true") || (t == "!=("+cursor+",nil)" && e.Fn == "false") {
						nilFound = true
					}
				}
			}
			if o.Incomplete != "" {
				nCut++
				// a cut path still must have tested every context it left and found it implicit
				for _, l := range left {
					if explicit[l] != "false" {
						bad = "a context is left (cursor moved to its Parent) although it was not found implicit, and the walk goes on"
					}
				}
				continue
			}
			if len(o.Rets) != 1 {
				bad = "unexpected results"
				continue
			}
			isNil, known := o.Rets[0].IsNilKnown()
			switch {
			case !known:
				bad = "a path returns a value whose nil-ness is not known: " + o.Rets[0].String()
			case isNil:
				nNil++
				if len(left) == 0 || explicit[left[len(left)-1]] != "true" {
					bad = "success is returned although the context left last was not found explicit (or nothing was left)"
				}
				for _, l := range left[:max(len(left)-1, 0)] {
					if explicit[l] != "false" {
						bad = "the walk went on past a context that was not found implicit"
					}
				}
			default:
				nErr++
				if !nilFound {
					bad = "an error is returned although the cursor was not found to be nil"
				}
				for _, l := range left {
					if explicit[l] != "false" {
						bad = "an error is returned after an explicit context was left"
					}
				}
			}
		}
		switch {
		case bad != "":
			r.Bad("C11-CLOSE", "stop at first explicit", bad, where)
		case nNil == 0 || nErr == 0:
			r.Bad("C11-CLOSE", "stop at first explicit", fmt.Sprintf("%d paths return success and %d an error: both are needed", nNil, nErr), where)
		default:
			r.Ok("C11-CLOSE", "stop at first explicit", fmt.Sprintf("on each of the %d paths that return success the context left last is the first explicit one and the cursor is its Parent (%d paths cut at the loop bound, each leaving only implicit contexts)", nNil, nCut), where)
			r.Ok("C11-CLOSE", "error at nil", fmt.Sprintf("each of the %d paths that return an error found the cursor nil, after leaving only implicit contexts", nErr), where)
			r.Ok("C11-CLOSE", "implicit contexts close on the way", "every move of the cursor goes from a context to its Parent", where)
		}
	}
	// processContextEnd
	if inlined {
		if finalFirstC11 {
			r.Ok("C11-CLOSE", "finalise before close", "on every path of the handler of ')' that moves the cursor, processCurrentDirective was called first", where)
		} else {
			r.Bad("C11-CLOSE", "finalise before close", "the handler of ')' moves the context cursor before the pending directive is finalised", where)
		}
	} else {
		// whoever calls the walk (the handler of ")", or the lexeme dispatch when the handler was written into its
		// case) finalises the pending directive first
		pcd := c.P.LookupFunc("core", "JApiCore.processCurrentDirective")
		sites := 0
		for _, g := range c.libFns() {
			calls := callsIn(g.Pkg, g.Decl.Body, f.Obj)
			if len(calls) == 0 || g.Obj == f.Obj {
				continue
			}
			fins := callsIn(g.Pkg, g.Decl.Body, pcd)
			gcf := buildCFG(g.Decl.Body)
			for _, b := range calls {
				sites++
				ok := false
				for _, a := range fins {
					if a.Pos() < b.Pos() && gcf.dominatedBy(b, a) {
						ok = true
					}
				}
				if ok {
					r.Ok("C11-CLOSE", "finalise before close", g.Name()+" calls processCurrentDirective before closeLastExplicitContext", c.pos(b.Pos()))
				} else {
					r.Bad("C11-CLOSE", "finalise before close", g.Name()+" does not finalise the pending directive before closing the context", c.pos(b.Pos()))
				}
			}
		}
		if sites == 0 {
			r.Undecided("C11-CLOSE", "finalise before close", "no call of closeLastExplicitContext found", "")
		}
	}
	// processEOF
	if g := c.fn("core", "JApiCore.processEOF"); g != nil {
		huc := c.P.LookupFunc("core", "JApiCore.HasUnclosedExplicitContext")
		ok := false
		ast.Inspect(g.Decl.Body, func(n ast.Node) bool {
			if ifs, isIf := n.(*ast.IfStmt); isIf && len(callsIn(g.Pkg, ifs.Cond, huc)) > 0 && returnsNonNilError(g.Pkg, ifs.Body.List) {
				ok = true
			}
			return true
		})
		// the pending directive (the one that may carry the '(') joins the context chain only when it is finalised:
		// the test must come after
		pcd := c.P.LookupFunc("core", "JApiCore.processCurrentDirective")
		fin := callsIn(g.Pkg, g.Decl.Body, pcd)
		tests := callsIn(g.Pkg, g.Decl.Body, huc)
		gcf := buildCFG(g.Decl.Body)
		ordered := len(fin) >= 1 && len(tests) >= 1
		for _, t := range tests {
			dom := false
			for _, fc := range fin {
				if gcf.dominatedBy(t, fc) && fc.Pos() < t.Pos() {
					dom = true
				}
			}
			ordered = ordered && dom
		}
		if ordered {
			r.Ok("C11-CLOSE", "finalise before the EOF test", "processEOF finalises the pending directive before it looks for an open explicit context", c.pos(g.Decl.Pos()))
		} else {
			r.Bad("C11-CLOSE", "finalise before the EOF test", "processEOF looks for an open explicit context before the pending directive is finalised: a '(' of the last directive of the file is not seen", c.pos(g.Decl.Pos()))
		}
		if ok {
			r.Ok("C11-CLOSE", "unclosed at EOF", "processEOF returns an error when an explicit context is still open", c.pos(g.Decl.Pos()))
		} else {
			r.Bad("C11-CLOSE", "unclosed at EOF", "processEOF does not report an unclosed explicit context", c.pos(g.Decl.Pos()))
		}
	} else {
		r.Undecided("C11-CLOSE", "unclosed at EOF", "processEOF not found", "")
	}
	// a directive opens at most one explicit context
	if g := c.fn("core", "JApiCore.processContextBegin"); g != nil {
		var guard *ast.IfStmt
		var set *ast.AssignStmt
		ast.Inspect(g.Decl.Body, func(n ast.Node) bool {
			switch x := n.(type) {
			case *ast.IfStmt:
				if fld := fieldSel(g.Pkg, x.Cond); fld != nil && fld.Name() == "HasExplicitContext" && returnsNonNilError(g.Pkg, x.Body.List) {
					guard = x
				}
			case *ast.AssignStmt:
				if len(x.Lhs) == 1 {
					if fld := fieldSel(g.Pkg, x.Lhs[0]); fld != nil && fld.Name() == "HasExplicitContext" {
						set = x
					}
				}
			}
			return true
		})
		if guard != nil && set != nil && buildCFG(g.Decl.Body).dominatedBy(set, guard.Cond) {
			r.Ok("C11-CLOSE", "single open", "a second '(' for the same directive returns an error before the flag is set", c.pos(g.Decl.Pos()))
		} else {
			r.Bad("C11-CLOSE", "single open", "a directive accepts several opening parentheses but opens one context: '((' ... ')' is accepted", c.pos(g.Decl.Pos()))
		}
	} else {
		r.Undecided("C11-CLOSE", "single open", "processContextBegin not found", "")
	}
	// HasUnclosedExplicitContext walks the parent chain to its end: it may say "nothing is open" only when the walk has
	// reached nil, and "something is open" only at a directive whose HasExplicitContext is set
	if g := c.fn("core", "JApiCore.HasUnclosedExplicitContext"); g != nil {
		pk := g.Pkg
		cf := c.cfgOf(g)
		// the walk variables: locals stepped by x = x.Parent
		walk := map[types.Object]bool{}
		ast.Inspect(g.Decl.Body, func(n ast.Node) bool {
			if as, ok := n.(*ast.AssignStmt); ok && len(as.Lhs) == 1 && len(as.Rhs) == 1 {
				if fld := fieldSel(pk, as.Rhs[0]); fld != nil && fld.Name() == "Parent" {
					if id := identOf(as.Lhs[0]); id != nil && accessPath(pk, as.Lhs[0]) == accessPath(pk, as.Rhs[0].(*ast.SelectorExpr).X) {
						walk[objOf(pk, id)] = true
					}
				}
			}
			return true
		})
		atNil := func(cond ast.Expr, holds bool) bool {
			be, ok := ast.Unparen(cond).(*ast.BinaryExpr)
			if !ok || (be.Op != token.EQL && be.Op != token.NEQ) || !isNil(pk, be.Y) {
				return false
			}
			id := identOf(be.X)
			return id != nil && walk[pk.TypesInfo.Uses[id]] && (be.Op == token.EQL) == holds
		}
		isOpen := func(cond ast.Expr, holds bool) bool {
			fld := fieldSel(pk, cond)
			if fld == nil || fld.Name() != "HasExplicitContext" || !holds {
				return false
			}
			id := identOf(ast.Unparen(cond).(*ast.SelectorExpr).X)
			return id != nil && walk[pk.TypesInfo.Uses[id]]
		}
		bad := ""
		nRet := 0
		ast.Inspect(g.Decl.Body, func(n ast.Node) bool {
			ret, ok := n.(*ast.ReturnStmt)
			if !ok || len(ret.Results) != 1 {
				return true
			}
			nRet++
			tv := pk.TypesInfo.Types[ret.Results[0]]
			switch {
			case tv.Value != nil && tv.Value.String() == "false":
				if !cf.establishedAt(ret, atNil, nil) {
					bad = "it answers 'nothing is open' before the walk over the Parent chain has reached its end: an explicit context opened further up is not seen, and 'parenthesis not closed' is not reported at the end of the file"
				}
			case tv.Value != nil && tv.Value.String() == "true":
				if !cf.establishedAt(ret, isOpen, nil) {
					bad = "it answers 'something is open' at a directive whose HasExplicitContext was not tested"
				}
			default:
				bad = "its result is not a plain true/false decided by the walk"
			}
			return true
		})
		switch {
		case len(walk) == 0:
			r.Bad("C11-CLOSE", "open-context scan", "HasUnclosedExplicitContext does not walk the Parent chain (no x = x.Parent step)", c.pos(g.Decl.Pos()))
		case bad != "":
			r.Bad("C11-CLOSE", "open-context scan", "HasUnclosedExplicitContext: "+bad, c.pos(g.Decl.Pos()))
		case nRet < 2:
			r.Bad("C11-CLOSE", "open-context scan", "HasUnclosedExplicitContext does not decide both ways", c.pos(g.Decl.Pos()))
		default:
			r.Ok("C11-CLOSE", "open-context scan", "false only when the walk over the Parent chain reached nil; true only at a directive with HasExplicitContext", c.pos(g.Decl.Pos()))
		}
	}
}

// ruleC11Paren: parenthesis events in the automaton.
func (c *Ctx) ruleC11Paren(m *scanfsm.Machine) {
	r := c.R
	r.Rule("C11-PAREN-EVENTS", "after a ContextOpen on its own line only blanks, a line end or a comment may follow; after ContextClose only blanks, a line end, EOF or a comment; both are single events emitted where a directive may start or a body is awaited", 2)
	type site struct{ st, next, ev string }
	var sites []site
	for _, st := range m.Steps {
		seen := map[string]bool{}
		for b := 0; b < 256; b++ {
			for _, o := range m.Trans[st][b] {
				for _, e := range o.Effs {
					if e.K == scanfsm.EFound && m.EventKinds[e.Ev] == "single" {
						k := e.Ev + ">" + o.FinalStep()
						if !seen[k] {
							seen[k] = true
							sites = append(sites, site{st, o.FinalStep(), e.Ev})
						}
					}
				}
			}
		}
	}
	if len(sites) == 0 {
		r.Bad("C11-PAREN-EVENTS", "sites", "no state emits ContextOpen/ContextClose", "")
		return
	}
	starts := map[string]bool{}
	for _, s := range m.KeywordStartStates() {
		starts[s] = true
	}
	bodyAwait := map[string]bool{}
	for _, s := range sites {
		if s.next == "" {
			bodyAwait[s.st] = true
		}
	}
	for _, s := range sites {
		key := fmt.Sprintf("%s in %s", s.ev, s.st)
		if bodyAwait[s.next] {
			r.Ok("C11-PAREN-EVENTS", key, "delegates to the body-awaiting state "+s.next, c.pos(m.Pos[s.st]))
			continue
		}
		if s.next == "" {
			// stays in the same state: a body-awaiting state (the parenthesis is followed by the body)
			r.Ok("C11-PAREN-EVENTS", key, "emitted while a body is awaited; state unchanged", c.pos(m.Pos[s.st]))
			continue
		}
		if starts[s.next] {
			r.Ok("C11-PAREN-EVENTS", key, "next state "+s.next+" expects a directive", c.pos(m.Pos[s.st]))
			continue
		}
		// the end of the file is as good as the end of the line after either parenthesis: an included file may end
		// there (C09-EOF-AS-EOL); a context left open at the end of the ROOT file is reported by the core (C11-CLOSE)
		allowed := " \t\n\r#\x00"
		bad := ""
		for _, b := range m.NonErrorBytes(s.next) {
			if !strings.ContainsRune(allowed, rune(b)) {
				bad += fmt.Sprintf("%q ", b)
			}
		}
		if bad == "" {
			r.Ok("C11-PAREN-EVENTS", key, fmt.Sprintf("state %s accepts only blanks, line ends, the end of the file and comments", s.next), c.pos(m.Pos[s.st]))
		} else {
			r.Bad("C11-PAREN-EVENTS", key, fmt.Sprintf("after the parenthesis state %s also accepts %s", s.next, bad), c.pos(m.Pos[s.st]))
		}
	}
}

// ---------- "(" is a matter of layout: the handler of the opening parenthesis treats every directive kind alike ----------

// ruleOpenForEveryKind: the scanner announces "(" after any directive; the document with the parentheses and the one
// without describe the same API. The core's handler of the opening parenthesis may therefore refuse it for reasons of
// layout only (no directive yet, already opened), never for the kind of the directive. Decided by running the handler
// abstractly once per constant of the directive enumeration, with every Type() of a directive bound to that constant:
// the set of outcomes (success, or which error expression) must be the same for all kinds.
func (c *Ctx) ruleOpenForEveryKind(rule string) {
	r := c.R
	r.Rule(rule, "the core's handler of the opening parenthesis (processContextBegin) run abstractly once per directive kind, with every Type() of a directive bound to the kind: the set of outcomes (nil, or which error) is the same for every kind - parentheses are layout, and a kind that may not be followed by one is a document that builds in the implicit layout and fails in the explicit one", 1)
	h := c.fn("core", "JApiCore.processContextBegin")
	if h == nil {
		r.Undecided(rule, "anchor", "handler of the opening parenthesis not found", "")
		return
	}
	enumT := c.directiveEnumType()
	if enumT == nil {
		r.Undecided(rule, "anchor", "directive.Enumeration not found", "")
		return
	}
	consts := enumConstants(enumT)
	if len(consts) < 20 {
		r.Undecided(rule, "enumeration", fmt.Sprintf("%d constants of the directive enumeration found", len(consts)), "")
		return
	}
	outcomeOf := func(k *types.Const) string {
		env := &constEnv{c: c, vars: map[types.Object]constant.Value{}}
		env.leaf = func(f *Fn, e ast.Expr) (constant.Value, bool) {
			call, ok := e.(*ast.CallExpr)
			if !ok || len(call.Args) != 0 {
				return nil, false
			}
			if tv, has := f.Pkg.TypesInfo.Types[call]; has && tv.Type != nil && types.Identical(tv.Type, enumT) {
				if cal := callee(f.Pkg, call); cal != nil && cal.Type().(*types.Signature).Recv() != nil {
					return k.Val(), true
				}
			}
			return nil, false
		}
		env.retLabel = func(f *Fn, e ast.Expr) string {
			if isNil(f.Pkg, e) {
				return "nil"
			}
			return "error " + exprString(e)
		}
		outs := map[string]bool{}
		env.evalBody(h, h.Decl.Body.List, outs, 0)
		var ks []string
		for o := range outs {
			ks = append(ks, o)
		}
		sort.Strings(ks)
		return strings.Join(ks, " | ")
	}
	groups := map[string][]string{}
	for _, k := range consts {
		o := outcomeOf(k)
		groups[o] = append(groups[o], k.Name())
	}
	if len(groups) == 1 {
		for o := range groups {
			r.Ok(rule, h.Name(), fmt.Sprintf("the same outcomes for all %d kinds: %s", len(consts), o), c.pos(h.Decl.Pos()))
		}
		return
	}
	// the largest group is the norm, the others deviate
	var norm string
	for o, ks := range groups {
		if norm == "" || len(ks) > len(groups[norm]) || (len(ks) == len(groups[norm]) && o < norm) {
			norm = o
		}
	}
	var os []string
	for o := range groups {
		if o != norm {
			os = append(os, o)
		}
	}
	sort.Strings(os)
	for _, o := range os {
		ks := groups[o]
		sort.Strings(ks)
		r.Bad(rule, h.Name()+" | kinds "+strings.Join(ks, ","), fmt.Sprintf("after a directive of these kinds the opening parenthesis has the outcomes {%s}, after the other %d kinds {%s}: the explicit layout of such a directive does not build like the implicit one", o, len(groups[norm]), norm), c.pos(h.Decl.Pos()))
	}
}

// directiveEnumType: the named type directive.Enumeration.
func (c *Ctx) directiveEnumType() types.Type {
	pk := c.P.Pkg("directive")
	if pk == nil {
		return nil
	}
	if tn, ok := pk.Types.Scope().Lookup("Enumeration").(*types.TypeName); ok {
		return tn.Type()
	}
	return nil
}

// ---------- a directive is placed when it is complete ----------

// rulePlaceWhenComplete: a directive is made of several lexemes (keyword, parameters, annotation, body, "("). The
// context resolution places it in the tree when the NEXT directive begins, at ")" or at the end of the input - not
// earlier: an opening parenthesis may still follow a body, and it belongs to the directive that is pending. The lexeme
// dispatch (the switch over lexeme.Type()) gives the handler of every lexeme kind; the handlers of the kinds that can
// be followed by more lexemes of the same directive must not reach the placement function.
func (c *Ctx) rulePlaceWhenComplete(rule string) {
	r := c.R
	r.Rule(rule, "the function that hands the pending directive to processContext (processCurrentDirective) is reached, in the call graph of package core, from the lexeme dispatch only through the handlers of Keyword and of ')' (and from the end-of-file and INCLUDE paths): the handlers of Parameter, Annotation, the body lexemes and '(' never place the directive, because more lexemes of the same directive may follow (a '(' after a body)", 4)
	place := c.fn("core", "JApiCore.processCurrentDirective")
	pc := c.P.LookupFunc("core", "JApiCore.processContext")
	if place == nil && pc != nil {
		// the function that calls processContext with the pending directive (a field of the core)
		for _, f := range c.libFns() {
			for _, call := range callsIn(f.Pkg, f.Decl.Body, pc) {
				if len(call.Args) >= 1 && fieldSel(f.Pkg, call.Args[0]) != nil {
					place = f
				}
			}
		}
	}
	pkc := c.P.Pkg("core")
	if place == nil || pkc == nil {
		r.Undecided(rule, "anchor", "placement function not found", "")
		return
	}
	// the dispatch: a switch over <lexeme>.Type() whose cases are lexeme-kind constants of package scanner
	type arm struct {
		kinds []string
		body  []ast.Stmt
	}
	var arms []arm
	var disp *Fn
	for _, f := range c.libFns() {
		if f.Pkg != pkc {
			continue
		}
		ast.Inspect(f.Decl.Body, func(n ast.Node) bool {
			sw, ok := n.(*ast.SwitchStmt)
			if !ok || sw.Tag == nil || disp != nil {
				return true
			}
			var as []arm
			kinds := 0
			for _, cl := range sw.Body.List {
				cc := cl.(*ast.CaseClause)
				a := arm{body: cc.Body}
				for _, e := range cc.List {
					if k := constObj(f.Pkg, e); k != nil && k.Pkg() != nil && strings.HasSuffix(k.Pkg().Path(), "/scanner") && namedType(k.Type()) == prog.ModulePath+"/scanner.LexemeType" {
						a.kinds = append(a.kinds, k.Name())
						kinds++
					}
				}
				if len(a.kinds) > 0 {
					as = append(as, a)
				}
			}
			if kinds >= 6 {
				arms, disp = as, f
			}
			return true
		})
	}
	if disp == nil {
		r.Undecided(rule, "dispatch", "no switch over the lexeme kinds found in package core", "")
		return
	}
	mayPlace := map[string]bool{"Keyword": true, "ContextExplicitClosing": true}
	reaches := func(body []ast.Stmt) (string, bool) {
		for _, st := range body {
			found := ""
			ast.Inspect(st, func(n ast.Node) bool {
				call, ok := n.(*ast.CallExpr)
				if !ok || found != "" {
					return true
				}
				g := c.fnOf(callee(disp.Pkg, call))
				if g == nil || g.Pkg != pkc {
					return true
				}
				for _, h := range c.reachableInPkg(g) {
					if h.Obj == place.Obj {
						found = g.Name()
					}
				}
				return true
			})
			if found != "" {
				return found, true
			}
		}
		return "", false
	}
	for _, a := range arms {
		sort.Strings(a.kinds)
		key := disp.Name() + " | case " + strings.Join(a.kinds, ",")
		via, does := reaches(a.body)
		allowed := true
		for _, k := range a.kinds {
			if !mayPlace[k] {
				allowed = false
			}
		}
		switch {
		case does && !allowed:
			r.Bad(rule, key, "the handler of this lexeme ("+via+") reaches "+place.Name()+": the pending directive is placed in the tree although more of its lexemes may follow; an opening parenthesis after it no longer finds its directive, and the context errors of the following directives change", c.pos(a.body[0].Pos()))
		case does:
			r.Ok(rule, key, "places the pending directive (via "+via+"): a new directive begins or the context closes", c.pos(a.body[0].Pos()))
		default:
			r.Ok(rule, key, "does not place the pending directive", c.pos(a.body[0].Pos()))
		}
	}
}

// ---------- who writes the explicit-context flag ----------

// ruleExplicitFlagWriters: HasExplicitContext records a fact about the text: this directive was followed by "(". The
// scan-time resolution and the expansion pass both read it (")" walks up to it; after the children of such a directive
// the expansion returns to its parent). It is true exactly for the directives that had a "(": set by the handler of
// "(", never cleared, never set anywhere else.
func (c *Ctx) ruleExplicitFlagWriters(rule string) {
	r := c.R
	r.Rule(rule, "the field Directive.HasExplicitContext is assigned in one place only - the handler of the opening parenthesis, which sets it to the constant true on the pending directive; no other function of the library stores into it (a flag cleared or set later makes the expansion pass, which reads it again, resolve contexts differently from the scan)", 1)
	var fld *types.Var
	if tn := c.P.LookupType("directive", "Directive"); tn != nil {
		if st, ok := tn.Type().Underlying().(*types.Struct); ok {
			for i := 0; i < st.NumFields(); i++ {
				if st.Field(i).Name() == "HasExplicitContext" {
					fld = st.Field(i)
				}
			}
			if fld == nil {
				// renamed: the bool field that the handler of "(" sets
				if h := c.fn("core", "JApiCore.processContextBegin"); h != nil {
					ast.Inspect(h.Decl.Body, func(n ast.Node) bool {
						if as, ok := n.(*ast.AssignStmt); ok && len(as.Lhs) == 1 {
							if fv := fieldSel(h.Pkg, as.Lhs[0]); fv != nil {
								for i := 0; i < st.NumFields(); i++ {
									if st.Field(i) == fv {
										fld = fv
									}
								}
							}
						}
						return true
					})
				}
			}
		}
	}
	if fld == nil {
		r.Undecided(rule, "anchor", "the explicit-context flag of directive.Directive not found", "")
		return
	}
	open := c.fn("core", "JApiCore.processContextBegin")
	n := 0
	for _, f := range c.libFns() {
		ast.Inspect(f.Decl.Body, func(nd ast.Node) bool {
			var lhs []ast.Expr
			var rhs []ast.Expr
			switch x := nd.(type) {
			case *ast.AssignStmt:
				lhs, rhs = x.Lhs, x.Rhs
			case *ast.IncDecStmt:
				lhs = []ast.Expr{x.X}
			case *ast.UnaryExpr:
				if x.Op == token.AND {
					lhs = []ast.Expr{x.X} // its address taken: anyone can write it
				}
			}
			for i, l := range lhs {
				if fieldSel(f.Pkg, l) != fld {
					continue
				}
				n++
				key := fmt.Sprintf("%s | %s", f.Name(), exprString(l))
				isTrue := false
				if i < len(rhs) {
					if tv, ok := f.Pkg.TypesInfo.Types[rhs[i]]; ok && tv.Value != nil && tv.Value.Kind() == constant.Bool && constant.BoolVal(tv.Value) {
						isTrue = true
					}
				}
				if open != nil && f.Obj == open.Obj && isTrue {
					r.Ok(rule, key, "set to true by the handler of the opening parenthesis", c.pos(l.Pos()))
				} else {
					r.Bad(rule, key, "the explicit-context flag is written outside the handler of the opening parenthesis (or with something else than true): what the expansion pass reads is then no longer 'this directive was followed by \"(\"'", c.pos(l.Pos()))
				}
			}
			return true
		})
	}
	if n == 0 {
		r.Undecided(rule, "sites", "no assignment of the flag found, not even the one of the handler of '('", "")
	}
}

// ---------- what may stand under a URL with either protocol ----------

// ruleURLChildClasses: a URL holds either HTTP methods or a JSON-RPC protocol with its methods; mixing them is an
// error. The test that enforces this sorts the children of a URL into two classes. A kind that the context table
// allows under a URL and that belongs to neither protocol (Tags: the methods of both protocols fall back to the Tags
// of their URL) must not be sorted at all - otherwise a document that the table allows is refused because of the
// company a neutral directive keeps (F50: `URL /rpc` + `Tags @t` + `Protocol json-rpc-2.0`).
func (c *Ctx) ruleURLChildClasses(rule string) {
	r := c.R
	r.Rule(rule, "the kinds that BOTH protocols take from their URL - the child kinds that a function of package catalog reachable from AddHTTPMethod as well as from AddJsonRpcMethod looks for among the children of a directive (X.Type() == directive.K inside a loop over Children; today: Tags), restricted to what the context table allows under URL - are passed over by the test that keeps HTTP and JSON-RPC children of one URL apart: core.checkJsonRpcUrlChildCompatible, run abstractly with every Type() bound to such a kind, never calls the classifier core.isJsonRpcUrlChildDirective. A neutral child is not made the measure of its siblings nor measured against them", 1)
	t := c.Tables()
	enumT := c.directiveEnumType()
	cls := c.fn("core", "isJsonRpcUrlChildDirective")
	compat := c.fn("core", "checkJsonRpcUrlChildCompatible")
	addH := c.fn("catalog", "Catalog.AddHTTPMethod")
	addR := c.fn("catalog", "Catalog.AddJsonRpcMethod")
	if enumT == nil || cls == nil || compat == nil || addH == nil || addR == nil || len(t.Problems) > 0 {
		r.Undecided(rule, "anchor", "classifier / compatibility test / interaction constructors / tables not found", "")
		return
	}
	url := ""
	for k := range t.Children {
		if strings.EqualFold(k, "URL") {
			url = k
		}
	}
	if url == "" || len(t.Children[url]) < 5 {
		r.Undecided(rule, "table", "the children of URL are not in the extracted table", "")
		return
	}
	byName := map[string]*types.Const{}
	for _, k := range enumConstants(enumT) {
		byName[k.Name()] = k
	}
	inR := map[*types.Func]bool{}
	for _, g := range c.reachableInPkg(addR) {
		inR[g.Obj] = true
	}
	neutral := map[string]string{}
	for _, g := range c.reachableInPkg(addH) {
		if !inR[g.Obj] {
			continue
		}
		ast.Inspect(g.Decl.Body, func(nd ast.Node) bool {
			rs, ok := nd.(*ast.RangeStmt)
			if !ok {
				return true
			}
			if sel, ok := ast.Unparen(rs.X).(*ast.SelectorExpr); !ok || sel.Sel.Name != "Children" {
				return true
			}
			ast.Inspect(rs.Body, func(m ast.Node) bool {
				be, ok := m.(*ast.BinaryExpr)
				if !ok || be.Op != token.EQL {
					return true
				}
				for _, side := range []ast.Expr{be.X, be.Y} {
					if k := constObj(g.Pkg, side); k != nil && types.Identical(k.Type(), enumT) && t.Children[url][k.Name()] {
						neutral[k.Name()] = g.Name()
					}
				}
				return true
			})
			return true
		})
	}
	if len(neutral) == 0 {
		r.Undecided(rule, "kinds", "no child kind that both protocols take from their URL was found in package catalog", "")
		return
	}
	var kinds []string
	for k := range neutral {
		kinds = append(kinds, k)
	}
	sort.Strings(kinds)
	for _, name := range kinds {
		k := byName[name]
		if k == nil {
			r.Undecided(rule, "kind "+name, "no constant of this name in the enumeration", "")
			continue
		}
		key := "child " + name
		csig := c.kindSignature(compat, enumT, k)
		if strings.Contains(csig, "calls "+prog.FuncName(cls.Obj)) {
			r.Bad(rule, key, "both protocols take "+name+" from their URL ("+neutral[name]+"), yet the compatibility test of the children of a URL sorts it (it calls the classifier for it): a URL that holds "+name+" next to a JSON-RPC Protocol or Method is refused although the context table allows both ("+csig+")", c.pos(compat.Decl.Pos()))
		} else {
			r.Ok(rule, key, "taken from the URL by both protocols ("+neutral[name]+") and passed over by the compatibility test", c.pos(compat.Decl.Pos()))
		}
	}
}
