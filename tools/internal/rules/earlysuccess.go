package rules

import (
	"fmt"
	"go/ast"
	"go/token"
	"go/types"
	"os"
	"sort"
	"strings"

	"jsverif/internal/prog"
)

// A success return in front of a check.
//
// In a function that reports faults through its error result, a check is a call whose failure makes the function return
// an error: `if err := K(..); err != nil { return <error> }` (or the two-statement form). When such a check stands in the
// function's own statement list - it is meant for every directive the function handles - an earlier `return nil` inside
// an if bypasses it for some directives: the faults that K finds are not found for them.

type earlyFinding struct {
	ret   *ast.ReturnStmt
	check *ast.CallExpr
}

// earlyChecksSeen counts the checks (calls whose failure returns an error) recognised in the functions' own statement
// lists during the last run of the rule: zero would mean the matcher no longer recognises the idiom.
var earlyChecksSeen int

func (c *Ctx) earlySuccessFindings(f *Fn) []earlyFinding {
	sig := f.Obj.Type().(*types.Signature)
	if sig.Results().Len() == 0 || !isErrorLike(sig.Results().At(sig.Results().Len()-1).Type()) {
		return nil
	}
	errIdx := sig.Results().Len() - 1
	list := f.Decl.Body.List
	// top-level checks, in order
	type chk struct {
		at   int
		call *ast.CallExpr
	}
	var checks []chk
	failReturns := func(ifs *ast.IfStmt) bool { return returnsNonNilError(f.Pkg, ifs.Body.List) }
	errVarOfCond := func(cond ast.Expr) types.Object {
		be, ok := ast.Unparen(cond).(*ast.BinaryExpr)
		if !ok || be.Op.String() != "!=" || !isNil(f.Pkg, be.Y) {
			return nil
		}
		id, ok := ast.Unparen(be.X).(*ast.Ident)
		if !ok {
			return nil
		}
		if o := f.Pkg.TypesInfo.Uses[id]; o != nil {
			return o
		}
		return f.Pkg.TypesInfo.Defs[id]
	}
	callDefining := func(st ast.Stmt, obj types.Object) *ast.CallExpr {
		as, ok := st.(*ast.AssignStmt)
		if !ok || len(as.Rhs) != 1 {
			return nil
		}
		call, ok := ast.Unparen(as.Rhs[0]).(*ast.CallExpr)
		if !ok {
			return nil
		}
		for _, l := range as.Lhs {
			if id, ok := l.(*ast.Ident); ok {
				o := f.Pkg.TypesInfo.Defs[id]
				if o == nil {
					o = f.Pkg.TypesInfo.Uses[id]
				}
				if o == obj {
					return call
				}
			}
		}
		return nil
	}
	for i, st := range list {
		ifs, ok := st.(*ast.IfStmt)
		if !ok || ifs.Else != nil || !failReturns(ifs) {
			continue
		}
		obj := errVarOfCond(ifs.Cond)
		if obj == nil {
			continue
		}
		var call *ast.CallExpr
		if ifs.Init != nil {
			call = callDefining(ifs.Init, obj)
		} else if i > 0 {
			call = callDefining(list[i-1], obj)
		}
		if call == nil {
			continue
		}
		if cal := callee(f.Pkg, call); cal == nil || !c.P.IsLibPkg(cal.Pkg()) {
			continue // a check of the library's own (a dependency call that fails is an error of another kind)
		}
		checks = append(checks, chk{i, call})
	}
	// the verdict of a check handed on as the function's own: `return K(..)` as the last statement
	if n := len(list); n > 0 {
		if ret, ok := list[n-1].(*ast.ReturnStmt); ok && len(ret.Results) == 1 && sig.Results().Len() == 1 {
			if call, ok := ast.Unparen(ret.Results[0]).(*ast.CallExpr); ok {
				if cal := callee(f.Pkg, call); cal != nil && c.P.IsLibPkg(cal.Pkg()) {
					// only a callee that does nothing but judge: when the tail call is the action of the function (it
					// adds something to the catalog), a `return nil` in front of it is the path with nothing to add
					if cs, ok := cal.Type().(*types.Signature); ok && cs.Results().Len() == 1 && isErrorLike(cs.Results().At(0).Type()) && !isErrorConstructor(cal) && c.looksPure(cal, 0) {
						checks = append(checks, chk{n - 1, call})
					}
				}
			}
		}
	}
	earlyChecksSeen += len(checks)
	if len(checks) == 0 {
		return nil
	}
	var out []earlyFinding
	for i, st := range list {
		// a success return nested in a top-level statement before some check
		var later []chk
		for _, k := range checks {
			if k.at > i {
				later = append(later, k)
			}
		}
		if len(later) == 0 {
			continue
		}
		switch st.(type) {
		case *ast.IfStmt, *ast.SwitchStmt, *ast.ForStmt, *ast.RangeStmt:
		default:
			continue
		}
		ast.Inspect(st, func(n ast.Node) bool {
			if _, isLit := n.(*ast.FuncLit); isLit {
				return false
			}
			ret, ok := n.(*ast.ReturnStmt)
			if !ok || len(ret.Results) != sig.Results().Len() {
				return true
			}
			if isNil(f.Pkg, ret.Results[errIdx]) {
				out = append(out, earlyFinding{ret, later[0].call})
			}
			return true
		})
	}
	return out
}

// looksPure: the function, and the library functions it calls (four levels), change nothing of the state the build
// works on: no assignment, ++/-- or delete whose target goes through a field of a type of package catalog or core
// (the catalog, the core, their collections - the generated ordered maps store into their own fields), and no call
// through a function value (what a callback does is not known here). Building an error, reading a directive and
// filling local structures are not changes of that state.
func (c *Ctx) looksPure(fn *types.Func, depth int) bool {
	if c.pureMemo == nil {
		c.pureMemo = map[*types.Func]int{}
	}
	if v, ok := c.pureMemo[fn.Origin()]; ok {
		return v == 1
	}
	// a package that does not import catalog or core cannot name their fields: by the import graph, the functions of
	// directive, jerr, scanner and notation change nothing of that state, whatever they do
	if fn.Pkg() != nil && c.P.IsLibPkg(fn.Pkg()) {
		importsState := false
		for _, imp := range fn.Pkg().Imports() {
			if strings.HasSuffix(imp.Path(), "/catalog") || strings.HasSuffix(imp.Path(), "/jsight-api-core/core") {
				importsState = true
			}
		}
		p := fn.Pkg().Path()
		if !importsState && !strings.HasSuffix(p, "/catalog") && !strings.HasSuffix(p, "/jsight-api-core/core") {
			c.pureMemo[fn.Origin()] = 1
			return true
		}
	}
	f := c.fnOf(fn)
	if f == nil || f.Decl == nil || f.Decl.Body == nil {
		// an interface method of the library is not known; a function of another module is not the build's state
		if fn.Pkg() != nil && c.P.IsLibPkg(fn.Pkg()) {
			return false
		}
		return true
	}
	if depth > 10 {
		return false
	}
	c.pureMemo[fn.Origin()] = 1 // assume while recursing
	pk := f.Pkg
	pure := true
	stateField := func(e ast.Expr) bool {
		hit := false
		for {
			switch x := ast.Unparen(e).(type) {
			case *ast.SelectorExpr:
				if fld := fieldSel(pk, x); fld != nil && fld.Pkg() != nil {
					p := fld.Pkg().Path()
					if strings.HasSuffix(p, "/catalog") || strings.HasSuffix(p, "/jsight-api-core/core") {
						hit = true
					}
				}
				e = x.X
				continue
			case *ast.IndexExpr:
				e = x.X
				continue
			case *ast.StarExpr:
				e = x.X
				continue
			case *ast.Ident:
				// a value (not a pointer) that lives in this function is not the state of the build
				if v, ok := pk.TypesInfo.ObjectOf(x).(*types.Var); ok && !v.IsField() && v.Pos() >= f.Decl.Body.Pos() && v.Pos() <= f.Decl.Body.End() {
					if _, isPtr := v.Type().Underlying().(*types.Pointer); !isPtr {
						if _, isMap := v.Type().Underlying().(*types.Map); !isMap {
							return false
						}
					}
				}
			}
			return hit
		}
	}
	ast.Inspect(f.Decl.Body, func(nd ast.Node) bool {
		if !pure {
			return false
		}
		switch x := nd.(type) {
		case *ast.AssignStmt:
			for _, l := range x.Lhs {
				if stateField(l) {
					pure = false
					if os.Getenv("VERIF_DEBUG_PURE") != "" {
						fmt.Fprintln(os.Stderr, "  store:", exprString(l), "in", prog.FuncName(fn))
					}
				}
			}
		case *ast.IncDecStmt:
			if stateField(x.X) {
				pure = false
			}
		case *ast.CallExpr:
			if id, ok := x.Fun.(*ast.Ident); ok && id.Name == "delete" && len(x.Args) == 2 && stateField(x.Args[0]) {
				pure = false
				return true
			}
			cal := callee(pk, x)
			if cal == nil {
				// a conversion, a builtin, or a call through a function value
				if tv, has := pk.TypesInfo.Types[x.Fun]; has && !tv.IsType() && !tv.IsBuiltin() {
					if _, isSig := tv.Type.Underlying().(*types.Signature); isSig {
						pure = false
						if os.Getenv("VERIF_DEBUG_PURE") != "" {
							fmt.Fprintln(os.Stderr, "  value call:", exprString(x.Fun), "in", prog.FuncName(fn))
						}
					}
				}
				return true
			}
			if cal.Pkg() != nil && c.P.IsLibPkg(cal.Pkg()) && !c.looksPure(cal, depth+1) {
				pure = false
				if os.Getenv("VERIF_DEBUG_PURE") != "" {
					fmt.Fprintln(os.Stderr, "  callee:", prog.FuncName(cal), "in", prog.FuncName(fn))
				}
			}
		}
		return true
	})
	if pure {
		c.pureMemo[fn.Origin()] = 1
	} else {
		c.pureMemo[fn.Origin()] = 2
		if os.Getenv("VERIF_DEBUG_PURE") != "" {
			fmt.Fprintln(os.Stderr, "impure:", prog.FuncName(fn))
		}
	}
	return pure
}

// isErrorConstructor: a function that makes an error (KeywordError, BodyError, ...): returning its result is a failure,
// not a check.
func isErrorConstructor(f *types.Func) bool {
	switch f.Name() {
	case "KeywordError", "BodyError", "BodyErrorIndex", "ParameterError", "NewJApiError", "japiError":
		return true
	}
	return false
}

func (c *Ctx) ruleEarlySuccess(rule string) {
	r := c.R
	r.Rule(rule, "in the per-directive handlers of the dispatch table and the functions of package core they call: no `return nil` nested in an if or switch stands in front of a check of the function's own statement list (a library call whose error makes the function return an error): the check is written for every directive the handler gets, and the early success withholds it from some", 1)
	disp := c.dispatchTable()
	if len(disp) < 10 {
		r.Undecided(rule, "anchor", "dispatch table not found", "")
		return
	}
	seen := map[*types.Func]bool{}
	var fns []*Fn
	var kinds []string
	for k := range disp {
		kinds = append(kinds, k)
	}
	sort.Strings(kinds)
	for _, k := range kinds {
		h := c.fnOf(disp[k])
		if h == nil {
			continue
		}
		for _, g := range c.reachableInPkg(h) {
			if !seen[g.Obj] {
				seen[g.Obj] = true
				fns = append(fns, g)
			}
		}
	}
	n := 0
	earlyChecksSeen = 0
	for _, f := range fns {
		fs := c.earlySuccessFindings(f)
		for i, fd := range fs {
			n++
			r.Bad(rule, fmt.Sprintf("%s | return nil #%d before %s", f.Name(), i+1, exprString(fd.check.Fun)), "a directive for which this branch is taken is accepted without the check "+exprString(fd.check.Fun)+" that the function makes for all others: the fault that check finds is not reported for it", c.pos(fd.ret.Pos()))
		}
	}
	if earlyChecksSeen < 10 {
		r.Undecided(rule, "sites", fmt.Sprintf("only %d checks of the form `if err := K(..); err != nil { return error }` recognised in %d functions (27 on the pinned tree): the matcher no longer sees the idiom", earlyChecksSeen, len(fns)), "")
		return
	}
	if n == 0 {
		r.Ok(rule, "handlers", fmt.Sprintf("%d functions (handlers and what they call in package core) with %d checks in their own statement lists: no success return in front of one", len(fns), earlyChecksSeen), "")
	}
	r.Stats["early_success_functions"] = len(fns)
}

// ---------- a handler reports on the directive it handles ----------

// ruleErrorOnOwnDirective: "rejected at the fault". A per-directive handler is given the directive at fault; the errors
// it builds (KeywordError, BodyError, ...) are located on that directive. An error built on d.Parent (or on another
// directive found on the way) points at a line that is in order. Helpers that receive the directive as a parameter are
// judged through their call sites: what the handler hands them must be its own directive.
// ownDirectiveExceptions: two places where the fault really is another directive's, confirmed by reading.
var ownDirectiveExceptions = map[string]string{
	"core.(*JApiCore).addBody | d.Parent.KeywordError":      "the fault is the parent's: a response or request that gives its body by parameters must not also have a Body child; the parameters are what is forbidden, and they stand on the parent's line",
	"core.checkJsonRpcUrlChildCompatible | dd.KeywordError": "the handler of a URL checks its children for mixing HTTP and JSON-RPC directives and reports the first child that does not fit: the fault is on that child's line",
}

func (c *Ctx) ruleErrorOnOwnDirective(rule string) {
	r := c.R
	r.Rule(rule, "in the handlers of the dispatch table and the helpers of package core they hand their directive to: every error built with the constructors of package directive (KeywordError, BodyError, BodyErrorIndex, ParameterError) is built on the handler's own directive parameter - never on its Parent, a child or a directive looked up elsewhere (two named exceptions where the fault is the other directive's): the error is reported on the line of the fault", 20)
	disp := c.dispatchTable()
	pkc := c.P.Pkg("core")
	if len(disp) < 10 || pkc == nil {
		r.Undecided(rule, "anchor", "dispatch table not found", "")
		return
	}
	isDirPtr := func(t types.Type) bool {
		return namedType(t) == prog.ModulePath+"/directive.Directive"
	}
	isCtor := func(f *types.Func) bool {
		if f == nil || f.Pkg() == nil || f.Pkg().Path() != prog.ModulePath+"/directive" {
			return false
		}
		switch f.Name() {
		case "KeywordError", "BodyError", "BodyErrorIndex", "ParameterError":
			return true
		}
		return false
	}
	// own(f): the directive parameter of f that stands for the handled directive (index), judged recursively
	type fnParam struct {
		f *types.Func
		i int
	}
	handlerReach := map[*types.Func]bool{}
	for _, hf := range disp {
		if h := c.fnOf(hf); h != nil {
			for _, g := range c.reachableInPkg(h) {
				handlerReach[g.Obj] = true
			}
		}
	}
	verdict := map[fnParam]string{} // "" = own directive, otherwise why not
	var ownParam func(f *Fn, e ast.Expr, depth int) string
	ownParam = func(f *Fn, e ast.Expr, depth int) string {
		e = ast.Unparen(e)
		if u, ok := e.(*ast.UnaryExpr); ok && u.Op == token.AND {
			e = ast.Unparen(u.X)
		}
		if st, ok := e.(*ast.StarExpr); ok {
			e = ast.Unparen(st.X)
		}
		id, ok := e.(*ast.Ident)
		if !ok {
			return "built on " + exprString(e)
		}
		idx := paramIndexOf(f, id)
		if idx < 0 {
			if d := soleDef(f, id); d != nil && depth < 3 {
				return ownParam(f, d, depth+1)
			}
			return "built on the local " + id.Name + ", which is not the directive the handler was given"
		}
		if paramAssigned(f, id) {
			return "the directive parameter " + id.Name + " is reassigned"
		}
		// a dispatch handler's parameter is the handled directive; a helper's parameter is judged at its call sites
		for _, h := range disp {
			if h == f.Obj {
				return ""
			}
		}
		key := fnParam{f.Obj, idx}
		if v, ok := verdict[key]; ok {
			return v
		}
		verdict[key] = "" // assume while recursing
		sites, closed := c.callersOf(f)
		if !closed || len(sites) == 0 || depth > 3 {
			verdict[key] = ""
			return "" // reachable from elsewhere: not a helper of the handlers only
		}
		for _, cs := range sites {
			a := argFor(cs, idx)
			if a == nil {
				continue
			}
			// a helper shared with code that no handler reaches (the compile phases walk the directives themselves) is
			// judged through the handlers' call sites only
			if !handlerReach[cs.g.Obj] {
				continue
			}
			if why := ownParam(cs.g, a, depth+1); why != "" {
				verdict[key] = "a call site in " + cs.g.Name() + " hands it " + exprString(a) + " (" + why + ")"
				return verdict[key]
			}
		}
		return ""
	}
	seen := map[*types.Func]bool{}
	var fns []*Fn
	var kinds []string
	for k := range disp {
		kinds = append(kinds, k)
	}
	sort.Strings(kinds)
	for _, k := range kinds {
		h := c.fnOf(disp[k])
		if h == nil {
			continue
		}
		for _, g := range c.reachableInPkg(h) {
			if !seen[g.Obj] {
				seen[g.Obj] = true
				fns = append(fns, g)
			}
		}
	}
	n := 0
	for _, f := range fns {
		// only functions that take a directive
		has := false
		sig := f.Obj.Type().(*types.Signature)
		for i := 0; i < sig.Params().Len(); i++ {
			if isDirPtr(sig.Params().At(i).Type()) {
				has = true
			}
		}
		if !has {
			continue
		}
		perFn := 0
		ast.Inspect(f.Decl.Body, func(nd ast.Node) bool {
			call, ok := nd.(*ast.CallExpr)
			if !ok || !isCtor(callee(f.Pkg, call)) {
				return true
			}
			sel, ok := ast.Unparen(call.Fun).(*ast.SelectorExpr)
			if !ok {
				return true
			}
			n++
			perFn++
			key := fmt.Sprintf("%s | %s #%d", f.Name(), exprString(call.Fun), perFn)
			if why := ownParam(f, sel.X, 0); why == "" {
				r.OkTrivial(rule, key, "on the handled directive", c.pos(call.Pos()))
			} else if reason, ok := ownDirectiveExceptions[f.Name()+" | "+exprString(call.Fun)]; ok {
				r.Except(f.Name()+" | "+exprString(call.Fun), reason)
				r.Ok(rule, key, "named exception: "+reason, c.pos(call.Pos()))
			} else {
				r.Bad(rule, key, "the error is not located on the directive that is being handled: "+why+"; the report points at a line that is in order instead of the line of the fault", c.pos(call.Pos()))
			}
			return true
		})
	}
	if n < 20 {
		r.Undecided(rule, "sites", fmt.Sprintf("only %d error constructions found in the handlers", n), "")
	}
}
