package rules

import (
	"fmt"
	"go/ast"
	"go/types"
	"sort"
	"strings"
)

// ---------- a hand-written serialiser fills every field of what it emits ----------

// ruleDTOFieldsFilled: the serialisers of the catalog copy a model value into a local structure with json tags and
// marshal that. A field of the local structure that the function never gives a value is always emitted as its zero
// value (or, with omitempty, never): whatever the model holds for it is missing from the document. The field was put
// into the structure to be emitted; the rule asks that it is given a value somewhere in the function.
func (c *Ctx) ruleDTOFieldsFilled(rule string) {
	r := c.R
	r.Rule(rule, "in the functions of the library that declare a local structure with json tags and hand it to json.Marshal (the hand-written serialisers of package catalog and of the OpenAPI export): every field of that structure is given a value somewhere in the function - a key of its composite literal, or an assignment to <var>.<field> (positional literals count for all fields): a field that is declared and never filled is information the model has and the document lacks", 3)
	n := 0
	for _, f := range c.libFns() {
		pk := f.Pkg
		// local variables whose type is an anonymous or function-local struct with at least one json tag
		type dto struct {
			obj    types.Object
			st     *types.Struct
			filled map[string]bool
			all    bool
			pos    ast.Node
		}
		var dtos []*dto
		byObj := map[types.Object]*dto{}
		consider := func(id *ast.Ident) *dto {
			obj := pk.TypesInfo.Defs[id]
			if obj == nil {
				return nil
			}
			if d, ok := byObj[obj]; ok {
				return d
			}
			t := obj.Type()
			if p, ok := t.(*types.Pointer); ok {
				t = p.Elem()
			}
			st, ok := t.Underlying().(*types.Struct)
			if !ok {
				return nil
			}
			// local: anonymous, or a named type declared inside this function
			if nt, isNamed := t.(*types.Named); isNamed {
				if nt.Obj().Pos() < f.Decl.Body.Pos() || nt.Obj().Pos() > f.Decl.Body.End() {
					return nil
				}
			}
			tagged := false
			for i := 0; i < st.NumFields(); i++ {
				if strings.Contains(st.Tag(i), "json:") {
					tagged = true
				}
			}
			if !tagged {
				return nil
			}
			d := &dto{obj: obj, st: st, filled: map[string]bool{}, pos: id}
			byObj[obj] = d
			dtos = append(dtos, d)
			return d
		}
		fillFromLit := func(d *dto, e ast.Expr) {
			e = ast.Unparen(e)
			if u, ok := e.(*ast.UnaryExpr); ok {
				e = ast.Unparen(u.X)
			}
			lit, ok := e.(*ast.CompositeLit)
			if !ok {
				if e != nil {
					d.all = true // made by something else (a call, a conversion): not judged
				}
				return
			}
			for _, el := range lit.Elts {
				kv, ok := el.(*ast.KeyValueExpr)
				if !ok {
					d.all = true
					return
				}
				if kid, ok := kv.Key.(*ast.Ident); ok {
					d.filled[kid.Name] = true
				}
			}
		}
		ast.Inspect(f.Decl.Body, func(nd ast.Node) bool {
			switch x := nd.(type) {
			case *ast.DeclStmt:
				if gd, ok := x.Decl.(*ast.GenDecl); ok {
					for _, sp := range gd.Specs {
						if vs, ok := sp.(*ast.ValueSpec); ok {
							for i, nm := range vs.Names {
								if d := consider(nm); d != nil && i < len(vs.Values) {
									fillFromLit(d, vs.Values[i])
								}
							}
						}
					}
				}
			case *ast.AssignStmt:
				for i, l := range x.Lhs {
					if id, ok := l.(*ast.Ident); ok && pk.TypesInfo.Defs[id] != nil {
						if d := consider(id); d != nil && i < len(x.Rhs) && len(x.Lhs) == len(x.Rhs) {
							fillFromLit(d, x.Rhs[i])
						}
					}
				}
			}
			return true
		})
		if len(dtos) == 0 {
			continue
		}
		// assignments to fields, whole-value assignments, and the address handed away (filled elsewhere)
		ast.Inspect(f.Decl.Body, func(nd ast.Node) bool {
			switch x := nd.(type) {
			case *ast.AssignStmt:
				for i, l := range x.Lhs {
					if sel, ok := ast.Unparen(l).(*ast.SelectorExpr); ok {
						if id, ok := ast.Unparen(sel.X).(*ast.Ident); ok {
							if d := byObj[pk.TypesInfo.Uses[id]]; d != nil {
								d.filled[sel.Sel.Name] = true
							}
						}
					}
					if id, ok := ast.Unparen(l).(*ast.Ident); ok && pk.TypesInfo.Uses[id] != nil {
						if d := byObj[pk.TypesInfo.Uses[id]]; d != nil && i < len(x.Rhs) && len(x.Lhs) == len(x.Rhs) {
							fillFromLit(d, x.Rhs[i])
						}
					}
				}
			case *ast.CallExpr:
				// &data handed to a function other than the marshaller: it may be filled there
				cal := callee(pk, x)
				if cal != nil && cal.Pkg() != nil && cal.Pkg().Path() == "encoding/json" && strings.HasPrefix(cal.Name(), "Marshal") {
					return true
				}
				for _, a := range x.Args {
					if u, ok := ast.Unparen(a).(*ast.UnaryExpr); ok && u.Op.String() == "&" {
						if id, ok := ast.Unparen(u.X).(*ast.Ident); ok {
							if d := byObj[pk.TypesInfo.Uses[id]]; d != nil {
								d.all = true
							}
						}
					}
				}
			}
			return true
		})
		// only those that are marshalled
		marshalled := map[types.Object]bool{}
		ast.Inspect(f.Decl.Body, func(nd ast.Node) bool {
			call, ok := nd.(*ast.CallExpr)
			if !ok {
				return true
			}
			cal := callee(pk, call)
			if cal == nil || cal.Pkg() == nil || cal.Pkg().Path() != "encoding/json" || !strings.HasPrefix(cal.Name(), "Marshal") {
				return true
			}
			for _, a := range call.Args {
				a = ast.Unparen(a)
				if u, ok := a.(*ast.UnaryExpr); ok {
					a = ast.Unparen(u.X)
				}
				if id, ok := a.(*ast.Ident); ok {
					marshalled[pk.TypesInfo.Uses[id]] = true
				}
			}
			return true
		})
		for _, d := range dtos {
			if !marshalled[d.obj] {
				continue
			}
			n++
			key := fmt.Sprintf("%s | %s", f.Name(), d.obj.Name())
			var missing []string
			for i := 0; i < d.st.NumFields(); i++ {
				fl := d.st.Field(i)
				if !d.filled[fl.Name()] && !strings.Contains(d.st.Tag(i), `json:"-"`) {
					missing = append(missing, fl.Name())
				}
			}
			sort.Strings(missing)
			if len(missing) == 0 || d.all {
				r.Ok(rule, key, fmt.Sprintf("all %d fields of the emitted structure are given a value", d.st.NumFields()), c.pos(d.pos.Pos()))
				continue
			}
			r.Bad(rule, key, "the emitted structure declares "+strings.Join(missing, ", ")+" but the function never gives it a value: the document always shows the zero value (or omits it), whatever the model holds", c.pos(d.pos.Pos()))
		}
	}
	if n < 3 {
		r.Undecided(rule, "sites", fmt.Sprintf("only %d local structures handed to json.Marshal found", n), "")
	}
}
