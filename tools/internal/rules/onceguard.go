package rules

import (
	"fmt"
	"go/ast"
	"go/types"
	"sort"
)

// Fields that a (*sync.Once).Do of the owner initialises are read only behind that Once.
//
// For every Once field O of a struct T: W(O) is the set of fields of T assigned by the code run under O.Do (the closure
// and the methods of T it reaches). A read of a field of W(O) is behind the Once when it lies (a) in that code, (b) in a
// function after a call of <x>.O.Do, or of a gate method of T (a method in which O.Do precedes every return), on every
// path from the entry. Any other read can see the field while another goroutine is still inside Do: half-built, and
// without a happens-before edge.

type onceInfo struct {
	owner   *types.Named
	field   *types.Var            // the Once field
	written map[*types.Var]bool   // W(O)
	inside  map[*types.Func]bool  // functions that only run under Do
	gates   map[*types.Func]bool  // methods of T whose every return follows O.Do
	lits    map[*ast.FuncLit]bool // the closures given to Do
}

func isStdOnceDo(f *types.Func) bool {
	if f == nil || f.Name() != "Do" || f.Pkg() == nil || f.Pkg().Path() != "sync" {
		return false
	}
	sig := f.Type().(*types.Signature)
	return sig.Recv() != nil && namedType(sig.Recv().Type()) == "sync.Once"
}

func ownerOf(t types.Type) *types.Named {
	if p, ok := t.(*types.Pointer); ok {
		t = p.Elem()
	}
	n, _ := t.(*types.Named)
	return n
}

func (c *Ctx) onceInfos() []*onceInfo {
	byField := map[*types.Var]*onceInfo{}
	var order []*onceInfo
	type doSite struct {
		f    *Fn
		call *ast.CallExpr
		oi   *onceInfo
	}
	var sites []doSite
	for _, f := range c.libFns() {
		ast.Inspect(f.Decl.Body, func(n ast.Node) bool {
			call, ok := n.(*ast.CallExpr)
			if !ok || !isStdOnceDo(callee(f.Pkg, call)) || len(call.Args) != 1 {
				return true
			}
			sel, ok := ast.Unparen(call.Fun).(*ast.SelectorExpr)
			if !ok {
				return true
			}
			fv := fieldSel(f.Pkg, sel.X)
			osel, isSel := ast.Unparen(sel.X).(*ast.SelectorExpr)
			if fv == nil || !isSel {
				return true
			}
			owner := ownerOf(f.Pkg.TypesInfo.TypeOf(osel.X))
			if owner == nil {
				return true
			}
			oi := byField[fv]
			if oi == nil {
				oi = &onceInfo{owner: owner, field: fv, written: map[*types.Var]bool{}, inside: map[*types.Func]bool{}, gates: map[*types.Func]bool{}, lits: map[*ast.FuncLit]bool{}}
				byField[fv] = oi
				order = append(order, oi)
			}
			sites = append(sites, doSite{f, call, oi})
			return true
		})
	}
	ownerField := func(oi *onceInfo, fv *types.Var) bool {
		st, ok := oi.owner.Underlying().(*types.Struct)
		if !ok {
			return false
		}
		for i := 0; i < st.NumFields(); i++ {
			if st.Field(i) == fv {
				return true
			}
		}
		return false
	}
	for _, s := range sites {
		oi := s.oi
		// the code under Do: the closure body (or the named function) and the methods of the owner it reaches
		var roots []ast.Node
		var rootPkgFn []*Fn
		switch a := ast.Unparen(s.call.Args[0]).(type) {
		case *ast.FuncLit:
			oi.lits[a] = true
			roots, rootPkgFn = append(roots, a.Body), append(rootPkgFn, s.f)
		default:
			if id := identOf(a); id != nil {
				if fo, ok := s.f.Pkg.TypesInfo.Uses[id].(*types.Func); ok {
					if g := c.fnOf(fo); g != nil {
						oi.inside[fo] = true
						roots, rootPkgFn = append(roots, g.Decl.Body), append(rootPkgFn, g)
					}
				}
			}
		}
		seen := map[*types.Func]bool{}
		for i := 0; i < len(roots); i++ {
			body, in := roots[i], rootPkgFn[i]
			ast.Inspect(body, func(n ast.Node) bool {
				switch x := n.(type) {
				case *ast.AssignStmt:
					for _, l := range x.Lhs {
						if fv := fieldSel(in.Pkg, l); fv != nil && ownerField(oi, fv) {
							oi.written[fv] = true
						}
					}
				case *ast.IncDecStmt:
					if fv := fieldSel(in.Pkg, x.X); fv != nil && ownerField(oi, fv) {
						oi.written[fv] = true
					}
				case *ast.CallExpr:
					cal := callee(in.Pkg, x)
					if cal == nil || seen[cal] {
						return true
					}
					if sig := cal.Type().(*types.Signature); sig.Recv() != nil && ownerOf(sig.Recv().Type()) == oi.owner {
						if g := c.fnOf(cal); g != nil && len(roots) < 40 {
							seen[cal] = true
							roots, rootPkgFn = append(roots, g.Decl.Body), append(rootPkgFn, g)
						}
					}
				}
				return true
			})
		}
		// candidates for "only runs under Do": the reached methods all of whose call sites are under Do
		cand := map[*types.Func]bool{}
		for g := range seen {
			cand[g] = true
		}
		for changed := true; changed; {
			changed = false
			for g := range cand {
				gf := c.fnOf(g)
				callers, closed := c.callersOf(gf)
				okAll := closed && len(callers) > 0
				for _, cs := range callers {
					under := cand[cs.g.Obj] || oi.inside[cs.g.Obj]
					if !under {
						// inside one of the closures?
						for lit := range oi.lits {
							if lit.Pos() <= cs.call.Pos() && cs.call.End() <= lit.End() {
								under = true
							}
						}
					}
					if !under {
						okAll = false
					}
				}
				if !okAll {
					delete(cand, g)
					changed = true
				}
			}
		}
		for g := range cand {
			oi.inside[g] = true
		}
		// gate: the function containing the Do call, when the call precedes every return
		if sig := s.f.Obj.Type().(*types.Signature); sig.Recv() != nil && ownerOf(sig.Recv().Type()) == oi.owner {
			fc := c.cfgOf(s.f)
			gate := true
			ast.Inspect(s.f.Decl.Body, func(n ast.Node) bool {
				if _, isLit := n.(*ast.FuncLit); isLit {
					return false
				}
				if ret, ok := n.(*ast.ReturnStmt); ok && !fc.dominatedBy(ret, s.call) {
					gate = false
				}
				return true
			})
			if gate {
				oi.gates[s.f.Obj] = true
			}
		}
	}
	return order
}

func (c *Ctx) ruleOnceGuardedReads(rule string) {
	r := c.R
	r.Rule(rule, "for every sync.Once field O of a library struct: the fields of the same struct that the code under O.Do assigns (closure plus the owner's methods it reaches) are read only (a) in that code, or (b) after a call of O.Do or of a gate method (a method of the owner in which O.Do precedes every return) on the same object, on every path from the function entry: a read in front of the Once sees the field while another goroutine is still building it", 2)
	infos := c.onceInfos()
	if len(infos) == 0 {
		r.Undecided(rule, "sites", "no sync.Once field with a Do call found in the library", "")
		return
	}
	for _, oi := range infos {
		var ws []string
		for w := range oi.written {
			ws = append(ws, w.Name())
		}
		sort.Strings(ws)
		onceKey := fmt.Sprintf("%s.%s", oi.owner.Obj().Name(), oi.field.Name())
		n, bad := 0, 0
		for _, f := range c.libFns() {
			if oi.inside[f.Obj] {
				continue
			}
			var fc *funcCFG
			perFn := 0
			inspectWithStack(f.Decl.Body, func(nd ast.Node, stack []ast.Node) bool {
				sel, ok := nd.(*ast.SelectorExpr)
				if !ok {
					return true
				}
				fv, _ := f.Pkg.TypesInfo.Uses[sel.Sel].(*types.Var)
				if fv == nil || !oi.written[fv] {
					return true
				}
				// under the Do closure, or a store
				for i := len(stack) - 1; i >= 0; i-- {
					if lit, isLit := stack[i].(*ast.FuncLit); isLit && oi.lits[lit] {
						return true
					}
				}
				if len(stack) > 0 {
					if as, isAs := stack[len(stack)-1].(*ast.AssignStmt); isAs {
						for _, l := range as.Lhs {
							if l == ast.Expr(sel) {
								return true // a write outside the Once is the business of C16-MARSHAL-PURITY / C18-ONCE-STATE
							}
						}
					}
				}
				n++
				perFn++
				if fc == nil {
					fc = c.cfgOf(f)
				}
				recv := c.stableExpr(f, sel.X, nil)
				guarded := false
				ast.Inspect(f.Decl.Body, func(m ast.Node) bool {
					call, isCall := m.(*ast.CallExpr)
					if !isCall || guarded {
						return true
					}
					cal := callee(f.Pkg, call)
					csel, isSel := ast.Unparen(call.Fun).(*ast.SelectorExpr)
					if cal == nil || !isSel {
						return true
					}
					var on ast.Expr
					switch {
					case isStdOnceDo(cal):
						if fieldSel(f.Pkg, csel.X) == oi.field {
							if o2, ok := ast.Unparen(csel.X).(*ast.SelectorExpr); ok {
								on = o2.X
							}
						}
					case oi.gates[cal]:
						on = csel.X
					}
					if on != nil && c.stableExpr(f, on, nil) == recv && call.End() <= sel.Pos() && fc.dominatedBy(sel, call) {
						guarded = true
					}
					return true
				})
				if !guarded {
					// the object was handed over by a helper that passes the Once on it before returning it
					if dc, k := definingCall(f, sel.X); dc != nil {
						if g := c.fnOf(callee(f.Pkg, dc)); g != nil && c.returnsGated(g, k, oi) {
							guarded = true
						}
					}
				}
				key := fmt.Sprintf("%s | %s read of %s #%d", onceKey, f.Name(), fv.Name(), perFn)
				if guarded {
					r.OkTrivial(rule, key, "after the Once (Do or a gate method on the same object)", c.pos(sel.Pos()))
				} else {
					bad++
					r.Bad(rule, key, fmt.Sprintf("%s is assigned under %s.Do but read here without the Once having been passed on every path: while one goroutine is inside Do, another one serialising the same catalog reads the field half-built (and unsynchronised)", fv.Name(), onceKey), c.pos(sel.Pos()))
				}
				return true
			})
		}
		if bad == 0 {
			r.Ok(rule, onceKey, fmt.Sprintf("initialises {%v}; %d reads outside the once-only code, each behind the Once; %d functions run only under it", ws, n, len(oi.inside)), "")
		}
	}
}

// returnsGated: every return of g whose k-th result is not the nil literal returns a variable on which the Once (Do or
// a gate method) was passed on every path to that return.
func (c *Ctx) returnsGated(g *Fn, k int, oi *onceInfo) bool {
	fc := c.cfgOf(g)
	ok, n := true, 0
	ast.Inspect(g.Decl.Body, func(nd ast.Node) bool {
		if _, isLit := nd.(*ast.FuncLit); isLit {
			return false
		}
		ret, isRet := nd.(*ast.ReturnStmt)
		if !isRet || k >= len(ret.Results) {
			return true
		}
		res := ret.Results[k]
		if isNil(g.Pkg, res) {
			return true
		}
		n++
		want := c.stableExpr(g, res, nil)
		gated := false
		ast.Inspect(g.Decl.Body, func(m ast.Node) bool {
			call, isCall := m.(*ast.CallExpr)
			if !isCall || gated {
				return true
			}
			cal := callee(g.Pkg, call)
			csel, isSel := ast.Unparen(call.Fun).(*ast.SelectorExpr)
			if cal == nil || !isSel {
				return true
			}
			var on ast.Expr
			switch {
			case isStdOnceDo(cal):
				if fieldSel(g.Pkg, csel.X) == oi.field {
					if o2, ok := ast.Unparen(csel.X).(*ast.SelectorExpr); ok {
						on = o2.X
					}
				}
			case oi.gates[cal]:
				on = csel.X
			}
			if on != nil && c.stableExpr(g, on, nil) == want && call.End() <= ret.Pos() && fc.dominatedBy(ret, call) {
				gated = true
			}
			return true
		})
		if !gated {
			ok = false
		}
		return true
	})
	return ok && n > 0
}
